package main

import (
	"bytes"
	"encoding/hex"
	"encoding/json"
	"fmt"
	"os"
	"os/exec"
	"strconv"
	"strings"
	"sync"
	"sync/atomic"
	"time"

	"github.com/preslavrachev/gomjml/mjml"
)

// ===== child: executes one history against the real cache in a fresh process =================================

type cacheJob struct {
	Docs   []string `json:"docs"`
	Hashes []uint64 `json:"hashes"` // nil ⇒ real hash; else forced key per document
	Ops    []string `json:"ops"`
}

type cacheObs struct {
	Out      string `json:"out"`
	Parses   int64  `json:"parses"`
	Size     int    `json:"size"`
	Cleaner  bool   `json:"cleaner"`
	TTL      int64  `json:"ttl"`
	Interval int64  `json:"interval"`
	Spawned  int64  `json:"spawned"`
	Exited   int64  `json:"exited"`
	Swept    int64  `json:"swept"`
	Panic    string `json:"panic,omitempty"`
}

func cacheChild() {
	var job cacheJob
	if err := json.NewDecoder(os.Stdin).Decode(&job); err != nil {
		fmt.Fprintln(os.Stderr, "cachechild:", err)
		os.Exit(2)
	}
	for i, d := range job.Docs {
		if raw, err := hex.DecodeString(d); err == nil {
			job.Docs[i] = string(raw)
		}
	}
	var spawned, exited, swept atomic.Int64
	y := func(p string) {
		switch p {
		case "cl.spawn":
			spawned.Add(1)
		case "cl.exit":
			exited.Add(1)
		case "cl.swept":
			swept.Add(1)
		}
	}
	mjml.VerifYield.Store(&y)
	// expected = uncached results, computed before the parser is instrumented
	type exp struct {
		html string
		err  string
	}
	expd := make([]exp, len(job.Docs))
	// what a caller's own validation reporter hears for each document (uncached): every other compilation of a history
	// installs one, and a cached compilation must tell it the same
	expReports := make([]string, len(job.Docs))
	for i, d := range job.Docs {
		var reports []string
		h, err := mjml.Render(d, func(o *mjml.RenderOpts) {
			o.InvalidAttributeReporter = func(tag, attr string, line int) { reports = append(reports, fmt.Sprintf("%s/%s/%d", tag, attr, line)) }
		})
		e := ""
		if err != nil {
			e = err.Error()
		}
		expd[i] = exp{h, e}
		expReports[i] = strings.Join(reports, ";")
	}
	// … and the same with debug tags on (ops rcd / rud): options belong to the compilation, not to the cached tree
	expdDbg := make([]exp, len(job.Docs))
	for i, d := range job.Docs {
		h, err := mjml.Render(d, mjml.WithDebugTags(true))
		e := ""
		if err != nil {
			e = err.Error()
		}
		expdDbg[i] = exp{h, e}
	}
	var parses atomic.Int64
	orig := mjml.ParseMJML
	mjml.ParseMJML = func(s string) (*mjml.MJMLNode, error) {
		parses.Add(1)
		return orig(s)
	}
	if job.Hashes != nil {
		m := map[string]uint64{}
		for i, d := range job.Docs {
			m[d] = job.Hashes[i]
		}
		f := func(s string) uint64 { return m[s] }
		mjml.VerifHash.Store(&f)
	}
	enc := json.NewEncoder(os.Stdout)
	for opIndex, op := range job.Ops {
		var o cacheObs
		func() {
			defer func() {
				if p := recover(); p != nil {
					o.Panic = fmt.Sprint(p)
				}
			}()
			switch {
			case strings.HasPrefix(op, "rc"), strings.HasPrefix(op, "ru"):
				dbg := len(op) > 2 && op[2] == 'd'
				num := op[2:]
				if dbg {
					num = op[3:]
				}
				d, _ := strconv.Atoi(num)
				var h string
				var err error
				var ropts []mjml.RenderOption
				if op[1] == 'c' {
					ropts = append(ropts, mjml.WithCache())
				}
				expd := expd
				okBase := 0
				if dbg {
					ropts = append(ropts, mjml.WithDebugTags(true))
					expd = expdDbg
					okBase = 1000 // the Model's output names the options: rend a o = a + 1000·o
				}
				var reports []string
				withReporter := opIndex%2 == 1
				if withReporter {
					ropts = append(ropts, func(o *mjml.RenderOpts) {
						o.InvalidAttributeReporter = func(tag, attr string, line int) { reports = append(reports, fmt.Sprintf("%s/%s/%d", tag, attr, line)) }
					})
				}
				h, err = mjml.Render(job.Docs[d], ropts...)
				e := ""
				if err != nil {
					e = err.Error()
				}
				switch {
				case withReporter && strings.Join(reports, ";") != expReports[d]:
					o.Out = fmt.Sprintf("DIFF:the-caller's-reporter-heard-%q-uncached-%q", short(strings.Join(reports, ";"), 80), short(expReports[d], 80))
				case alphaIDs(h) == alphaIDs(expd[d].html) && e == expd[d].err && h != "":
					o.Out = fmt.Sprintf("ok%d", d+okBase)
				case h == "" && e == expd[d].err && e != "":
					o.Out = fmt.Sprintf("err%d", d)
				default:
					o.Out = "DIFF"
					for j := range job.Docs {
						if alphaIDs(h) == alphaIDs(expd[j].html) && h != "" {
							o.Out = fmt.Sprintf("DIFF:html-of-doc-%d", j)
						}
					}
				}
			case op == "t":
				if mjml.VerifCleanerArmed() {
					s0 := swept.Load()
					deadline := time.Now().Add(2 * time.Second)
					for swept.Load() < s0+2 && time.Now().Before(deadline) {
						time.Sleep(200 * time.Microsecond)
					}
				} else {
					time.Sleep(3 * time.Millisecond)
				}
				o.Out = "-"
			case op == "E":
				// timed scenario: an entry that is still valid when the sweeper runs survives the sweep and is reused before its
				// expiry.  Self-validating: when the wall clock did not leave the margins, the outcome is "inconclusive".
				ttl, iv := mjml.VerifCacheConfig()
				mjml.Render(job.Docs[0], mjml.WithCache())
				storeAt := time.Now()
				p0 := parses.Load()
				s0 := swept.Load()
				for limit := time.Now().Add(3 * iv); swept.Load() == s0 && time.Now().Before(limit); {
					time.Sleep(200 * time.Microsecond)
				}
				time.Sleep(iv / 2) // the next tick comes in about iv/2
				remaining := iv * 3 / 4
				mjml.VerifShiftExpiries(ttl - time.Since(storeAt) - remaining)
				deadline := time.Now().Add(remaining)
				s1 := swept.Load()
				for swept.Load() == s1 && time.Now().Before(deadline) {
					time.Sleep(200 * time.Microsecond)
				}
				switch {
				case swept.Load() == s1 || time.Now().After(deadline.Add(-iv/8)):
					o.Out = "inconclusive"
				default:
					mjml.Render(job.Docs[0], mjml.WithCache())
					switch {
					case time.Now().After(deadline.Add(-iv / 16)):
						o.Out = "inconclusive"
					case parses.Load() != p0:
						o.Out = "early-eviction"
					default:
						o.Out = "kept"
					}
				}
			case op[0] == 'V':
				// volume: n distinct templates cached at once (none of them in the document list)
				n, _ := strconv.Atoi(op[1:])
				for k := 0; k < n; k++ {
					mjml.Render(fmt.Sprintf(`<mjml><mj-body><mj-section><mj-column><mj-text>volume %d</mj-text></mj-column></mj-section></mj-body></mjml>`, k), mjml.WithCache())
				}
				o.Out = "-"
			case op == "s":
				mjml.StopASTCacheCleanup()
				deadline := time.Now().Add(time.Second)
				for exited.Load() < spawned.Load() && time.Now().Before(deadline) {
					time.Sleep(100 * time.Microsecond)
				}
				o.Out = "-"
			case op[0] == 'a':
				d, _ := strconv.ParseInt(op[1:], 10, 64)
				mjml.VerifShiftExpiries(time.Duration(d))
				o.Out = "-"
			case op[0] == 'T':
				d, _ := strconv.ParseInt(op[1:], 10, 64)
				mjml.SetASTCacheTTLOnce(time.Duration(d))
				o.Out = "-"
			case op[0] == 'I':
				d, _ := strconv.ParseInt(op[1:], 10, 64)
				mjml.SetASTCacheCleanupIntervalOnce(time.Duration(d))
				o.Out = "-"
			}
		}()
		if strings.HasPrefix(op, "rc") {
			// give a freshly started cleaner goroutine the time to announce itself
			deadline := time.Now().Add(500 * time.Millisecond)
			for mjml.VerifCleanerArmed() && spawned.Load() == exited.Load() && time.Now().Before(deadline) {
				time.Sleep(50 * time.Microsecond)
			}
		}
		o.Parses = parses.Load()
		o.Size = mjml.VerifCacheLen()
		o.Cleaner = mjml.VerifCleanerArmed()
		t, i := mjml.VerifCacheConfig()
		o.TTL, o.Interval = int64(t), int64(i)
		o.Spawned, o.Exited, o.Swept = spawned.Load(), exited.Load(), swept.Load()
		enc.Encode(o)
	}
}

// runCacheChild runs a history in a fresh process.  A child that does not finish within its time limit is run once more,
// ALONE (no other child of this harness beside it) and with four times the limit, before the history counts as hung: on a
// saturated machine sixteen children at a time can each be starved past a limit that a single one never comes near.
func runCacheChild(job cacheJob) ([]cacheObs, string) {
	cacheChildGate.RLock()
	obs, crash := runCacheChildOnce(job, 60*time.Second)
	cacheChildGate.RUnlock()
	if strings.Contains(crash, "timeout (hang)") {
		cacheChildGate.Lock()
		obs, crash = runCacheChildOnce(job, 240*time.Second)
		cacheChildGate.Unlock()
	}
	return obs, crash
}

var cacheChildGate sync.RWMutex

func runCacheChildOnce(job cacheJob, limit time.Duration) ([]cacheObs, string) {
	self, _ := os.Executable()
	cmd := exec.Command(self, "cachechild")
	// documents travel as hex: JSON would replace bytes that are not valid UTF-8
	hexJob := job
	hexJob.Docs = make([]string, len(job.Docs))
	for i, d := range job.Docs {
		hexJob.Docs[i] = hex.EncodeToString([]byte(d))
	}
	b, _ := json.Marshal(hexJob)
	cmd.Stdin = bytes.NewReader(b)
	var out, errb bytes.Buffer
	cmd.Stdout = &out
	cmd.Stderr = &errb
	done := make(chan error, 1)
	if err := cmd.Start(); err != nil {
		return nil, err.Error()
	}
	go func() { done <- cmd.Wait() }()
	var werr error
	select {
	case werr = <-done:
	case <-time.After(limit):
		cmd.Process.Kill()
		werr = fmt.Errorf("timeout (hang)")
	}
	var obs []cacheObs
	dec := json.NewDecoder(&out)
	for dec.More() {
		var o cacheObs
		if dec.Decode(&o) != nil {
			break
		}
		obs = append(obs, o)
	}
	crash := ""
	if werr != nil {
		crash = werr.Error() + ": " + short(errb.String(), 600)
	}
	return obs, crash
}

// ===== parent: histories, model predictions, comparison ======================================================

const (
	nsHour = int64(3600) * 1e9
	nsMs   = int64(1e6)
)

var cacheDocs = []string{
	`<mjml><mj-body><mj-section><mj-column><mj-text>Doc A</mj-text></mj-column></mj-section></mj-body></mjml>`,
	`<mjml><mj-body><mj-section><mj-column><mj-text>Doc B</mj-text></mj-column></mj-section></mj-body></mjml>`, // differs from A in one byte
	`<mjml><mj-body><mj-section><mj-column><mj-text>unclosed</mj-column></mj-section></mj-body></mjml>`,        // unparsable
	// validation error, HTML still returned; longer than every other document (a parse buffer reused between compilations is
	// overwritten over its whole length by this one)
	`<mjml><mj-body><mj-section><mj-column><mj-text bogus-attr="1">Doc V ` + strings.Repeat("lorem ipsum dolor sit amet ", 120) + `</mj-text></mj-column></mj-section></mj-body></mjml>`,
	// the same document as the previous one behind two blank lines: same HTML, but the validation error names another line
	"\n\n" + `<mjml><mj-body><mj-section><mj-column><mj-text bogus-attr="1">Doc V</mj-text></mj-column></mj-section></mj-body></mjml>`,
	// document A followed by trailing whitespace: differs from A only after the root element
	`<mjml><mj-body><mj-section><mj-column><mj-text>Doc A</mj-text></mj-column></mj-section></mj-body></mjml>` + "\n  ",
	// the same document with LF and with CRLF line ends, raw content spanning lines in head and body (raw content is copied
	// byte for byte, so the two compile to different HTML): documents that differ anywhere never share an entry
	"<mjml>\n<mj-head>\n<mj-raw>\n<meta name=\"a\"\n content=\"1\">\n</mj-raw>\n</mj-head>\n<mj-body>\n<mj-section>\n<mj-column>\n<mj-raw>\n<p>line one\nline two</p>\n</mj-raw>\n<mj-text>LE</mj-text>\n</mj-column>\n</mj-section>\n</mj-body>\n</mjml>\n",
	"<mjml>\r\n<mj-head>\r\n<mj-raw>\r\n<meta name=\"a\"\r\n content=\"1\">\r\n</mj-raw>\r\n</mj-head>\r\n<mj-body>\r\n<mj-section>\r\n<mj-column>\r\n<mj-raw>\r\n<p>line one\r\nline two</p>\r\n</mj-raw>\r\n<mj-text>LE</mj-text>\r\n</mj-column>\r\n</mj-section>\r\n</mj-body>\r\n</mjml>\r\n",
	// a document whose head the renderer READS while rendering (mj-class with the name not written last, mj-attributes
	// defaults, an inline style rule): a cached tree that a render has modified shows up as a different second result
	`<mjml><mj-head><mj-attributes><mj-class color="#ff0000" name="red" font-size="20px"/><mj-text padding="1px" bogus-default="x"/><mj-all font-family="Arial"/></mj-attributes><mj-style inline="inline">.k { color: blue; }</mj-style><mj-raw><meta name="raw-in-head" content="1"/></mj-raw></mj-head><mj-body><mj-section><mj-column><mj-text mj-class="red" css-class="k">Doc C</mj-text><mj-text>&nbsp;edges kept&#160;</mj-text><mj-text>&#xA0;</mj-text><mj-button href="u">&nbsp;b&nbsp;</mj-button><mj-text color="#00ff00" align="center" bogus="1">Doc C2 <span class="k" style="margin:0">s</span></mj-text><mj-table><tr class="k" style="height:9px"><td style="padding:1px" class="k" align="left">Tom &amp; Jerry, 1 &lt; 2 &#38; 3 &gt; 2</td></tr></mj-table><mj-button href="u"><b class="k" style="top:0">B &amp; b</b> &lt;i&gt;</mj-button><mj-raw><i style="left:0" class="k">r</i></mj-raw><mj-accordion border="1px solid #aaaaaa" font-family="Georgia" icon-position="left" icon-width="20px" icon-height="20px" icon-align="top" padding="3px"><mj-accordion-element><mj-accordion-title>Q &amp; A</mj-accordion-title><mj-accordion-text>1 &lt; 2</mj-accordion-text></mj-accordion-element></mj-accordion><mj-navbar base-url="https://b.example" ico-color="#123456"><mj-navbar-link href="/a?x=1&amp;y=2">N &amp; M</mj-navbar-link><mj-navbar-link href="rel">R</mj-navbar-link><mj-navbar-link href="#top" padding-top="3px">H</mj-navbar-link></mj-navbar><mj-social inner-padding="7px 3px" icon-size="30px" font-size="11px" color="#123456" border-radius="9px" icon-padding="2px" text-padding="1px 2px" line-height="20px" font-family="Georgia" text-decoration="underline" icon-height="28px"><mj-social-element name="facebook" href="h">S &amp; T</mj-social-element><mj-social-element name="github-noshare" href="g"/><mj-social-element name="x" href="x" padding="1px" color="#654321">own</mj-social-element></mj-social></mj-column><mj-raw><p>raw between columns</p></mj-raw></mj-section></mj-body></mjml>`,
	// documents that differ only in bytes that are not valid UTF-8 (a comment inside mj-raw, copied byte for byte; a file saved
	// in Latin-1), and the same with the replacement character written out: a key computed over decoded characters instead
	// of bytes folds them together
	"<mjml><mj-body><mj-section><mj-column><mj-raw><!-- caf\xe9 --></mj-raw><mj-text>L1</mj-text></mj-column></mj-section></mj-body></mjml>",
	"<mjml><mj-body><mj-section><mj-column><mj-raw><!-- caf\xe8 --></mj-raw><mj-text>L1</mj-text></mj-column></mj-section></mj-body></mjml>",
	"<mjml><mj-body><mj-section><mj-column><mj-raw><!-- caf\uFFFD --></mj-raw><mj-text>L1</mj-text></mj-column></mj-section></mj-body></mjml>",
	// white space that is content: nothing but a blank or a line break between two inline elements inside the components that
	// re-serialise their content (button, navbar link, social element, accordion title / text) — a cached tree with the
	// "insignificant" white space removed renders differently
	"<mjml><mj-body><mj-section><mj-column><mj-button href=\"u\"><b>Buy</b> <i>now</i></mj-button><mj-navbar><mj-navbar-link href=\"/a\"><span>A</span>\n<span>B</span></mj-navbar-link></mj-navbar>" +
		"<mj-social><mj-social-element name=\"facebook\" href=\"h\"><b>x</b> <b>y</b></mj-social-element></mj-social><mj-accordion><mj-accordion-element><mj-accordion-title><i>T</i> <i>U</i></mj-accordion-title>" +
		"<mj-accordion-text><span>one</span>\n  <span>two</span></mj-accordion-text></mj-accordion-element></mj-accordion></mj-column></mj-section></mj-body></mjml>",
	// invalid attributes on HEAD elements (validation happens while the components are built: a cached tree whose head components
	// are kept skips it from the second compilation on)
	"<mjml><mj-head><mj-font name=\"F\" href=\"https://f.example/f.css\" weight=\"700\"/><mj-style media=\"screen\">.a{color:red}</mj-style><mj-title lang=\"en\">T</mj-title></mj-head>" +
		"<mj-body><mj-section><mj-column><mj-text font-family=\"F\">head-invalid</mj-text></mj-column></mj-section></mj-body></mjml>",
	// two long documents (about 60 KiB) of equal length that differ in one character in the middle: a key computed from the
	// length and the ends folds them together
	longDoc("order 1001"), longDoc("order 1002"),
}

func longDoc(mid string) string {
	para := "<mj-text>" + strings.Repeat("lorem ipsum dolor sit amet consectetur ", 24) + "</mj-text>"
	return "<mjml><mj-body><mj-section><mj-column>" + strings.Repeat(para, 30) + "<mj-text>" + mid + "</mj-text>" + strings.Repeat(para, 30) + "</mj-column></mj-section></mj-body></mjml>"
}

const cacheOkBits = "1101111111111111"

// headReadingDoc: index of the document whose head the renderer reads while rendering
const headReadingDoc = 8

type predicted struct {
	out                     string
	parses, size            int64
	cleaner                 bool
	ttl, interval, tickerAr int64
	spawned, cancelled      int64
}

func parsePred(line string) ([]predicted, error) {
	var out []predicted
	for _, seg := range strings.Split(line, ";") {
		f := strings.Fields(seg)
		if len(f) != 9 {
			return nil, fmt.Errorf("driver said %q", short(line, 200))
		}
		num := func(s string) int64 { v, _ := strconv.ParseInt(s, 10, 64); return v }
		out = append(out, predicted{out: f[0], parses: num(f[1][1:]), size: num(f[2][1:]), cleaner: f[3] == "c1", ttl: num(f[4][1:]),
			interval: num(f[5][1:]), tickerAr: num(f[6][1:]), spawned: num(f[7][2:]), cancelled: num(f[8][2:])})
	}
	return out, nil
}

type cacheHist struct {
	prefix []string // configuration ops
	ops    []string
	fast   bool     // fast-sweep family: sizes compared only right after a tick
	hashes []uint64 // forced keys (collision histories)
}

func (h cacheHist) all() []string { return append(append([]string{}, h.prefix...), h.ops...) }

// compareCache runs one history on the model and on the implementation.
func compareCache(drv *DriverPool, h cacheHist, res *Result, prop string, checkC14 bool) {
	ops := h.all()
	hs := "0,1,2,3,4,5,6,7,8,9,10,11,12,13,14,15"
	if h.hashes != nil {
		var p []string
		for _, x := range h.hashes {
			p = append(p, fmt.Sprint(x))
		}
		hs = strings.Join(p, ",")
	}
	// real time always moves on between a store and the next lookup or sweep: the Model sees every advance as δ+1 ns,
	// so "exactly at expiry" on the implementation side is "just after expiry" (the strictness of the two comparisons is
	// tied by the regenerated fact table C14_time_comparisons instead — a wall clock cannot be stopped at equality)
	mops := make([]string, len(ops))
	for i, o := range ops {
		mops[i] = o
		if o[0] == 'a' {
			v, _ := strconv.ParseInt(o[1:], 10, 64)
			mops[i] = fmt.Sprintf("a%d", v+1)
		}
	}
	line, err := drv.Ask(fmt.Sprintf("cache %s %s %d %s", cacheOkBits, hs, 5*60*int64(1e9), strings.Join(mops, " ")))
	if err != nil {
		res.Disagree(Violation{Sig: "driver-failed", Kind: "history", What: err.Error()})
		return
	}
	pred, err := parsePred(line)
	if err != nil || len(pred) != len(ops) {
		res.Disagree(Violation{Sig: "driver-bad-output", Kind: "history", What: fmt.Sprint(err, " ", short(line, 200)), Input: map[string]interface{}{"ops": ops}})
		return
	}
	obs, crash := runCacheChild(cacheJob{Docs: cacheDocs, Hashes: h.hashes, Ops: ops})
	key := strings.Join(ops, " ") + "|" + hs
	nontrivial := false
	for _, o := range h.ops {
		if strings.HasPrefix(o, "rc") {
			nontrivial = true
		}
	}
	res.Case(key, nontrivial)
	res.mu.Lock()
	res.Programs++
	res.DisagreementsChecked += len(ops)
	res.mu.Unlock()
	in := map[string]interface{}{"ops": ops, "hashes": h.hashes, "docs": "cacheDocs (A, B, unparsable, invalid-attribute, same behind two blank lines, A + trailing whitespace, raw content over several lines with LF / with CRLF line ends, head-reading document, three documents differing only in bytes that are not valid UTF-8 / the replacement character, inline content with white space only between inline elements, invalid attributes on head elements)"}
	if crash != "" || len(obs) != len(ops) {
		// a crash is an implementation failure: no configuration or history may take the process down (C14/C13)
		res.Violate(Violation{Sig: "process-crash|" + canonHist(h), Kind: "history", What: "cache history crashed or hung the process: " + crash, Input: in})
		return
	}
	for i, op := range ops {
		o, p := obs[i], pred[i]
		if o.Panic != "" {
			res.Violate(Violation{Sig: "panic|" + canonHist(h), Kind: "history", What: "panic: " + o.Panic, Input: in})
			return
		}
		isRender := strings.HasPrefix(op, "r")
		// ---- Spec (C13): every compilation returns what the uncached compilation returns ----
		if isRender && (strings.HasPrefix(o.Out, "DIFF")) {
			d := op[2:]
			sig := "render-differs-from-uncached|" + canonHist(h)
			if h.hashes != nil {
				sig = "hash-collision|shared-entry"
			}
			res.Violate(Violation{Sig: sig, Kind: "history", What: fmt.Sprintf("op %d (%s): cached compilation of doc %s returned %s", i, op, d, o.Out), Input: in})
			return
		}
		// ---- Spec (C14): the first call of each setter takes effect, and lastingly; without an interval call the interval is
		// half the effective TTL ----
		{
			expTTL, expInt, haveI := int64(5*60*int64(1e9)), int64(0), false
			seenT := false
			for _, q := range ops[:i+1] {
				if q[0] == 'T' && !seenT {
					expTTL, _ = strconv.ParseInt(q[1:], 10, 64)
					seenT = true
				}
				if q[0] == 'I' && !haveI {
					expInt, _ = strconv.ParseInt(q[1:], 10, 64)
					haveI = true
				}
			}
			if !haveI {
				expInt = expTTL / 2
			}
			if o.TTL != expTTL || o.Interval != expInt {
				res.Violate(Violation{Sig: "setter-first-call-not-effective|" + canonHist(h), Kind: "history",
					What:  fmt.Sprintf("op %d (%s): configuration reads TTL %d / interval %d; the first setter calls so far give TTL %d / interval %d", i, op, o.TTL, o.Interval, expTTL, expInt),
					Input: in})
				return
			}
		}
		// ---- correspondence with the Model ----
		mism := ""
		switch {
		case isRender && o.Out != p.out:
			mism = fmt.Sprintf("outcome %s, model %s", o.Out, p.out)
		case o.Parses != p.parses:
			mism = fmt.Sprintf("parser calls %d, model %d", o.Parses, p.parses)
		case o.Cleaner != p.cleaner:
			mism = fmt.Sprintf("cleaner registered %v, model %v", o.Cleaner, p.cleaner)
		case o.TTL != p.ttl || o.Interval != p.interval:
			mism = fmt.Sprintf("config ttl=%d interval=%d, model ttl=%d interval=%d", o.TTL, o.Interval, p.ttl, p.interval)
		case o.Spawned != p.spawned:
			mism = fmt.Sprintf("cleanup goroutines started %d, model %d", o.Spawned, p.spawned)
		case op == "s" && o.Exited != p.cancelled:
			mism = fmt.Sprintf("cleanup goroutines exited %d after stop, model cancelled %d", o.Exited, p.cancelled)
		case (!h.fast || (op == "t" && p.cleaner)) && int64(o.Size) != p.size:
			mism = fmt.Sprintf("cache size %d, model %d", o.Size, p.size)
		}
		if mism != "" {
			// translate the disagreement into the property's own terms where it is one
			v := Violation{Sig: "model-mismatch|" + canonHist(h), Kind: "history", What: fmt.Sprintf("op %d (%s): %s", i, op, mism), Input: in,
				Extra: map[string]interface{}{"observed": o, "model": fmt.Sprintf("%+v", p)}}
			if spec := cacheSpecViolation(prop, ops, i, o, p, h); spec != "" {
				v.Sig = spec + "|" + canonHist(h)
				v.What = spec + ": " + v.What
				res.Violate(v)
			} else {
				res.Disagree(v)
			}
			return
		}
	}
}

// cacheSpecViolation decides whether a model mismatch is itself a violation of the property statement
// (as opposed to a harmless difference in bookkeeping).
func cacheSpecViolation(prop string, ops []string, i int, o cacheObs, p predicted, h cacheHist) string {
	op := ops[i]
	switch {
	case strings.HasPrefix(op, "rc") && o.Parses > p.parses:
		return "reparsed-before-expiry" // C14: reused for compilations that start before its expiry
	case strings.HasPrefix(op, "rc") && o.Parses < p.parses:
		return "reused-at-or-after-expiry" // C14: never at or after it
	case strings.HasPrefix(op, "rc") && int64(o.Size) > p.size && strings.HasPrefix(p.out, "err"):
		return "failed-parse-cached" // C13
	case strings.HasPrefix(op, "rc") && int64(o.Size) < p.size && o.Parses == p.parses-1:
		return "different-documents-share-an-entry" // C13
	case strings.HasPrefix(op, "rc") && int64(o.Size) < p.size:
		return "different-documents-share-an-entry" // C13
	case op == "t" && int64(o.Size) > p.size:
		return "expired-entry-survives-sweep" // C14
	case (op[0] == 'T' || op[0] == 'I') && (o.TTL != p.ttl || o.Interval != p.interval):
		return "setter-semantics" // C14: first call only
	case o.Spawned-o.Exited > 1:
		return "two-live-cleaners" // C15
	case op == "s" && o.Exited != p.cancelled:
		return "stop-does-not-terminate-cleaner" // C15
	case strings.HasPrefix(op, "rc") && o.Spawned != p.spawned:
		return "cleaner-start-count" // C15
	}
	return ""
}

func canonHist(h cacheHist) string {
	s := strings.Join(h.all(), ",")
	if len(s) > 80 {
		s = s[:80]
	}
	return s
}

func cacheHistories(tier string, seed int64, withConfigs bool) []cacheHist {
	var hs []cacheHist
	half, full := fmt.Sprintf("a%d", 150*int64(1e9)), fmt.Sprintf("a%d", 300*int64(1e9))
	alpha := []string{"rc0", "rc1", "rc2", "rc3", "rc4", "rc5", "ru0", half, full, "s"} // rc8 (the head-reading document) and rc6 / rc7 (the LF / CRLF pair) join the random and targeted histories only
	maxLen := 4
	if tier == "thorough" {
		maxLen = 5
	}
	var rec func(cur []string)
	rec = func(cur []string) {
		if len(cur) > 0 {
			hs = append(hs, cacheHist{ops: append([]string{}, cur...)})
		}
		if len(cur) == maxLen {
			return
		}
		for _, a := range alpha {
			rec(append(cur, a))
		}
	}
	rec(nil)
	// fast-sweep family: 1 ms interval, 1 h TTL, a tick after every step
	fastPrefix := []string{fmt.Sprintf("I%d", nsMs), fmt.Sprintf("T%d", nsHour)}
	fhalf, ffull := fmt.Sprintf("a%d", nsHour/2), fmt.Sprintf("a%d", nsHour)
	falpha := []string{"rc0", "rc1", "rc2", fhalf, ffull, "s"}
	fl := 3
	var frec func(cur []string)
	frec = func(cur []string) {
		if len(cur) > 0 {
			var ops []string
			for _, o := range cur {
				ops = append(ops, o)
				if o != "s" {
					ops = append(ops, "t")
				}
			}
			hs = append(hs, cacheHist{prefix: fastPrefix, ops: ops, fast: true})
		}
		if len(cur) == fl {
			return
		}
		for _, a := range falpha {
			frec(append(cur, a))
		}
	}
	frec(nil)
	hs = append(hs, lifecycleHistories()...)
	// options belong to the compilation, not to the cached tree: debug tags on / off over one entry, in every order, across
	// expiry and stop / restart
	for _, d := range []string{"0", "3", "8"} {
		c, cd, u, ud := "rc"+d, "rcd"+d, "ru"+d, "rud"+d
		for _, ops := range [][]string{
			{cd, c, cd, c}, {c, cd, c}, {cd, u, c, ud, cd}, {cd, full, c, cd}, {c, full, cd, c}, {cd, "s", c, cd, "s", c}, {ud, cd, c}, {cd, cd, c, c, ud, u},
		} {
			hs = append(hs, cacheHist{ops: ops})
		}
	}
	// random longer histories
	n := 500
	if tier == "thorough" {
		n = 6000
	}
	for i := 0; i < n; i++ {
		r := NewRng(seed, fmt.Sprintf("cachehist/%d", i))
		L := 5 + r.Intn(20)
		if tier == "thorough" {
			L = 5 + r.Intn(120)
		}
		fast := r.Bool(1, 3)
		h := cacheHist{fast: fast}
		if fast {
			h.prefix = fastPrefix
		}
		lateT := -1 // a third of the slow histories make their one effective setter call somewhere in the middle
		if !fast && r.Bool(1, 3) {
			lateT = r.Intn(L)
		}
		lateTTL := []int64{90 * int64(1e9), 12 * 60 * int64(1e9), nsHour}[r.Intn(3)]
		for j := 0; j < L; j++ {
			var o string
			if j == lateT {
				h.ops = append(h.ops, fmt.Sprintf("T%d", lateTTL))
			}
			if lateT >= 0 && j > lateT && r.Bool(1, 4) {
				h.ops = append(h.ops, fmt.Sprintf("a%d", []int64{lateTTL / 2, lateTTL - 20*int64(1e9), lateTTL + 20*int64(1e9), 2 * lateTTL}[r.Intn(4)]))
			}
			if fast {
				o = r.Pick(append(falpha, "rc0", "rc1", "rc3"))
			} else {
				o = r.Pick(append(alpha, "rc0", "rc1", "rc0", "rc8", "rc8", "ru8", "rcd0", "rcd8", "rud0", "rcd1", "rc6", "rc7", "rc7", "ru6", "rc9", "rc10", "rc11", "rc12", "rc12", "rc13", "rc13", "rc14", "rc15"))
			}
			h.ops = append(h.ops, o)
			if fast && o != "s" {
				h.ops = append(h.ops, "t")
			}
		}
		hs = append(hs, h)
	}
	if withConfigs {
		// configuration matrix: every TTL × interval boundary value × setter order, followed by a short history
		durs := []int64{-9223372036854775808, -1, 0, 1, 2, 3, nsMs, 5 * 60 * int64(1e9), 9223372036854775807}
		for _, t := range durs {
			for _, iv := range append([]int64{-7, 150 * int64(1e9)}, durs...) { // -7 = "interval not set"; 2m30s = half the default TTL
				for order := 0; order < 2; order++ {
					var pre []string
					T, I := fmt.Sprintf("T%d", t), fmt.Sprintf("I%d", iv)
					switch {
					case iv == -7:
						if order == 1 {
							continue
						}
						pre = []string{T, "T12345"}
					case order == 0:
						pre = []string{T, I, "I777", "T888"}
					default:
						pre = []string{I, T, "T888", "I777"}
					}
					// huge or ≥1h TTLs allow hit/miss prediction; tiny positive TTLs race the wall clock, so only outcomes are compared
					hs = append(hs, cacheHist{prefix: pre, ops: cfgOps(t), fast: iv > 0 && iv <= nsMs})
				}
			}
		}
	}
	return hs
}

// lifecycleHistories: the cleanup goroutine's life — configuration calls made late (while a cleaner is running, after a stop,
// between cached compilations), repeated stops, stop / restart cycles
func lifecycleHistories() []cacheHist {
	var hs []cacheHist
	I, T := fmt.Sprintf("I%d", nsMs), fmt.Sprintf("T%d", nsHour)
	for _, ops := range [][]string{
		{"rc0", I, "rc1", "s", "rc0"},
		{"rc0", "s", I, "rc0", "rc1", "s"},
		{"rc0", T, "rc0", I, "rc1", "s", "rc0", "s"},
		{"rc0", "rc1", "I5000000", "I7000000", "rc0", "s"},
		{"rc0", I, T, "rc0", "s", "rc1", "rc0"},
		{"rc0", T, I, "s", "s", "rc0"},
		{"ru0", I, "rc0", "rc0", "s"},
		{"s", "rc0", "s", "s", "rc1", "rc0", "s", "rc0", "s"},
		{"rc0", "rc0", "s", "rc0", "rc0", "s", "rc1", "s"},
		{"rc2", "s", "rc2", "rc3", "s", "rc0"},
	} {
		hs = append(hs, cacheHist{ops: ops})
	}
	// the first setter calls made after a stop: the cleaner that the next cached compilation starts sweeps at the configured
	// interval (a tick is awaited: expired entries must be gone), also when only one of the two is configured
	{
		ahour := fmt.Sprintf("a%d", nsHour)
		for _, ops := range [][]string{
			{"rc0", "s", I, T, "rc1", "t", ahour, "t", "rc1", "t"},
			{"rc0", "rc1", "s", I, "rc0", "t", "a300000000000", "t", "rc0"},
			{"ru0", "rc0", "s", "s", I, T, "rc0", "rc1", "t", ahour, "t", "s", "rc1", "t", ahour, "t"},
			// only the TTL configured (the interval is then derived from it), after a cleaner has already run with the defaults —
			// set after the stop, and set while it runs and the cleaner restarted afterwards: the restarted cleaner sweeps at the
			// derived interval
			// (entries stored before the TTL call keep the default expiry, so nothing expires in real time; they are made to
			// expire by shifting, and the restarted cleaner — 100 ms derived interval — must remove them within two ticks)
			{"rc0", "rc1", "s", "T200000000", "rc0", "a300000000000", "t"},
			{"rc0", "rc1", "T200000000", "s", "rc0", "a300000000000", "t"},
			{"rc0", "s", "rc1", "s", "T200000000", "rc1", "rc0", "a300000000000", "t"},
		} {
			hs = append(hs, cacheHist{ops: ops, fast: true})
		}
	}
	// the first setter call made late — after cached compilations, while a cleaner is running: entries stored from then on
	// live for the configured time (shorter and longer than the default), entries stored before keep their expiry
	min1, min2, min4, min6, min30, min45, min90 := "a60000000000", "a120000000000", "a240000000000", "a360000000000", "a1800000000000", "a2700000000000", "a5400000000000"
	Tmin, T2h := fmt.Sprintf("T%d", 90*int64(1e9)), fmt.Sprintf("T%d", 2*nsHour)
	for _, ops := range [][]string{
		{"rc0", T, "rc1", min30, "rc1", "rc0", min45, "rc1", "rc0"},
		{"rc0", Tmin, "rc1", min2, "rc1", "rc0"},
		{"rc0", Tmin, "rc1", min1, "rc1", "rc0", min1, "rc1", "rc0"},
		{"rc0", "rc1", T2h, "rc3", "rc4", min6, "rc0", "rc1", "rc3", "rc4", min90, "rc0", "rc3", min30, "rc0", "rc3", "rc4"},
		{"ru0", "rc0", Tmin, min4, "rc0", "rc1", min2, "rc0", "rc1"},
		{"rc0", "s", Tmin, "rc1", min2, "rc1", "rc0"},
		{"rc0", "s", "rc1", T, "rc0", "rc3", min6, "rc0", "rc1", "rc3", "s", "rc4", min30, "rc4", "rc3"},
		{"rc0", T, "T1", "rc1", min30, "rc1", "rc0"},
		{"rc0", "rc0", Tmin, "rc0", min2, "rc0", min1, "rc0", min1, "rc0"},
	} {
		hs = append(hs, cacheHist{ops: ops})
	}
	return hs
}

func cfgOps(ttl int64) []string {
	if ttl > 0 && ttl < nsHour {
		return []string{"ru0"} // only "does not crash, result right" is predictable; see runCfgSmoke
	}
	return []string{"rc0", "rc0", "rc1", "s", "rc0"}
}

func runCacheProp(prop string) runFn {
	return func(res *Result, tier string, seed int64, replay string) {
		res.Rule = "histories over {cached render of A / A' (one byte differs) / unparsable / invalid-attribute doc / the same behind blank lines / A with trailing whitespace / a document with mj-class, mj-attributes, inline style and an invalid attribute after valid ones / documents that differ only in bytes that are not valid UTF-8 (in a comment inside mj-raw) or have the replacement character there, uncached render, advance TTL/2, advance TTL, stop}; compilations with debug tags on and off over one cached tree (in every order, across expiry and stop / restart); exhaustive to length 4 (quick) or 5 (thorough); fast-sweep family (1 ms interval, tick after every step) exhaustive to length 3; seeded random histories up to length 25 (quick) / 125 (thorough); configuration calls made late (while a cleaner runs; after a stop, with a tick of the restarted cleaner awaited); C14 adds the TTL×interval boundary matrix in both setter orders, a timed survive-the-sweep scenario and a volume scenario (5 000 and 20 000 templates expiring together must be gone two sweeps later). C13 also replays model-guided schedules of concurrent cached compilations against the concurrent cache Model (driver `cc`: goroutines parked at the yield points of parseAST and singleflightDo, evictions and the passing of time interleaved; position after every step, result and cache contents compared). Each history runs in a FRESH process (hx cachechild) and on the Lean Model (driver `cache`); per op: outcome vs uncached compilation, parser calls, cache size, cleaner registered, effective config, cleanup goroutines started/exited. Non-trivial = history with at least one cached compilation; distinct by op list"
		drv, err := startDriverPool(8)
		if err != nil {
			res.Disagree(Violation{Sig: "driver-missing", Kind: "history", What: err.Error()})
			return
		}
		defer drv.Close()
		var hs []cacheHist
		if replay != "" {
			in := replayRaw(replay)
			h := cacheHist{}
			if ops, ok := in["ops"].([]interface{}); ok {
				for _, o := range ops {
					h.ops = append(h.ops, fmt.Sprint(o))
				}
			}
			if hv, ok := in["hashes"].([]interface{}); ok && len(hv) > 0 {
				for _, x := range hv {
					f, _ := x.(float64)
					h.hashes = append(h.hashes, uint64(f))
				}
			}
			for _, o := range h.ops {
				if o == "t" {
					h.fast = true
				}
			}
			hs = []cacheHist{h}
		} else {
			hs = cacheHistories(tier, seed, prop == "C14")
			// the head-reading document: cached again and again, next to uncached compilations of itself and of others
			for _, ops := range [][]string{{"rc8", "rc8"}, {"rc8", "rc8", "rc8"}, {"ru8", "rc8", "rc8", "ru8"}, {"rc8", "rc0", "rc8", "rc3", "rc8"}, {"rc8", "s", "rc8", "rc8"},
				{"rc6", "rc7", "rc6", "rc7"}, {"rc7", "rc6"}, {"rc6", "ru7", "rc7", "rc6"}, {"rc7", "s", "rc6", "rc7"},
				{"rc9", "rc10", "rc9", "rc10"}, {"rc10", "rc9", "rc11", "rc10"}, {"rc11", "rc9", "ru10", "rc10", "rc11"}, {"rc9", "s", "rc10", "rc11", "rc9"},
				{"rc12", "rc12", "ru12", "rc12"}, {"ru12", "rc12", "s", "rc12"}, {"rcd12", "rc12", "rcd12"},
				{"rc13", "rc13", "rc13", "ru13"}, {"ru13", "rc13", "rc13", "s", "rc13"}, {"rcd13", "rc13", "rc13"},
				{"rc14", "rc15", "rc14", "rc15"}, {"rc15", "rc14"}, {"ru14", "rc14", "rc15", "s", "rc15", "rc14"}} {
				hs = append(hs, cacheHist{ops: ops})
			}
			// forced hash collisions: the recorded finding C13-F1, and near misses that must not collide
			if prop == "C13" {
				hs = append(hs, cacheHist{ops: []string{"rc0", "rc1"}, hashes: []uint64{7, 7, 8, 9, 10, 11, 12, 13, 14, 15, 16, 17, 18, 19, 20, 21, 22}})
				hs = append(hs, cacheHist{ops: []string{"rc0", "rc1", "rc0"}, hashes: []uint64{7, 8, 9, 10, 11, 12, 13, 14, 15, 16, 17, 18, 19, 20, 21, 22}})
			}
		}
		res.Exhaustive = false
		var smp sync.Once
		parallel(16, len(hs), func(i int) {
			compareCache(drv, hs[i], res, prop, prop == "C14")
			if i%500 == 7 {
				res.Sample(map[string]interface{}{"history": hs[i].all()})
			}
			smp.Do(func() { res.Sample(map[string]interface{}{"history": hs[i].all()}) })
			res.Count(fmt.Sprintf("len%02d", min(len(hs[i].all()), 30)/5*5))
		})
		if prop == "C13" && replay == "" {
			// concurrent compilations against the concurrent cache Model, schedule by schedule (see cc.go)
			n := 150
			if tier == "thorough" {
				n = 3000
			}
			ccReplays(res, seed, n, "C13")
		}
		if prop == "C14" && replay == "" {
			runCfgSmoke(res)
			runSweepTiming(res)
			runSweepVolume(res)
		}
	}
}

// runCfgSmoke: tiny positive TTLs (1 ns … 1 ms) race the wall clock, so hit/miss is not predictable; what must hold is
// that nothing crashes, every result equals the uncached one, and the effective configuration is the first-set one.
func runCfgSmoke(res *Result) {
	for _, ttl := range []int64{1, 2, 3, 1000, nsMs} {
		ops := []string{fmt.Sprintf("T%d", ttl), "rc0", "rc0", "rc1", "rc2", "rc0", "s", "rc0"}
		obs, crash := runCacheChild(cacheJob{Docs: cacheDocs, Ops: ops})
		res.Case("smoke|"+strings.Join(ops, " "), true)
		in := map[string]interface{}{"ops": ops}
		if crash != "" || len(obs) != len(ops) {
			res.Violate(Violation{Sig: fmt.Sprintf("process-crash|ttl=%d", ttl), Kind: "config", What: "tiny TTL crashed the process: " + crash, Input: in})
			continue
		}
		for i, o := range obs {
			if strings.HasPrefix(ops[i], "rc") && (strings.HasPrefix(o.Out, "DIFF") || o.Panic != "") {
				res.Violate(Violation{Sig: fmt.Sprintf("tiny-ttl-wrong-result|ttl=%d", ttl), Kind: "config", What: fmt.Sprintf("op %d %s → %s %s", i, ops[i], o.Out, o.Panic), Input: in})
			}
			if o.TTL != ttl {
				res.Violate(Violation{Sig: fmt.Sprintf("setter-semantics|ttl=%d", ttl), Kind: "config", What: fmt.Sprintf("TTL reads %d after SetASTCacheTTLOnce(%d)", o.TTL, ttl), Input: in})
			}
		}
	}
}

// runSweepTiming: the sweep must not remove an entry that has not expired yet (interval 400 ms, an entry with 300 ms left when
// the tick is 200 ms away).  Timed against the real ticker; an attempt that ran late reports nothing.
func runSweepTiming(res *Result) {
	for attempt := 0; attempt < 3; attempt++ {
		ops := []string{fmt.Sprintf("I%d", 400*nsMs), fmt.Sprintf("T%d", nsHour), "E"}
		obs, crash := runCacheChild(cacheJob{Docs: cacheDocs, Ops: ops})
		res.Case(fmt.Sprintf("sweep-timing|%d", attempt), true)
		if crash != "" || len(obs) != len(ops) {
			res.Count("sweep-timing=crash")
			continue
		}
		out := obs[len(obs)-1].Out
		res.Count("sweep-timing=" + out)
		if out == "early-eviction" {
			res.Violate(Violation{Sig: "sweep-removes-unexpired-entry", Kind: "history", What: "a cleanup tick removed an entry 100 ms before its expiry: the template was parsed again although the compilation started before the expiry", Input: map[string]interface{}{"ops": ops}})
			return
		}
		if out == "kept" {
			return
		}
	}
}

// runSweepVolume: "removed within a bounded number of cleanup intervals" whatever their number — thousands of templates expire
// together; two sweeps later none of them may be left.
func runSweepVolume(res *Result) {
	for _, n := range []int{5000, 20000} {
		ops := []string{fmt.Sprintf("I%d", 20*nsMs), fmt.Sprintf("T%d", nsHour), fmt.Sprintf("V%d", n), fmt.Sprintf("a%d", nsHour+1), "t"}
		obs, crash := runCacheChild(cacheJob{Docs: cacheDocs, Ops: ops})
		res.Case(fmt.Sprintf("sweep-volume|%d", n), true)
		in := map[string]interface{}{"ops": ops}
		if crash != "" || len(obs) != len(ops) {
			res.Violate(Violation{Sig: "process-crash|volume", Kind: "history", What: "volume history crashed: " + crash, Input: in})
			continue
		}
		stored, left := obs[2].Size, obs[len(obs)-1].Size
		res.Count(fmt.Sprintf("sweep-volume=%d-stored", stored))
		if stored < n {
			res.Note("volume: only %d of %d templates were stored", stored, n)
		}
		if left != 0 && obs[len(obs)-1].Swept >= obs[len(obs)-2].Swept+2 {
			res.Violate(Violation{Sig: "expired-entries-survive-sweeps|volume", Kind: "history", What: fmt.Sprintf("%d templates expired together; after two further cleanup passes %d of them are still in the cache", stored, left), Input: in})
		}
	}
}

func init() {
	register("C13", runCacheProp("C13"))
	register("C14", runCacheProp("C14"))
}
