/-! Width flow (C10).

`impl` is the Model of what the Go code computes (integer pixels, the code's own rounding and fall-backs):
  body → wrapper (`getEffectiveWidth`) → section (`getInnerContentWidth`) → column (`GetWidthAsPixel`,
  `calculateEffectiveContentWidth`) / group (`MJGroupComponent.Render`) → image (`calculateDefaultWidth`) / divider;
  mj-hero hands its children its width minus horizontal padding.
`spec` is MJML's box model in exact rationals.  The laws the property asks for are proved about the Model for every document;
the Model is tied to the code by the correspondence run (harness `hx C10`: scraped widths == Model, exactly). -/
namespace Gomjml.Widths

/-- horizontal padding and border of a box -/
structure Edges where
  padL : Nat
  padR : Nat
  borL : Nat
  borR : Nat
deriving Repr, DecidableEq

def Edges.total (e : Edges) : Nat := e.padL + e.padR + e.borL + e.borR

inductive ColW
  | auto
  | pct (num den : Nat)     -- num/den percent  (33.33% = 3333/100)
  | px (n : Nat)
deriving Repr, DecidableEq

/-- what a column holds: an image / divider without explicit width (with its own left/right padding), or something else -/
inductive Leaf
  | image (l r : Nat)               -- mj-image without width: l / r = its horizontal padding plus border, per side
  | divider (l r : Nat)
  | dividerP (l r a b : Nat)        -- mj-divider with the percentage width `a/b` % (37.5% = 75/2)
  | imageW (l r w : Nat)            -- mj-image with an explicit pixel width `w`
  | carousel                        -- mj-carousel: its images are as wide as the container
  | other
deriving Repr, DecidableEq

structure Col where
  w : ColW
  e : Edges
  leaf : Leaf
deriving Repr, DecidableEq

inductive Item
  | col (c : Col)
  | group (w : ColW) (cols : List Col)
deriving Repr

inductive Block
  | sec (e : Edges) (items : List Item)
  | hero (e : Edges) (leaves : List Leaf)
deriving Repr

structure Doc where
  body : Nat                       -- mj-body width
  wrapper : Option Edges           -- enclosing mj-wrapper, if any
  block : Block
deriving Repr

/-! ### the Model -/

/-- `strconv.FormatFloat(x, 'f', 0, 64)` of the quotient `n/d`: round to nearest, ties to even -/
def rhe (n : Int) (d : Nat) : Int :=
  let q := n / (d : Int)
  let r := n % (d : Int)
  if 2 * r < (d : Int) then q else if (d : Int) < 2 * r then q + 1 else if q % 2 = 0 then q else q + 1

/-- `int(x)` of a non-negative quotient -/
def fl (n : Int) (d : Nat) : Int := n / (d : Int)

/-- section / hero: width minus padding and borders; the code falls back to the full width when nothing is left -/
def secBox (w : Int) (e : Edges) : Int := if w - (e.total : Int) ≤ 0 then w else w - (e.total : Int)

/-- column: own pixel width minus padding and borders; falls back when negative -/
def colContent (px : Int) (e : Edges) : Int := if px - (e.total : Int) < 0 then px else px - (e.total : Int)

/-- the container an image / divider sees: a component whose container width is not positive falls back to 600 -/
def leafContainer (c : Int) : Int := if c ≤ 0 then 600 else c

/-- `int(float64(avail) * p / 100)` for the percentage `p = a/b`: truncation towards zero -/
def pctOf (avail : Int) (a b : Nat) : Int :=
  if avail < 0 then -(fl (-avail * (a : Int)) (100 * b)) else fl (avail * (a : Int)) (100 * b)

def leafW (c : Int) : Leaf → Option Int
  | .image l r => some (if leafContainer c - ((l + r : Nat) : Int) ≤ 0 then leafContainer c else leafContainer c - ((l + r : Nat) : Int))
  | .divider l r => some (leafContainer c - ((l + r : Nat) : Int))
  | .dividerP l r a b => some (pctOf (leafContainer c - ((l + r : Nat) : Int)) a b)
  | .imageW l r w =>
    let avail := if leafContainer c - ((l + r : Nat) : Int) ≤ 0 then leafContainer c else leafContainer c - ((l + r : Nat) : Int)
    some (if (w : Int) < avail then (w : Int) else avail)        -- never wider than what is left after padding
  | .carousel => some (leafContainer c)
  | .other => none

/-- Outlook width of a column that is one of `k` non-raw children of a section whose content box is `box` -/
def colPx (box : Int) (k : Nat) : ColW → Int
  | .auto => rhe box k
  | .pct a b => rhe (box * a) (100 * b)
  | .px n => n

def groupPx (box : Int) (k : Nat) : ColW → Int
  | .auto => fl box k
  | .pct a b => fl (box * a) (100 * b)
  | .px n => n

/-- a column inside a group of width `g` with `m` columns (the pre-pass gives width-less columns the percentage `100/m`) -/
def groupChildPx (g : Int) (m : Nat) : ColW → Int
  | .auto => rhe g m
  | .pct a b => rhe (g * a) (100 * b)
  | .px n => n

structure ColOut where
  px : Int
  content : Int
  leaf : Option Int
deriving Repr, DecidableEq

inductive ItemOut
  | col (o : ColOut)
  | group (px : Int) (cols : List ColOut)
deriving Repr

structure Out where
  wrapperW : Int
  sectionW : Int
  box : Int
  items : List ItemOut
  heroLeaves : List (Option Int)
deriving Repr

def colOut (px : Int) (c : Col) : ColOut :=
  ⟨px, colContent px c.e, leafW (colContent px c.e) c.leaf⟩

def itemOut (box : Int) (k : Nat) : Item → ItemOut
  | .col c => .col (colOut (colPx box k c.w) c)
  | .group w cols => .group (groupPx box k w) (cols.map fun c => colOut (groupChildPx (groupPx box k w) cols.length c.w) c)

/-- width handed to the block: the body width, or inside a wrapper the body width minus the wrapper's padding and borders -/
def blockW (d : Doc) : Int :=
  match d.wrapper with
  | none => d.body
  | some e => (d.body : Int) - (e.total : Int)

def impl (d : Doc) : Out :=
  match d.block with
  | .sec e items =>
    { wrapperW := d.body, sectionW := blockW d, box := secBox (blockW d) e,
      items := items.map (itemOut (secBox (blockW d) e) items.length), heroLeaves := [] }
  | .hero e leaves =>
    { wrapperW := d.body, sectionW := blockW d, box := secBox (blockW d) ⟨e.padL, e.padR, 0, 0⟩,
      items := [], heroLeaves := leaves.map (leafW (secBox (blockW d) ⟨e.padL, e.padR, 0, 0⟩)) }

/-! ### the Spec: MJML's box model in exact rationals `num / den` -/

abbrev Q := Int × Nat

def Q.sub (q : Q) (n : Nat) : Q := (q.1 - (n : Int) * q.2, q.2)

def specW (box : Q) (k : Nat) : ColW → Q
  | .auto => (box.1, box.2 * k)
  | .pct a b => (box.1 * a, box.2 * (100 * b))
  | .px n => (n, 1)

def specLeaf (c : Q) : Leaf → Option Q
  | .image l r => some (c.sub (l + r))
  | .divider l r => some (c.sub (l + r))
  | .dividerP l r a b => some ((c.sub (l + r)).1 * (a : Int), (c.sub (l + r)).2 * (100 * b))
  | .imageW l r w => some (if (w : Int) * (c.2 : Int) < (c.sub (l + r)).1 then ((w : Int), 1) else c.sub (l + r))
  | .carousel => some c
  | .other => none

structure SColOut where
  px : Q
  content : Q
  leaf : Option Q
deriving Repr

inductive SItemOut
  | col (o : SColOut)
  | group (px : Q) (cols : List SColOut)
deriving Repr

structure SOut where
  wrapperW : Int
  sectionW : Int
  box : Int
  items : List SItemOut
  heroLeaves : List (Option Q)
deriving Repr

def sColOut (px : Q) (c : Col) : SColOut := ⟨px, px.sub c.e.total, specLeaf (px.sub c.e.total) c.leaf⟩

def sItemOut (box : Q) (k : Nat) : Item → SItemOut
  | .col c => .col (sColOut (specW box k c.w) c)
  | .group w cols => .group (specW box k w) (cols.map fun c => sColOut (specW (specW box k w) cols.length c.w) c)

def spec (d : Doc) : SOut :=
  match d.block with
  | .sec e items =>
    { wrapperW := d.body, sectionW := blockW d, box := blockW d - (e.total : Int),
      items := items.map (sItemOut (blockW d - (e.total : Int), 1) items.length), heroLeaves := [] }
  | .hero e leaves =>
    { wrapperW := d.body, sectionW := blockW d, box := blockW d - ((e.padL + e.padR : Nat) : Int),
      items := [], heroLeaves := leaves.map (specLeaf (blockW d - ((e.padL + e.padR : Nat) : Int), 1)) }

/-! ### arithmetic of the two roundings -/

theorem divmod (n : Int) (d : Nat) (hd : 0 < d) :
    (d : Int) * (n / (d : Int)) + n % (d : Int) = n ∧ 0 ≤ n % (d : Int) ∧ n % (d : Int) < (d : Int) := by
  have hd' : (0 : Int) < (d : Int) := Int.natCast_pos.mpr hd
  exact ⟨Int.mul_ediv_add_emod n d, Int.emod_nonneg n (Int.ne_of_gt hd'), Int.emod_lt_of_pos n hd'⟩

/-- rounding to nearest moves a quotient by at most half a pixel -/
theorem rhe_err (n : Int) (d : Nat) (hd : 0 < d) :
    2 * ((d : Int) * rhe n d - n) ≤ (d : Int) ∧ -(d : Int) ≤ 2 * ((d : Int) * rhe n d - n) := by
  obtain ⟨h1, h2, h3⟩ := divmod n d hd
  unfold rhe
  simp only
  generalize n / (d : Int) = q at *
  generalize n % (d : Int) = r at *
  have hm : (d : Int) * (q + 1) = (d : Int) * q + (d : Int) := by rw [Int.mul_add, Int.mul_one]
  generalize hx : (d : Int) * q = x at *
  split
  · rw [hx]; omega
  · split
    · rw [hm]; omega
    · split
      · rw [hx]; omega
      · rw [hm]; omega

/-- truncation moves a quotient down by less than a pixel -/
theorem fl_err (n : Int) (d : Nat) (hd : 0 < d) :
    0 ≤ n - (d : Int) * fl n d ∧ n - (d : Int) * fl n d < (d : Int) := by
  obtain ⟨h1, h2, h3⟩ := divmod n d hd
  unfold fl
  generalize (d : Int) * (n / (d : Int)) = x at *
  omega

theorem rhe_between (n : Int) (d : Nat) : n / (d : Int) ≤ rhe n d ∧ rhe n d ≤ n / (d : Int) + 1 := by
  unfold rhe; simp only
  split
  · omega
  · split
    · omega
    · split <;> omega

theorem rhe_exact (n : Int) (d : Nat) (h : n % (d : Int) = 0) (hd : 0 < d) : rhe n d = n / (d : Int) := by
  have hd' : (0 : Int) < (d : Int) := Int.natCast_pos.mpr hd
  unfold rhe; simp only
  rw [h]
  split
  · rfl
  · omega

/-- a quotient that is at most the whole number `B` is never rounded above `B` -/
theorem rhe_le (n B : Int) (d : Nat) (hd : 0 < d) (h : n ≤ B * (d : Int)) : rhe n d ≤ B := by
  have hd' : (0 : Int) < (d : Int) := Int.natCast_pos.mpr hd
  obtain ⟨h1, h2, h3⟩ := divmod n d hd
  have hq : n / (d : Int) ≤ B := by
    have : n / (d : Int) ≤ (B * (d : Int)) / (d : Int) := Int.ediv_le_ediv hd' h
    rwa [Int.mul_ediv_cancel _ (Int.ne_of_gt hd')] at this
  rcases Decidable.em (n / (d : Int) < B) with hlt | hge
  · have := (rhe_between n d).2; omega
  · have hqB : n / (d : Int) = B := by omega
    have hr : n % (d : Int) = 0 := by
      rw [hqB, Int.mul_comm] at h1
      omega
    rw [rhe_exact n d hr hd, hqB]; exact Int.le_refl _

theorem rhe_nonneg (n : Int) (d : Nat) (hd : 0 < d) (h : 0 ≤ n) : 0 ≤ rhe n d := by
  have hd' : (0 : Int) ≤ (d : Int) := Int.natCast_nonneg d
  have : 0 ≤ n / (d : Int) := Int.ediv_nonneg h hd'
  have := (rhe_between n d).1
  omega

theorem fl_nonneg (n : Int) (d : Nat) (h : 0 ≤ n) : 0 ≤ fl n d := Int.ediv_nonneg h (Int.natCast_nonneg d)

theorem fl_le (n B : Int) (d : Nat) (hd : 0 < d) (h : n ≤ B * (d : Int)) : fl n d ≤ B := by
  have hd' : (0 : Int) < (d : Int) := Int.natCast_pos.mpr hd
  have : n / (d : Int) ≤ (B * (d : Int)) / (d : Int) := Int.ediv_le_ediv hd' h
  rwa [Int.mul_ediv_cancel _ (Int.ne_of_gt hd')] at this

/-! ### laws of the Model -/

theorem secBox_le (w : Int) (e : Edges) : secBox w e ≤ w := by unfold secBox; split <;> omega
theorem secBox_nonneg (w : Int) (e : Edges) (h : 0 ≤ w) : 0 ≤ secBox w e := by unfold secBox; split <;> omega
/-- whenever something is left, the box is exactly the width minus padding and borders -/
theorem secBox_exact (w : Int) (e : Edges) (h : 0 < w - (e.total : Int)) : secBox w e = w - (e.total : Int) := by
  unfold secBox; split <;> omega

theorem colContent_le (px : Int) (e : Edges) : colContent px e ≤ px := by unfold colContent; split <;> omega
theorem colContent_exact (px : Int) (e : Edges) (h : 0 ≤ px - (e.total : Int)) : colContent px e = px - (e.total : Int) := by
  unfold colContent; split <;> omega

theorem pct_le (box : Int) (a b : Nat) (hb : 0 ≤ box) (h : a ≤ 100 * b) : box * (a : Int) ≤ box * ((100 * b : Nat) : Int) :=
  Int.mul_le_mul_of_nonneg_left (Int.ofNat_le.mpr h) hb

/-- a leaf that asks for no more than the whole of what is left: a divider's percentage is at most 100 -/
def Leaf.Sane : Leaf → Prop
  | .dividerP _ _ a b => 0 < b ∧ a ≤ 100 * b
  | _ => True

instance : DecidablePred Leaf.Sane := fun lf => by cases lf <;> unfold Leaf.Sane <;> exact inferInstance

theorem pctOf_le (avail : Int) (a b : Nat) (hb : 0 < b) (hab : a ≤ 100 * b) : pctOf avail a b ≤ max avail 0 := by
  unfold pctOf
  split
  · rename_i hneg
    have h0 : 0 ≤ fl (-avail * (a : Int)) (100 * b) := fl_nonneg _ _ (Int.mul_nonneg (by omega) (Int.natCast_nonneg a))
    omega
  · rename_i hpos
    have hav : 0 ≤ avail := by omega
    have := fl_le (avail * (a : Int)) avail (100 * b) (by omega) (pct_le avail a b hav hab)
    omega

theorem pctOf_nonneg (avail : Int) (a b : Nat) (h : 0 ≤ avail) : 0 ≤ pctOf avail a b := by
  unfold pctOf
  split
  · omega
  · exact fl_nonneg _ _ (Int.mul_nonneg h (Int.natCast_nonneg a))

theorem leaf_le (c : Int) (lf : Leaf) (x : Int) (hc : 0 < c) (hs : lf.Sane) (h : leafW c lf = some x) : x ≤ c := by
  have hl : leafContainer c = c := by unfold leafContainer; split <;> omega
  cases lf with
  | image l r => simp only [leafW, Option.some.injEq, hl] at h; subst h; split <;> omega
  | divider l r => simp only [leafW, Option.some.injEq, hl] at h; subst h; omega
  | dividerP l r a b =>
    simp only [leafW, Option.some.injEq, hl] at h; subst h
    obtain ⟨hb, hab⟩ := hs
    have := pctOf_le (c - ((l + r : Nat) : Int)) a b hb hab
    omega
  | imageW l r w => simp only [leafW, Option.some.injEq, hl] at h; subst h; split <;> split <;> omega
  | carousel => simp only [leafW, Option.some.injEq, hl] at h; omega
  | other => simp [leafW] at h

/-- a divider with a percentage width gets that percentage of the space left after padding, to within the pixel lost by
    cutting to a whole number: `100·b·x ≤ avail·a < 100·b·(x+1)` -/
theorem leaf_pct (c : Int) (l r a b : Nat) (x : Int) (hc : 0 < c) (hb : 0 < b) (h : leafW c (.dividerP l r a b) = some x)
    (hp : 0 ≤ c - ((l + r : Nat) : Int)) :
    ((100 * b : Nat) : Int) * x ≤ (c - ((l + r : Nat) : Int)) * (a : Int) ∧
    (c - ((l + r : Nat) : Int)) * (a : Int) < ((100 * b : Nat) : Int) * (x + 1) := by
  have hl : leafContainer c = c := by unfold leafContainer; split <;> omega
  simp only [leafW, Option.some.injEq, hl] at h; subst h
  unfold pctOf
  rw [if_neg (by omega)]
  obtain ⟨h1, h2, h3⟩ := divmod ((c - ((l + r : Nat) : Int)) * (a : Int)) (100 * b) (by omega)
  unfold fl
  generalize (c - ((l + r : Nat) : Int)) * (a : Int) = n at h1 h2 h3 ⊢
  generalize ((100 * b : Nat) : Int) = D at h1 h2 h3 ⊢
  generalize hq : n / D = q at h1 ⊢
  rw [Int.mul_add, Int.mul_one]
  generalize D * q = m at h1 ⊢
  omega

/-- images and dividers without an explicit width fill exactly the space left after padding -/
theorem leaf_exact (c : Int) (l r : Nat) (lf : Leaf) (hlf : lf = .image l r ∨ lf = .divider l r) (x : Int) (hc : 0 < c)
    (h : leafW c lf = some x) : 0 < c - ((l + r : Nat) : Int) → x = c - ((l + r : Nat) : Int) := by
  have hl : leafContainer c = c := by unfold leafContainer; split <;> omega
  rcases hlf with rfl | rfl
  · simp only [leafW, Option.some.injEq, hl] at h; subst h
    intro hp; split <;> omega
  · simp only [leafW, Option.some.injEq, hl] at h; subst h
    intro _; rfl

/-- an image with an explicit width gets that width, unless the space left after padding is smaller: then it gets that -/
theorem leaf_explicit (c : Int) (l r w : Nat) (x : Int) (hc : 0 < c) (h : leafW c (.imageW l r w) = some x)
    (hp : 0 < c - ((l + r : Nat) : Int)) : x = min (w : Int) (c - ((l + r : Nat) : Int)) := by
  have hl : leafContainer c = c := by unfold leafContainer; split <;> omega
  simp only [leafW, Option.some.injEq, hl] at h; subst h
  split <;> split <;> omega

/-- a width that asks for no more than the whole box: automatic, or a percentage ≤ 100 -/
def ColW.Sane : ColW → Prop
  | .auto => True
  | .pct a b => 0 < b ∧ a ≤ 100 * b
  | .px _ => False

instance : DecidablePred ColW.Sane := fun w => by cases w <;> unfold ColW.Sane <;> exact inferInstance

theorem self_le_mul (box : Int) (k : Nat) (hb : 0 ≤ box) (hk : 0 < k) : box ≤ box * (k : Int) := by
  have h1 : (1 : Int) ≤ (k : Int) := Int.ofNat_le.mpr hk
  have := Int.mul_le_mul_of_nonneg_left h1 hb
  rwa [Int.mul_one] at this

/-- no column is given more than its section's content box -/
theorem colPx_le_box (box : Int) (k : Nat) (w : ColW) (hb : 0 ≤ box) (hk : 0 < k) (hw : w.Sane) : colPx box k w ≤ box := by
  cases w with
  | auto => exact rhe_le box box k hk (self_le_mul box k hb hk)
  | pct a b =>
    obtain ⟨hb0, hab⟩ := hw
    exact rhe_le _ box (100 * b) (by omega) (pct_le box a b hb hab)
  | px n => exact absurd hw (by simp [ColW.Sane])

theorem colPx_nonneg (box : Int) (k : Nat) (w : ColW) (hb : 0 ≤ box) (hk : 0 < k) (hw : w.Sane) : 0 ≤ colPx box k w := by
  cases w with
  | auto => exact rhe_nonneg box k hk hb
  | pct a b =>
    obtain ⟨hb0, _⟩ := hw
    exact rhe_nonneg _ (100 * b) (by omega) (Int.mul_nonneg hb (Int.natCast_nonneg a))
  | px n => exact absurd hw (by simp [ColW.Sane])

theorem groupPx_le_box (box : Int) (k : Nat) (w : ColW) (hb : 0 ≤ box) (hk : 0 < k) (hw : w.Sane) : groupPx box k w ≤ box := by
  cases w with
  | auto => exact fl_le box box k hk (self_le_mul box k hb hk)
  | pct a b =>
    obtain ⟨hb0, hab⟩ := hw
    exact fl_le _ box (100 * b) (by omega) (pct_le box a b hb hab)
  | px n => exact absurd hw (by simp [ColW.Sane])

theorem groupPx_nonneg (box : Int) (k : Nat) (w : ColW) (hb : 0 ≤ box) (hw : w.Sane) : 0 ≤ groupPx box k w := by
  cases w with
  | auto => exact fl_nonneg box k hb
  | pct a b => exact fl_nonneg _ (100 * b) (Int.mul_nonneg hb (Int.natCast_nonneg a))
  | px n => exact absurd hw (by simp [ColW.Sane])

theorem groupChildPx_le (g : Int) (m : Nat) (w : ColW) (hg : 0 ≤ g) (hm : 0 < m) (hw : w.Sane) :
    groupChildPx g m w ≤ g := by
  cases w with
  | auto => exact rhe_le g g m hm (self_le_mul g m hg hm)
  | pct a b =>
    obtain ⟨hb0, hab⟩ := hw
    exact rhe_le _ g (100 * b) (by omega) (pct_le g a b hg hab)
  | px n => exact absurd hw (by simp [ColW.Sane])

/-- what "fits" means for the output of one section child -/
def ColOut.Fits (o : ColOut) (parent : Int) : Prop :=
  o.px ≤ parent ∧ o.content ≤ o.px ∧ ∀ x, 0 < o.content → o.leaf = some x → x ≤ o.content

def ItemOut.Fits (box : Int) : ItemOut → Prop
  | .col o => o.Fits box
  | .group g cols => g ≤ box ∧ ∀ o ∈ cols, o.Fits g

def Item.Sane : Item → Prop
  | .col c => c.w.Sane ∧ c.leaf.Sane
  | .group w cols => w.Sane ∧ ∀ c ∈ cols, c.w.Sane ∧ c.leaf.Sane

theorem colOut_fits (px parent : Int) (c : Col) (h : px ≤ parent) (hl : c.leaf.Sane) : (colOut px c).Fits parent :=
  ⟨h, colContent_le px c.e, fun x hc hx => leaf_le _ c.leaf x hc hl hx⟩

/-- nesting below a section: every column (directly in the section or inside a group) is at most its parent's box, a
    column's content box at most the column, an image / divider at most that content box -/
theorem itemOut_fits (box : Int) (k : Nat) (it : Item) (hb : 0 ≤ box) (hk : 0 < k) (hs : it.Sane) :
    (itemOut box k it).Fits box := by
  cases it with
  | col c => exact colOut_fits _ box c (colPx_le_box box k c.w hb hk hs.1) hs.2
  | group w cols =>
    obtain ⟨hw, hc⟩ := hs
    refine ⟨groupPx_le_box box k w hb hk hw, ?_⟩
    intro o ho
    simp only [itemOut, List.mem_map] at ho
    obtain ⟨c, hcm, rfl⟩ := ho
    have hm : 0 < cols.length := List.length_pos_of_mem hcm
    exact colOut_fits _ _ c (groupChildPx_le _ cols.length c.w (groupPx_nonneg box k w hb hw) hm (hc c hcm).1) (hc c hcm).2

/-- sibling columns over a common denominator: their rounded widths exceed the exact sum by at most half a pixel each -/
theorem rounded_sum_le (D : Nat) (hD : 0 < D) : ∀ ns : List Int,
    2 * ((D : Int) * (ns.map (fun n => rhe n D)).sum) ≤ 2 * ns.sum + (ns.length : Int) * (D : Int)
  | [] => by simp
  | n :: rest => by
    have ih := rounded_sum_le D hD rest
    have h := (rhe_err n D hD).1
    simp only [List.map_cons, List.sum_cons, List.length_cons, Int.mul_add, Int.natCast_add, Int.natCast_one, Int.add_mul, Int.one_mul] at *
    generalize (D : Int) * rhe n D = x at *
    generalize (D : Int) * (rest.map (fun n => rhe n D)).sum = y at *
    generalize (rest.length : Int) * (D : Int) = z at *
    omega

/-- the exact widths of integer-percentage siblings that do not exceed 100% together never exceed the box -/
theorem exact_sum_le (box : Int) (hb : 0 ≤ box) (ps : List Nat) (h : ps.sum ≤ 100) :
    (ps.map (fun (p : Nat) => box * (p : Int))).sum ≤ box * 100 := by
  have hs : (ps.map (fun (p : Nat) => box * (p : Int))).sum = box * ((ps.sum : Nat) : Int) := by
    induction ps with
    | nil => simp
    | cons p r ih =>
      have hr : r.sum ≤ 100 := by simp only [List.sum_cons] at h; omega
      simp only [List.map_cons, List.sum_cons, Int.natCast_add, Int.mul_add]
      rw [ih hr]
  rw [hs]
  exact Int.mul_le_mul_of_nonneg_left (Int.ofNat_le.mpr h) hb

/-- `k` sibling columns with integer percentages summing to at most 100: the Outlook widths sum to at most the box plus
    half a pixel per column (the rounding the code applies; MJML itself prints the unrounded quotient) -/
theorem sibling_sum_partial (box : Int) (hb : 0 ≤ box) (ps : List Nat) (h : ps.sum ≤ 100) :
    2 * (ps.map (fun p => colPx box ps.length (.pct p 1))).sum ≤ 2 * box + ps.length := by
  have h1 := rounded_sum_le 100 (by decide) (ps.map (fun (p : Nat) => box * (p : Int)))
  have h2 := exact_sum_le box hb ps h
  simp only [List.map_map, List.length_map] at h1
  have he : (ps.map (fun p => colPx box ps.length (.pct p 1))) = (ps.map ((fun n => rhe n 100) ∘ fun (p : Nat) => box * (p : Int))) := by
    apply List.map_congr_left
    intro p _
    simp [colPx]
  rw [he]
  generalize (ps.map ((fun n => rhe n 100) ∘ fun (p : Nat) => box * (p : Int))).sum = s at *
  generalize (ps.map (fun (p : Nat) => box * (p : Int))).sum = t at *
  omega

/-- the Model's Outlook width of a column is the Spec's (the responsive percentage applied to the box) up to half a pixel -/
theorem colPx_close (box : Int) (k : Nat) (w : ColW) (hk : 0 < k) (hw : ∀ a b, w = .pct a b → 0 < b) :
    2 * (((specW (box, 1) k w).2 : Int) * colPx box k w - (specW (box, 1) k w).1) ≤ ((specW (box, 1) k w).2 : Int) ∧
    -((specW (box, 1) k w).2 : Int) ≤ 2 * (((specW (box, 1) k w).2 : Int) * colPx box k w - (specW (box, 1) k w).1) := by
  cases w with
  | auto =>
    simp only [specW, colPx, Nat.one_mul]
    exact rhe_err box k hk
  | pct a b =>
    have hb := hw a b rfl
    simp only [specW, colPx, Nat.one_mul]
    exact rhe_err (box * a) (100 * b) (by omega)
  | px n =>
    simp only [specW, colPx]
    omega

end Gomjml.Widths
