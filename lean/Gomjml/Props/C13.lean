import Gomjml.Core.Cache
import Gomjml.Gen.Misc
/-! # C13 — the AST cache is transparent

Property theorems only (model and lemmas: `Gomjml/Core/Cache.lean`). -/
namespace Gomjml.Props.C13
open Gomjml.Cache

/-- **C13, full history form.** From process start, for every finite history of cached / uncached compilations,
    time advances, cleanup sweeps, stop/restart and configuration calls — each compilation with its own render options
    (debug tags …) — every compilation returns exactly what the stateless compiler returns for that document and those options — provided the 64-bit template hash does not collide on the documents used. -/
theorem C13_transparent_from_start (w : World) (hinj : ∀ d d', w.hash d = w.hash d' → d = d') (ttl : Int)
    (ops : List Op) : (runOps w (init ttl) ops).2 = expected w ops :=
  C13_transparent w hinj ops (init ttl) (inv_init w ttl)

/-- the same from any state satisfying the invariant (which every reachable state does) -/
theorem C13_transparent_inv (w : World) (hinj : ∀ d d', w.hash d = w.hash d' → d = d') (ops : List Op) (s : CS)
    (h : CInv w s) : (runOps w s ops).2 = expected w ops := C13_transparent w hinj ops s h

/-- a document that fails to parse is never cached -/
theorem C13_failed_parse_not_cached (w : World) (s : CS) (d : Doc) (o : Opt) (er : Err) (hp : w.parse d = .error er)
    (hs : s.store (w.hash d) = none) : (step w s (.render d true o)).1.store (w.hash d) = none :=
  failed_parse_not_cached w s d o er hp hs

/-- every stored entry is the successful parse of a document with that key (so nothing unparsable is ever stored) -/
theorem C13_store_sound (w : World) (ttl : Int) (ops : List Op) (k : CKey) (e : Entry)
    (h : (runOps w (init ttl) ops).1.store k = some e) : ∃ d, w.hash d = k ∧ w.parse d = .ok e.ast :=
  (inv_reachable w ttl ops).sound k e h

/-- non-vacuity: an injective world and a history with a miss, a hit, an expiry and a sweep -/
def wEx : World := { parse := fun d => if d = 2 then .error 7 else .ok (d + 10), rend := fun a o => a * 2 + 1000 * o, hash := fun d => d }
example : (∀ d d', wEx.hash d = wEx.hash d' → d = d') := by intro d d' h; exact h
example : (runOps wEx (init 100) [.render 0 true 0, .render 0 true 0, .render 2 true 0, .advance 100, .render 0 true 0, .tick, .stop,
                                   .render 1 true 0]).2
    = [some (.ok 20), some (.ok 20), some (.error 7), none, some (.ok 20), none, none, some (.ok 22)] := by decide
/-- … and with the options changing from one compilation to the next over one cached tree (debug tags on, off, uncached):
    each compilation gets the output for ITS options -/
example : (runOps wEx (init 100) [.render 0 true 1, .render 0 true 0, .render 0 false 1, .render 0 true 1]).2
    = [some (.ok 1020), some (.ok 20), some (.ok 1020), some (.ok 1020)] := by decide

/-- **The full statement (no injectivity hypothesis) is false of the code**: the cache compares nothing but the hash.
    Two documents with one key: the second cached compilation returns the first document's HTML.
    Recorded as finding C13-F1 (replayed on the implementation through the `VerifHash` hook). -/
def wColl : World := { parse := fun d => .ok d, rend := fun a _ => a, hash := fun _ => 0 }
example : (runOps wColl (init 100) [.render 0 true 0, .render 1 true 0]).2 ≠ expected wColl [.render 0 true 0, .render 1 true 0] := by
  decide

/-- Regenerated fact: the cache map is stored to at exactly one site, inside `parseAST` (after a successful parse);
    deleted from only in `parseAST` (expired on lookup) and in the cleanup goroutine. -/
theorem C13_store_sites :
    Gomjml.Gen.Misc.syncMapOps.filter (fun r => r.2.2 == "Store" || r.2.2 == "Swap" || r.2.2 == "LoadOrStore" || r.2.2 == "CompareAndSwap")
      = [("mjml.parseAST", "astCache", "Store")] := by decide

end Gomjml.Props.C13
