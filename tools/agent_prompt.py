import json,sys
pid=sys.argv[1]; extra=sys.argv[2] if len(sys.argv)>2 else ""
for l in open('/verif/properties.jsonl'):
    p=json.loads(l)
    if p['id']==pid: break
print(f"""You are helping test a verification suite by writing a *seeded defect* (a mutation) for an open-source Go project, gomjml (an MJML→HTML compiler). Work ONLY inside the git worktree /tmp/wt/{pid} (a checkout of the project) and write your deliverables to /tmp/wt/{pid}-out/. Do not touch /repo or /verif, do not commit anything.

Go environment (no network): in every shell call run `export GOFLAGS=-mod=mod GOPROXY=off` first (do NOT set GOSUMDB or GOTOOLCHAIN). Build: `cd /tmp/wt/{pid} && go build ./...`. Existing test suite: `cd /tmp/wt/{pid} && go test -vet=off -count=1 ./...` (takes ~15 s; it currently passes).

The property to break (full text also in /tmp/wt/{pid}.prop.txt):

{pid} — {p['title']}. {p['statement']}

{extra}

Your task: make ONE small, realistic source change to the project (the kind of bug a well-meaning refactor or optimisation could introduce) such that
 (1) the project still compiles,
 (2) the existing test suite still passes completely (run it and confirm),
 (3) the property above is now violated, but only under something specific — a particular input shape, attribute value, sequence of calls, configuration, or two cooperating code sites that each look fine alone. It must NOT be something that ordinary everyday documents would expose immediately.
Do NOT use `git stash` (the stash is shared between all worktrees of this repository and other people are working in parallel); to take your change out and put it back use `git diff > /tmp/wt/{pid}-out/patch.diff; git apply -R /tmp/wt/{pid}-out/patch.diff; … ; git apply /tmp/wt/{pid}-out/patch.diff`.
Files in the tree named verif_*.go and calls `verifYield(...)` are build-tag-guarded test hooks; do not change or rely on them.

Deliverables in /tmp/wt/{pid}-out/:
 - patch.diff : output of `git -C /tmp/wt/{pid} diff` (source change only, no test files)
 - demo_test.go : a Go test (say where it must be placed, e.g. mjml/zz_demo_test.go) that FAILS with your change applied and PASSES on the unmodified tree. Verify both (run with the patch; remove the patch temporarily, run again; re-apply).
 - meta.json : {{"property":"{pid}","what":"<one paragraph: what the change does and why it breaks the property>","needs":"<what is needed for it to manifest>","demo_location":"<path where demo_test.go must be copied>","ran":["<commands you ran and their outcome>"]}}
Leave the worktree with your patch applied and the demo file removed at the end. In your final answer, summarise the change, the trigger, where the demo goes, and confirm the three checks (builds / suite passes / demo fails-with, passes-without).""")
