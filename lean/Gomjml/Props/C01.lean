import Gomjml.Core.Merge
import Gomjml.Core.Canon
/-! # C01 — reference parity on the corpus, closed under block composition (property theorems only)

The corpus part is a finite base and is *executed* (all 207 pairs through the canonical comparison, harness `hx C01`).
What makes the property hold for every sequence of blocks is proved here:

* `C01_lifting`: the body loop of `body.go` (Model `Merge.bodyLoop`: per-block output with the pending flag, a section leaving
  its comment open only for a next sibling that continues it, marker pairs dropped at block boundaries) writes exactly MJML's
  merge of the blocks rendered alone — for every finite sequence of well-formed blocks, no side condition on the sequence;
* `C01_composition`: hence, if every block rendered alone equals its reference fragment, any sequence of blocks renders to the
  merged concatenation of the reference fragments;
* the canonical form used to compare ignores exactly attribute order and the order of declarations, and nothing is lost by it
  (`canon_attrs_*`, `canon_decls_perm`).

The Model is tied to the code on every run: the composed body equals `Merge.bodyLoop` run on the blocks' real solo outputs, and
every corpus block meets `Blk.WF` (driver `refloop`). -/
namespace Gomjml.Props.C01
open Gomjml.Merge Gomjml.Canon

/-- **Lifting**: body loop = MJML merge of the solo fragments, for every sequence of well-formed blocks. -/
theorem C01_lifting (bs : List Blk) (hw : ∀ b ∈ bs, b.WF) : bodyLoop bs = merge (bs.flatMap Blk.solo) :=
  Gomjml.Merge.C01_lifting bs hw

/-- **Closed under composition**: blocks whose solo output is their reference fragment compose to the merged reference
    fragments, whatever blocks are placed next to each other and however many. -/
theorem C01_composition (bs : List Blk) (ref : Blk → List Tok) (hw : ∀ b ∈ bs, b.WF) (hs : ∀ b ∈ bs, b.solo = ref b) :
    bodyLoop bs = merge (bs.flatMap ref) := by
  rw [C01_lifting bs hw]
  congr 1
  induction bs with
  | nil => rfl
  | cons b r ih =>
    simp only [List.flatMap_cons]
    rw [hs b (List.mem_cons_self ..), ih (fun x hx => hw x (List.mem_cons_of_mem _ hx)) (fun x hx => hs x (List.mem_cons_of_mem _ hx))]

/-- the merge leaves alone what has no adjacent `endif` / `if mso` pair: merging a merged body changes nothing -/
theorem C01_merge_stable (xs : List Tok) (h : Normal xs) : merge xs = xs := merge_normal xs h

/-- attribute order is ignored, and only the order: the canonical attribute list is a permutation of what was written … -/
theorem canon_attrs_perm (l : List Attr) : (sortAttrs l).Perm l := sortAttrs_perm l
/-- … and two ways of writing the same distinct attributes have one canonical form -/
theorem canon_attrs_order_irrelevant (l₁ l₂ : List Attr) (hp : l₁.Perm l₂) (hn : (l₁.map (·.1)).Nodup) :
    sortAttrs l₁ = sortAttrs l₂ := sortAttrs_order_irrelevant l₁ l₂ hp hn
/-- the canonical declaration list has exactly the declarations that were written -/
theorem canon_decls_perm (l : List Attr) : (normDecls l).Perm l := normDecls_perm l

/-! non-vacuity: a chaining section, a hero, a consuming section and a blank raw — all well formed, and the loop merges them -/
private def sec : Blk := ⟨[.t 1], true, true, true, true, false⟩
private def hero : Blk := ⟨[.t 2, .cc, .t 3, .co, .t 4], true, true, false, false, false⟩
private def blankRaw : Blk := ⟨[], false, false, false, false, true⟩

example : bodyLoop [sec, hero, blankRaw, sec, sec] =
    [.co, .t 1, .t 2, .cc, .t 3, .co, .t 4, .t 1, .t 1, .cc] := by decide
example : merge ([sec, hero, blankRaw, sec, sec].flatMap Blk.solo) =
    [.co, .t 1, .t 2, .cc, .t 3, .co, .t 4, .t 1, .t 1, .cc] := by decide
/-- the order of independent declarations does not matter -/
example : normDecls [("width", "1px"), ("color", "red")] = normDecls [("color", "red"), ("width", "1px")] := by decide

end Gomjml.Props.C01
