package main

import (
	"encoding/hex"
	"fmt"
	"strings"

	"github.com/preslavrachev/gomjml/parser"
)

// ===== the parser's textual pre-passes against their byte-exact Lean Models (Core/Passes.lean, Core/Lines.lean) ==========
//
// strip = stripNonMSOComments, amp = escapeAttributeAmpersands, ent = preprocessHTMLEntities, wrap = wrapMJTextContent,
// pre = the three passes in ParseMJML's order (the order itself is a regenerated fact, C17_prepass_source).

type prepass struct {
	proto string
	real  func(string) string
}

var prepasses = []prepass{
	{"strip", parser.VerifStripNonMSOComments},
	{"amp", parser.VerifEscapeAttributeAmpersands},
	{"ent", parser.VerifPreprocessHTMLEntities},
	{"cdesc", func(s string) string { return strings.ReplaceAll(s, "]]>", "]]]]><![CDATA[>") }},
	{"wrap", parser.VerifWrapMJTextContent},
	{"pre", func(s string) string {
		return parser.VerifWrapMJTextContent(parser.VerifPreprocessHTMLEntities(parser.VerifStripNonMSOComments(s)))
	}},
}

func prepassCorrespondence(res *Result, drv *DriverPool, texts []string) {
	parallel(8, len(texts), func(i int) {
		t := texts[i]
		if len(t) > 20000 {
			return
		}
		for _, p := range prepasses {
			want := hex.EncodeToString([]byte(p.real(t)))
			got, err := drv.Ask(p.proto + " " + hex.EncodeToString([]byte(t)))
			res.mu.Lock()
			res.Programs++
			res.DisagreementsChecked++
			res.mu.Unlock()
			if err != nil || got != want {
				gb, _ := hex.DecodeString(got)
				wb, _ := hex.DecodeString(want)
				at := firstDiff(string(gb), string(wb))
				res.Disagree(Violation{Sig: "prepass-model-mismatch|" + p.proto, Kind: "input", What: fmt.Sprintf("pass %s: implementation and Lean model differ at byte %d: …%q… vs model …%q…", p.proto, at, around(string(wb), at), around(string(gb), at)),
					Input: map[string]string{"text": t}})
			}
		}
	})
}

// wrapTexts: texts made of the pieces wrapMJTextContent and its void-tag normaliser look at — start and end tags of mj-text
// in every spelling (case, white space and line breaks before '>', self-closing, quoted '>' in attributes, look-alike names),
// void tags (self-closing or not, multi-line, the runes Go's (?i) folds into k and s), CDATA delimiters, line ends
var wrapPieces = []string{"<mj-text", "<MJ-Text", "<mj-text>", "<mj-text a=\"x>y\" b='/>'>", "<mj-text />", "<mj-text/>", "<mj-textarea>", "<mj-text-x", ">", "/>", " />", "\n/>", "/ >",
	"</mj-text", "</mj-text>", "</MJ-TEXT \n>", "</mj-text\n\n\t>", "</mj-text x>", "</mj-tex", "<br/>", "<br />", "<BR\n/>", "<br   />", "<br\n  \n/>", "<linK/>", "<ſource src=\"a\"/>", "<tracK\n/>",
	"<img a='>'/>", "<img src=\"i.png\"\n alt=\"a\"/>", "<hr", "<wbr\t/>", "<col>", "<colx y/>", "<b>", "</b>", "<input disabled/>", "<meta/><link/>", "<![CDATA[", "]]>", " <![CDATA[x]]>", "\n", "\r\n", " ", "\t", "\"", "'", "a", "text",
	"&amp;", "&nbsp;", "&", "/", "<", "\xff", "\xe2\x84", "<!-- c -->", "<!--", "-->", "<!-- 5\" & -->", "<![CDATA[ \"a & b\" &copy; ]]>", "&copy;", "&#160;", " a=\"x&y\"", " b='&copy;&z;'", "<mj-raw><br/></mj-raw>", "<mj-button href=\"u\">go</mj-button\n>",
	" e=\"\"", " f=''", "<![CDATA[a[b]]]>", "<![CDATA[x]]]]>", "]]]>", "<!-- c --->", "<!-- d ---->", "--->", "<![CDATA[]]>", "<!---->"}

func wrapTexts(seed int64, n int) []string {
	var out []string
	// every kind of white space between the start tag and an explicit CDATA section, and in front of the end tag's '>'
	for _, ws := range []string{"", " ", "\n", "\r\n", "\t", "\r", "\n \r\n\t", "\v", "\f", "\u00a0"} {
		out = append(out, "<mj-text>"+ws+"<![CDATA[x<br/>]]>"+ws+"</mj-text"+ws+">", "<mj-text a='b'"+ws+">"+ws+"<![cdata[x]]></MJ-TEXT"+ws+">tail<mj-text"+ws+"/>")
	}
	// content that STARTS with a CDATA section and goes on (since cb901ef the author's sections are kept and every stretch
	// between and behind them gets a section of its own): one and several sections, stretches with escapes / markup / the
	// terminator itself / void tags, an unterminated section, a section opener in upper and lower case, nothing behind
	for _, c := range []string{"<![CDATA[a]]> &amp; b", "<![CDATA[a]]>b<![CDATA[c]]>d", " \n<![CDATA[a]]>\n", "<![CDATA[a]]> ]]> <br/> x", "<![CDATA[a]]><![CDATA[b]]>", "<![CDATA[a]]> &lt;u&gt; <![CDATA[<b>",
		"<![CDATA[a]]> x ]] > y ]]", "<![CDATA[]]>x", "<![CDATA[a]]>x<![cdata[y]]>", "<![CDATA[a<br/>]]><br/><![CDATA[]]]]>]", "<![CDATA[a", "<![CDATA[a]]", "<![CDATA[a]]>\xff<![CDATA[", "<![CDATA[a]]>]]><![CDATA[b]]>"} {
		out = append(out, "<mj-text>"+c+"</mj-text>", "<mj-body><mj-text css-class=\"k\">"+c+"</mj-text\n><mj-text>plain</mj-text></mj-body>")
	}
	// mj-text start tags whose attributes have EMPTY values (the closing quote right behind the opening one), both quote styles,
	// first / last / only attribute, followed by content that needs the wrapping
	for _, at := range []string{` css-class=""`, ` padding=''`, ` a="" b="x"`, ` a="x" b=""`, ` a='' b=''`, ` a = ""`, ` a=""/`} {
		out = append(out, "<mj-text"+at+">x<br>y &amp; <b>z</b></mj-text><mj-text>second<br></mj-text>", "<mjml><mj-body><mj-text"+at+"\n>a &lt; b</mj-text\n></mj-body></mjml>")
	}
	// every entity the markup-only replacement knows, first inside material it must not touch (a comment, an author-written
	// CDATA section), then in markup; markup first; both around — a scan that keeps a position across the skipped
	// material must find the later occurrences
	for _, e := range []string{"&copy;", "&reg;", "&trade;", "&nbsp;", "&#xA0;", "&#160;", "&ndash;", "&mdash;", "&hellip;"} {
		out = append(out, "<!-- "+e+" 2023 --> x "+e+" y", "<![CDATA["+e+"]]>"+e, e+"<!-- "+e+" -->"+e+" "+e, "<mj-text><![CDATA[write "+e+"]]></mj-text><mj-text>"+e+"</mj-text>",
			"<!-- "+e+" --><a t=\""+e+"\">"+e+"</a>", "<![CDATA["+e+"]]><!-- "+e+" -->"+e+"<![CDATA["+e+"]]>"+e,
			"<![CDATA[a[0]]]>"+e+" <a t=\"x&y "+e+"\">", "<!-- "+e+" --->"+e+" <a t=\"x&y\">", "<![CDATA[]]]]>"+e)
	}
	for i := 0; i < n; i++ {
		r := NewRng(seed, fmt.Sprintf("wraptexts/%d", i))
		var b strings.Builder
		if r.Bool(1, 3) {
			b.WriteString(r.Pick([]string{"<mjml>", "<!-- c\n -->\n<mjml>\n", "\n\n<mjml><mj-body>"}))
		}
		for j, k := 0, 1+r.Intn(24); j < k; j++ {
			b.WriteString(r.Pick(wrapPieces))
		}
		out = append(out, b.String())
	}
	return out
}
