import Gomjml.Core.CacheConc
/-! driver sub-protocol `cc`: the concurrent cache Model (`CacheConc`) on a concrete schedule.
    `cc <doc of thread 0,doc of thread 1,…> <cached bits> <ok bits per document> <ttl> <event>*`
    events: `t<k>` one step of thread k · `e<d>` evict the entry of document d · `a<n>` advance the clock by n.
    Answer: the label reached by every event (`-` for environment events, `blocked` for a thread step that is not enabled),
    then `|`, then the threads that can step now, then `|`, then the documents that have an entry. -/
open Gomjml.Cache Gomjml.CacheConc

namespace Driver.CcP

def parseEv (s : String) : Option Ev :=
  if s.startsWith "t" then (s.drop 1).toNat?.map .thread
  else if s.startsWith "e" then (s.drop 1).toNat?.map .evict
  else if s.startsWith "a" then (s.drop 1).toNat?.map .advance
  else none

def handle (args : List String) : String :=
  match args with
  | docs :: cachedBits :: okBits :: ttl :: evs =>
    let docOf := (docs.splitOn ",").filterMap String.toNat?
    let n := docOf.length
    let oks := okBits.toList.map (· == '1')
    let w : World := { parse := fun d => if oks.getD d false then .ok d else .error d, rend := fun a o => a + 1000 * o, hash := fun d => d }
    let j : Job := { doc := fun t => docOf.getD t 0, opt := fun _ => 0, cached := fun t => cachedBits.toList.getD t '1' == '1' }
    match ttl.toInt? with
    | none => "bad-ttl"
    | some ttl => Id.run do
      let mut s := Gomjml.CacheConc.init ttl
      let mut labels : Array String := #[]
      for e in evs do
        match parseEv e with
        | none => labels := labels.push "bad-event"
        | some (.thread t) =>
          match stepT w j s t with
          | none => labels := labels.push "blocked"
          | some s' => s := s'; labels := labels.push (s.pc t).tag
        | some ev => s := Gomjml.CacheConc.step w j s ev; labels := labels.push "-"
      let enabled := (List.range n).filter (fun t => (stepT w j s t).isSome)
      let present := (List.range oks.length).filter (fun d => (s.store d).isSome)
      return " ".intercalate labels.toList ++ " | " ++ " ".intercalate (enabled.map toString) ++ " | " ++ " ".intercalate (present.map toString)
  | _ => "bad-request"

end Driver.CcP
