import Gomjml.Core.Util
/-! # Spec: well-formedness of one HTML byte stream for its two audiences, and visibility of author content

Tokens are what a client's parser sees at the granularity the properties speak about: open / close / void tags by name,
the Outlook conditional markers `<!--[if mso | IE]>` … `<![endif]-->` (`co` / `cc`), the not-Outlook markers
`<!--[if !mso]><!-->` … `<!--<![endif]-->` (`nco` / `ncc`), and author content (`t`).  Three independent checkers:

* `StdWF`  (C02) what a standard client sees — Outlook-only blocks skipped — is strictly nested; markers are properly
  delimited and never nested; no Outlook-only (VML / Office) element outside an Outlook conditional.
* `MsoWF`  (C03) what Outlook sees — conditional content spliced in, not-Outlook blocks skipped — is strictly nested.
* `Visible` (C04) no author content sits inside an Outlook-only block.
-/
namespace Gomjml.Spec

/-- `oo` = the element is Outlook-only markup (VML / Office namespaces `v:` `o:` `w:`), decided by the lexer from the name -/
inductive GTok
  | o (oo : Bool) (n : String) | c (oo : Bool) (n : String) | v (oo : Bool) (n : String)
  | co | cc | nco | ncc
  | t (s : String)
deriving Repr, DecidableEq

/-- VML / Office namespaced elements are Outlook-only markup (used by the lexer when it builds tokens) -/
def outlookOnly (n : String) : Bool := n.startsWith "v:" || n.startsWith "o:" || n.startsWith "w:"

/-- 0 = normal, 1 = inside an Outlook conditional, 2 = inside a not-Outlook block -/
structure VS where
  mode : Nat
  stack : List String
deriving Repr, DecidableEq

def markers (s : VS) : GTok → Except String VS
  | .co => if s.mode = 0 then .ok { s with mode := 1 } else .error "nested-cond"
  | .cc => if s.mode = 1 then .ok { s with mode := 0 } else .error "stray-endif"
  | .nco => if s.mode = 0 then .ok { s with mode := 2 } else .error "nested-cond"
  | .ncc => if s.mode = 2 then .ok { s with mode := 0 } else .error "stray-endif"
  | _ => .ok s

def pop (s : VS) (n : String) (err : String) : Except String VS :=
  match s.stack with
  | [] => .error err
  | m :: r => if m = n then .ok { s with stack := r } else .error err

/-- the standard client's view -/
def stdStep (s : VS) : GTok → Except String VS
  | .o oo n => if s.mode = 1 then .ok s else if oo then .error "vml-in-std" else .ok { s with stack := n :: s.stack }
  | .c _ n => if s.mode = 1 then .ok s else pop s n "std:mismatch"
  | .v oo _ => if s.mode ≠ 1 && oo then .error "vml-in-std" else .ok s
  | .t _ => .ok s
  | m => markers s m

/-- Outlook's view -/
def msoStep (s : VS) : GTok → Except String VS
  | .o _ n => if s.mode = 2 then .ok s else .ok { s with stack := n :: s.stack }
  | .c _ n => if s.mode = 2 then .ok s else pop s n "mso:mismatch"
  | .v _ _ => .ok s
  | .t _ => .ok s
  | m => markers s m

/-- author content must not be hidden from standard clients -/
def visStep (s : VS) : GTok → Except String VS
  | .t _ => if s.mode = 1 then .error "content-in-mso" else .ok s
  | .o _ _ => .ok s
  | .c _ _ => .ok s
  | .v _ _ => .ok s
  | m => markers s m

def runE (step : VS → GTok → Except String VS) (s : VS) : List GTok → Except String VS
  | [] => .ok s
  | x :: xs => match step s x with
    | .ok s' => runE step s' xs
    | .error e => .error e

def start : VS := ⟨0, []⟩

def StdWF (ts : List GTok) : Prop := runE stdStep start ts = .ok start
def MsoWF (ts : List GTok) : Prop := runE msoStep start ts = .ok start
def isOk {ε α} : Except ε α → Bool
  | .ok _ => true
  | .error _ => false
def Visible (ts : List GTok) : Prop := isOk (runE visStep start ts) = true

/-- verdict for the harness: "ok" or the first failing clause -/
def verdict (step : VS → GTok → Except String VS) (endErr : String) (ts : List GTok) (needEmpty : Bool) : String :=
  match runE step start ts with
  | .error e => e
  | .ok s => if s.mode ≠ 0 then "unterminated-cond" else if needEmpty && !s.stack.isEmpty then endErr else "ok"

end Gomjml.Spec
