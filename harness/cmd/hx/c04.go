package main

import (
	"encoding/hex"
	"fmt"
	"github.com/preslavrachev/gomjml/parser"
	"html"
	"regexp"
	"strings"

	"github.com/preslavrachev/gomjml/mjml"
)

// ===== C04: content fidelity — slot × placement × payload matrix, plus the layout documents =====================

type slotKind struct {
	name string
	// wrap returns the MJML of a component carrying `content` in this slot, and whether the slot lives in the head
	wrap func(content string) string
	head bool
}

func slotKinds() []slotKind {
	return []slotKind{
		{"text", func(c string) string { return "<mj-text>" + c + "</mj-text>" }, false},
		{"button", func(c string) string { return `<mj-button href="http://x/u">` + c + "</mj-button>" }, false},
		{"table-cell", func(c string) string { return "<mj-table><tr><td>" + c + "</td></tr></mj-table>" }, false},
		{"raw", func(c string) string { return "<mj-raw><div>" + c + "</div></mj-raw>" }, false},
		{"navbar-link", func(c string) string {
			return `<mj-navbar><mj-navbar-link href="/a">` + c + "</mj-navbar-link></mj-navbar>"
		}, false},
		{"social-element", func(c string) string {
			return `<mj-social><mj-social-element name="facebook" href="http://x/f">` + c + "</mj-social-element></mj-social>"
		}, false},
		{"accordion-title", func(c string) string {
			return "<mj-accordion><mj-accordion-element><mj-accordion-title>" + c + "</mj-accordion-title><mj-accordion-text>body</mj-accordion-text></mj-accordion-element></mj-accordion>"
		}, false},
		{"accordion-text", func(c string) string {
			return "<mj-accordion><mj-accordion-element><mj-accordion-title>title</mj-accordion-title><mj-accordion-text>" + c + "</mj-accordion-text></mj-accordion-element></mj-accordion>"
		}, false},
		// the same slots where a renderer might skip them: a social element without a known network (no icon), the first of two
		// titles / texts of an accordion element, raw content between the children of navbar / social / accordion / carousel
		{"social-element-no-icon", func(c string) string {
			return `<mj-social><mj-social-element name="nosuchnetwork" href="http://x/f">` + c + "</mj-social-element></mj-social>"
		}, false},
		{"social-element-vertical", func(c string) string {
			return `<mj-social mode="vertical"><mj-social-element name="facebook" href="http://x/f">` + c + "</mj-social-element></mj-social>"
		}, false},
		{"accordion-first-of-two-titles", func(c string) string {
			return "<mj-accordion><mj-accordion-element><mj-accordion-title>" + c + "</mj-accordion-title><mj-accordion-title>second</mj-accordion-title><mj-accordion-text>body</mj-accordion-text></mj-accordion-element></mj-accordion>"
		}, false},
		{"accordion-first-of-two-texts", func(c string) string {
			return "<mj-accordion><mj-accordion-element><mj-accordion-title>title</mj-accordion-title><mj-accordion-text>" + c + "</mj-accordion-text><mj-accordion-text>second</mj-accordion-text></mj-accordion-element></mj-accordion>"
		}, false},
		{"raw-in-navbar", func(c string) string {
			return `<mj-navbar><mj-navbar-link href="/a">a</mj-navbar-link><mj-raw><div>` + c + `</div></mj-raw><mj-navbar-link href="/b">b</mj-navbar-link></mj-navbar>`
		}, false},
		{"raw-in-social", func(c string) string {
			return `<mj-social><mj-social-element name="facebook">f</mj-social-element><mj-raw><div>` + c + `</div></mj-raw></mj-social>`
		}, false},
		{"raw-in-accordion", func(c string) string {
			return `<mj-accordion><mj-raw><div>` + c + `</div></mj-raw><mj-accordion-element><mj-accordion-title>t</mj-accordion-title></mj-accordion-element></mj-accordion>`
		}, false},
		{"raw-in-accordion-element", func(c string) string {
			return `<mj-accordion><mj-accordion-element><mj-accordion-title>t</mj-accordion-title><mj-raw><div>` + c + `</div></mj-raw><mj-accordion-text>x</mj-accordion-text></mj-accordion-element></mj-accordion>`
		}, false},
		{"title", func(c string) string { return "<mj-title>" + c + "</mj-title>" }, true},
		{"preview", func(c string) string { return "<mj-preview>" + c + "</mj-preview>" }, true},
	}
}

type placement struct {
	name string
	wrap func(comp string) string // body markup around one content component
}

func placements() []placement {
	filler := `<mj-section><mj-column><mj-text>filler</mj-text></mj-column></mj-section>`
	return []placement{
		{"column", func(c string) string { return "<mj-section><mj-column>" + c + "</mj-column></mj-section>" }},
		{"two-columns", func(c string) string {
			return "<mj-section><mj-column><mj-text>left</mj-text></mj-column><mj-column>" + c + "</mj-column></mj-section>"
		}},
		{"group", func(c string) string {
			return "<mj-section><mj-group><mj-column>" + c + "</mj-column><mj-column><mj-text>g2</mj-text></mj-column></mj-group></mj-section>"
		}},
		{"hero", func(c string) string { return "<mj-hero>" + c + "</mj-hero>" }},
		{"wrapper", func(c string) string {
			return "<mj-wrapper><mj-section><mj-column>" + c + "</mj-column></mj-section></mj-wrapper>"
		}},
		{"middle-of-three", func(c string) string {
			return filler + "<mj-section><mj-column>" + c + "</mj-column></mj-section>" + filler
		}},
		{"after-chaining-section", func(c string) string { return filler + "<mj-section><mj-column>" + c + "</mj-column></mj-section>" }},
		{"bg-section", func(c string) string {
			return `<mj-section background-url="http://x/b.png" background-color="#eeeeee"><mj-column>` + c + "</mj-column></mj-section>"
		}},
		{"full-width-section", func(c string) string {
			return `<mj-section full-width="full-width"><mj-column>` + c + "</mj-column></mj-section>"
		}},
	}
}

type payload struct {
	name string
	// text with sentinels S1E, S2E… in reading order; escaped = the author wrote markup as character data
	text    string
	nSent   int
	escaped string // the literal markup that must NOT appear as real markup in the output ("" = n/a)
	markup  bool   // author wrote inline markup (not meaningful for title/preview)
	// a piece of the source that must come out letter for letter: character data whose DECODED value looks like a character
	// reference (the author wrote &amp;lt; to show "&lt;") must be escaped again, not passed through for the client to decode
	verbatim string
}

func payloads() []payload {
	return []payload{
		{"plain", "S1E", 1, "", false, ""},
		{"inline-markup", "S1E <b>S2E</b> S3E", 3, "", true, ""},
		{"nested-markup", "<span>S1E <i>S2E</i></span>", 2, "", true, ""},
		// every arrangement of text runs and inline elements, written compactly (no white space between a start tag and the first
		// child, so the content has exactly the runs shown): a renderer that rebuilds the content from "the text" and "the children"
		// instead of walking the parts in order puts a lone text run in front of the elements
		{"elem-then-text", "<b>S1E</b> S2E", 2, "", true, ""},
		{"elem-text-elem", "<b>S1E</b> S2E <i>S3E</i>", 3, "", true, ""},
		{"two-elems-then-text", "<b>S1E</b><i>S2E</i> S3E", 3, "", true, ""},
		{"elem-text-elem-text", "<b>S1E</b> S2E <i>S3E</i> S4E", 4, "", true, ""},
		{"text-two-elems", "S1E <b>S2E</b><i>S3E</i>", 3, "", true, ""},
		{"nested-elem-then-text", "<span><b>S1E</b> S2E</span> S3E", 3, "", true, ""},
		{"elem-only", "<b>S1E</b>", 1, "", true, ""},
		{"two-elems", "<b>S1E</b><i>S2E</i>", 2, "", true, ""},
		{"link-then-text", `<a href="http://x/t">S1E</a> S2E S3E`, 3, "", true, ""},
		// characters that mean something to a formatter: a content string must never be used as a format string
		{"percent-signs", "S1E 100% cotton, up to 50% S2E", 2, "", false, "100% cotton, up to 50%"},
		{"percent-at-end", "S1E S2E up to 50%", 2, "", false, "up to 50%"},
		{"format-directives", "S1E %s %d %v %[1]s %% %!x(MISSING) S2E %", 2, "", false, "%s %d %v %[1]s %% %!x(MISSING)"},
		// character data that reaches the parser in several pieces: a comment or an author-written CDATA section in the middle of
		// the text, CDATA followed by a line break (an error is an acceptable outcome where the XML layer refuses the construct)
		{"comment-inside", "S1E <!-- note --> S2E", 2, "", false, ""},
		{"two-comments-inside", "<!-- a -->S1E<!-- b --> S2E <!-- c -->", 2, "", false, ""},
		{"cdata-inside", "S1E <![CDATA[S2E <now> &]]> S3E", 3, "<now>", false, ""},
		{"cdata-then-newline", "<![CDATA[S1E & S2E]]>\n", 2, "", false, ""},
		{"cdata-only", "<![CDATA[S1E]]>", 1, "", false, ""},
		// white space that is not collapsible in HTML (ideographic space, em space, narrow no-break space) INSIDE the text: content
		{"unicode-spaces-inside", "S1E\u3000\u3000S2E\u2003S3E\u202fx", 3, "", false, "S1E\u3000\u3000S2E\u2003S3E\u202fx"},
		// a CDATA section FIRST and ordinary character data behind it: the escapes behind it are character data like anywhere else
		{"cdata-first-then-escaped-markup", "<![CDATA[S1E]]> &lt;u&gt;S2E&lt;/u&gt; S3E", 3, "<u>S2E</u>", false, ""},
		// … and between TWO sections of the author's (the content starts and ends with one)
		{"escaped-markup-between-two-cdata", "<![CDATA[S1E]]> &lt;u&gt;S2E&lt;/u&gt; &amp;lt; <![CDATA[S3E]]>", 3, "<u>S2E</u>", false, "&amp;lt;"},
		{"cdata-first-then-amp-entity", "<![CDATA[S1E]]> S2E &amp;lt; &amp;amp; S3E", 3, "", false, "&amp;lt; &amp;amp;"},
		{"link", `S1E <a href="http://x/l?a=1&amp;b=2">S2E</a>`, 2, "", true, ""},
		{"escaped-markup", "&lt;b&gt;S1E&lt;/b&gt;", 1, "<b>S1E</b>", false, ""},
		{"numeric-lt", "S1E &#60;i&#62;S2E", 2, "<i>S2E", false, ""},
		// character data that LOOKS like a comment (escaped, numeric references, inside CDATA): it is text, all of it
		{"escaped-comment", "S1E &lt;!-- S2E --&gt; S3E", 3, "<!-- S2E -->", false, ""},
		{"numeric-comment", "S1E &#60;!-- S2E --&#62; S3E", 3, "<!-- S2E -->", false, ""},
		{"cdata-comment", "S1E <![CDATA[<!-- S2E -->]]> S3E", 3, "<!-- S2E -->", false, ""},
		{"escaped-comment-opener-only", "S1E &lt;!-- S2E S3E", 3, "<!-- S2E", false, ""},
		// escaped markup written INSIDE an inline element (a leaf element, an element next to others, two levels down): the inner
		// text is character data like any other
		{"escaped-inside-inline", "<b>&lt;i&gt;S1E&lt;/i&gt;</b> S2E", 2, "<i>S1E</i>", true, ""},
		{"escaped-inside-inline-only", "<b>&lt;u&gt;S1E&lt;/u&gt;</b>", 1, "<u>S1E</u>", true, ""},
		{"escaped-inside-nested-inline", "S1E <span><i>&lt;em&gt;S2E&lt;/em&gt; &amp;amp;lt;</i> x</span>", 2, "<em>S2E</em>", true, "&amp;amp;lt;"},
		{"amp-entity-inside-inline", "<b>S1E &amp;copy; &amp;amp; S2E</b>", 2, "", true, "&amp;copy; &amp;amp;"},
		{"hex-lt", "S1E &#x3c;u&#x3e;S2E", 2, "<u>S2E", false, ""},
		{"amp-entity", "S1E &amp; S2E", 2, "", false, ""},
		{"named-entities", "S1E &nbsp;&copy;&eacute; S2E", 2, "", false, ""},
		{"quotes", `S1E "q" 'a' S2E`, 2, "", false, ""},
		{"br", "S1E<br/>S2E", 2, "", true, ""},
		// letters whose case-folded form has another byte length (İ, Kelvin sign, ẞ, Ω), CJK, an astral character: a byte offset
		// computed on a folded copy of the document would cut the content short
		{"non-ascii", "İstanbul İİ S1E \u212a \u2126 \u1e9e 日本語 😀 S2E", 2, "", false, ""},
		{"non-ascii-one", "S1E İstanbul S2E", 2, "", false, ""},
		{"amp-then-entity-name", "S1E &amp;lt;b&amp;gt; &amp;nbsp; &amp;amp; &amp;copy; S2E", 2, "", false, "&amp;lt;b&amp;gt; &amp;nbsp; &amp;amp; &amp;copy;"},
		{"amp-then-numeric", "S1E &amp;#60;i&amp;#62; &amp;#x3c; &amp;#160; S2E", 2, "", false, "&amp;#60;i&amp;#62; &amp;#x3c; &amp;#160;"},
	}
}

var sentRe = regexp.MustCompile(`S(\d+)E`)

func runC04(res *Result, tier string, seed int64, replay string) {
	res.Rule = "(1f) the text of mj-text: seeded valid-UTF-8 texts (every kind of white space incl. Unicode spaces that are NOT collapsed, no-break spaces, references, inline markup, void tags) through MJTextComponent.buildRawInnerHTML (verif export) vs the Lean Model TextFlow.textInner (driver `textflow`), byte for byte; the void-tag normaliser that follows (normalizeVoidHTMLTags: fragments made of void tags in every spelling, look-alike names, the runes Go folds into k and s, <br> with blanks around) vs TextVoid.normalize (driver `textvoid`); (1e) inline content written back: seeded inline content (text runs with every kind of reference, CDATA, comments, white space and no-break spaces at the edges; nested inline elements, void elements in both spellings and letter cases, attributes with quotes / angle brackets / ampersands, empty values) inside mj-button / mj-navbar-link / mj-social-element / mj-accordion-title / -text, parsed by the real parser; (*MJMLNode).GetMixedContent compared byte for byte with the Lean Model Mixed.content on the parsed tree (driver `mixed`), and the round-trip theorem executed on every well-formed tree; (1d) EXHAUSTIVE: every content-like attribute the allowed-attribute table accepts with type string (addresses, alternative and tool-tip texts, names, link attributes), on every component in its legal context, with a distinctive value: the value must occur in the output (an accepted attribute that is read nowhere is content lost without an error); (1c) attribute content, EXHAUSTIVE: 16 attribute slots (alt / title / href / src of image, carousel image, button, navbar link, social element) × 13 text values or 6 addresses (percent signs, format directives, placeholders, every spelling of ampersands / quotes / angle brackets, non-ASCII): the output equals the output of a plain reference value with the value put in its place, character references decoded once; (1) content matrix, EXHAUSTIVE: 18 content slots (text, button, table cell, raw, navbar link, social element — horizontal, vertical, without a known network —, accordion title / text — also the first of two —, raw content between the children of navbar / social / accordion / accordion element (where MJML allows mj-raw), title, preview) × 9 placements (column, second column, group, hero, wrapper, middle of three sections, after a chaining section, background-image section, full-width section) × 32 payloads (plain, text interrupted by comments or by author-written CDATA sections, percent signs and format directives (also as the last character), inline / nested markup, every compact arrangement of text runs and inline elements (element first, lone text run behind / between elements, elements only), link with &amp;, escaped markup &lt;b&gt;, numeric and hex character references for '<', &amp;, HTML named entities, quotes, <br/>, non-ASCII letters whose case folding changes their byte length, character data whose decoded value looks like a character reference), unique sentinels in reading order; + size payloads in every slot (one unbroken 70 KB token, 70 KB of white space or line breaks, 300 KB of words, 72 KB of CJK text, a 96 KB data URI inside markup); the Lean oracle on the real bytes says which sentinels standard clients see (in order) and which sit only in Outlook blocks; escaped markup must not come out as markup; a document that loses content must return an error. (2) the layout documents of C02/C03 with a sentinel in every slot. Non-trivial = every cell; distinct by (slot, placement, payload)"
	drv, err := startDriverPool(12)
	if err != nil {
		res.Disagree(Violation{Sig: "driver-missing", What: err.Error()})
		return
	}
	defer drv.Close()
	type cell struct {
		s  slotKind
		p  placement
		pl payload
	}
	var cells []cell
	for _, s := range slotKinds() {
		for _, p := range placements() {
			for _, pl := range payloads() {
				if s.head && (p.name != "column" || pl.markup) {
					continue // head slots do not depend on the body placement and hold text only
				}
				if pl.name == "cdata-comment" && (s.name == "text" || s.name == "raw" || strings.HasPrefix(s.name, "raw-in-")) {
					continue // in the raw-HTML slots the content of an author's CDATA section is markup: this one is a real comment
				}
				cells = append(cells, cell{s, p, pl})
			}
		}
	}
	// size: content far larger than any internal buffer or token limit (64 KiB scanners, 4 KiB read buffers): one unbroken token,
	// one run of white space, a long data URI inside markup, many short words — in every slot, in the plain column placement
	if replay == "" {
		big := map[string]string{
			"token-70k":       "S1E " + strings.Repeat("x", 70000) + " S2E",
			"spaces-70k":      "S1E" + strings.Repeat(" ", 70000) + "S2E",
			"words-300k":      "S1E " + strings.Repeat("lorem ipsum ", 25000) + "S2E",
			"cjk-72k":         "S1E" + strings.Repeat("日本語", 8000) + "S2E",
			"token-4097":      "S1E " + strings.Repeat("y", 4097) + " S2E",
			"newlines-70k":    "S1E" + strings.Repeat("\n", 70000) + "S2E",
			"data-uri-markup": `S1E <img src="data:image/png;base64,` + strings.Repeat("QUJD", 24000) + `"/> S2E`,
		}
		for _, sl := range slotKinds() {
			for name, text := range big {
				if sl.head && name == "data-uri-markup" {
					continue
				}
				pl := payload{name: "size:" + name, text: text, nSent: 2, markup: name == "data-uri-markup"}
				cells = append(cells, cell{sl, placements()[0], pl})
			}
		}
	}
	if replay != "" {
		in := replayRaw(replay)
		src, _ := in["source"].(string)
		html, rerr := mjml.Render(src)
		o, _ := askOracle(drv, html)
		res.Case(src, true)
		res.Note("replay: err=%v seen=%v hidden=%v", rerr, o.seen, o.hidden)
		want := sentRe.FindAllStringSubmatch(src, -1)
		if rerr == nil && len(o.seen) != len(want) {
			res.Violate(Violation{Sig: fmt.Sprint(in["signature"]), Kind: "cell", What: "replayed document still loses, hides or duplicates content", Input: in})
		}
		return
	}
	res.Exhaustive = true
	parallel(12, len(cells), func(i int) {
		c := cells[i]
		comp := c.s.wrap(c.pl.text)
		var src string
		if c.s.head {
			src = "<mjml><mj-head>" + comp + "</mj-head><mj-body><mj-section><mj-column><mj-text>body</mj-text></mj-column></mj-section></mj-body></mjml>"
		} else {
			src = "<mjml><mj-body>" + c.p.wrap(comp) + "</mj-body></mjml>"
		}
		key := c.s.name + "/" + c.p.name + "/" + c.pl.name
		res.Case(key, true)
		res.Count("slot=" + c.s.name)
		var html string
		var rerr error
		if p := safely(func() { html, rerr = mjml.Render(src) }); p != nil {
			res.Violate(Violation{Sig: "panic|" + key, Kind: "cell", What: fmt.Sprint(p), Input: map[string]string{"source": src}})
			return
		}
		if i%97 == 0 {
			res.Sample(map[string]string{"cell": key, "source": short(src, 260)})
		}
		if rerr != nil {
			res.Count("outcome=error")
			return // "rendered or an error is returned": an error is acceptable for C04
		}
		o, oerr := askOracle(drv, html)
		if oerr != nil {
			res.Disagree(Violation{Sig: "oracle-failed", What: oerr.Error()})
			return
		}
		res.mu.Lock()
		res.Programs++
		res.DisagreementsChecked++
		res.mu.Unlock()
		var want []string
		for k := 1; k <= c.pl.nSent; k++ {
			want = append(want, fmt.Sprint(k))
		}
		clause := ""
		seen := map[string]int{}
		for _, s := range o.seen {
			seen[s]++
		}
		hidden := map[string]bool{}
		for _, s := range o.hidden {
			hidden[s] = true
		}
		switch {
		case strings.Join(o.seen, ",") == strings.Join(want, ",") && len(o.hidden) == 0:
		default:
			for _, w := range want {
				switch {
				case seen[w] == 0 && hidden[w]:
					clause = "content-in-mso"
				case seen[w] == 0 && clause == "":
					clause = "content-missing"
				case seen[w] > 1 && clause == "":
					clause = "content-duplicated"
				}
			}
			if clause == "" && len(o.hidden) > 0 {
				clause = "content-also-in-mso"
			}
			if clause == "" {
				clause = "content-order"
			}
		}
		// (in the raw-HTML slots — mj-text, mj-raw — an author-written CDATA section is author markup like any other: what it
		// contains is copied, not escaped)
		rawHTMLSlot := c.s.name == "text" || c.s.name == "raw" || strings.HasPrefix(c.s.name, "raw-in-")
		if clause == "" && c.pl.escaped != "" && strings.Contains(html, c.pl.escaped) && !(rawHTMLSlot && strings.HasPrefix(c.pl.name, "cdata")) {
			clause = "chardata-became-markup"
		}
		// (the preview text is normalised as a whole — runs of any white space become one blank — before it is hidden in the
		// body: the white-space payload does not apply to it)
		if clause == "" && c.pl.verbatim != "" && !strings.Contains(html, c.pl.verbatim) && !(c.s.name == "preview" && c.pl.name == "unicode-spaces-inside") {
			clause = "chardata-decoded-twice"
		}
		if clause == "" && c.pl.markup && !c.s.head {
			// author markup must still be markup: the tag around S2E survives
			if c.pl.name == "inline-markup" && !strings.Contains(html, "<b>S2E</b>") {
				clause = "markup-lost"
			}
		}
		res.Count("clause=" + func() string {
			if clause == "" {
				return "holds"
			}
			return clause
		}())
		if clause != "" {
			// the content pipeline of a slot does not depend on where the component stands: one signature per
			// (slot, payload, clause); the placement is in the message and the replay
			sig := c.s.name + "/" + c.pl.name + "|" + clause
			res.Violate(Violation{Sig: sig, Kind: "cell", What: fmt.Sprintf("slot %s in %s with payload %s: %s (standard view sees %v, Outlook-only %v, want %v)", c.s.name, c.p.name, c.pl.name, clause, o.seen, o.hidden, want),
				Input: map[string]string{"source": src, "signature": sig}})
		}
	})
	// (1b) the escaping of decoded character data: real parser.EscapeCharData against the Lean model (driver `cdata`), and the
	// round trip the theorem states (decoding once gives the text back) evaluated on the real bytes too
	{
		texts := []string{"", "plain", "<b>x</b>", "a & b", "&lt;b&gt;", "&amp;nbsp;", "&#60;", "&&&", "<<>>", "a&b<c>d&", "&amp;amp;lt;", "日本語 & <é>", "\x00&\xff<", "]]>", "&amp", "&lt", "& lt;"}
		alphabet := []string{"&", "<", ">", ";", "amp", "lt", "gt", "#60", "nbsp", "a", " ", "&amp;", "&lt;", "&gt;", "é", "\n"}
		for i, n := 0, 400; i < n; i++ {
			r := NewRng(seed, fmt.Sprintf("c04/cdata/%d", i))
			var b strings.Builder
			for j, m := 0, r.Intn(14); j < m; j++ {
				b.WriteString(r.Pick(alphabet))
			}
			texts = append(texts, b.String())
		}
		for _, t := range texts {
			real := parser.EscapeCharData(t)
			line, derr := drv.Ask("cdata x" + hex.EncodeToString([]byte(t)))
			parts := strings.Fields(line)
			res.Case("cdata|"+t, true)
			res.mu.Lock()
			res.Programs++
			res.DisagreementsChecked++
			res.mu.Unlock()
			if derr != nil || len(parts) != 2 {
				res.Disagree(Violation{Sig: "driver-failed|cdata", What: fmt.Sprint(derr, " ", short(line, 80))})
				continue
			}
			if "x"+hex.EncodeToString([]byte(real)) != parts[0] {
				res.Disagree(Violation{Sig: "chardata-model-mismatch", Kind: "input", What: fmt.Sprintf("EscapeCharData(%q) = %q, the Lean model says %s", t, real, parts[0]), Input: map[string]string{"text": t}})
				continue
			}
			if parts[1] != "x"+hex.EncodeToString([]byte(t)) || html.UnescapeString(real) != t {
				res.Violate(Violation{Sig: "chardata-roundtrip", Kind: "input", What: fmt.Sprintf("decoding EscapeCharData(%q) once does not give the text back", t), Input: map[string]string{"text": t}})
			}
		}
	}
	// (1c) content that travels through attributes
	if replay == "" {
		runC04Attrs(res, drv)
		runC04Mixed(res, drv, tier, seed)
		runC04TextFlow(res, drv, tier, seed)
		runC04TextVoid(res, drv, tier, seed)
		runC04Deliver(res, drv, tier, seed)
		runC04StringAttrs(res)
	}
	// (2) layout documents
	runLayoutProp("C04")(res, tier, seed, "")
	res.Rule = strings.Replace(res.Rule, "(2) the layout documents of C02/C03 with a sentinel in every slot", "(2) "+layoutRule(), 1)
}

func init() { register("C04", runC04) }
