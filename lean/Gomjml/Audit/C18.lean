import Gomjml.Props.C18
#print axioms Gomjml.Props.C18.C18_tree_sound
#print axioms Gomjml.Props.C18.C18_entities_identity
#print axioms Gomjml.Props.C18.C18_amp_outside_quotes
#print axioms Gomjml.Props.C18.C18_amp_identity
#print axioms Gomjml.Props.C18.C18_cdata_roundtrip
#print axioms Gomjml.Props.C18.C18_strip_whitespace
#print axioms Gomjml.Props.C18.C18_xml_escapes_left_alone
#print axioms Gomjml.Props.C18.C18_prolog_ignored
#print axioms Gomjml.Props.C18.C18_bare_amp_like_escaped
#print axioms Gomjml.Props.C18.C18_named_entity_replaced
#print axioms Gomjml.Props.C18.C18_named_entities_are_their_characters
#print axioms Gomjml.Props.C18.C18_tree_complete
#print axioms Gomjml.Props.C18.C18_non_markup_verbatim
#print axioms Gomjml.Props.C18.C18_entities_not_in_non_markup
