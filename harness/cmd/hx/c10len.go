package main

import (
	"encoding/hex"
	"fmt"
	"math"
	"strconv"
	"strings"

	"github.com/preslavrachev/gomjml/mjml/styles"
)

// ===== C10: where an authored length becomes a number — styles.ParseHorizontalSpacing / ParsePixel / ParseBorderWidth and
// strings.Fields against the Lean Model (Core/Lengths.lean, driver `len`) ================================================
//
// The width Model starts from integers; this is the step in front of it.  Strings are made of what a length may be written
// with: digits, points, signs, units in both cases, exponents, every kind of white space (ASCII and Unicode) in every place.
// Where the Model's number grammar (plain decimals) does not cover a value, only "does not crash" is checked.

var lenPieces = []string{"0", "5", "10", "20", "25", "100", "007", "3", ".", ".5", "5.", "20.0", "12.5", "px", "px", "px", "PX", "Px", "%", "em", "pt", "e1", "E2", "+", "-", "--", " ", " ", " ", "  ", "\t", "\n", "\r\n", "\v", "\f",
	" ", " ", "　", "\u0085", "\xc2", "\xe2\x80", "auto", "inf", "NaN", "0x10", "1_0", ",", ";", "solid", "dashed", "#000", "red", "thin", "1e400", "99999999999999999999"}

func decVal(f []string) (float64, bool) {
	if len(f) != 3 {
		return 0, false
	}
	m, err1 := strconv.ParseUint(f[1], 10, 64)
	k, err2 := strconv.Atoi(f[2])
	if err1 != nil || err2 != nil || m >= 1<<53 || k > 22 {
		return 0, false
	}
	v := float64(m) / math.Pow10(k)
	if f[0] == "1" {
		v = -v
	}
	return v, true
}

func runC10Lengths(res *Result, drv *DriverPool, tier string, seed int64) {
	n := 3000
	if tier == "thorough" {
		n = 60000
	}
	var texts []string
	for _, t := range []string{"", " ", "10px", "10px 20px", "10px 20px 30px", "10px 20px 30px 40px", "1 2 3 4 5", "10px\t20px", " 10px  20px ", "10 20", "20.0px", "0 20.5px", "-5px", "+5px", "5.px", ".5px", "px", "10 px",
		"10px 20px", "10px 20px", "1px solid #000", "  2px   dashed red", "solid 1px", "thin solid", "1.9px solid", "1e1px", "10PX"} {
		texts = append(texts, t)
	}
	for i := 0; i < n; i++ {
		r := NewRng(seed, fmt.Sprintf("c10/len/%d", i))
		var b strings.Builder
		if r.Bool(2, 3) {
			// shorthand-shaped: one to five values, mostly plain decimals with or without a unit, separated by white space of
			// every kind
			ws := func() string {
				return r.Pick([]string{" ", " ", " ", "  ", "\t", "\n", " \r\n ", "\v", "\f", "\u00a0", "\u2003", "\u3000", "\u0085"})
			}
			if r.Bool(1, 4) {
				b.WriteString(ws())
			}
			for j, k := 0, 1+r.Intn(5); j < k; j++ {
				if j > 0 {
					b.WriteString(ws())
				}
				b.WriteString(r.Pick([]string{"", "", "", "-", "+"}))
				b.WriteString(r.Pick([]string{"0", "5", "10", "20", "25", "100", "007", "12", "3", ""}))
				b.WriteString(r.Pick([]string{"", "", "", ".0", ".5", ".", ".25", ".125"}))
				b.WriteString(r.Pick([]string{"px", "px", "px", "", "", "PX", "%", "e1", "pxpx", " px"}))
			}
			if r.Bool(1, 4) {
				b.WriteString(ws())
			}
		} else {
			for j, k := 0, r.Intn(9); j < k; j++ {
				b.WriteString(r.Pick(lenPieces))
			}
		}
		texts = append(texts, b.String())
	}
	parallel(8, len(texts), func(i int) {
		t := texts[i]
		hx := hex.EncodeToString([]byte(t))
		ask := func(what string) (string, bool) {
			line, err := drv.Ask("len " + what + " " + hx)
			res.mu.Lock()
			res.Programs++
			res.DisagreementsChecked++
			res.mu.Unlock()
			if err != nil {
				res.Disagree(Violation{Sig: "driver-failed|len", Kind: "input", What: err.Error(), Input: map[string]string{"text": t}})
				return "", false
			}
			return line, true
		}
		in := map[string]string{"text": t}
		res.Case("len|"+t, strings.ContainsAny(t, "0123456789"))
		// strings.Fields
		var fs []string
		for _, f := range strings.Fields(t) {
			fs = append(fs, hex.EncodeToString([]byte(f)))
		}
		want := strings.Join(fs, ",")
		if want == "" {
			want = "-"
		}
		if got, ok := ask("fields"); ok && got != want {
			res.Disagree(Violation{Sig: "length-model-mismatch|fields", Kind: "input", What: fmt.Sprintf("strings.Fields(%q): implementation %s, Model %s", t, want, got), Input: in})
		}
		// ParseHorizontalSpacing
		var l, rr float64
		var okReal bool
		if p := safely(func() { l, rr, okReal = styles.ParseHorizontalSpacing(t) }); p != nil {
			res.Violate(Violation{Sig: "panic|ParseHorizontalSpacing", Kind: "input", What: fmt.Sprint("ParseHorizontalSpacing panicked: ", p), Input: in})
			return
		}
		if got, ok := ask("hsp"); ok {
			f := strings.Fields(got)
			switch {
			case got == "reject":
				res.Count("hsp=not-a-shorthand")
				if okReal {
					res.Disagree(Violation{Sig: "length-model-mismatch|hsp", Kind: "input", What: fmt.Sprintf("ParseHorizontalSpacing(%q) accepts (%v, %v); the Model: not one to four values", t, l, rr), Input: in})
				}
			case got == "none":
				res.Count("hsp=outside-number-grammar")
			case len(f) == 6:
				ml, ok1 := decVal(f[:3])
				mr, ok2 := decVal(f[3:])
				if !ok1 || !ok2 {
					res.Count("hsp=outside-number-grammar")
					break
				}
				res.Count("hsp=pair")
				if !okReal || l != ml || rr != mr {
					res.Disagree(Violation{Sig: "length-model-mismatch|hsp", Kind: "input", What: fmt.Sprintf("ParseHorizontalSpacing(%q) = (%v, %v, %v); the Model: (%v, %v)", t, l, rr, okReal, ml, mr), Input: in})
				}
			}
		}
		// ParsePixel, ParseBorderWidth
		var px *styles.Pixel
		var perr error
		var bw int
		if p := safely(func() { px, perr = styles.ParsePixel(t); bw = styles.ParseBorderWidth(t) }); p != nil {
			res.Violate(Violation{Sig: "panic|ParsePixel", Kind: "input", What: fmt.Sprint("ParsePixel / ParseBorderWidth panicked: ", p), Input: in})
			return
		}
		if got, ok := ask("px"); ok && got != "none" {
			if mv, okv := decVal(strings.Fields(got)); okv && (perr != nil || px == nil || px.Value != mv) {
				res.Disagree(Violation{Sig: "length-model-mismatch|px", Kind: "input", What: fmt.Sprintf("ParsePixel(%q) = %v, %v; the Model: %v", t, px, perr, mv), Input: in})
			}
		}
		// ParseSpacing (one, two or four values)
		var sp *styles.Spacing
		var sperr error
		if p := safely(func() { sp, sperr = styles.ParseSpacing(t) }); p != nil {
			res.Violate(Violation{Sig: "panic|ParseSpacing", Kind: "input", What: fmt.Sprint("ParseSpacing panicked: ", p), Input: in})
			return
		}
		if got, ok := ask("sp"); ok {
			f := strings.Fields(got)
			switch {
			case got == "empty":
				if sp != nil || sperr != nil {
					res.Disagree(Violation{Sig: "length-model-mismatch|sp", Kind: "input", What: fmt.Sprintf("ParseSpacing(%q) = %v, %v; the Model: no value, no error", t, sp, sperr), Input: in})
				}
			case got == "reject":
				res.Count("sp=not-1-2-4-values")
				if sperr == nil {
					res.Disagree(Violation{Sig: "length-model-mismatch|sp", Kind: "input", What: fmt.Sprintf("ParseSpacing(%q) = %v without error; the Model: not one, two or four values", t, sp), Input: in})
				}
			case len(f) == 12:
				var mv [4]float64
				all := true
				for k := 0; k < 4; k++ {
					v, okv := decVal(f[3*k : 3*k+3])
					mv[k], all = v, all && okv
				}
				if !all {
					break
				}
				res.Count("sp=four-sides")
				if sperr != nil || sp == nil || sp.Top != mv[0] || sp.Right != mv[1] || sp.Bottom != mv[2] || sp.Left != mv[3] {
					res.Disagree(Violation{Sig: "length-model-mismatch|sp", Kind: "input", What: fmt.Sprintf("ParseSpacing(%q) = %v, %v; the Model: %v", t, sp, sperr, mv), Input: in})
				}
			}
		}
		if got, ok := ask("bw"); ok && got != "none" {
			if mv, okv := decVal(strings.Fields(got)); okv && bw != int(mv) {
				res.Disagree(Violation{Sig: "length-model-mismatch|bw", Kind: "input", What: fmt.Sprintf("ParseBorderWidth(%q) = %d; the Model: int(%v)", t, bw, mv), Input: in})
			}
		}
	})
}
