namespace Gomjml.Frame
/-! Prototype for C07 / C16: a frame theorem for a tiny shared-memory calculus.
    Threads are lists of actions; locations are numbered; a *region* is a predicate on locations.
    If no action of any thread writes into region `R`, then under every schedule (1) `R` is unchanged and
    (2) every value any thread reads from `R` is the initial one — hence what a thread observes of `R`
    is what it would observe running alone. -/

abbrev Loc := Nat
abbrev Val := Nat

inductive Act
  | read (l : Loc)
  | write (l : Loc) (v : Val)
  | localStep
deriving Repr

structure Sys where
  mem : Loc → Val
  progs : Nat → List Act                 -- remaining program of each thread
  trace : Nat → List (Loc × Val)         -- what each thread has read so far (most recent first)

def stepT (s : Sys) (t : Nat) : Sys :=
  match s.progs t with
  | [] => s
  | a :: r =>
    let progs' := fun u => if u = t then r else s.progs u
    match a with
    | .read l => { s with progs := progs', trace := fun u => if u = t then (l, s.mem l) :: s.trace u else s.trace u }
    | .write l v => { s with progs := progs', mem := fun x => if x = l then v else s.mem x }
    | .localStep => { s with progs := progs' }

def run (s : Sys) : List Nat → Sys
  | [] => s
  | t :: σ => run (stepT s t) σ

def writesOutside (R : Loc → Prop) (p : List Act) : Prop := ∀ l v, Act.write l v ∈ p → ¬ R l

theorem frame (R : Loc → Prop) (m0 : Loc → Val) :
    ∀ (σ : List Nat) (s : Sys),
      (∀ t, writesOutside R (s.progs t)) → (∀ l, R l → s.mem l = m0 l) →
      (∀ t l v, (l, v) ∈ s.trace t → R l → v = m0 l) →
      (∀ l, R l → (run s σ).mem l = m0 l) ∧ (∀ t l v, (l, v) ∈ (run s σ).trace t → R l → v = m0 l) := by
  intro σ
  induction σ with
  | nil => intro s _ hm ht; exact ⟨hm, ht⟩
  | cons t σ ih =>
    intro s hw hm ht
    simp only [run]
    apply ih
    · -- remaining programs still write outside R
      intro u l v hin
      unfold stepT at hin
      cases hp : s.progs t with
      | nil => simp [hp] at hin; exact hw u l v hin
      | cons a r =>
        have hsub : ∀ x, x ∈ r → x ∈ s.progs t := by intro x hx; rw [hp]; exact List.mem_cons_of_mem _ hx
        cases a <;> simp [hp] at hin <;>
          (by_cases hu : u = t
           · subst hu; simp at hin; exact hw u l v (hsub _ hin)
           · simp [hu] at hin; exact hw u l v hin)
    · -- memory in R unchanged
      intro l hl
      unfold stepT
      cases hp : s.progs t with
      | nil => simpa [hp] using hm l hl
      | cons a r =>
        cases a with
        | read l' => simpa [hp] using hm l hl
        | localStep => simpa [hp] using hm l hl
        | write l' v =>
          simp only [hp]
          have hne : l ≠ l' := by
            intro e; subst e
            exact hw t l v (by rw [hp]; exact List.mem_cons_self) hl
          simpa [hne] using hm l hl
    · -- reads of R return initial values
      intro u l v hin hl
      unfold stepT at hin
      cases hp : s.progs t with
      | nil => simp [hp] at hin; exact ht u l v hin hl
      | cons a r =>
        cases a with
        | write l' v' => simp [hp] at hin; exact ht u l v hin hl
        | localStep => simp [hp] at hin; exact ht u l v hin hl
        | read l' =>
          simp only [hp] at hin
          by_cases hu : u = t
          · subst hu
            simp at hin
            rcases hin with ⟨rfl, rfl⟩ | hin
            · exact hm l hl
            · exact ht u l v hin hl
          · simp [hu] at hin; exact ht u l v hin hl

end Gomjml.Frame
