import Gomjml.Props.C07
#print axioms Gomjml.Props.C07.C07_shared_writers_partial
#print axioms Gomjml.Props.C07.C07_isolated
