package main

import (
	"encoding/json"
	"os"
)

// replayInput extracts the "source" of a replay file written by ./check.
func replayInput(path string) (string, bool) {
	b, err := os.ReadFile(path)
	if err != nil {
		return "", false
	}
	var v struct {
		Input map[string]interface{} `json:"input"`
	}
	if json.Unmarshal(b, &v) != nil {
		return "", false
	}
	if s, ok := v.Input["source"].(string); ok {
		return s, true
	}
	return "", false
}

func replayRaw(path string) map[string]interface{} {
	b, err := os.ReadFile(path)
	if err != nil {
		return nil
	}
	var v struct {
		Input map[string]interface{} `json:"input"`
	}
	if json.Unmarshal(b, &v) != nil {
		return nil
	}
	return v.Input
}
