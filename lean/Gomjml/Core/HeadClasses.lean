/-! Responsive column classes (C11): the width a class name encodes, and the agreement of the head pre-pass
    (`collectColumnClassesFromComponent`) with what the body renderers emit. -/
namespace Gomjml.HeadClasses

/-- `generateDecimalCSSClass` / `GetColumnClass`: the decimal spelling of the percentage with '.' replaced by '-' -/
def encode (digits : List Char) : List Char := digits.map (fun ch => if ch = '.' then '-' else ch)
/-- the width a class name stands for: '-' back to '.' -/
def decode (name : List Char) : List Char := name.map (fun ch => if ch = '-' then '.' else ch)

/-- **the rule's width is the one encoded in the class name**: decoding the name gives back the number it was made from
    (a decimal spelling never contains '-') -/
theorem decode_encode (digits : List Char) (h : ∀ ch ∈ digits, ch ≠ '-') : decode (encode digits) = digits := by
  induction digits with
  | nil => rfl
  | cons d r ih =>
    have hd : d ≠ '-' := h d (by simp)
    simp only [encode, decode, List.map_cons, List.map_map] at ih ⊢
    congr 1
    · by_cases hdot : d = '.'
      · subst hdot; decide
      · simp [hdot, hd]
    · exact ih (fun x hx => h x (by simp [hx]))

/-- how a width attribute is spelled -/
inductive Width
  | px (n : Nat)
  | pct (digits : List Char)
  | other                       -- absent or anything else
deriving Repr, DecidableEq

/-- (class kind, payload): what both sites compute for an mj-group -/
inductive Cls
  | px (n : Nat)
  | per (name : List Char)
deriving Repr, DecidableEq

/-- the head pre-pass (after the fix: `MJGroupComponent.GetWidthClass`) -/
def groupClassHead : Width → Cls
  | .px n => .px n
  | .pct d => .per (encode d)
  | .other => .per ['1', '0', '0']

/-- the group's own `Render` -/
def groupClassBody : Width → Cls
  | .px n => .px n
  | .pct d => .per (encode d)
  | .other => .per ['1', '0', '0']

theorem group_head_eq_body (w : Width) : groupClassHead w = groupClassBody w := by cases w <;> rfl

/-- documents as far as column classes are concerned -/
inductive SecKid
  | col (c : Cls)
  | group (w : Width) (cols : List Cls)
  | raw
inductive Blk
  | sec (kids : List SecKid)
  | wrap (secs : List (List SecKid))
  | hero
  | raw

def kidHead : SecKid → List Cls
  | .col c => [c]
  | .group w cols => groupClassHead w :: cols
  | .raw => []
def kidBody : SecKid → List Cls
  | .col c => [c]
  | .group w cols => groupClassBody w :: cols
  | .raw => []

def blkHead : Blk → List Cls
  | .sec ks => ks.flatMap kidHead
  | .wrap ss => ss.flatMap (fun ks => ks.flatMap kidHead)
  | _ => []
def blkBody : Blk → List Cls
  | .sec ks => ks.flatMap kidBody
  | .wrap ss => ss.flatMap (fun ks => ks.flatMap kidBody)
  | _ => []

theorem kid_eq (k : SecKid) : kidHead k = kidBody k := by cases k <;> simp [kidHead, kidBody, group_head_eq_body]

/-- **the head registers exactly the classes the body uses**, in the same order, for every document -/
theorem head_eq_body (bs : List Blk) : bs.flatMap blkHead = bs.flatMap blkBody := by
  have hk : kidHead = kidBody := funext kid_eq
  have hb : blkHead = blkBody := by
    funext b; cases b <;> simp [blkHead, blkBody, hk]
  rw [hb]

end Gomjml.HeadClasses
