import Gomjml.Props.C02
#print axioms Gomjml.Props.C02.C02_partial
#print axioms Gomjml.Layout.C02_C03_tame
#print axioms Gomjml.Layout.wf_spec
#print axioms Gomjml.Props.C02.C02_all_bodies
#print axioms Gomjml.Props.C02.C02_full
