import Gomjml.Props.C14
#print axioms Gomjml.Props.C14.C14_hit
#print axioms Gomjml.Props.C14.C14_expired
#print axioms Gomjml.Props.C14.C14_fixed_ttl
#print axioms Gomjml.Props.C14.C14_sweep
#print axioms Gomjml.Props.C14.C14_ticker_positive
#print axioms Gomjml.Props.C14.C14_setTTL_once
#print axioms Gomjml.Props.C14.C14_setInterval_once
#print axioms Gomjml.Props.C14.C14_setTTL_first
#print axioms Gomjml.Props.C14.C14_setInterval_first
#print axioms Gomjml.Props.C14.C14_ttl_then_interval
#print axioms Gomjml.Props.C14.C14_time_comparisons
#print axioms Gomjml.Props.C14.C14_expiry_expression
