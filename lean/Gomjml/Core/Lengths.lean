import Gomjml.Core.InlineCss
/-! Where an authored length becomes a number (`mjml/styles/attributes.go`, `border.go`): `strings.Fields`, the choice of
    the horizontal values of a padding shorthand (`ParseHorizontalSpacing`), `ParsePixel` on plain decimal numbers and
    `ParseBorderWidth`.  The width Model (`Widths.impl`) starts from integers; this file is the step in front of it. -/
namespace Gomjml.Lengths
open Gomjml.Amp Gomjml.InlineCss

/-! ### `strings.Fields`: maximal runs of bytes that are not (Unicode) white space -/

def emit (cur : List B) : List (List B) := if cur = [] then [] else [cur.reverse]

/-- `skip` = bytes of a multi-byte white-space character still to pass over -/
def fieldsS : Nat → List B → List B → List (List B)
  | _, [], cur => emit cur
  | skip + 1, _ :: r, cur => fieldsS skip r cur
  | 0, b :: r, cur =>
    if spaceLen (b :: r) = 0 then fieldsS 0 r (b :: cur)
    else emit cur ++ fieldsS (spaceLen (b :: r) - 1) r []

def fields (s : List B) : List (List B) := fieldsS 0 s []

/-! #### spelling does not matter: any white space between, before and behind the values gives the same values -/

def isAsciiSp (b : B) : Bool := b == 9 || b == 10 || b == 11 || b == 12 || b == 13 || b == 32
/-- a byte that neither is ASCII white space nor starts a multi-byte white-space character (digits, letters, `.`, `%`, signs …) -/
def plain (b : B) : Bool := !isAsciiSp b && b != 0xC2 && b != 0xE1 && b != 0xE2 && b != 0xE3

theorem spaceLen_ascii (b : B) (r : List B) (h : isAsciiSp b = true) : spaceLen (b :: r) = 1 := by
  simp only [isAsciiSp, Bool.or_eq_true, beq_iff_eq] at h
  rcases h with ((((h | h) | h) | h) | h) | h <;> subst h <;> rfl

theorem spaceLen_plain (b : B) (r : List B) (h : plain b = true) : spaceLen (b :: r) = 0 := by
  simp only [plain, isAsciiSp, Bool.and_eq_true, Bool.not_eq_true', Bool.or_eq_false_iff, beq_eq_false_iff_ne, bne_iff_ne, ne_eq] at h
  obtain ⟨⟨⟨⟨⟨⟨⟨⟨⟨h9, h10⟩, h11⟩, h12⟩, h13⟩, h32⟩, hc2⟩, he1⟩, he2⟩, he3⟩ := h
  unfold spaceLen
  split <;> simp_all

theorem fieldsS_spaces : ∀ (sp s : List B), (∀ b ∈ sp, isAsciiSp b = true) → fieldsS 0 (sp ++ s) [] = fieldsS 0 s []
  | [], _, _ => rfl
  | b :: sp, s, h => by
    have hb := spaceLen_ascii b (sp ++ s) (h b (by simp))
    show fieldsS 0 (b :: (sp ++ s)) [] = _
    rw [fieldsS]
    simp only [hb, Nat.one_ne_zero, if_false, emit, if_true, List.nil_append, Nat.sub_self]
    exact fieldsS_spaces sp s (fun x hx => h x (by simp [hx]))

theorem fieldsS_word : ∀ (w s cur : List B), (∀ b ∈ w, plain b = true) → fieldsS 0 (w ++ s) cur = fieldsS 0 s (w.reverse ++ cur)
  | [], _, _, _ => rfl
  | b :: w, s, cur, h => by
    have hb := spaceLen_plain b (w ++ s) (h b (by simp))
    show fieldsS 0 (b :: (w ++ s)) cur = _
    rw [fieldsS]
    simp only [hb, if_true]
    rw [fieldsS_word w s (b :: cur) (fun x hx => h x (by simp [hx]))]
    simp

theorem fieldsS_sep (b : B) (sp s cur : List B) (hb : isAsciiSp b = true) (hsp : ∀ x ∈ sp, isAsciiSp x = true) (hc : cur ≠ []) :
    fieldsS 0 (b :: sp ++ s) cur = cur.reverse :: fieldsS 0 s [] := by
  have h1 := spaceLen_ascii b (sp ++ s) hb
  show fieldsS 0 (b :: (sp ++ s)) cur = _
  rw [fieldsS]
  simp only [h1, Nat.one_ne_zero, if_false, emit, hc, Nat.sub_self]
  rw [fieldsS_spaces sp s hsp]
  rfl

/-- **the values of a shorthand do not depend on how they are separated**: values made of plain bytes, any ASCII white space
    in front, any non-empty ASCII white space between them, any behind the last — `strings.Fields` gives the values -/
theorem fields_words : ∀ (ws : List (List B × List B)) (lead : List B),
    (∀ b ∈ lead, isAsciiSp b = true) →
    (∀ p ∈ ws, p.1 ≠ [] ∧ (∀ b ∈ p.1, plain b = true) ∧ (∀ b ∈ p.2, isAsciiSp b = true)) →
    (∀ i, i + 1 < ws.length → ∀ p, ws[i]? = some p → p.2 ≠ []) →
    fields (lead ++ ws.flatMap (fun p => p.1 ++ p.2)) = ws.map (·.1) := by
  intro ws lead hl
  unfold fields
  rw [fieldsS_spaces lead _ hl]
  clear hl lead
  induction ws with
  | nil => intro _ _; rfl
  | cons p rest ih =>
    intro hp hs
    obtain ⟨hne, hw, hsp⟩ := hp p (by simp)
    simp only [List.flatMap_cons, List.map_cons, List.append_assoc]
    rw [fieldsS_word p.1 _ [] hw]
    simp only [List.append_nil]
    have hrne : p.1.reverse ≠ [] := by simpa using hne
    cases hsep : p.2 with
    | nil =>
      -- the last value: nothing may follow
      have hrest : rest = [] := by
        cases rest with
        | nil => rfl
        | cons q r =>
          exact absurd hsep (hs 0 (by simp) p (by simp))
      subst hrest
      simp [fieldsS, emit, hrne]
    | cons b sp =>
      have hb : isAsciiSp b = true := hsp b (by simp [hsep])
      have hsp' : ∀ x ∈ sp, isAsciiSp x = true := fun x hx => hsp x (by simp [hsep, hx])
      rw [show (b :: sp) ++ List.flatMap (fun p => p.1 ++ p.2) rest = b :: sp ++ List.flatMap (fun p => p.1 ++ p.2) rest from rfl]
      rw [fieldsS_sep b sp _ _ hb hsp' hrne]
      simp only [List.reverse_reverse]
      congr 1
      exact ih (fun q hq => hp q (by simp [hq])) (fun i hi q hq => hs (i + 1) (by simpa using hi) q (by simpa using hq))

/-! ### the horizontal values of a shorthand: CSS's box rule -/

/-- `ParseHorizontalSpacing`'s choice: (left, right) among one to four values -/
def hsel {α : Type} : List α → Option (α × α)
  | [a] => some (a, a)
  | [_, b] => some (b, b)
  | [_, b, _] => some (b, b)
  | [_, b, _, d] => some (d, b)
  | _ => none

/-- CSS: `padding: t r b l` with missing values taken from the opposite side (`l` from `r`, `b` from `t`, `r` from `t`) -/
def cssSides {α : Type} : List α → Option (α × α × α × α)      -- top right bottom left
  | [a] => some (a, a, a, a)
  | [a, b] => some (a, b, a, b)
  | [a, b, c] => some (a, b, c, b)
  | [a, b, c, d] => some (a, b, c, d)
  | _ => none

/-- **the horizontal pair is CSS's left and right**, for every number of values; more than four (or none) is no shorthand -/
theorem hsel_css {α : Type} (vs : List α) :
    hsel vs = (cssSides vs).map (fun s => (s.2.2.2, s.2.1)) := by
  match vs with
  | [] => rfl
  | [_] => rfl
  | [_, _] => rfl
  | [_, _, _] => rfl
  | [_, _, _, _] => rfl
  | _ :: _ :: _ :: _ :: _ :: _ => rfl

/-! ### `ParsePixel` on plain decimals: optional sign, digits, optional fraction, optional `px` -/

structure Dec where
  neg : Bool
  mant : Nat        -- all digits, the decimal point removed
  frac : Nat        -- number of digits behind the point
deriving DecidableEq, Repr

def isDig (b : B) : Bool := 48 ≤ b && b ≤ 57

def digitsVal (ds : List B) : Nat := ds.foldl (fun acc d => acc * 10 + (d.toNat - 48)) 0

/-- `none` = outside the modelled grammar (exponents, hex floats, inf / nan, underscores …) or not a number at all -/
def parseDec (s : List B) : Option Dec :=
  let (neg, body) := match s with
    | 45 :: r => (true, r)
    | 43 :: r => (false, r)
    | _ => (false, s)
  let ip := body.takeWhile isDig
  let rest := body.dropWhile isDig
  match rest with
  | [] => if ip = [] then none else some ⟨neg, digitsVal ip, 0⟩
  | 46 :: fr => if fr.all isDig && !(ip = [] && fr = []) then some ⟨neg, digitsVal (ip ++ fr), fr.length⟩ else none
  | _ => none

def pxSuffix : List B := [112, 120]

/-- `strings.TrimSuffix(value, "px")` -/
def trimPx (s : List B) : List B :=
  if pxSuffix.isSuffixOf s then s.take (s.length - 2) else s

/-- `ParsePixel` (the empty string is "no value", `none` here too) -/
def parsePixel (s : List B) : Option Dec := if s = [] then none else parseDec (trimPx s)

/-- `ParseHorizontalSpacing` -/
def hspacing (s : List B) : Option (Dec × Dec) :=
  match hsel (fields s) with
  | none => none
  | some (l, r) =>
    match parsePixel l, parsePixel r with
    | some a, some b => some (a, b)
    | _, _ => none

/-- `ParseBorderWidth`: the first field of the border shorthand, as pixels (whole part), 0 when there is none -/
def borderField (s : List B) : Option Dec :=
  match fields s with
  | f :: _ => parsePixel f
  | [] => none

/-- non-vacuity: `" 10px\t20.0px  30 "` has three fields and the horizontal pair (20.0, 20.0) -/
example : fields [32, 49, 48, 112, 120, 9, 50, 48, 46, 48, 112, 120, 32, 32, 51, 48, 32] =
    [[49, 48, 112, 120], [50, 48, 46, 48, 112, 120], [51, 48]] ∧
    hspacing [32, 49, 48, 112, 120, 9, 50, 48, 46, 48, 112, 120, 32, 32, 51, 48, 32] = some (⟨false, 200, 1⟩, ⟨false, 200, 1⟩) := by decide

/-! ### `ParseSpacing` (one, two or four values) and the image's own use of it -/

inductive SpRes
  | empty                       -- "" : no value, no error
  | reject                      -- not one, two or four values
  | outside                     -- a value outside the modelled number grammar (the implementation may accept or reject it)
  | ok (t r b l : Dec)
deriving DecidableEq, Repr

/-- `ParseSpacing` -/
def spacing (s : List B) : SpRes :=
  if s = [] then .empty else
  match fields s with
  | [a] => match parsePixel a with
    | some x => .ok x x x x
    | none => .outside
  | [a, b] => match parsePixel a, parsePixel b with
    | some x, some y => .ok x y x y
    | _, _ => .outside
  | [a, b, c, d] => match parsePixel a, parsePixel b, parsePixel c, parsePixel d with
    | some x, some y, some z, some w => .ok x y z w
    | _, _, _, _ => .outside
  | _ => .reject

inductive HRes
  | zero                        -- left and right stay 0
  | outside
  | pair (l r : Dec)
deriving DecidableEq, Repr

/-- the shorthand step of `(*MJImageComponent).calculateDefaultWidth`: `ParseSpacing`, and for what it rejects the
    three-value form by hand -/
def imageShorthand (s : List B) : HRes :=
  match spacing s with
  | .ok _ r _ l => .pair l r
  | .outside => .outside
  | _ =>
    match fields s with
    | [_, b, _] => match parsePixel b with
      | some x => .pair x x
      | none => .outside
    | _ => .zero

/-- where `ParseSpacing` accepts, it is CSS's box rule -/
theorem spacing_css (s : List B) (t r b l : Dec) (h : spacing s = .ok t r b l) :
    ∃ vs, (fields s).map parsePixel = vs.map some ∧ cssSides vs = some (t, r, b, l) := by
  unfold spacing at h
  split at h
  · cases h
  · split at h
    · rename_i f1 hf
      split at h
      · rename_i x hx
        cases h
        exact ⟨[t], by rw [hf]; simp [hx], rfl⟩
      · cases h
    · rename_i f1 f2 hf
      split at h
      · rename_i x y hx hy
        cases h
        exact ⟨[t, r], by rw [hf]; simp [hx, hy], rfl⟩
      · cases h
    · rename_i f1 f2 f3 f4 hf
      split at h
      · rename_i x y z w hx hy hz hw
        cases h
        exact ⟨[t, r, b, l], by rw [hf]; simp [hx, hy, hz, hw], rfl⟩
      · cases h
    · cases h

/-- **one horizontal rule for every component**: on a shorthand whose values are all numbers of the modelled grammar the image's
    own computation and `ParseHorizontalSpacing` give the same pair — CSS's left and right — for one, two, three and four
    values; and both give nothing for any other count -/
theorem image_shorthand_is_horizontal (s : List B) (vs : List Dec) (hs : s ≠ [])
    (hv : (fields s).map parsePixel = vs.map some) :
    hspacing s = hsel vs ∧
    imageShorthand s = (match hsel vs with | some (l, r) => HRes.pair l r | none => HRes.zero) := by
  unfold hspacing imageShorthand spacing
  simp only [hs, if_false]
  have hl : (fields s).length = vs.length := by simpa using congrArg List.length hv
  rcases hf : fields s with _ | ⟨f1, _ | ⟨f2, _ | ⟨f3, _ | ⟨f4, _ | ⟨f5, fr⟩⟩⟩⟩⟩ <;> rw [hf] at hv hl
  · rcases vs with _ | ⟨x, vr⟩ <;> simp at hl
    simp [hsel]
  · rcases vs with _ | ⟨x, _ | ⟨y, vr⟩⟩ <;> simp at hl
    simp at hv
    simp [hsel, hv]
  · rcases vs with _ | ⟨x, _ | ⟨y, _ | ⟨z, vr⟩⟩⟩ <;> simp at hl
    simp at hv
    simp [hsel, hv.1, hv.2]
  · rcases vs with _ | ⟨x, _ | ⟨y, _ | ⟨z, _ | ⟨w, vr⟩⟩⟩⟩ <;> simp at hl
    simp at hv
    simp [hsel, hv.2.1]
  · rcases vs with _ | ⟨x, _ | ⟨y, _ | ⟨z, _ | ⟨w, _ | ⟨v, vr⟩⟩⟩⟩⟩ <;> simp at hl
    simp at hv
    simp [hsel, hv.1, hv.2.1, hv.2.2.1, hv.2.2.2]
  · rcases vs with _ | ⟨x, _ | ⟨y, _ | ⟨z, _ | ⟨w, _ | ⟨v, vr⟩⟩⟩⟩⟩ <;> simp at hl
    simp [hsel]

/-- non-vacuity: three values — `ParseSpacing` rejects, the image still gets CSS's pair -/
example : spacing [49, 32, 50, 32, 51] = .reject ∧ imageShorthand [49, 32, 50, 32, 51] = .pair ⟨false, 2, 0⟩ ⟨false, 2, 0⟩ := by decide

end Gomjml.Lengths
