import Gomjml.Core.Tag
import Gomjml.Core.InlineTagProofs
import Gomjml.Core.InlineScan
import Gomjml.Core.InlineCss
import Gomjml.Gen.ClassSites
import Gomjml.Core.ClassAttr
/-! # C19 — inline CSS is applied completely and touches nothing but style attributes (property theorems only)

Component side, on the byte-exact `HTMLTag` model.  Author-HTML side, on the byte-exact model of the scanner's per-tag step
(`InlineTag`: `parseTag` and the write-back of `inlineStylesInTag`), tied to the implementation by running both on the same start
tags; the fragment loop around it (text, comments, end tags copied through) is judged on the real bytes by the Lean lexer. -/
namespace Gomjml.Props.C19
open Gomjml.Tag

/-- applying inline rules to a component's tag changes nothing but its style list, to which exactly the declarations of
    the targeted rules are appended, in class-attribute order and rule order -/
theorem C19_only_styles (rules : Rules) (t : HTag) (classes : List String) :
    applyInline rules t classes = { t with styles := t.styles ++ declsFor rules classes } := applyInline_eq rules t classes

/-- the rendered open tag is write-for-write the same outside ` style="…"` -/
theorem C19_rendered (rules : Rules) (t : HTag) (classes : List String) :
    renderOpen (applyInline rules t classes) =
      ["<", t.name] ++ t.attrs.flatMap attrWrites ++ classWrites t.classes ++ stylesWrites (t.styles ++ declsFor rules classes) ++ [">"] :=
  renderOpen_applyInline rules t classes

/-- a document without a matching inline rule is untouched -/
theorem C19_no_match (rules : Rules) (t : HTag) (classes : List String) (h : ∀ c ∈ classes, rules.lookup c = none) :
    applyInline rules t classes = t := applyInline_none rules t classes h

/-- non-vacuity -/
example : bytes (renderOpen (applyInline [("ka", [("color", "red"), ("font-weight", "bold")]), ("kb", [("margin", "0")])]
                              ⟨"div", [("class", "kb zz ka")], [], [("padding", "1px")]⟩ ["kb", "zz", "ka"]))
    = "<div class=\"kb zz ka\" style=\"padding:1px;margin:0;color:red;font-weight:bold;\">" := by decide

/-- **completeness over all code sites**: every function of package `components` that puts a css-class on an element also
    applies the inline rules (regenerated table).  The two remaining rows put a *derived* class on an element — `<class>-outlook`
    on the Outlook cell of a navbar link, `<class>-thumbnail` on a carousel thumbnail — which no author rule targets. -/
def derivedClassOnly : List String :=
  ["mjml/components.(*MJCarouselComponent).renderThumbnails", "mjml/components.(*MJNavbarComponent).renderMSOTableCellOpen"]

theorem C19_class_sites :
    ∀ r ∈ Gomjml.Gen.ClassSites.classSites, r.2 = "yes" ∨ r.1 ∈ derivedClassOnly := by decide

/-! ### author HTML: the per-tag step of the scanner -/
open Gomjml.InlineTag in
/-- **the parse of a start tag loses nothing**: `<`, white space, the name, the attributes as written (each with the white space in
    front of it), what stands at the stopping point, and the bytes the loop did not look at are the tag, byte for byte -/
theorem C19_tag_parse_lossless (tag : List Gomjml.Amp.B) (p : Parsed) (h : parse tag = some p) :
    (∀ a ∈ p.attrs, a.raw ≠ []) ∧
    ∃ lead mid, allSp lead ∧ midOk p.ending mid ∧
      tag = [Gomjml.Amp.lt] ++ lead ++ p.name ++ piecesOf p.attrs ++ mid ++ p.rest := parse_pieces tag p h

open Gomjml.InlineTag in
/-- **touches nothing but the style attribute (a style attribute is added)**: for EVERY start tag the scanner parses, with a class
    the rules target and no style attribute, the output is `<`, the name and every attribute exactly as written, then
    ` style="<declarations>"`, then the closing -/
theorem C19_tag_append (inl : List Gomjml.Amp.B → List Gomjml.Amp.B) (tag : List Gomjml.Amp.B) (p : Parsed) (hp : parse tag = some p)
    (hne : p.attrs ≠ []) (ci : Nat) (hci : lastIdx classN p.attrs = some ci)
    (hd : inl (p.attrs[ci]?.map (·.value) |>.getD []) ≠ []) (hs : lastIdx styleN p.attrs = none) :
    inlineTag inl tag = [Gomjml.Amp.lt] ++ p.name ++ piecesOf p.attrs ++
      ([32] ++ styleN ++ [eqs] ++ [Gomjml.Amp.dq] ++ inl (p.attrs[ci]?.map (·.value) |>.getD []) ++ [Gomjml.Amp.dq]) ++ closing tag p ++ [Gomjml.Amp.gt] :=
  inlineTag_append inl tag p hp hne ci hci hd hs

open Gomjml.InlineTag in
/-- **touches nothing but the style attribute (the style attribute is extended)**: every attribute in front of and behind the
    (last) style attribute is written back exactly as it was written; the style attribute keeps the white space in front of it,
    its name and its quote and gets the merged value -/
theorem C19_tag_merge (inl : List Gomjml.Amp.B → List Gomjml.Amp.B) (tag : List Gomjml.Amp.B) (p : Parsed) (hp : parse tag = some p)
    (hne : p.attrs ≠ []) (ci : Nat) (hci : lastIdx classN p.attrs = some ci)
    (hd : inl (p.attrs[ci]?.map (·.value) |>.getD []) ≠ []) (si : Nat) (hs : lastIdx styleN p.attrs = some si)
    (a : Attr) (ha : p.attrs[si]? = some a) :
    inlineTag inl tag = [Gomjml.Amp.lt] ++ p.name ++ piecesOf (p.attrs.take si) ++
      (a.pre ++ styleText a (mergeStyle a.value (inl (p.attrs[ci]?.map (·.value) |>.getD [])))) ++
      piecesOf (p.attrs.drop (si + 1)) ++ closing tag p ++ [Gomjml.Amp.gt] :=
  inlineTag_merge inl tag p hp hne ci hci hd si hs a ha

open Gomjml.InlineTag in
/-- non-vacuity: `<a href=http://x/a class=ka>` (bytes) parses cleanly (every byte looked at), has a targeted class and no style
    attribute, and comes out as `<a href=http://x/a class=ka style="color:red;">` -/
example :
    let tag : List Gomjml.Amp.B := [60, 97, 32, 104, 114, 101, 102, 61, 104, 116, 116, 112, 58, 47, 47, 120, 47, 97, 32, 99, 108, 97, 115, 115, 61, 107, 97, 62]
    let inl : List Gomjml.Amp.B → List Gomjml.Amp.B := fun c => if c == [107, 97] then [99, 111, 108, 111, 114, 58, 114, 101, 100, 59] else []
    (parse tag).map Parsed.clean = some true ∧ inlineTag inl tag = [60, 97, 32, 104, 114, 101, 102, 61, 104, 116, 116, 112, 58, 47, 47, 120, 47, 97, 32, 99, 108, 97, 115, 115, 61, 107, 97, 32, 115, 116, 121, 108, 101, 61, 34, 99, 111, 108, 111, 114, 58, 114, 101, 100, 59, 34, 62] := by decide

open Gomjml.InlineTag in
/-- … and `<p style='a:b' class="ka" id=x/>` keeps `id=x`, the quotes and the self-closing mark: `<p style='a:b;color:red;' class="ka" id=x/>` -/
example :
    let tag : List Gomjml.Amp.B := [60, 112, 32, 115, 116, 121, 108, 101, 61, 39, 97, 58, 98, 39, 32, 99, 108, 97, 115, 115, 61, 34, 107, 97, 34, 32, 105, 100, 61, 120, 47, 62]
    let inl : List Gomjml.Amp.B → List Gomjml.Amp.B := fun c => if c == [107, 97] then [99, 111, 108, 111, 114, 58, 114, 101, 100, 59] else []
    (parse tag).map Parsed.clean = some true ∧ inlineTag inl tag = [60, 112, 32, 115, 116, 121, 108, 101, 61, 39, 97, 58, 98, 59, 99, 111, 108, 111, 114, 58, 114, 101, 100, 59, 39, 32, 99, 108, 97, 115, 115, 61, 34, 107, 97, 34, 32, 105, 100, 61, 120, 47, 62] := by decide

/-! ### author HTML: the scanner over a whole fragment -/
open Gomjml.InlineScan in
/-- **the scanner loses nothing**: text, comments, end tags and other markup, start tags — the segments it cuts a fragment into are
    the fragment, byte for byte (for every byte string: unterminated comments and tags, stray `<` and quotes included) -/
theorem C19_scan_lossless (s : List Gomjml.Amp.B) : (segments (s.length + 1) s).flatMap Seg.bytes = s := segments_bytes _ s

open Gomjml.InlineScan in
/-- **everything but start tags is copied; each start tag goes through the per-tag step** (for which `C19_tag_append` /
    `C19_tag_merge` say that only the style attribute changes) -/
theorem C19_scan_structure (inl : List Gomjml.Amp.B → List Gomjml.Amp.B) (s : List Gomjml.Amp.B) :
    scan inl s = (segments (s.length + 1) s).flatMap (fun seg => match seg with
      | .start t => Gomjml.InlineTag.inlineTag inl t
      | .text b => b
      | .other b => b) := by
  unfold scan
  congr 1
  funext seg
  cases seg <;> rfl

open Gomjml.InlineScan in
/-- **no targeted class, no change**: when no class value gets declarations the fragment comes out byte for byte -/
theorem C19_scan_untargeted_identity (inl : List Gomjml.Amp.B → List Gomjml.Amp.B) (h : ∀ c, inl c = []) (s : List Gomjml.Amp.B) :
    scan inl s = s := scan_id inl h s

/-! ## from the style text to the table the renderer inlines (`mjml/inline_styles.go`, byte-exact Model) -/
open Gomjml.InlineCss in
/-- **the declarations of a class are those of every rule that names it** — for every list of inline style texts and every
    class name, the table built by `collectInlineClassStyles` (rule by rule, selector by selector, appending to whatever the
    class already has) holds exactly: the declarations of each rule that names the class as a lone selector, once per
    naming, in source order.  Grouped selectors, repeated selectors, rules for other classes in between, several style blocks:
    nothing leaks from one class's list into another's and nothing is lost -/
theorem C19_table_is_spec (texts : List (List Gomjml.Amp.B)) (c : List Gomjml.Amp.B) :
    (collect texts).get c = spec texts c := collect_spec texts c

open Gomjml.InlineCss in
/-- nothing but declarations of parsed rules gets into the table, and every kept declaration has a property and a value -/
theorem C19_table_entries (texts : List (List Gomjml.Amp.B)) (c : List Gomjml.Amp.B) :
    (∀ d ∈ (collect texts).get c, ∃ t ∈ texts, ∃ r ∈ parseRules t, d ∈ r.decls) ∧
    ∀ part, ∀ d ∈ parseDecls part, d.prop ≠ [] ∧ d.val ≠ [] :=
  ⟨fun d hd => spec_mem texts c d (by rwa [collect_spec] at hd), parseDecls_nonempty⟩

open Gomjml.InlineCss in
/-- only a lone class selector is inlined: a dot, a non-empty name, and nothing that continues the selector
    (no descendant, compound, pseudo-class, attribute or universal part) -/
theorem C19_lone_class_only (sel name : List Gomjml.Amp.B) (h : extractClass sel = some name) :
    trimSpace sel = 46 :: name ∧ name ≠ [] ∧ ∀ b ∈ name, b ∉ combinators := extractClass_lone sel name h

open Gomjml.InlineCss in
/-- non-vacuity, on `.a, .b { color: red; } .a.x { top: 0 } .a { margin: 0 } .b{padding:4px}`: class `a` gets colour and
    margin, class `b` colour and padding, the compound selector gives nothing to anybody -/
example :
    let css : List Gomjml.Amp.B := [46, 97, 44, 32, 46, 98, 32, 123, 32, 99, 111, 108, 111, 114, 58, 32, 114, 101, 100, 59, 32, 125, 32, 46, 97, 46, 120, 32, 123, 32, 116,
      111, 112, 58, 32, 48, 32, 125, 32, 46, 97, 32, 123, 32, 109, 97, 114, 103, 105, 110, 58, 32, 48, 32, 125, 32, 46, 98, 123, 112, 97, 100, 100, 105, 110, 103, 58, 52, 112, 120, 125]
    (collect [css]).get [97] = [⟨[99, 111, 108, 111, 114], [114, 101, 100]⟩, ⟨[109, 97, 114, 103, 105, 110], [48]⟩] ∧
    (collect [css]).get [98] = [⟨[99, 111, 108, 111, 114], [114, 101, 100]⟩, ⟨[112, 97, 100, 100, 105, 110, 103], [52, 112, 120]⟩] ∧
    (collect [css]).get [120] = [] := by decide

/-- **`BuildClassAttribute` is "the non-empty parts joined by one blank"**, for every list of own classes and every value of
    `css-class` (the Go function has a count, a one-class shortcut and a loop with a `first` flag; all three agree with this) -/
theorem C19_class_attribute_joined (existing : List (List Gomjml.Amp.B)) (css : List Gomjml.Amp.B) :
    Gomjml.ClassAttr.build existing css = Gomjml.ClassAttr.spec existing css :=
  Gomjml.ClassAttr.build_spec existing css

/-- **applied completely, component side, from the style sheet text to the style string**: for every list of `mj-style inline`
    texts, every list of own classes and every `css-class` (bytes of class lists as authors write them: no lead byte of a
    multi-byte white-space character), `BuildInlineStyleString` of the built class attribute is the declarations of every rule
    naming one of the component's classes as a lone selector — classes in the order own parts, then `css-class`; per class
    the rules in source order — and nothing else -/
theorem C19_component_style_from_sheet (texts existing : List (List Gomjml.Amp.B)) (css : List Gomjml.Amp.B)
    (he : ∀ c ∈ existing, Gomjml.ClassAttr.tame c) (hc : Gomjml.ClassAttr.tame css) :
    Gomjml.ClassAttr.inlineStyle (Gomjml.InlineCss.collect texts) (Gomjml.ClassAttr.build existing css) =
      ((existing ++ [css]).flatMap Gomjml.Lengths.fields).flatMap fun c =>
        (Gomjml.InlineCss.spec texts c).flatMap Gomjml.ClassAttr.declBytes :=
  Gomjml.ClassAttr.inlineStyle_build texts existing css he hc

/-- non-vacuity: own class `m`, `css-class="a  b"`, the sheet `.a{x:1} .b{y:2} .a{z:3}` -/
example : Gomjml.ClassAttr.inlineStyle (Gomjml.InlineCss.collect [[46, 97, 123, 120, 58, 49, 125, 46, 98, 123, 121, 58, 50, 125, 46, 97, 123, 122, 58, 51, 125]])
    (Gomjml.ClassAttr.build [[109], []] [97, 32, 32, 98]) = [120, 58, 49, 59, 122, 58, 51, 59, 121, 58, 50, 59] := by decide

end Gomjml.Props.C19
