import Gomjml.Props.C15
#print axioms Gomjml.Props.C15.C15_no_overlap
#print axioms Gomjml.Props.C15.C15_handover
#print axioms Gomjml.Props.C15.C15_no_deadlock
#print axioms Gomjml.Props.C15.C15_one_cleaner
#print axioms Gomjml.Props.C15.C15_stop_then_restart
#print axioms Gomjml.Props.C15.C15_sites
#print axioms Gomjml.Props.C15.C15_waiter_gets_own_parse
