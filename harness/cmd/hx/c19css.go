package main

import (
	"encoding/hex"
	"fmt"
	"sort"
	"strings"

	"github.com/preslavrachev/gomjml/mjml"
)

// ===== C19: from the style text to the table the renderer inlines — real collectInlineClassStyles vs the Lean Model ==========
//
// The texts of one to three <mj-style inline="inline"> blocks are generated from the pieces a CSS rule parser looks at; the
// document is compiled up to the component tree (NewFromAST), RenderOpts.InlineClassStyles is read off the root and compared,
// class by class and declaration by declaration, with `InlineCss.collect` (driver `inlcss`).  The theorem C19_table_is_spec says
// what the Model's table is.

var cssPieces = []string{".a", ".b", ".c", ".a", ".b", " ", " ", "\n", "\t", ",", ", ", "{", "{ ", "}", " }", ";", "; ", ":", ": ", "color", "margin", "top", "red", "0", "4px", "#111111",
	".a.b", ".a .b", ".a:hover", ".a>b", "#id", "*", "p", ".a[x]", ".", "..", ".a,", "!important", "/* c */", "/*", "*/", "@media screen", "url(x;y:z)", "'q;'", "\"", " ", " ", "　", "\u0085",
	"\xc2", "\xe2\x80", "é", "color:red", "margin:0", "top : 0 ;", ";;", "::", "{}", "}{", "a:b:c", " : ", "x:", ":y", ".a{color:red}", ".a,.b{top:0;}", ".b { margin : 0 ; padding:4px }"}

func genCSSText(r *Rng) string {
	var b strings.Builder
	if r.Bool(2, 3) {
		// mostly rule-shaped
		for i, n := 0, 1+r.Intn(5); i < n; i++ {
			for j, m := 0, 1+r.Intn(3); j < m; j++ {
				if j > 0 {
					b.WriteString(r.Pick([]string{",", ", ", " ,\n", ",,"}))
				}
				b.WriteString(r.Pick([]string{".a", ".b", ".c", ".a", ".b", ".a.b", ".a .b", "p", ".a:hover", " .c ", ".", " .a ", ".b　"}))
			}
			b.WriteString(r.Pick([]string{"{", " {", " {\n  ", " {"}))
			for j, m := 0, r.Intn(4); j < m; j++ {
				b.WriteString(r.Pick([]string{"color", "margin", "top", "font-weight", " padding ", "", "x"}))
				b.WriteString(r.Pick([]string{":", ": ", " : ", "", "::"}))
				b.WriteString(r.Pick([]string{"red", "0", "4px", "#111111", "bold !important", "url(a:b)", "", " "}))
				b.WriteString(r.Pick([]string{";", "; ", ";\n  ", "", ";;"}))
			}
			b.WriteString(r.Pick([]string{"}", " }", "}\n", "", "}}"}))
		}
	} else {
		for i, n := 0, r.Intn(30); i < n; i++ {
			b.WriteString(r.Pick(cssPieces))
		}
	}
	return b.String()
}

// styleTable: what the real code makes of the inline blocks (canonical text: classes sorted)
func realStyleTable(texts []string) (string, error) {
	var head strings.Builder
	for _, t := range texts {
		head.WriteString(`<mj-style inline="inline"><![CDATA[` + strings.ReplaceAll(t, "]]>", "]] >") + `]]></mj-style>`)
	}
	ast, err := mjml.ParseMJML(`<mjml><mj-head>` + head.String() + `</mj-head><mj-body><mj-section><mj-column><mj-text>t</mj-text></mj-column></mj-section></mj-body></mjml>`)
	if err != nil {
		return "", err
	}
	comp, err := mjml.NewFromAST(ast)
	if err != nil {
		return "", err
	}
	root, ok := comp.(*mjml.MJMLComponent)
	if !ok || root.RenderOpts == nil {
		return "", fmt.Errorf("no root component")
	}
	var rows []string
	for c, ds := range root.RenderOpts.InlineClassStyles {
		var p []string
		for _, d := range ds {
			p = append(p, hex.EncodeToString([]byte(d.Property))+"="+hex.EncodeToString([]byte(d.Value)))
		}
		rows = append(rows, hex.EncodeToString([]byte(c))+":"+strings.Join(p, ","))
	}
	sort.Strings(rows)
	return strings.Join(rows, ";"), nil
}

func runC19CSS(res *Result, drv *DriverPool, tier string, seed int64) {
	n := 1500
	if tier == "thorough" {
		n = 30000
	}
	type job struct{ texts []string }
	var jobs []job
	// hand-written: grouped selectors followed by further rules for the same classes, blocks ending with and without ';'
	for _, t := range [][]string{
		{".a, .b { color: red; } .a { margin: 0 } .b { padding: 4px }"},
		{".a, .b { color: red; ; } .a { margin: 0 } .b { padding: 4px } .a { top: 0 }"},
		{".a,.b,.c{color:red;}", ".a{margin:0}", ".c{top:0}.b{padding:4px}"},
		{".a, .a { color: red }"}, {".a { color: red", ".b { top: 0 }"}, {"", "   ", ".a{}", ".a{:}", "{color:red}"},
		{".a.b { x: y } .a .b { x: y } .a:hover{x:y} .a>p{x:y} .a{ x : y }"},
	} {
		jobs = append(jobs, job{t})
	}
	for i := 0; i < n; i++ {
		r := NewRng(seed, fmt.Sprintf("c19/css/%d", i))
		var ts []string
		for k, m := 0, 1+r.Intn(3); k < m; k++ {
			ts = append(ts, strings.ReplaceAll(genCSSText(r), "]]>", "]] >"))
		}
		jobs = append(jobs, job{ts})
	}
	parallel(8, len(jobs), func(i int) {
		ts := jobs[i].texts
		real, err := realStyleTable(ts)
		res.Case("css|"+strings.Join(ts, "\x00"), strings.Contains(real, ":"))
		if err != nil {
			res.Count("css-table=document-rejected")
			return
		}
		var args []string
		for _, t := range ts {
			if t == "" {
				args = append(args, "-")
			} else {
				args = append(args, hex.EncodeToString([]byte(t)))
			}
		}
		line, derr := drv.Ask("inlcss " + strings.Join(args, " "))
		res.mu.Lock()
		res.Programs++
		res.DisagreementsChecked++
		res.mu.Unlock()
		if derr != nil {
			res.Disagree(Violation{Sig: "driver-failed|inlcss", Kind: "input", What: derr.Error(), Input: map[string]interface{}{"texts": ts}})
			return
		}
		var rows []string
		for _, row := range strings.Split(line, ";") {
			if row != "" {
				rows = append(rows, row)
			}
		}
		sort.Strings(rows)
		res.Count(fmt.Sprintf("css-table-classes=%d", min(len(rows), 4)))
		if model := strings.Join(rows, ";"); model != real {
			res.Disagree(Violation{Sig: "inline-css-model-mismatch", Kind: "input", What: fmt.Sprintf("the table collectInlineClassStyles builds differs from the Model's: implementation %s, Model %s", short(real, 300), short(model, 300)), Input: map[string]interface{}{"texts": ts}})
		}
	})
}
