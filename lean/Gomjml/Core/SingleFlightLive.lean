import Gomjml.Core.SingleFlight
/-! Progress for the single-flight transition system: a second inductive invariant (`Live`) on top of `SFInv`,
    and the theorem that some thread is enabled as long as some thread has not returned (no reachable deadlock). -/
namespace Gomjml.SingleFlight

structure Live (s : St) : Prop where
  sig_done : ∀ t, (s.pc t = .signalled ∨ s.pc t = .deleting) → s.done t = true
  wait_live : ∀ t c, s.pc t = .waiting c →
    s.done c = true ∨ s.pc c = .lead ∨ s.pc c = .parsing ∨ s.pc c = .assigned

theorem live_init (key parse) : Live (init key parse) := by
  constructor <;> simp [init]

theorem live_step {s s' : St} {t : Tid} (h : SFInv s) (hl : Live s) (hs : step s t = some s') : Live s' := by
  unfold step at hs
  split at hs
  -- start
  · rename_i hpc
    split at hs
    · simp at hs; subst hs
      constructor
      · intro u hu
        by_cases hut : u = t
        · subst hut; simp at hu
        · simp only [upd_apply, hut, if_false] at hu; exact hl.sig_done u hu
      · intro u c hu
        by_cases hut : u = t
        · subst hut; simp at hu
        · simp only [upd_apply, hut, if_false] at hu
          have := hl.wait_live u c hu
          by_cases hct : c = t
          · subst hct; simp only [hpc] at this; simp at this; exact Or.inl this
          · simpa [upd_apply, hct] using this
    · simp at hs
  -- locked
  · rename_i hpc
    split at hs
    · rename_i c hcall
      simp at hs; subst hs
      have hlead := (h.calls_leader (s.key t) c).1 hcall
      constructor
      · intro u hu
        by_cases hut : u = t
        · subst hut; simp at hu
        · simp only [upd_apply, hut, if_false] at hu; exact hl.sig_done u hu
      · intro u c' hu
        have hct : c ≠ t := by
          intro e; subst e; simp [hpc, PC.isLeader] at hlead
        by_cases hut : u = t
        · subst hut
          simp only [upd_apply, if_true] at hu
          cases hu
          simp only [upd_apply, hct, if_false]
          have hl1 := hlead.1
          cases hc : s.pc c <;> simp [hc, PC.isLeader] at hl1 ⊢
          · exact hl.sig_done c (Or.inl hc)
          · exact hl.sig_done c (Or.inr hc)
        · simp only [upd_apply, hut, if_false] at hu
          have := hl.wait_live u c' hu
          by_cases hc't : c' = t
          · subst hc't; simp only [hpc] at this; simp at this; exact Or.inl this
          · simpa [upd_apply, hc't] using this
    · simp at hs; subst hs
      constructor
      · intro u hu
        by_cases hut : u = t
        · subst hut; simp at hu
        · simp only [upd_apply, hut, if_false] at hu; exact hl.sig_done u hu
      · intro u c' hu
        by_cases hut : u = t
        · subst hut; simp at hu
        · simp only [upd_apply, hut, if_false] at hu
          have := hl.wait_live u c' hu
          by_cases hc't : c' = t
          · subst hc't; simp only [hpc] at this; simp at this; exact Or.inl this
          · simpa [upd_apply, hc't] using this
  -- waiting
  · rename_i c hpc
    split at hs
    · simp at hs; subst hs
      constructor
      · intro u hu
        by_cases hut : u = t
        · subst hut; simp at hu
        · simp only [upd_apply, hut, if_false] at hu; exact hl.sig_done u hu
      · intro u c' hu
        by_cases hut : u = t
        · subst hut; simp at hu
        · simp only [upd_apply, hut, if_false] at hu
          have := hl.wait_live u c' hu
          by_cases hc't : c' = t
          · subst hc't; simp only [hpc] at this; simp at this; exact Or.inl this
          · simpa [upd_apply, hc't] using this
    · simp at hs
  -- lead
  · rename_i hpc
    simp at hs; subst hs
    constructor
    · intro u hu
      by_cases hut : u = t
      · subst hut; simp at hu
      · simp only [upd_apply, hut, if_false] at hu; exact hl.sig_done u hu
    · intro u c' hu
      by_cases hut : u = t
      · subst hut; simp at hu
      · simp only [upd_apply, hut, if_false] at hu
        have := hl.wait_live u c' hu
        by_cases hc't : c' = t
        · subst hc't; simp [upd_apply]
        · simpa [upd_apply, hc't] using this
  -- parsing
  · rename_i hpc
    simp at hs; subst hs
    constructor
    · intro u hu
      by_cases hut : u = t
      · subst hut; simp at hu
      · simp only [upd_apply, hut, if_false] at hu; exact hl.sig_done u hu
    · intro u c' hu
      by_cases hut : u = t
      · subst hut; simp at hu
      · simp only [upd_apply, hut, if_false] at hu
        have := hl.wait_live u c' hu
        by_cases hc't : c' = t
        · subst hc't; simp [upd_apply]
        · simpa [upd_apply, hc't] using this
  -- assigned
  · rename_i hpc
    simp at hs; subst hs
    constructor
    · intro u hu
      by_cases hut : u = t
      · subst hut; simp [upd_apply]
      · simp only [upd_apply, hut, if_false] at hu ⊢; exact hl.sig_done u hu
    · intro u c' hu
      by_cases hut : u = t
      · subst hut; simp at hu
      · simp only [upd_apply, hut, if_false] at hu
        have := hl.wait_live u c' hu
        by_cases hc't : c' = t
        · subst hc't; simp [upd_apply]
        · simpa [upd_apply, hc't] using this
  -- signalled
  · rename_i hpc
    split at hs
    · simp at hs; subst hs
      have hd := hl.sig_done t (Or.inl hpc)
      constructor
      · intro u hu
        by_cases hut : u = t
        · subst hut; exact hd
        · simp only [upd_apply, hut, if_false] at hu; exact hl.sig_done u hu
      · intro u c' hu
        by_cases hut : u = t
        · subst hut; simp at hu
        · simp only [upd_apply, hut, if_false] at hu
          have := hl.wait_live u c' hu
          by_cases hc't : c' = t
          · subst hc't; exact Or.inl hd
          · simpa [upd_apply, hc't] using this
    · simp at hs
  -- deleting
  · rename_i hpc
    simp at hs; subst hs
    have hd := hl.sig_done t (Or.inr hpc)
    constructor
    · intro u hu
      by_cases hut : u = t
      · subst hut; simp at hu
      · simp only [upd_apply, hut, if_false] at hu; exact hl.sig_done u hu
    · intro u c' hu
      by_cases hut : u = t
      · subst hut; simp at hu
      · simp only [upd_apply, hut, if_false] at hu
        have := hl.wait_live u c' hu
        by_cases hc't : c' = t
        · subst hc't; exact Or.inl hd
        · simpa [upd_apply, hc't] using this
  -- returned
  · simp at hs

theorem live_reachable (key parse) (σ : List Tid) : Live (runSched (init key parse) σ) := by
  suffices ∀ s, SFInv s → Live s → Live (runSched s σ) from this _ (inv_init key parse) (live_init key parse)
  induction σ with
  | nil => intro s _ hl; exact hl
  | cons t r ih =>
    intro s h hl
    simp only [runSched]
    cases hs : step s t with
    | none => exact ih s h hl
    | some s' => exact ih s' (inv_step h hs) (live_step h hl hs)

/-- **No deadlock**: in every state satisfying the invariants, if some thread has not returned then some thread can
    take a step. -/
theorem progress (s : St) (h : SFInv s) (hl : Live s) (t : Tid) (ht : ∀ r w, s.pc t ≠ .ret r w) :
    ∃ u, (step s u).isSome = true := by
  -- if the mutex is held, its holder is at `locked` or `deleting`, both always enabled
  cases hm : s.mutex with
  | some m =>
    have hh := (h.mutex_iff m).1 hm
    refine ⟨m, ?_⟩
    unfold step
    cases hp : s.pc m <;> simp [hp, PC.holds] at hh ⊢
    cases s.calls (s.key m) <;> simp
  | none =>
    -- the mutex is free: `t` itself is enabled unless it waits on an unfinished leader, which then is enabled
    cases hp : s.pc t with
    | start => exact ⟨t, by simp [step, hp, hm]⟩
    | locked => exact ⟨t, by unfold step; simp only [hp]; cases s.calls (s.key t) <;> simp⟩
    | lead => exact ⟨t, by simp [step, hp]⟩
    | parsing => exact ⟨t, by simp [step, hp]⟩
    | assigned => exact ⟨t, by simp [step, hp]⟩
    | signalled => exact ⟨t, by simp [step, hp, hm]⟩
    | deleting => exact ⟨t, by simp [step, hp]⟩
    | ret r w => exact absurd hp (ht r w)
    | waiting c =>
      rcases hl.wait_live t c hp with hd | hc | hc | hc
      · exact ⟨t, by simp [step, hp, hd]⟩
      · exact ⟨c, by simp [step, hc]⟩
      · exact ⟨c, by simp [step, hc]⟩
      · exact ⟨c, by simp [step, hc]⟩

end Gomjml.SingleFlight
