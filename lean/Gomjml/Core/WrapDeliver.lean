import Gomjml.Core.Cdata
import Gomjml.Core.Lines
/-! # What the XML layer delivers for the content of an mj-text (`wrapMJTextContent` followed by the CDATA decoding)

`Cdata.lean` proves the round trip for its own Model of the escaping (`Rr`); `Lines.lean` has the byte-exact Model of the
pass, written with `replaceAll`.  Here the two are identified and the round trip is stated for the pass itself: for every
content that does not start with a CDATA section of the author's, the XML layer hands the renderer exactly the author's
bytes (void tags normalised) — nothing decoded, nothing lost, whatever the content contains, `]]>` included. -/
namespace Gomjml.Passes
open Gomjml.Amp

theorem pre3_isPrefix (s : List B) : cdEnd.isPrefixOf s = pre3 s := by
  match s with
  | [] => rfl
  | [a] => simp [pre3, cdEnd, List.isPrefixOf]
  | [a, b] => simp [pre3, cdEnd, List.isPrefixOf]
  | a :: b :: c :: r =>
    simp only [pre3, cdEnd, List.isPrefixOf, Bool.and_true]
    rw [show ((93 : B) == a) = (a == 93) from by rw [Bool.beq_comm], show ((93 : B) == b) = (b == 93) from by rw [Bool.beq_comm],
      show ((62 : B) == c) = (c == 62) from by rw [Bool.beq_comm]]
    simp [Bool.and_assoc]

/-- the two Models of `strings.ReplaceAll(s, "]]>", "]]]]><![CDATA[>")` are one function -/
theorem Rr_eq_replaceAll : ∀ (n : Nat) (s : List B), s.length ≤ n → Rr s = replaceAll cdEnd cdEndSafe s := by
  intro n
  induction n with
  | zero =>
    intro s hs
    have : s = [] := by cases s <;> simp_all
    subst this
    rw [Rr_nil, replaceAll]; simp [cdEnd]
  | succ n ih =>
    intro s hs
    cases s with
    | nil => rw [Rr_nil, replaceAll]; simp [cdEnd]
    | cons b t =>
      rw [Rr_cons, replaceAll]
      have hne : ¬ (cdEnd = []) := by simp [cdEnd]
      simp only [hne, dite_false, pre3_isPrefix]
      by_cases hp : pre3 (b :: t) = true
      · simp only [hp, if_true]
        have hl : cdEnd.length = 3 := rfl
        rw [hl, show (b :: t).drop 3 = t.drop 2 from rfl]
        rw [ih (t.drop 2) (by simp at hs ⊢; omega)]
      · have hp' : pre3 (b :: t) = false := Bool.eq_false_iff.mpr hp
        simp only [hp', Bool.false_eq_true, if_false]
        rw [ih t (by simp at hs; omega)]

end Gomjml.Passes

namespace Gomjml.Lines
open Gomjml.Amp Gomjml.Passes

/-- **mj-text content is delivered as written**: for content that does not begin with a CDATA section, what the XML layer
    decodes from what the pass wrote is the content itself (void tags normalised) -/
theorem wrapInner_delivered (inner : List B) (h : cdStart.isPrefixOf (inner.dropWhile isWs) = false) :
    cdataDecode (wrapInner inner) = some (voidNorm inner) := by
  unfold wrapInner
  simp only [h, Bool.false_eq_true, if_false]
  rw [← Rr_eq_replaceAll (voidNorm inner).length (voidNorm inner) (Nat.le_refl _)]
  exact cdata_roundtrip (voidNorm inner)

end Gomjml.Lines
