namespace Gomjml.Cli
/-! Model of `gomjml compile` (`cmd/gomjml/command/compile.go`): decision logic stated outright. -/

/-- what the library returned for the file's content and the selected options -/
inductive Lib
  | ok (html : String)                 -- HTML, no error
  | validation (html : String)         -- HTML together with a validation error
  | failed                             -- no HTML, an ordinary error
deriving Repr, DecidableEq

structure In where
  readOk : Bool                        -- the input path could be read
  lib : Lib                            -- result of mjml.Render(content, options from --debug / --cache)
  outFile : Bool                       -- `-o <path>` given
  writeOk : Bool                       -- writing the output file succeeds
deriving Repr

structure Out where
  exit : Nat
  stdout : String
  stderr : Bool                        -- something was written to standard error
  file : Option String                 -- bytes written to the output file (none = file not touched)
deriving Repr, DecidableEq

def fail : Out := ⟨1, "", true, none⟩

def cli (i : In) : Out :=
  if !i.readOk then fail
  else match i.lib with
    | .ok html =>
      if i.outFile then (if i.writeOk then ⟨0, "", false, some html⟩ else fail)
      else ⟨0, html, false, none⟩
    | .validation _ => fail            -- any error, including a validation error: nothing is written
    | .failed => fail

/-- success: exactly the library's bytes, to the file when one is given and otherwise to standard output, exit 0 -/
theorem cli_success_file (html : String) : cli ⟨true, .ok html, true, true⟩ = ⟨0, "", false, some html⟩ := rfl
theorem cli_success_stdout (html : String) (w : Bool) : cli ⟨true, .ok html, false, w⟩ = ⟨0, html, false, none⟩ := rfl

/-- any error (unreadable input, validation error, ordinary error): non-zero exit, a message on standard error,
    the output file neither created nor overwritten, nothing on standard output -/
theorem cli_error (i : In) (h : i.readOk = false ∨ (∀ html, i.lib ≠ .ok html)) :
    (cli i).exit ≠ 0 ∧ (cli i).stderr = true ∧ (cli i).file = none ∧ (cli i).stdout = "" := by
  unfold cli
  rcases h with h | h
  · simp [h, fail]
  · cases hr : i.readOk <;> simp [fail]
    cases hl : i.lib with
    | ok html => exact absurd hl (h html)
    | validation _ => simp
    | failed => simp

/-- exit 0 happens only with an error-free library result, and then the bytes are the library's -/
theorem cli_exit0 (i : In) (h : (cli i).exit = 0) :
    ∃ html, i.lib = .ok html ∧ ((cli i).file = some html ∨ (cli i).stdout = html) := by
  unfold cli at h ⊢
  cases hr : i.readOk <;> simp [hr, fail] at h ⊢
  cases hl : i.lib with
  | ok html =>
    refine ⟨html, rfl, ?_⟩
    simp only [hl] at h ⊢
    cases ho : i.outFile <;> cases hw : i.writeOk <;> simp [ho, hw, fail] at h ⊢
  | validation _ => simp [hl, fail] at h
  | failed => simp [hl, fail] at h

end Gomjml.Cli
