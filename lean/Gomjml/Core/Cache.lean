namespace Gomjml.Cache
/-! Prototype for C13/C14: the AST cache refines the stateless compiler. -/

abbrev Doc := Nat
abbrev CKey := Nat
abbrev Ast := Nat
abbrev Html := Nat
abbrev Err := Nat

structure Entry where
  ast : Ast
  expires : Int
  stored : Int          -- ghost: when it was stored
deriving Repr

structure CS where
  store : CKey → Option Entry
  now : Int
  ttl : Int

inductive Op
  | render (d : Doc) (cached : Bool)
  | advance (δ : Nat)
  | tick                    -- one sweep of the cleanup goroutine
deriving Repr

/-- parameters: the parser, the (pure, AST-preserving: C16) renderer, the hash -/
structure World where
  parse : Doc → Except Err Ast
  rend : Ast → Html
  hash : Doc → CKey

def spec (w : World) (d : Doc) : Except Err Html := (w.parse d).map w.rend

def miss (w : World) (s : CS) (d : Doc) : CS × Except Err Html :=
  match w.parse d with
  | .ok a => ({ s with store := fun k => if k = w.hash d then some ⟨a, s.now + s.ttl, s.now⟩ else s.store k }, .ok (w.rend a))
  | .error e => (s, .error e)

def step (w : World) (s : CS) : Op → CS × Option (Except Err Html)
  | .render d false => (s, some (spec w d))
  | .render d true =>
    match s.store (w.hash d) with
    | some e =>
      if s.now < e.expires then (s, some (.ok (w.rend e.ast)))                       -- hit: nothing changes
      else
        let s' := { s with store := fun k => if k = w.hash d then none else s.store k }  -- delete-on-expired
        let r := miss w s' d
        (r.1, some r.2)
    | none => let r := miss w s d; (r.1, some r.2)
  | .advance δ => ({ s with now := s.now + δ }, none)
  | .tick => ({ s with store := fun k => match s.store k with
                                      | some e => if s.now > e.expires then none else some e
                                      | none => none }, none)

structure CInv (w : World) (s : CS) : Prop where
  sound : ∀ k e, s.store k = some e → ∃ d, w.hash d = k ∧ w.parse d = .ok e.ast
  stamp : ∀ k e, s.store k = some e → e.expires = e.stored + s.ttl ∧ e.stored ≤ s.now

theorem miss_inv (w : World) (s : CS) (d : Doc) (h : CInv w s) : CInv w (miss w s d).1 := by
  unfold miss
  cases hp : w.parse d with
  | error e => simpa using h
  | ok a =>
    constructor
    · intro k e hk
      simp only at hk
      split at hk
      · rename_i hkd; simp at hk; subst hk; exact ⟨d, hkd.symm, hp⟩
      · exact h.sound k e hk
    · intro k e hk
      simp only at hk
      split at hk
      · simp at hk; subst hk; simp
      · exact h.stamp k e hk

theorem miss_out (w : World) (s : CS) (d : Doc) : (miss w s d).2 = spec w d := by
  unfold miss spec
  cases w.parse d <;> rfl

theorem step_inv (w : World) (s : CS) (op : Op) (h : CInv w s) : CInv w (step w s op).1 := by
  cases op with
  | render d c =>
    cases c
    · simpa [step] using h
    · simp only [step]
      cases hs : s.store (w.hash d) with
      | none => exact miss_inv w s d h
      | some e =>
        simp only
        split
        · exact h
        · apply miss_inv
          constructor
          · intro k e' hk; simp only at hk; split at hk
            · simp at hk
            · exact h.sound k e' hk
          · intro k e' hk; simp only at hk; split at hk
            · simp at hk
            · exact h.stamp k e' hk
  | advance δ =>
    constructor
    · exact h.sound
    · intro k e hk
      have := h.stamp k e hk
      exact ⟨this.1, by simp only [step]; omega⟩
  | tick =>
    constructor
    · intro k e hk
      simp only [step] at hk
      cases hs : s.store k with
      | none => simp [hs] at hk
      | some e0 =>
        simp only [hs] at hk
        split at hk
        · simp at hk
        · simp at hk; subst hk; exact h.sound k e0 hs
    · intro k e hk
      simp only [step] at hk
      cases hs : s.store k with
      | none => simp [hs] at hk
      | some e0 =>
        simp only [hs] at hk
        split at hk
        · simp at hk
        · simp at hk; subst hk; exact h.stamp k e0 hs

/-- **C13**: with a collision-free hash, every compilation — cached or not, whatever happened before —
    returns what the stateless compiler returns. -/
theorem step_transparent (w : World) (hinj : ∀ d d', w.hash d = w.hash d' → d = d')
    (s : CS) (h : CInv w s) (d : Doc) (c : Bool) :
    (step w s (.render d c)).2 = some (spec w d) := by
  cases c
  · simp [step]
  · simp only [step]
    cases hs : s.store (w.hash d) with
    | none => simp [miss_out]
    | some e =>
      simp only
      split
      · obtain ⟨d', hk, hp⟩ := h.sound _ e hs
        have := hinj d' d hk; subst this
        simp [spec, hp, Except.map]
      · simp [miss_out]

def runOps (w : World) (s : CS) : List Op → CS × List (Option (Except Err Html))
  | [] => (s, [])
  | op :: r => let (s1, o) := step w s op; let (s2, os) := runOps w s1 r; (s2, o :: os)

def expected (w : World) : List Op → List (Option (Except Err Html))
  | [] => []
  | .render d _ :: r => some (spec w d) :: expected w r
  | _ :: r => none :: expected w r

theorem C13_transparent (w : World) (hinj : ∀ d d', w.hash d = w.hash d' → d = d') :
    ∀ (ops : List Op) (s : CS), CInv w s → (runOps w s ops).2 = expected w ops := by
  intro ops
  induction ops with
  | nil => intro s _; rfl
  | cons op r ih =>
    intro s h
    have hi := step_inv w s op h
    cases op with
    | render d c =>
      simp only [runOps, expected]
      rw [step_transparent w hinj s h d c, ih _ hi]
    | advance δ => simp only [runOps, expected, step]; rw [ih _ (by simpa [step] using hi)]
    | tick => simp only [runOps, expected]; rw [show (step w s .tick).2 = none from rfl, ih _ hi]

/-- **C14**: reuse happens strictly before expiry; a hit changes nothing (so it cannot extend the expiry);
    after a sweep no entry is past its expiry. -/
theorem hit_no_change (w : World) (s : CS) (d : Doc) (e : Entry) (hs : s.store (w.hash d) = some e)
    (hnow : s.now < e.expires) : (step w s (.render d true)).1 = s := by
  simp [step, hs, hnow]

theorem after_tick (w : World) (s : CS) (k : CKey) (e : Entry)
    (h : (step w s .tick).1.store k = some e) : e.expires ≥ s.now := by
  simp only [step] at h
  cases hs : s.store k with
  | none => simp [hs] at h
  | some e0 =>
    simp only [hs] at h
    split at h
    · simp at h
    · simp at h; subst h; omega

end Gomjml.Cache
