import Gomjml.Core.InlineCss
/-! Where an authored length becomes a number (`mjml/styles/attributes.go`, `border.go`): `strings.Fields`, the choice of
    the horizontal values of a padding shorthand (`ParseHorizontalSpacing`), `ParsePixel` on plain decimal numbers and
    `ParseBorderWidth`.  The width Model (`Widths.impl`) starts from integers; this file is the step in front of it. -/
namespace Gomjml.Lengths
open Gomjml.Amp Gomjml.InlineCss

/-! ### `strings.Fields`: maximal runs of bytes that are not (Unicode) white space -/

def emit (cur : List B) : List (List B) := if cur = [] then [] else [cur.reverse]

def fieldsAux : Nat → List B → List B → List (List B)
  | 0, _, cur => emit cur
  | _, [], cur => emit cur
  | fuel + 1, b :: r, cur =>
    if spaceLen (b :: r) = 0 then fieldsAux fuel r (b :: cur)
    else emit cur ++ fieldsAux fuel ((b :: r).drop (spaceLen (b :: r))) []

def fields (s : List B) : List (List B) := fieldsAux (s.length + 1) s []

/-! ### the horizontal values of a shorthand: CSS's box rule -/

/-- `ParseHorizontalSpacing`'s choice: (left, right) among one to four values -/
def hsel {α : Type} : List α → Option (α × α)
  | [a] => some (a, a)
  | [_, b] => some (b, b)
  | [_, b, _] => some (b, b)
  | [_, b, _, d] => some (d, b)
  | _ => none

/-- CSS: `padding: t r b l` with missing values taken from the opposite side (`l` from `r`, `b` from `t`, `r` from `t`) -/
def cssSides {α : Type} : List α → Option (α × α × α × α)      -- top right bottom left
  | [a] => some (a, a, a, a)
  | [a, b] => some (a, b, a, b)
  | [a, b, c] => some (a, b, c, b)
  | [a, b, c, d] => some (a, b, c, d)
  | _ => none

/-- **the horizontal pair is CSS's left and right**, for every number of values; more than four (or none) is no shorthand -/
theorem hsel_css {α : Type} (vs : List α) :
    hsel vs = (cssSides vs).map (fun s => (s.2.2.2, s.2.1)) := by
  match vs with
  | [] => rfl
  | [_] => rfl
  | [_, _] => rfl
  | [_, _, _] => rfl
  | [_, _, _, _] => rfl
  | _ :: _ :: _ :: _ :: _ :: _ => rfl

/-! ### `ParsePixel` on plain decimals: optional sign, digits, optional fraction, optional `px` -/

structure Dec where
  neg : Bool
  mant : Nat        -- all digits, the decimal point removed
  frac : Nat        -- number of digits behind the point
deriving DecidableEq, Repr

def isDig (b : B) : Bool := 48 ≤ b && b ≤ 57

def digitsVal (ds : List B) : Nat := ds.foldl (fun acc d => acc * 10 + (d.toNat - 48)) 0

/-- `none` = outside the modelled grammar (exponents, hex floats, inf / nan, underscores …) or not a number at all -/
def parseDec (s : List B) : Option Dec :=
  let (neg, body) := match s with
    | 45 :: r => (true, r)
    | 43 :: r => (false, r)
    | _ => (false, s)
  let ip := body.takeWhile isDig
  let rest := body.dropWhile isDig
  match rest with
  | [] => if ip = [] then none else some ⟨neg, digitsVal ip, 0⟩
  | 46 :: fr => if fr.all isDig && !(ip = [] && fr = []) then some ⟨neg, digitsVal (ip ++ fr), fr.length⟩ else none
  | _ => none

def pxSuffix : List B := [112, 120]

/-- `strings.TrimSuffix(value, "px")` -/
def trimPx (s : List B) : List B :=
  if pxSuffix.isSuffixOf s then s.take (s.length - 2) else s

/-- `ParsePixel` (the empty string is "no value", `none` here too) -/
def parsePixel (s : List B) : Option Dec := if s = [] then none else parseDec (trimPx s)

/-- `ParseHorizontalSpacing` -/
def hspacing (s : List B) : Option (Dec × Dec) :=
  match hsel (fields s) with
  | none => none
  | some (l, r) =>
    match parsePixel l, parsePixel r with
    | some a, some b => some (a, b)
    | _, _ => none

/-- `ParseBorderWidth`: the first field of the border shorthand, as pixels (whole part), 0 when there is none -/
def borderField (s : List B) : Option Dec :=
  match fields s with
  | f :: _ => parsePixel f
  | [] => none

/-- non-vacuity: `" 10px\t20.0px  30 "` has three fields and the horizontal pair (20.0, 20.0) -/
example : fields [32, 49, 48, 112, 120, 9, 50, 48, 46, 48, 112, 120, 32, 32, 51, 48, 32] =
    [[49, 48, 112, 120], [50, 48, 46, 48, 112, 120], [51, 48]] ∧
    hspacing [32, 49, 48, 112, 120, 9, 50, 48, 46, 48, 112, 120, 32, 32, 51, 48, 32] = some (⟨false, 200, 1⟩, ⟨false, 200, 1⟩) := by decide

end Gomjml.Lengths
