package main

import (
	"fmt"
	"sort"
	"strings"

	"github.com/preslavrachev/gomjml/mjml/components"
)

// ===== layout documents: exactly the flags the Lean Layout model reads ==============================

type LLeaf struct {
	Raw   bool
	Blank bool   // raw only
	Align string // text only: "", right, center
	Comp  *LComp // another content component (the Lean model: Leaves.LeafM); nil for mj-text / mj-raw
}

// LComp: a content component with exactly the parameters its skeleton depends on (Lean: Leaves.LeafM)
type LComp struct {
	Kind    string // text button image divider spacer table social navbar accordion carousel
	Href    bool
	Content bool
	Rows    int // table
	Vert    bool
	SocKids []LSocKid
	Hamb    bool
	NavKids []LNavKid
	AccKids []LAccKid
	Thumbs  bool
	Imgs    []bool // carousel: image has href (at least one image)
}

// children in document order; Raw = an mj-raw between the elements (Blank: without content)
type LSocKid struct{ Raw, Blank, Href, Text bool }
type LNavKid struct{ Raw, Blank, Content bool }
type LAccPart struct {
	K       string // title text raw
	Content bool   // title / text: has content; raw: not blank
}
type LAccKid struct {
	Raw, Blank bool
	IconLeft   bool
	Parts      []LAccPart
}

// enc: the item of the leaves word (Driver/HtmlP.lean `compOf`)
func (c *LComp) enc() string {
	switch c.Kind {
	case "text":
		return "xT" + b01(c.Content)
	case "button":
		return "xB" + b01(c.Href) + b01(c.Content)
	case "image":
		return "xI" + b01(c.Href)
	case "divider":
		return "xD"
	case "spacer":
		return "xP"
	case "table":
		return fmt.Sprintf("xA%d.%s", c.Rows, b01(c.Content))
	case "social":
		s := "xS" + b01(c.Vert)
		for _, k := range c.SocKids {
			if k.Raw {
				s += ":r" + b01(k.Blank)
			} else {
				s += ":e" + b01(k.Href) + b01(k.Text)
			}
		}
		return s
	case "navbar":
		s := "xN" + b01(c.Hamb)
		for _, k := range c.NavKids {
			if k.Raw {
				s += ":r" + b01(k.Blank)
			} else {
				s += ":l" + b01(k.Content)
			}
		}
		return s
	case "accordion":
		s := "xC"
		for _, k := range c.AccKids {
			if k.Raw {
				s += ":r" + b01(k.Blank)
				continue
			}
			s += ":E" + b01(k.IconLeft)
			for _, p := range k.Parts {
				switch p.K {
				case "title":
					s += "/T" + b01(p.Content)
				case "text":
					s += "/X" + b01(p.Content)
				default:
					s += "/r" + b01(!p.Content)
				}
			}
		}
		return s
	case "carousel":
		s := "xK" + b01(c.Thumbs)
		for _, h := range c.Imgs {
			s += b01(h)
		}
		return s
	}
	return "x?"
}

// mjml: the component as the author writes it; every content slot gets a sentinel, in the order the Model counts them
func (c *LComp) mjml(sent func() string) string {
	cont := func(has bool) string {
		if has {
			return sent()
		}
		return ""
	}
	switch c.Kind {
	case "text":
		return "<mj-text>" + cont(c.Content) + "</mj-text>"
	case "button":
		h := ""
		if c.Href {
			h = ` href="http://x/u"`
		}
		return "<mj-button" + h + ">" + cont(c.Content) + "</mj-button>"
	case "image":
		h := ""
		if c.Href {
			h = ` href="http://x/i"`
		}
		return `<mj-image src="a.png"` + h + `/>`
	case "divider":
		return "<mj-divider/>"
	case "spacer":
		return "<mj-spacer/>"
	case "table":
		if c.Rows == 0 {
			return "<mj-table>" + cont(c.Content) + "</mj-table>"
		}
		var b strings.Builder
		for i := 0; i < c.Rows; i++ {
			b.WriteString("<tr><td>" + sent() + "</td></tr>")
		}
		return "<mj-table>" + b.String() + "</mj-table>"
	case "social":
		var b strings.Builder
		rawOf := func(blank bool) string {
			if blank {
				return "<mj-raw></mj-raw>"
			}
			return "<mj-raw><i>" + sent() + "</i></mj-raw>"
		}
		for i, k := range c.SocKids {
			if k.Raw {
				b.WriteString(rawOf(k.Blank))
				continue
			}
			// with and without a known network: the element is written either way
			a := []string{` name="facebook"`, ` name="twitter"`, ` src="http://x/icon.png"`, ` name="nosuchnetwork"`, ``}[i%5]
			if k.Href {
				a += ` href="http://x/s"`
			}
			b.WriteString("<mj-social-element" + a + ">" + cont(k.Text) + "</mj-social-element>")
		}
		m := ""
		if c.Vert {
			m = ` mode="vertical"`
		}
		return "<mj-social" + m + ">" + b.String() + "</mj-social>"
	case "navbar":
		var b strings.Builder
		for _, k := range c.NavKids {
			if k.Raw {
				if k.Blank {
					b.WriteString("<mj-raw></mj-raw>")
				} else {
					b.WriteString("<mj-raw><i>" + sent() + "</i></mj-raw>")
				}
				continue
			}
			b.WriteString(`<mj-navbar-link href="/a">` + cont(k.Content) + "</mj-navbar-link>")
		}
		h := ""
		if c.Hamb {
			h = ` hamburger="hamburger"`
		}
		return "<mj-navbar" + h + ">" + b.String() + "</mj-navbar>"
	case "accordion":
		var b strings.Builder
		rawOf := func(blank bool) string {
			if blank {
				return "<mj-raw></mj-raw>"
			}
			return "<mj-raw><i>" + sent() + "</i></mj-raw>"
		}
		for _, k := range c.AccKids {
			if k.Raw {
				b.WriteString(rawOf(k.Blank))
				continue
			}
			a := ""
			if k.IconLeft {
				a = ` icon-position="left"`
			}
			b.WriteString("<mj-accordion-element" + a + ">")
			for _, p := range k.Parts {
				switch p.K {
				case "title":
					b.WriteString("<mj-accordion-title>" + cont(p.Content) + "</mj-accordion-title>")
				case "text":
					b.WriteString("<mj-accordion-text>" + cont(p.Content) + "</mj-accordion-text>")
				default:
					b.WriteString(rawOf(!p.Content))
				}
			}
			b.WriteString("</mj-accordion-element>")
		}
		return "<mj-accordion>" + b.String() + "</mj-accordion>"
	case "carousel":
		var b strings.Builder
		for i, h := range c.Imgs {
			a := ""
			if h {
				a = ` href="http://x/c"`
			}
			b.WriteString(fmt.Sprintf(`<mj-carousel-image src="c%d.png"%s/>`, i, a))
		}
		t := ""
		if !c.Thumbs {
			t = ` thumbnails="hidden"`
		}
		return "<mj-carousel" + t + ">" + b.String() + "</mj-carousel>"
	}
	return ""
}

// genLComp: a random component; child counts 0–4 so that first / last / only / none are all frequent
func genLComp(r *Rng) *LComp {
	c := &LComp{Kind: r.Pick([]string{"text", "button", "image", "divider", "spacer", "table", "social", "social", "navbar", "navbar", "accordion", "accordion", "carousel"})}
	c.Href, c.Content = r.Bool(1, 2), r.Bool(3, 4)
	switch c.Kind {
	case "table":
		c.Rows = []int{0, 0, 1, 2, 3}[r.Intn(5)]
	case "social":
		c.Vert = r.Bool(1, 3)
		for i, n := 0, r.Intn(5); i < n; i++ {
			if r.Bool(1, 4) {
				c.SocKids = append(c.SocKids, LSocKid{Raw: true, Blank: r.Bool(1, 3)})
			} else {
				c.SocKids = append(c.SocKids, LSocKid{Href: r.Bool(1, 2), Text: r.Bool(2, 3)})
			}
		}
	case "navbar":
		c.Hamb = r.Bool(1, 3)
		for i, n := 0, r.Intn(5); i < n; i++ {
			if r.Bool(1, 4) {
				c.NavKids = append(c.NavKids, LNavKid{Raw: true, Blank: r.Bool(1, 3)})
			} else {
				c.NavKids = append(c.NavKids, LNavKid{Content: r.Bool(4, 5)})
			}
		}
	case "accordion":
		for i, n := 0, r.Intn(4); i < n; i++ {
			if r.Bool(1, 5) {
				c.AccKids = append(c.AccKids, LAccKid{Raw: true, Blank: r.Bool(1, 3)})
				continue
			}
			k := LAccKid{IconLeft: r.Bool(1, 3)}
			for j, m := 0, r.Intn(4); j < m; j++ {
				k.Parts = append(k.Parts, LAccPart{K: r.Pick([]string{"title", "title", "text", "text", "raw"}), Content: r.Bool(3, 4)})
			}
			c.AccKids = append(c.AccKids, k)
		}
	case "carousel":
		c.Thumbs = r.Bool(2, 3)
		for i, n := 0, 1+r.Intn(4); i < n; i++ {
			c.Imgs = append(c.Imgs, r.Bool(1, 3))
		}
	}
	return c
}

type LColumn struct {
	Gutter bool
	Css    bool
	Leaves []LLeaf
}
type LSChild struct {
	K     string // col | group | raw
	Col   *LColumn
	Group []LSChild // col | raw
	Blank bool
}
type LSection struct {
	Fw, Bg, Bgc, Css, Txt bool
	Kids                  []LSChild
}
type LWChild struct {
	Sec   *LSection
	Blank bool // raw when Sec == nil
}
type LBlock struct {
	K     string // section | wrapper | hero | raw
	Sec   *LSection
	WFw   bool
	WBgc  bool
	WPad  int // cosmetic for the skeleton: 0 none, 1 ordinary padding, 2 / 3 paddings (and borders) that use up the whole width
	WKids []LWChild
	Hero  []LLeaf
	Blank bool
}
type LDoc struct{ Blocks []LBlock }

func (c *LColumn) split() bool {
	for _, l := range c.Leaves {
		if !l.Raw && l.Align == "right" {
			return true
		}
	}
	return false
}

// sectionSplit mirrors `requiresSingleColumnSplit` as the model's `split` flag: any column with right-aligned text.
func (s *LSection) split() bool {
	for _, k := range s.Kids {
		if k.K == "col" && k.Col.split() {
			return true
		}
	}
	return false
}

// ---- MJML printer ----

func (l LLeaf) mjml(sent func() string) string {
	if l.Comp != nil {
		return l.Comp.mjml(sent)
	}
	if l.Raw {
		if l.Blank {
			return "<mj-raw></mj-raw>"
		}
		return "<mj-raw><i>" + sent() + "</i></mj-raw>"
	}
	a := ""
	if l.Align != "" {
		a = ` align="` + l.Align + `"`
	}
	return "<mj-text" + a + ">" + sent() + "</mj-text>"
}
func (c *LColumn) mjml(sent func() string) string {
	a := ""
	if c.Gutter {
		a += ` padding="5px"`
	}
	if c.Css {
		a += ` css-class="cc"`
	}
	var b strings.Builder
	for _, l := range c.Leaves {
		b.WriteString(l.mjml(sent))
	}
	return "<mj-column" + a + ">" + b.String() + "</mj-column>"
}
func (k LSChild) mjml(sent func() string) string {
	switch k.K {
	case "col":
		return k.Col.mjml(sent)
	case "raw":
		return LLeaf{Raw: true, Blank: k.Blank}.mjml(sent)
	}
	var b strings.Builder
	for _, g := range k.Group {
		b.WriteString(g.mjml(sent))
	}
	return "<mj-group>" + b.String() + "</mj-group>"
}
func boolInt(b bool) int {
	if b {
		return 1
	}
	return 0
}

func (s *LSection) mjml(sent func() string) string {
	a := ""
	if s.Fw {
		a += ` full-width="full-width"`
	} else if (len(s.Kids)+boolInt(s.Bg)+boolInt(s.Css))%2 == 1 {
		// the other legal value of the flag: must render exactly like an absent attribute (the Model does not see it)
		a += ` full-width="false"`
	}
	if s.Bg {
		a += ` background-url="http://x/y.png"`
	}
	if s.Bgc {
		a += ` background-color="#eeeeee"`
	}
	if s.Css {
		a += ` css-class="k"`
	}
	var b strings.Builder
	for _, k := range s.Kids {
		b.WriteString(k.mjml(sent))
	}
	inner := b.String()
	if s.Txt && len(s.Kids) == 0 {
		inner = sent()
	}
	return "<mj-section" + a + ">" + inner + "</mj-section>"
}
func (bk LBlock) mjml(sent func() string) string {
	switch bk.K {
	case "section":
		return bk.Sec.mjml(sent)
	case "wrapper":
		a := ""
		if bk.WFw {
			a += ` full-width="full-width"`
		} else if len(bk.WKids)%2 == 1 {
			a += ` full-width="false"`
		}
		if bk.WBgc {
			a += ` background-color="#dddddd"`
		}
		switch bk.WPad {
		case 1:
			a += ` padding="10px 20px"`
		case 2:
			a += ` padding="0 300px"`
		case 3:
			a += ` padding="10px 280px" border="20px solid #000000"`
		}
		var b strings.Builder
		for _, c := range bk.WKids {
			if c.Sec != nil {
				b.WriteString(c.Sec.mjml(sent))
			} else {
				b.WriteString(LLeaf{Raw: true, Blank: c.Blank}.mjml(sent))
			}
		}
		return "<mj-wrapper" + a + ">" + b.String() + "</mj-wrapper>"
	case "hero":
		var b strings.Builder
		for _, l := range bk.Hero {
			b.WriteString(l.mjml(sent))
		}
		return "<mj-hero>" + b.String() + "</mj-hero>"
	}
	if bk.Blank {
		return "<mj-raw></mj-raw>"
	}
	return "<mj-raw><p>" + sent() + "</p></mj-raw>"
}

// MJML prints the document; every content slot receives a unique sentinel S<n>E.
func (d *LDoc) MJML() (string, []string) {
	var sents []string
	sent := func() string {
		s := fmt.Sprintf("S%dE", len(sents)+1)
		sents = append(sents, s)
		return s
	}
	var b strings.Builder
	for _, bk := range d.Blocks {
		b.WriteString(bk.mjml(sent))
	}
	return "<mjml><mj-body>" + b.String() + "</mj-body></mjml>", sents
}

// ---- encoding for the Lean driver (prefix tokens, see Driver/Main.lean `parseDoc`) ----

func b01(b bool) string {
	if b {
		return "1"
	}
	return "0"
}
func leavesWord(ls []LLeaf) string {
	var items []string
	for _, l := range ls {
		switch {
		case l.Comp != nil:
			items = append(items, l.Comp.enc())
		case l.Raw:
			if !l.Blank {
				items = append(items, "r")
			} // blank raws in a column emit nothing and are dropped from the model document
		default:
			items = append(items, "t")
		}
	}
	if len(items) == 0 {
		return "-"
	}
	return strings.Join(items, ",")
}
func (c *LColumn) enc() string { return "C" + b01(c.Gutter) + " " + leavesWord(c.Leaves) }
func (k LSChild) enc() string {
	switch k.K {
	case "col":
		return k.Col.enc()
	case "raw":
		return "r" + b01(k.Blank)
	}
	parts := []string{"G"}
	for _, g := range k.Group {
		parts = append(parts, g.enc())
	}
	parts = append(parts, ";")
	return strings.Join(parts, " ")
}
func (s *LSection) enc() string {
	parts := []string{"S" + b01(s.Fw) + b01(s.Bg) + b01(s.split()) + b01(s.Txt) + b01(s.Bgc) + b01(s.Css)}
	for _, k := range s.Kids {
		parts = append(parts, k.enc())
	}
	parts = append(parts, ";")
	return strings.Join(parts, " ")
}
func (d *LDoc) Enc() string {
	var parts []string
	for _, bk := range d.Blocks {
		switch bk.K {
		case "section":
			parts = append(parts, bk.Sec.enc())
		case "wrapper":
			parts = append(parts, "W"+b01(bk.WFw)+b01(bk.WBgc))
			for _, c := range bk.WKids {
				if c.Sec != nil {
					parts = append(parts, c.Sec.enc())
				} else {
					parts = append(parts, "r"+b01(c.Blank))
				}
			}
			parts = append(parts, ";")
		case "hero":
			parts = append(parts, "H "+leavesWord(bk.Hero))
		default:
			parts = append(parts, "R"+b01(bk.Blank))
		}
	}
	return strings.Join(parts, " ")
}

// ---- random layout documents (port of appendix C.3) ----

func genLColumn(r *Rng) *LColumn {
	n := []int{0, 1, 1, 2}[r.Intn(4)]
	c := &LColumn{Gutter: r.Bool(3, 10), Css: r.Bool(1, 5)}
	for i := 0; i < n; i++ {
		if r.Bool(3, 10) {
			c.Leaves = append(c.Leaves, LLeaf{Comp: genLComp(r)})
		} else if r.Bool(8, 10) {
			c.Leaves = append(c.Leaves, LLeaf{Align: []string{"", "", "right", "center"}[r.Intn(4)]})
		} else {
			c.Leaves = append(c.Leaves, LLeaf{Raw: true, Blank: r.Bool(3, 10)})
		}
	}
	return c
}
func genLSection(r *Rng) *LSection {
	s := &LSection{Fw: r.Bool(3, 10), Bg: r.Bool(3, 10), Bgc: r.Bool(3, 10), Css: r.Bool(1, 5)}
	switch r.Pick([]string{"cols", "cols", "cols", "mixed", "empty", "txt", "group", "rawonly"}) {
	case "cols":
		for i, n := 0, []int{1, 1, 2, 3}[r.Intn(4)]; i < n; i++ {
			s.Kids = append(s.Kids, LSChild{K: "col", Col: genLColumn(r)})
		}
	case "mixed":
		for i, n := 0, 1+r.Intn(3); i < n; i++ {
			switch r.Intn(3) {
			case 0:
				s.Kids = append(s.Kids, LSChild{K: "col", Col: genLColumn(r)})
			case 1:
				s.Kids = append(s.Kids, LSChild{K: "raw", Blank: r.Bool(3, 10)})
			default:
				g := LSChild{K: "group"}
				for j, m := 0, 1+r.Intn(2); j < m; j++ {
					g.Group = append(g.Group, LSChild{K: "col", Col: genLColumn(r)})
				}
				s.Kids = append(s.Kids, g)
			}
		}
	case "txt":
		s.Txt = true
	case "group":
		g := LSChild{K: "group"}
		for j, m := 0, 1+r.Intn(3); j < m; j++ {
			if r.Bool(1, 2) {
				g.Group = append(g.Group, LSChild{K: "col", Col: genLColumn(r)})
			} else {
				g.Group = append(g.Group, LSChild{K: "raw"})
			}
		}
		s.Kids = append(s.Kids, g)
	case "rawonly":
		for i, n := 0, 1+r.Intn(2); i < n; i++ {
			s.Kids = append(s.Kids, LSChild{K: "raw", Blank: r.Bool(3, 10)})
		}
	}
	return s
}
func genLBlock(r *Rng) LBlock {
	switch r.Pick([]string{"section", "section", "section", "section", "section", "wrapper", "wrapper", "wrapper", "hero", "raw"}) {
	case "section":
		return LBlock{K: "section", Sec: genLSection(r)}
	case "wrapper":
		b := LBlock{K: "wrapper", WFw: r.Bool(3, 10), WBgc: r.Bool(4, 10), WPad: []int{0, 0, 0, 0, 1, 1, 2, 3}[r.Intn(8)]}
		for i, n := 0, []int{0, 1, 1, 2, 3}[r.Intn(5)]; i < n; i++ {
			if r.Bool(8, 10) {
				b.WKids = append(b.WKids, LWChild{Sec: genLSection(r)})
			} else {
				b.WKids = append(b.WKids, LWChild{Blank: r.Bool(4, 10)})
			}
		}
		return b
	case "hero":
		b := LBlock{K: "hero"}
		for i, n := 0, r.Intn(3); i < n; i++ {
			if r.Bool(1, 3) {
				b.Hero = append(b.Hero, LLeaf{Comp: genLComp(r)})
			} else {
				b.Hero = append(b.Hero, LLeaf{})
			}
		}
		return b
	}
	return LBlock{K: "raw", Blank: r.Bool(1, 5)}
}
func genLDoc(r *Rng) *LDoc {
	d := &LDoc{}
	for i, n := 0, 1+r.Intn(4); i < n; i++ {
		d.Blocks = append(d.Blocks, genLBlock(r))
	}
	return d
}

// ===== rich documents: the whole component grammar with typed attribute values ===========================

type Node struct {
	Tag   string
	Attrs [][2]string
	Kids  []*Node
	Text  string // inner text / raw HTML (already XML-safe as written)
}

func (n *Node) Set(k, v string) *Node {
	for i := range n.Attrs {
		if n.Attrs[i][0] == k {
			n.Attrs[i][1] = v
			return n
		}
	}
	n.Attrs = append(n.Attrs, [2]string{k, v})
	return n
}
func (n *Node) Get(k string) (string, bool) {
	for _, a := range n.Attrs {
		if a[0] == k {
			return a[1], true
		}
	}
	return "", false
}
func (n *Node) Clone() *Node {
	c := &Node{Tag: n.Tag, Text: n.Text, Attrs: append([][2]string(nil), n.Attrs...)}
	for _, k := range n.Kids {
		c.Kids = append(c.Kids, k.Clone())
	}
	return c
}
func (n *Node) Walk(f func(*Node)) {
	f(n)
	for _, k := range n.Kids {
		k.Walk(f)
	}
}

func xmlAttrEsc(s string) string {
	s = strings.ReplaceAll(s, "&", "&amp;")
	s = strings.ReplaceAll(s, "\"", "&quot;")
	s = strings.ReplaceAll(s, "<", "&lt;")
	return s
}

type PrintOpts struct {
	Indent    bool
	Newline   string
	SelfClose bool // empty elements as <x/>
	Quote     byte
	AttrPerm  func(n int) []int
	// white space inside tags where XML allows it and it means nothing: before '>' and '/>', around '=', between attributes
	// (a space, several spaces, a line break); picks one spelling per place
	TagSpace func() string
}

func (n *Node) MJML() string { return n.Print(PrintOpts{}) }

func (n *Node) Print(o PrintOpts) string {
	var b strings.Builder
	n.print(&b, o, 0)
	return b.String()
}

func isContentTag(tag string) bool {
	switch tag {
	case "mj-text", "mj-button", "mj-table", "mj-raw", "mj-navbar-link", "mj-social-element", "mj-accordion-title", "mj-accordion-text", "mj-title", "mj-preview", "mj-style":
		return true
	}
	return false
}

func (n *Node) print(b *strings.Builder, o PrintOpts, depth int) {
	q := byte('"')
	if o.Quote != 0 {
		q = o.Quote
	}
	nl := o.Newline
	ind := func(d int) {
		if o.Indent {
			b.WriteString(nl)
			b.WriteString(strings.Repeat("  ", d))
		}
	}
	b.WriteString("<" + n.Tag)
	idx := make([]int, len(n.Attrs))
	for i := range idx {
		idx[i] = i
	}
	if o.AttrPerm != nil {
		idx = o.AttrPerm(len(n.Attrs))
	}
	for _, i := range idx {
		a := n.Attrs[i]
		v := xmlAttrEsc(a[1])
		if q == '\'' {
			v = strings.ReplaceAll(strings.ReplaceAll(a[1], "&", "&amp;"), "<", "&lt;")
			v = strings.ReplaceAll(v, "'", "&apos;")
		}
		sp, eq := " ", "="
		if o.TagSpace != nil {
			if t := o.TagSpace(); t != "" {
				sp = t
			}
			eq = o.TagSpace() + "=" + o.TagSpace()
		}
		b.WriteString(sp + a[0] + eq + string(q) + v + string(q))
	}
	ts := ""
	if o.TagSpace != nil {
		ts = o.TagSpace()
	}
	if len(n.Kids) == 0 && n.Text == "" {
		if o.SelfClose {
			b.WriteString(ts + "/>")
		} else {
			b.WriteString(ts + "></" + n.Tag + ts + ">")
		}
		return
	}
	b.WriteString(ts + ">")
	if n.Text != "" {
		b.WriteString(n.Text)
	}
	for _, k := range n.Kids {
		if !isContentTag(n.Tag) {
			ind(depth + 1)
		}
		k.print(b, o, depth+1)
	}
	if len(n.Kids) > 0 && !isContentTag(n.Tag) {
		ind(depth)
	}
	if o.TagSpace != nil {
		b.WriteString("</" + n.Tag + o.TagSpace() + ">")
		return
	}
	b.WriteString("</" + n.Tag + ">")
}

// ---- typed attribute values ----

var fontPool = []string{"Roboto", "Lato", "Open Sans", "Ubuntu", "Droid Sans", "Arial", "Helvetica, Arial, sans-serif", "Roboto, Helvetica", "Georgia", "Lato, sans-serif"}
var colorPool = []string{"#ff0000", "#00ff00", "#123456", "red", "blue", "#abc", "transparent", "rgb(1,2,3)", "#F45E43"}

func genValue(r *Rng, attr, ty string) string {
	switch {
	case attr == "font-family":
		return r.Pick(fontPool)
	case attr == "css-class":
		return r.Pick([]string{"ka", "kb", "kc", "ka kb"})
	case attr == "mj-class":
		return r.Pick([]string{"m1", "m2", "m1 m2", "m2 m1"})
	case attr == "background-url" || attr == "src" || attr == "href" || attr == "thumbnails-src" || strings.HasSuffix(attr, "-url") || strings.HasSuffix(attr, "icon"):
		return r.Pick([]string{"http://x/a.png", "https://e.com/b.jpg?x=1&y=2", "http://x/c.gif"})
	case ty == "color":
		return r.Pick(colorPool)
	case strings.HasPrefix(ty, "enum("):
		opts := strings.Split(strings.TrimSuffix(strings.TrimPrefix(ty, "enum("), ")"), ",")
		var nz []string
		for _, o := range opts {
			if o != "" {
				nz = append(nz, o)
			}
		}
		if len(nz) == 0 {
			return ""
		}
		return r.Pick(nz)
	case strings.HasPrefix(ty, "unit(") && strings.HasSuffix(ty, "{1,4}"):
		n := 1 + r.Intn(4)
		var ps []string
		for i := 0; i < n; i++ {
			ps = append(ps, fmt.Sprintf("%dpx", r.Intn(30)))
		}
		return strings.Join(ps, " ")
	case strings.HasPrefix(ty, "unit(px,%"):
		if attr == "width" && r.Bool(1, 2) {
			return r.Pick([]string{"50%", "25%", "33.33%", "100%", "40%", "12.5%", "75%"})
		}
		return fmt.Sprintf("%dpx", []int{0, 1, 5, 10, 20, 40, 100, 150, 300, 480, 600}[r.Intn(11)])
	case strings.HasPrefix(ty, "unit(px"), strings.HasPrefix(ty, "unitWithNegative"):
		return fmt.Sprintf("%dpx", []int{0, 1, 2, 4, 10, 13, 20, 30, 50}[r.Intn(9)])
	case ty == "integer":
		return fmt.Sprintf("%d", r.Intn(10))
	case ty == "boolean":
		return r.Pick([]string{"true", "false"})
	}
	// string
	switch {
	case strings.HasPrefix(attr, "border-radius"):
		return r.Pick([]string{"3px", "0", "10px 5px"})
	case strings.HasPrefix(attr, "border"):
		return r.Pick([]string{"1px solid #000", "2px dashed red", "none", "0"})
	case attr == "align" || attr == "text-align":
		return r.Pick([]string{"left", "right", "center"})
	case attr == "font-size":
		return r.Pick([]string{"13px", "16px", "20px"})
	case attr == "line-height":
		return r.Pick([]string{"1", "22px", "120%"})
	case attr == "font-weight":
		return r.Pick([]string{"bold", "400", "normal"})
	case attr == "name":
		return r.Pick([]string{"facebook", "twitter", "github", "custom"})
	case attr == "target":
		return r.Pick([]string{"_blank", "_self"})
	case attr == "rel":
		return "noopener"
	case attr == "alt" || attr == "title":
		return r.Pick([]string{"alt text", "A & B", "x"})
	case strings.HasPrefix(attr, "background-"):
		return r.Pick([]string{"center", "top left", "cover", "no-repeat", "50%"})
	case attr == "mode":
		return r.Pick([]string{"fixed-height", "fluid-height"})
	case attr == "owa":
		return "desktop"
	case attr == "lang":
		return "en"
	case attr == "dir":
		return r.Pick([]string{"ltr", "rtl"})
	}
	return r.Pick([]string{"v1", "v2", "10px"})
}

func allowedSorted(tag string) [][2]string {
	m := components.AllowedCSSAttributes(tag)
	var out [][2]string
	for k, v := range m {
		out = append(out, [2]string{k, v})
	}
	sort.Slice(out, func(i, j int) bool { return out[i][0] < out[j][0] })
	return out
}

// decorate adds up to `max` accepted attributes with well-typed values.
func decorate(r *Rng, n *Node, max int, skip map[string]bool) *Node {
	al := allowedSorted(n.Tag)
	if len(al) == 0 {
		return n
	}
	// mj-class and css-class are accepted everywhere but are not part of the per-component tables
	if max > 0 && strings.HasPrefix(n.Tag, "mj-") && n.Tag != "mj-class" && n.Tag != "mj-all" {
		if r.Bool(1, 5) {
			n.Set("mj-class", genValue(r, "mj-class", "string"))
		}
		if r.Bool(1, 5) {
			n.Set("css-class", genValue(r, "css-class", "string"))
		}
	}
	k := r.Intn(max + 1)
	for i := 0; i < k; i++ {
		a := al[r.Intn(len(al))]
		if skip[a[0]] {
			continue
		}
		if _, ok := n.Get(a[0]); ok {
			continue
		}
		n.Set(a[0], genValue(r, a[0], a[1]))
	}
	return n
}

var richSkip = map[string]bool{"hamburger": true, "full-width": true, "background-url": true, "mode": true, "height": true, "background-height": true, "background-width": true}

type RichOpts struct {
	Sent      func() string // content sentinel generator (nil ⇒ fixed words)
	Head      bool
	MaxAttrs  int
	Features  bool // navbar/social/accordion/carousel leaves
	CSSInline bool
}

func (o *RichOpts) sent(def string) string {
	if o.Sent != nil {
		return o.Sent()
	}
	return def
}

func genLeaf(r *Rng, o *RichOpts) *Node {
	kinds := []string{"mj-text", "mj-text", "mj-text", "mj-button", "mj-image", "mj-divider", "mj-spacer", "mj-table", "mj-raw"}
	if o.Features {
		kinds = append(kinds, "mj-social", "mj-navbar", "mj-accordion", "mj-carousel")
	}
	tag := r.Pick(kinds)
	n := &Node{Tag: tag}
	switch tag {
	case "mj-text":
		n.Text = r.Pick([]string{o.sent("Hello"), o.sent("Hi") + " <b>" + o.sent("bold") + "</b> tail", "<p>" + o.sent("para") + "</p>", o.sent("a") + "<br/>" + o.sent("b"),
			`<span class="ka">` + o.sent("styled") + `</span> <a class="kb" href="http://x/l">` + o.sent("link") + `</a>`})
	case "mj-button":
		n.Text = o.sent("Click")
		n.Set("href", "http://x/go")
	case "mj-image":
		n.Set("src", "http://x/i.png")
	case "mj-table":
		n.Text = "<tr><td>" + o.sent("c1") + "</td><td>" + o.sent("c2") + "</td></tr>"
	case "mj-raw":
		n.Text = "<i>" + o.sent("raw") + "</i>"
	case "mj-social":
		for i, m := 0, 1+r.Intn(3); i < m; i++ {
			e := &Node{Tag: "mj-social-element", Text: o.sent("soc")}
			e.Set("name", r.Pick([]string{"facebook", "twitter", "github", "linkedin"}))
			e.Set("href", "http://x/s")
			n.Kids = append(n.Kids, decorate(r, e, o.MaxAttrs, richSkip))
		}
	case "mj-navbar":
		for i, m := 0, 1+r.Intn(3); i < m; i++ {
			e := &Node{Tag: "mj-navbar-link", Text: o.sent("nav")}
			e.Set("href", "/l")
			n.Kids = append(n.Kids, decorate(r, e, o.MaxAttrs, richSkip))
		}
		if r.Bool(1, 2) {
			n.Set("hamburger", "hamburger")
		}
	case "mj-accordion":
		for i, m := 0, 1+r.Intn(2); i < m; i++ {
			e := &Node{Tag: "mj-accordion-element"}
			e.Kids = append(e.Kids, decorate(r, &Node{Tag: "mj-accordion-title", Text: o.sent("ti")}, o.MaxAttrs, richSkip))
			e.Kids = append(e.Kids, decorate(r, &Node{Tag: "mj-accordion-text", Text: o.sent("tx")}, o.MaxAttrs, richSkip))
			n.Kids = append(n.Kids, e)
		}
	case "mj-carousel":
		for i, m := 0, 2+r.Intn(2); i < m; i++ {
			e := &Node{Tag: "mj-carousel-image"}
			e.Set("src", fmt.Sprintf("http://x/c%d.png", i))
			n.Kids = append(n.Kids, e)
		}
	}
	return decorate(r, n, o.MaxAttrs, richSkip)
}

func genColumn(r *Rng, o *RichOpts) *Node {
	c := &Node{Tag: "mj-column"}
	for i, m := 0, []int{0, 1, 1, 2, 3}[r.Intn(5)]; i < m; i++ {
		c.Kids = append(c.Kids, genLeaf(r, o))
	}
	return decorate(r, c, o.MaxAttrs, richSkip)
}

func genSection(r *Rng, o *RichOpts) *Node {
	s := &Node{Tag: "mj-section"}
	switch r.Intn(6) {
	case 0:
		g := &Node{Tag: "mj-group"}
		for i, m := 0, 1+r.Intn(3); i < m; i++ {
			g.Kids = append(g.Kids, genColumn(r, o))
		}
		s.Kids = append(s.Kids, decorate(r, g, o.MaxAttrs, richSkip))
		if r.Bool(1, 3) {
			s.Kids = append(s.Kids, genColumn(r, o))
		}
	default:
		for i, m := 0, []int{1, 1, 2, 2, 3, 4}[r.Intn(6)]; i < m; i++ {
			s.Kids = append(s.Kids, genColumn(r, o))
		}
	}
	decorate(r, s, o.MaxAttrs, richSkip)
	if r.Bool(1, 6) {
		s.Set("full-width", "full-width")
	}
	if r.Bool(1, 6) {
		s.Set("background-url", "http://x/bg.png")
	}
	return s
}

func genBody(r *Rng, o *RichOpts) *Node {
	b := &Node{Tag: "mj-body"}
	for i, m := 0, 1+r.Intn(4); i < m; i++ {
		switch r.Intn(10) {
		case 0, 1:
			w := &Node{Tag: "mj-wrapper"}
			for j, k := 0, 1+r.Intn(2); j < k; j++ {
				sec := genSection(r, o)
				// keep wrapper children tame (the hand-over defects are C03's business)
				var at [][2]string
				for _, a := range sec.Attrs {
					if a[0] != "full-width" && a[0] != "background-url" {
						at = append(at, a)
					}
				}
				sec.Attrs = at
				w.Kids = append(w.Kids, sec)
			}
			b.Kids = append(b.Kids, decorate(r, w, o.MaxAttrs, richSkip))
		case 2:
			h := &Node{Tag: "mj-hero"}
			for j, k := 0, 1+r.Intn(2); j < k; j++ {
				t := &Node{Tag: "mj-text", Text: o.sent("hero")}
				h.Kids = append(h.Kids, decorate(r, t, o.MaxAttrs, richSkip))
			}
			b.Kids = append(b.Kids, decorate(r, h, o.MaxAttrs, richSkip))
		default:
			b.Kids = append(b.Kids, genSection(r, o))
		}
	}
	if r.Bool(1, 4) {
		b.Set("width", r.Pick([]string{"500px", "640px", "480px", "700px"}))
	}
	if r.Bool(1, 5) {
		b.Set("background-color", r.Pick(colorPool))
	}
	return b
}

func genHead(r *Rng, o *RichOpts) *Node {
	h := &Node{Tag: "mj-head"}
	if r.Bool(1, 2) {
		h.Kids = append(h.Kids, &Node{Tag: "mj-title", Text: o.sent("Title")})
	}
	if r.Bool(1, 3) {
		h.Kids = append(h.Kids, &Node{Tag: "mj-preview", Text: o.sent("Preview")})
	}
	if r.Bool(2, 3) {
		at := &Node{Tag: "mj-attributes"}
		if r.Bool(1, 2) {
			all := &Node{Tag: "mj-all"}
			all.Set("font-family", r.Pick(fontPool))
			if r.Bool(1, 2) {
				all.Set("padding", r.Pick([]string{"0px", "5px", "10px 20px"}))
			}
			at.Kids = append(at.Kids, all)
		}
		for _, tag := range []string{"mj-text", "mj-button", "mj-section", "mj-column", "mj-image", "mj-divider"} {
			if r.Bool(1, 3) {
				d := &Node{Tag: tag}
				decorate(r, d, 3, map[string]bool{"full-width": true, "background-url": true, "src": true, "href": true, "css-class": true})
				if len(d.Attrs) > 0 {
					at.Kids = append(at.Kids, d)
				}
			}
		}
		for ci, cn := range []string{"m1", "m2"} {
			if r.Bool(2, 3) {
				c := &Node{Tag: "mj-class"}
				c.Set("name", cn)
				// the two classes overlap on purpose: same attribute, different values; both may define a css-class
				c.Set("color", []string{"#010203", "#a0b0c0"}[ci])
				if r.Bool(1, 2) {
					c.Set("font-size", []string{"18px", "11px"}[ci])
				}
				if r.Bool(1, 2) {
					c.Set(r.Pick([]string{"padding", "font-family", "background-color"}), r.Pick([]string{"7px", "Lato", "#eeeeee"}))
				}
				if r.Bool(1, 2) {
					c.Set("css-class", []string{"kc1", "kc2"}[ci])
				}
				at.Kids = append(at.Kids, c)
			}
		}
		if len(at.Kids) > 0 {
			h.Kids = append(h.Kids, at)
		}
	}
	if r.Bool(1, 4) {
		f := &Node{Tag: "mj-font"}
		f.Set("name", r.Pick([]string{"Raleway", "Custom Font"}))
		f.Set("href", "https://fonts.example.com/css?family=Raleway")
		h.Kids = append(h.Kids, f)
	}
	if r.Bool(1, 4) {
		h.Kids = append(h.Kids, &Node{Tag: "mj-style", Text: ".ka { color: red; } .zz div { margin: 0; }"})
	}
	if o.CSSInline && r.Bool(1, 2) {
		st := &Node{Tag: "mj-style", Text: ".ka { color: #111111; font-weight: bold; } .kb { text-decoration: underline; }"}
		st.Set("inline", "inline")
		h.Kids = append(h.Kids, st)
	}
	if r.Bool(1, 6) {
		bp := &Node{Tag: "mj-breakpoint"}
		bp.Set("width", r.Pick([]string{"320px", "480px", "600px"}))
		h.Kids = append(h.Kids, bp)
	}
	return h
}

// genRich generates a whole document of the component grammar.
func genRich(r *Rng, o *RichOpts) *Node {
	root := &Node{Tag: "mjml"}
	if o.Head && r.Bool(3, 4) {
		if h := genHead(r, o); len(h.Kids) > 0 {
			root.Kids = append(root.Kids, h)
		}
	}
	root.Kids = append(root.Kids, genBody(r, o))
	return root
}

// docStats classifies a document for the evidence distribution.
func docStats(n *Node) map[string]int {
	m := map[string]int{}
	n.Walk(func(x *Node) { m[x.Tag]++ })
	return m
}
