import Gomjml.Core.LayoutSpec
import Gomjml.Core.LayoutStd
/-! # C02 — output is well-formed HTML for standard (non-Outlook) clients (property theorems only)

`Layout.render` is the control-flow-faithful skeleton model of body / section / wrapper / column / group / hero / raw
(tied to the implementation by skeleton correspondence on every generated document).  `Spec.StdWF` is the Spec. -/
namespace Gomjml.Props.C02
open Gomjml.Layout Gomjml.Spec

/-- **C02, the full statement: for EVERY document of the layout grammar** — any sequence of sections, wrappers of any
    configuration (full-width and background-image sections inside them, delegated backgrounds, blank raws), heroes and raw
    content: what standard clients see is strictly nested, conditional comments are delimited and never nested, no VML outside an
    Outlook conditional.  No side condition. -/
theorem C02_full (bs : List Block) : StdWF ((render bs).map Tok.toG) := (std_spec_all bs).1

/-- the same through the combined machine (both views at once): every document is accepted by it -/
theorem C02_combined (bs : List Block) : StdWF ((render bs).map Tok.toG) := (wf_spec _ (C02_C03_all bs)).1

/-- the formerly failing shapes, now well formed -/
example : StdWF ((render [.section ⟨false, false, false, false, false, false, [.col ⟨false, [.text]⟩]⟩,
                          .section ⟨true, false, false, false, false, false, [.col ⟨false, [.text]⟩]⟩]).map Tok.toG) := by
  unfold StdWF; decide
example : StdWF ((render [.section ⟨false, false, false, false, false, false, []⟩,
                          .section ⟨true, true, false, false, false, false, []⟩]).map Tok.toG) := by
  unfold StdWF; decide

/-- a background-image section inside a wrapper (formerly `vml-in-std`: its VML was written outside any conditional) -/
example : StdWF ((render [.wrapper ⟨false, false, [.sec ⟨false, true, false, false, false, false, []⟩]⟩]).map Tok.toG) := by
  unfold StdWF; decide

end Gomjml.Props.C02
