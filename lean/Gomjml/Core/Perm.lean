namespace Gomjml.Perm
/-! Prototype for C05: a fold over a Go map is modelled as a fold over an arbitrary permutation of its
    entries; inserting into a set / map / counting is permutation invariant. -/

theorem foldl_insert_perm {α} (f : List α → α → List α)
    (hcomm : ∀ acc a b, (f (f acc a) b).Perm (f (f acc b) a))
    (hcong : ∀ acc acc' a, acc.Perm acc' → (f acc a).Perm (f acc' a)) :
    ∀ (l l' : List α), l.Perm l' → ∀ acc acc', acc.Perm acc' → (l.foldl f acc).Perm (l'.foldl f acc') := by
  intro l l' hp
  induction hp with
  | nil => intro acc acc' h; simpa using h
  | cons x _ ih => intro acc acc' h; simp only [List.foldl_cons]; exact ih _ _ (hcong _ _ _ h)
  | swap x y l =>
    intro acc acc' h
    simp only [List.foldl_cons]
    have h1 : (f (f acc y) x).Perm (f (f acc' x) y) :=
      (hcomm acc y x).trans (hcong _ _ _ (hcong _ _ _ h))
    clear h
    revert h1
    generalize f (f acc y) x = a
    generalize f (f acc' x) y = b
    intro h1
    induction l generalizing a b with
    | nil => simpa using h1
    | cons z l ihl => simp only [List.foldl_cons]; exact ihl _ _ (hcong _ _ _ h1)
  | trans _ _ ih1 ih2 => intro acc acc' h; exact (ih1 acc acc (List.Perm.refl _)).trans (ih2 acc acc' h)

end Gomjml.Perm
