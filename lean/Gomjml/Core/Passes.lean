import Gomjml.Core.Amp
import Gomjml.Gen.Parser
/-! Byte-exact models of the parser's textual pre-passes (`parser/parser.go`):
    `stripNonMSOComments`, `preprocessHTMLEntities` (= `escapeAttributeAmpersands` followed by the regenerated list of
    `strings.ReplaceAll` steps), and the CDATA escaping used by `wrapMJTextContent`.  Bytes are `List UInt8`. -/
namespace Gomjml.Passes
open Gomjml.Amp

def bytesOf (s : String) : List B := s.toUTF8.toList

/-! ### `isValidEntity`: a name from the regenerated table, or a decimal / hexadecimal character reference -/

def isDigit (b : B) : Bool := b ≥ 48 && b ≤ 57
def isHex (b : B) : Bool := isDigit b || (b ≥ 97 && b ≤ 102) || (b ≥ 65 && b ≤ 70)

def validEntity (names : List (List B)) (s : List B) : Bool :=
  match s with
  | [] => false
  | 35 :: rest =>                                  -- '#'
    match rest with
    | [] => false
    | x :: hs => if x == 120 || x == 88 then !hs.isEmpty && hs.all isHex else (x :: hs).all isDigit
  | _ => names.contains s

def entTable : Ent := ⟨validEntity Gomjml.Gen.Parser.namedEntitiesB⟩

/-- `escapeAttributeAmpersands` -/
def escapeAmp (s : List B) : List B := esc entTable false 0 0 0 s

/-! ### `strings.ReplaceAll` (non-empty `old`, non-overlapping, left to right) -/

def replaceAll (old new : List B) (s : List B) : List B :=
  if hold : old = [] then s else
  match s with
  | [] => []
  | b :: rest =>
    if old.isPrefixOf (b :: rest) then new ++ replaceAll old new ((b :: rest).drop old.length)
    else b :: replaceAll old new rest
termination_by s.length
decreasing_by
  · have : 0 < old.length := by cases old <;> simp_all
    simp only [List.length_drop, List.length_cons]; omega
  · simp

def cdStart : List B := [60, 33, 91, 67, 68, 65, 84, 65, 91]   -- "<![CDATA["
def cdEnd : List B := [93, 93, 62]                              -- "]]>"
def cdEndSafe : List B := [93, 93, 93, 93, 62] ++ cdStart ++ [62]  -- "]]]]><![CDATA[>"
def cmStart : List B := [60, 33, 45, 45]                        -- "<!--"
def cmEnd : List B := [45, 45, 62]                              -- "-->"

/-- what is left behind the first occurrence of `pat` -/
def afterPat (pat : List B) : List B → Option (List B)
  | [] => none
  | b :: r => if pat.isPrefixOf (b :: r) then some ((b :: r).drop pat.length) else afterPat pat r

theorem afterPat_length (pat : List B) : ∀ (s r : List B), afterPat pat s = some r → r.length ≤ s.length
  | [], _, h => by simp [afterPat] at h
  | b :: t, r, h => by
    unfold afterPat at h
    split at h
    · simp at h; subst h; simp [List.length_drop]
    · have := afterPat_length pat t r h; simp; omega

/-- `nonMarkupEnd`, as a length: the comment or CDATA section that starts at the head of `s` (up to the end of the text when it
    is not terminated); 0 when neither starts there -/
def nonMarkupLen (s : List B) : Nat :=
  if cmStart.isPrefixOf s then
    match afterPat cmEnd (s.drop cmStart.length) with
    | some r => s.length - r.length
    | none => s.length
  else if cdStart.isPrefixOf s then
    match afterPat cdEnd (s.drop cdStart.length) with
    | some r => s.length - r.length
    | none => s.length
  else 0

theorem nonMarkupLen_le (s : List B) : nonMarkupLen s ≤ s.length := by
  unfold nonMarkupLen; split
  · split <;> omega
  · split
    · split <;> omega
    · omega

/-- a text that does not start with `<` starts neither a comment nor a CDATA section -/
theorem nonMarkupLen_head (s : List B) (h : s.head? ≠ some 60) : nonMarkupLen s = 0 := by
  cases s with
  | nil => simp [nonMarkupLen, cmStart, cdStart, List.isPrefixOf]
  | cons b r =>
    have hb : b ≠ 60 := by simpa using h
    have hb' : ((60 : B) == b) = false := by simpa using Ne.symm hb
    simp [nonMarkupLen, cmStart, cdStart, List.isPrefixOf, hb']

/-- `replaceInMarkup`: `strings.ReplaceAll` that copies comments and CDATA sections as they are -/
def replaceAllM (old new : List B) (s : List B) : List B :=
  if hold : old = [] then s else
  match s with
  | [] => []
  | b :: rest =>
    if hk : 0 < nonMarkupLen (b :: rest) then
      (b :: rest).take (nonMarkupLen (b :: rest)) ++ replaceAllM old new ((b :: rest).drop (nonMarkupLen (b :: rest)))
    else if old.isPrefixOf (b :: rest) then new ++ replaceAllM old new ((b :: rest).drop old.length)
    else b :: replaceAllM old new rest
termination_by s.length
decreasing_by
  · simp only [List.length_drop, List.length_cons]; omega
  · have : 0 < old.length := by cases old <;> simp_all
    simp only [List.length_drop, List.length_cons]; omega
  · simp

/-- `preprocessHTMLEntities`: the ampersand pass, then every regenerated replacement step in source order -/
def entities (s : List B) : List B :=
  Gomjml.Gen.Parser.entityStepsB.foldl (fun acc st => replaceAllM st.1 st.2 acc) (escapeAmp s)

theorem replaceAllM_no_first (old new : List B) (c : B) (r : List B) (ho : old = c :: r) :
    ∀ (n : Nat) (s : List B), s.length ≤ n → (∀ b ∈ s, b ≠ c) → replaceAllM old new s = s := by
  intro n
  induction n with
  | zero =>
    intro s hs _
    have : s = [] := List.eq_nil_of_length_eq_zero (by omega)
    subst this; unfold replaceAllM; simp [ho]
  | succ n ih =>
    intro s hs h
    cases s with
    | nil => unfold replaceAllM; simp [ho]
    | cons b rest =>
      have hb : b ≠ c := h b (by simp)
      unfold replaceAllM
      have hne : ¬ old = [] := by simp [ho]
      simp only [hne, dite_false]
      by_cases hk : 0 < nonMarkupLen (b :: rest)
      · simp only [hk, dite_true]
        rw [ih _ (by simp only [List.length_drop, List.length_cons] at hs ⊢; omega)
          (fun x hx => h x (List.mem_of_mem_drop hx))]
        exact List.take_append_drop _ _
      · simp only [hk, dite_false]
        have hp : old.isPrefixOf (b :: rest) = false := by
          subst ho
          simp [List.isPrefixOf, Ne.symm hb]
        simp only [hp, Bool.false_eq_true, if_false]
        rw [ih rest (by simp at hs; omega) (fun x hx => h x (by simp [hx]))]

/-- **a named entity is read like its character**: where the text starts with the entity (which starts with `&`, not `<`),
    the replacement step writes the character's bytes and goes on behind the entity -/
theorem replaceAllM_prefix (old new rest : List B) (h : old.head? = some amp) :
    replaceAllM old new (old ++ rest) = new ++ replaceAllM old new rest := by
  cases hold : old with
  | nil => simp [hold] at h
  | cons b r =>
    have hb : b = amp := by simpa [hold] using h
    have hp : (b :: r).isPrefixOf (b :: (r ++ rest)) = true := by
      rw [show b :: (r ++ rest) = (b :: r) ++ rest from rfl]
      exact List.isPrefixOf_iff_prefix.mpr (List.prefix_append _ _)
    have hk : ¬ 0 < nonMarkupLen (b :: (r ++ rest)) := by
      rw [nonMarkupLen_head _ (by subst hb; simp [amp])]; omega
    conv => lhs; unfold replaceAllM
    simp only [List.cons_append, reduceCtorEq, dite_false, hk, hp, if_true]
    congr 1
    simp

/-- a comment or CDATA section at the head of the text is copied as it is -/
theorem replaceAllM_block (old new s : List B) (ho : old ≠ []) (hk : 0 < nonMarkupLen s) :
    replaceAllM old new s = s.take (nonMarkupLen s) ++ replaceAllM old new (s.drop (nonMarkupLen s)) := by
  cases s with
  | nil => simp [nonMarkupLen, cmStart, cdStart, List.isPrefixOf] at hk
  | cons b rest =>
    conv => lhs; unfold replaceAllM
    simp only [ho, dite_false, hk, dite_true]

theorem replaceAll_no_first (old new : List B) (c : B) (r : List B) (ho : old = c :: r) :
    ∀ (s : List B), (∀ b ∈ s, b ≠ c) → replaceAll old new s = s := by
  intro s
  induction s with
  | nil => intro _; unfold replaceAll; simp [ho]
  | cons b rest ih =>
    intro h
    have hb : b ≠ c := h b (by simp)
    unfold replaceAll
    have hne : ¬ old = [] := by simp [ho]
    simp only [hne, dite_false]
    have hp : old.isPrefixOf (b :: rest) = false := by
      subst ho
      simp [List.isPrefixOf, Ne.symm hb]
    simp only [hp, Bool.false_eq_true, if_false]
    rw [ih (fun x hx => h x (by simp [hx]))]

/-- **a named entity is read like its character**: where the text starts with the entity, the replacement step writes the
    character's bytes and goes on behind the entity -/
theorem replaceAll_prefix (old new rest : List B) (h : old ≠ []) :
    replaceAll old new (old ++ rest) = new ++ replaceAll old new rest := by
  cases hold : old with
  | nil => exact absurd hold h
  | cons b r =>
    have hp : (b :: r).isPrefixOf (b :: (r ++ rest)) = true := by
      rw [show b :: (r ++ rest) = (b :: r) ++ rest from rfl]
      exact List.isPrefixOf_iff_prefix.mpr (List.prefix_append _ _)
    conv => lhs; unfold replaceAll
    simp only [List.cons_append, reduceCtorEq, dite_false, hp, if_true]
    congr 1
    simp [List.drop_append]

/-- every regenerated step is a plain `strings.ReplaceAll` and looks for something that starts with `&` -/
theorem steps_start_with_amp :
    Gomjml.Gen.Parser.entityStepsPure = true ∧ ∀ st ∈ Gomjml.Gen.Parser.entityStepsB, st.1.head? = some amp := by decide

/-- **strict documents pass unchanged**: a text without any `&` is left byte-for-byte as it is by `preprocessHTMLEntities` -/
theorem entities_noamp (s : List B) (h : ∀ b ∈ s, b ≠ amp) : entities s = s := by
  unfold entities
  have h0 : escapeAmp s = s := esc_noamp _ s false 0 0 0 h
  rw [h0]
  have : ∀ (steps : List (List B × List B)), (∀ st ∈ steps, st.1.head? = some amp) →
      steps.foldl (fun acc st => replaceAllM st.1 st.2 acc) s = s := by
    intro steps
    induction steps with
    | nil => intro _; rfl
    | cons st r ih =>
      intro hs
      simp only [List.foldl_cons]
      have hst := hs st (by simp)
      cases hb : st.1 with
      | nil => simp [hb] at hst
      | cons c rr =>
        simp [hb] at hst
        subst hst
        rw [replaceAllM_no_first (amp :: rr) _ amp rr rfl s.length s (Nat.le_refl _) h]
        exact ih (fun x hx => hs x (by simp [hx]))
  exact this _ steps_start_with_amp.2

/-! ### `stripNonMSOComments` -/

def lower (b : B) : B := if b ≥ 65 && b ≤ 90 then b + 32 else b
def isWs (b : B) : Bool := b == 32 || b == 9 || b == 13 || b == 10
def trimLeft : List B → List B
  | [] => []
  | b :: r => if isWs b then trimLeft r else b :: r

def mjmlNeedle : List B := [60, 109, 106, 109, 108]        -- "<mjml"
def startsCI (needle s : List B) : Bool := needle.length ≤ s.length && (s.take needle.length).map lower == needle

def cOpen : List B := [60, 33, 45, 45]      -- "<!--"
def cClose : List B := [45, 45, 62]         -- "-->"

/-- drop up to and including the first `-->`; `none` when the comment never ends -/
def afterClose : List B → Option (List B)
  | [] => none
  | b :: r => if cClose.isPrefixOf (b :: r) then some ((b :: r).drop 3) else afterClose r

theorem afterClose_length : ∀ (s r : List B), afterClose s = some r → r.length ≤ s.length
  | [], _, h => by simp [afterClose] at h
  | b :: t, r, h => by
    unfold afterClose at h
    split at h
    · simp at h; subst h; simp [List.length_drop]; omega
    · have := afterClose_length t r h; simp; omega

/-- index of the first case-insensitive `<mjml` that does not stand inside a comment (`findMjmlTagIndex`): a comment is skipped
    as a whole; an unterminated comment means there is no root -/
def rootIdx (s : List B) : Option Nat :=
  match s with
  | [] => none
  | b :: r =>
    if startsCI mjmlNeedle (b :: r) then some 0
    else if cOpen.isPrefixOf (b :: r) then
      match h : afterClose ((b :: r).drop 4) with
      | some rest => (rootIdx rest).map (· + ((b :: r).length - rest.length))
      | none => none
    else (rootIdx r).map (· + 1)
termination_by s.length
decreasing_by
  · have := afterClose_length _ _ h
    simp only [List.length_drop, List.length_cons] at this ⊢; omega
  · simp

/-- split at the root: (prefix, rest starting at the tag) -/
def splitAtRoot (s : List B) : Option (List B × List B) := (rootIdx s).map (fun i => (s.take i, s.drop i))

/-- remove every `<!-- … -->` from the prefix; an unterminated comment drops the rest of the prefix -/
def dropComments (s : List B) : List B :=
  match s with
  | [] => []
  | b :: r =>
    if cOpen.isPrefixOf (b :: r) then
      match h : afterClose ((b :: r).drop 4) with
      | some rest => dropComments rest
      | none => []
    else b :: dropComments r
termination_by s.length
decreasing_by
  · have := afterClose_length _ _ h
    simp only [List.length_drop, List.length_cons] at this ⊢; omega
  · simp

def strip (s : List B) : List B :=
  match splitAtRoot s with
  | none => s
  | some (p, root) => trimLeft (dropComments p) ++ root

/-! ### CDATA escaping of `wrapMJTextContent` and the XML layer's decoding -/


end Gomjml.Passes

namespace Gomjml.Passes
open Gomjml.Amp

/-- blank lines / indentation in front of the root element are ignored -/
theorem strip_ws (p root : List B) (hp : ∀ b ∈ p, isWs b = true) (hr : startsCI mjmlNeedle root = true) :
    strip (p ++ root) = root := by
  have hidx : ∀ (p : List B), (∀ b ∈ p, isWs b = true) → rootIdx (p ++ root) = some p.length := by
    intro p
    induction p with
    | nil =>
      intro _
      cases root with
      | nil => simp [startsCI, mjmlNeedle] at hr
      | cons b r => rw [List.nil_append, rootIdx]; simp [hr]
    | cons b r ih =>
      intro h
      have hb := h b (by simp)
      have hb' : ((b = 32 ∨ b = 9) ∨ b = 13) ∨ b = 10 := by
        unfold isWs at hb; simpa [Bool.or_eq_true] using hb
      have hno : startsCI mjmlNeedle (b :: (r ++ root)) = false := by
        unfold startsCI mjmlNeedle
        simp only [List.length_cons, List.length_nil, List.take_succ_cons, List.map_cons]
        have : lower b ≠ 60 := by
          unfold lower
          rcases hb' with ((rfl | rfl) | rfl) | rfl <;> decide
        cases hlen : decide (0 + 1 + 1 + 1 + 1 + 1 ≤ (r ++ root).length + 1) <;> simp [hlen, this]
      have hnc : cOpen.isPrefixOf (b :: (r ++ root)) = false := by
        rcases hb' with ((rfl | rfl) | rfl) | rfl <;> simp [cOpen, List.isPrefixOf]
      rw [List.cons_append, rootIdx]
      simp only [hno, hnc, Bool.false_eq_true, if_false]
      rw [ih (fun x hx => h x (by simp [hx]))]
      simp
  have hsplit : ∀ (p : List B), (∀ b ∈ p, isWs b = true) → splitAtRoot (p ++ root) = some (p, root) := by
    intro p h
    unfold splitAtRoot
    rw [hidx p h]
    simp
  unfold strip
  rw [hsplit p hp]
  simp only
  have hdc : ∀ (p : List B), (∀ b ∈ p, isWs b = true) → dropComments p = p := by
    intro p
    induction p with
    | nil => intro _; rw [dropComments]
    | cons b r ih =>
      intro h
      rw [dropComments]
      have hb := h b (by simp)
      have : cOpen.isPrefixOf (b :: r) = false := by
        unfold isWs at hb
        have hb' : ((b = 32 ∨ b = 9) ∨ b = 13) ∨ b = 10 := by simpa [Bool.or_eq_true] using hb
        rcases hb' with ((rfl | rfl) | rfl) | rfl <;> simp [cOpen, List.isPrefixOf]
      simp only [this, Bool.false_eq_true, if_false]
      rw [ih (fun x hx => h x (by simp [hx]))]
  have htl : ∀ (p : List B), (∀ b ∈ p, isWs b = true) → trimLeft p = [] := by
    intro p
    induction p with
    | nil => intro _; rfl
    | cons b r ih => intro h; simp [trimLeft, h b (by simp), ih (fun x hx => h x (by simp [hx]))]
  rw [hdc p hp, htl p hp]
  rfl

/-! ### the whole prolog: white space and comments of any content -/

theorem isPrefixOf_append_left : ∀ (l a b : List B), l.length ≤ a.length → l.isPrefixOf (a ++ b) = l.isPrefixOf a
  | [], _, _, _ => by simp
  | x :: l, [], _, h => by simp at h
  | x :: l, y :: a, b, h => by
    simp only [List.cons_append, List.isPrefixOf]
    rw [isPrefixOf_append_left l a b (by simpa using h)]

/-- the comment body does not end early: the first `-->` in `body ++ "-->"` is the one at the end -/
def closesAtEnd (body : List B) : Prop := ∀ k, k < body.length → cClose.isPrefixOf ((body ++ cClose).drop k) = false

theorem closesAtEnd_tail {x : B} {t : List B} (h : closesAtEnd (x :: t)) : closesAtEnd t := by
  intro k hk
  have := h (k + 1) (by simpa using hk)
  simpa using this

theorem afterClose_body : ∀ (body rest : List B), closesAtEnd body → afterClose (body ++ cClose ++ rest) = some rest
  | [], rest, _ => by simp [afterClose, cClose, List.isPrefixOf]
  | x :: t, rest, h => by
    have h0 : cClose.isPrefixOf (x :: t ++ cClose) = false := by simpa using h 0 (by simp)
    have h0' : cClose.isPrefixOf (x :: (t ++ cClose ++ rest)) = false := by
      have := isPrefixOf_append_left cClose (x :: t ++ cClose) rest (by simp [cClose])
      simpa [List.append_assoc] using this.trans h0
    simp only [List.cons_append, afterClose, h0', Bool.false_eq_true, if_false]
    exact afterClose_body t rest (closesAtEnd_tail h)

/-- what may stand in front of the root element: white space and comments -/
inductive Prolog : List B → Prop
  | nil : Prolog []
  | ws (b : B) (p : List B) : isWs b = true → Prolog p → Prolog (b :: p)
  | comment (body p : List B) : closesAtEnd body → Prolog p → Prolog (cOpen ++ body ++ cClose ++ p)


theorem ws_ne (b : B) (hb : isWs b = true) : ((b = 32 ∨ b = 9) ∨ b = 13) ∨ b = 10 := by
  unfold isWs at hb; simpa [Bool.or_eq_true] using hb

theorem rootIdx_prolog (root : List B) (hr : startsCI mjmlNeedle root = true) :
    ∀ (p : List B), Prolog p → rootIdx (p ++ root) = some p.length := by
  intro p hp
  induction hp with
  | nil =>
    cases root with
    | nil => simp [startsCI, mjmlNeedle] at hr
    | cons b r => rw [List.nil_append, rootIdx]; simp [hr]
  | ws b r hb _ ih =>
    have hb' := ws_ne b hb
    have hno : startsCI mjmlNeedle (b :: (r ++ root)) = false := by
      unfold startsCI mjmlNeedle
      simp only [List.length_cons, List.length_nil, List.take_succ_cons, List.map_cons]
      have : lower b ≠ 60 := by
        unfold lower
        rcases hb' with ((rfl | rfl) | rfl) | rfl <;> decide
      cases hlen : decide (0 + 1 + 1 + 1 + 1 + 1 ≤ (r ++ root).length + 1) <;> simp [hlen, this]
    have hnc : cOpen.isPrefixOf (b :: (r ++ root)) = false := by
      rcases hb' with ((rfl | rfl) | rfl) | rfl <;> simp [cOpen, List.isPrefixOf]
    rw [List.cons_append, rootIdx]
    simp only [hno, hnc, Bool.false_eq_true, if_false]
    rw [ih]
    simp
  | comment body r hbody _ ih =>
    have hshape : cOpen ++ body ++ cClose ++ r ++ root = 60 :: 33 :: 45 :: 45 :: (body ++ cClose ++ (r ++ root)) := by
      simp [cOpen, List.append_assoc]
    rw [hshape, rootIdx]
    have hno : startsCI mjmlNeedle (60 :: 33 :: 45 :: 45 :: (body ++ cClose ++ (r ++ root))) = false := by
      unfold startsCI mjmlNeedle
      simp [lower]
    have hco : cOpen.isPrefixOf (60 :: 33 :: 45 :: 45 :: (body ++ cClose ++ (r ++ root))) = true := by
      simp [cOpen, List.isPrefixOf]
    simp only [hno, hco, Bool.false_eq_true, if_false, if_true]
    have hac : afterClose ((60 :: 33 :: 45 :: 45 :: (body ++ cClose ++ (r ++ root))).drop 4) = some (r ++ root) := by
      simpa using afterClose_body body (r ++ root) hbody
    split
    · rename_i rest heq
      rw [hac] at heq
      cases heq
      rw [ih]
      simp [cOpen, cClose]
      omega
    · rename_i heq
      rw [hac] at heq
      cases heq

theorem dropComments_prolog : ∀ (p : List B), Prolog p → trimLeft (dropComments p) = [] := by
  intro p hp
  induction hp with
  | nil => rw [dropComments]; rfl
  | ws b r hb _ ih =>
    have hb' := ws_ne b hb
    have hnc : cOpen.isPrefixOf (b :: r) = false := by
      rcases hb' with ((rfl | rfl) | rfl) | rfl <;> simp [cOpen, List.isPrefixOf]
    rw [dropComments]
    simp only [hnc, Bool.false_eq_true, if_false, trimLeft, hb, if_true]
    exact ih
  | comment body r hbody _ ih =>
    have hshape : cOpen ++ body ++ cClose ++ r = 60 :: 33 :: 45 :: 45 :: (body ++ cClose ++ r) := by
      simp [cOpen, List.append_assoc]
    rw [hshape, dropComments]
    have hco : cOpen.isPrefixOf (60 :: 33 :: 45 :: 45 :: (body ++ cClose ++ r)) = true := by
      simp [cOpen, List.isPrefixOf]
    simp only [hco, if_true]
    have hac : afterClose ((60 :: 33 :: 45 :: 45 :: (body ++ cClose ++ r)).drop 4) = some r := by
      simpa using afterClose_body body r hbody
    split
    · rename_i rest heq
      rw [hac] at heq
      cases heq
      exact ih
    · rename_i heq
      rw [hac] at heq
      cases heq

/-- **comments and white space in front of the root element are ignored**, whatever the comments contain (quotes, angle
    brackets, the text `<mjml`, bodies that begin with `>` or `->`) -/
theorem strip_prolog (p root : List B) (hp : Prolog p) (hr : startsCI mjmlNeedle root = true) :
    strip (p ++ root) = root := by
  unfold strip splitAtRoot
  rw [rootIdx_prolog root hr p hp]
  simp [dropComments_prolog p hp]

/-- decidable form of `closesAtEnd` -/
def closesAtEndB (body : List B) : Bool := (List.range body.length).all (fun k => !(cClose.isPrefixOf ((body ++ cClose).drop k)))

theorem closesAtEnd_of_B (body : List B) (h : closesAtEndB body = true) : closesAtEnd body := by
  intro k hk
  unfold closesAtEndB at h
  rw [List.all_eq_true] at h
  have := h k (by simpa using hk)
  simpa using this

/-- non-vacuity: `<!--<mjml>-->` + newline, `<!--> note -->`, `<!---> x -->`, `<!-- don't -->` are prologs -/
example : Prolog ([60, 33, 45, 45] ++ [60, 109, 106, 109, 108, 62] ++ [45, 45, 62] ++ ([10] ++ [])) :=
  .comment [60, 109, 106, 109, 108, 62] _ (closesAtEnd_of_B _ (by decide)) (.ws 10 [] (by decide) .nil)
example : Prolog ([60, 33, 45, 45] ++ [62, 32, 110] ++ [45, 45, 62] ++ []) :=
  .comment [62, 32, 110] _ (closesAtEnd_of_B _ (by decide)) .nil
example : Prolog ([60, 33, 45, 45] ++ [45, 62, 32, 120, 32] ++ [45, 45, 62] ++ []) :=
  .comment [45, 62, 32, 120, 32] _ (closesAtEnd_of_B _ (by decide)) .nil
example : Prolog ([60, 33, 45, 45] ++ [32, 100, 111, 110, 39, 116, 32] ++ [45, 45, 62] ++ []) :=
  .comment [32, 100, 111, 110, 39, 116, 32] _ (closesAtEnd_of_B _ (by decide)) .nil

/-- … and the statement was false of the code before 51f397d: the old root search stopped inside the comment -/
example : strip ([60, 33, 45, 45] ++ [60, 109, 106, 109, 108, 62] ++ [45, 45, 62] ++ [60, 109, 106, 109, 108, 62]) = [60, 109, 106, 109, 108, 62] :=
  strip_prolog _ _ (.comment [60, 109, 106, 109, 108, 62] [] (closesAtEnd_of_B _ (by decide)) .nil) (by decide)

end Gomjml.Passes
