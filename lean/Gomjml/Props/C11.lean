import Gomjml.Core.HeadClasses
import Gomjml.Core.MapIter
import Gomjml.Core.Detect
import Gomjml.Gen.Detect
/-! # C11 — the head provides everything the body references (property theorems only) -/
namespace Gomjml.Props.C11
open Gomjml.HeadClasses

/-- every class the body uses is registered by the head pre-pass and every registered class is used: the two traversals
    yield the same list of classes for every document (sections, wrappers, groups with pixel / percentage / default widths) -/
theorem C11_classes (bs : List Blk) : bs.flatMap blkHead = bs.flatMap blkBody := head_eq_body bs

/-- the width of a rule is the one encoded in the class name -/
theorem C11_width_encoded (digits : List Char) (h : ∀ ch ∈ digits, ch ≠ '-') : decode (encode digits) = digits :=
  decode_encode digits h

/-- non-vacuity -/
example : decode (encode "33.333333333333336".toList) = "33.333333333333336".toList := by decide
example : [Blk.sec [.group (.pct "40".toList) [.per "50".toList, .per "50".toList], .col (.px 150)]].flatMap blkHead
    = [.per "40".toList, .per "50".toList, .per "50".toList, .px 150] := by decide

/-- imported ⊇ referenced, deterministically: the font a stack resolves to does not depend on the map iteration order
    (shared with C05) -/
theorem C11_font_lookup (l l' : List Gomjml.MapIter.FEntry) (h : l.Perm l') (nodup : (l.map Gomjml.MapIter.FEntry.name).Nodup) :
    Gomjml.MapIter.pick l = Gomjml.MapIter.pick l' := Gomjml.MapIter.pick_perm l l' h nodup

/-! ### component-specific head CSS: present exactly when such a component is in the tree -/
open Gomjml.Detect

/-- the search the head runs finds a component satisfying the condition iff one of the components it REACHES satisfies it
    (it looks below a component only when the component's type is a case of its type switch) -/
theorem C11_search_reaches (D : String → Bool) (p : CT → Bool) (t : CT) : search D p t = (reach D t).any p :=
  search_eq_reach D p t

/-- … and when every component that has children is of such a type, that is: iff such a component exists anywhere below the body -/
theorem C11_search_complete (D : String → Bool) (p : CT → Bool) (t : CT) (h : covered D t = true) :
    search D p t = true ↔ ∃ n ∈ desc t, p n = true := search_iff_exists D p t h

/-- component types that get children from the builders but are not descended through: their children are their own sub-parts
    (accordion title / text / raw, carousel images), whose presence implies the parent's, which IS looked at; the head is not
    part of the body -/
def subPartOwners : List String :=
  ["mjml/components.MJAccordionElementComponent", "mjml/components.MJCarouselComponent", "mjml/components.MJHeadComponent"]

/-- **Regenerated fact: the detection descends through every component type the tree builders give children to** (the
    hypothesis of `C11_search_complete`, for the code as it is now).  A new container type that the search does not know — the
    defect behind c385b4a, where components inside mj-hero were not found — breaks this theorem. -/
theorem C11_detection_covers_builders :
    ∀ o ∈ Gomjml.Gen.Detect.childOwners, o ∈ Gomjml.Gen.Detect.detectCases ∨ o ∈ subPartOwners := by decide

/-- Regenerated facts: which tags each detector looks for, and which detector gates which head CSS -/
theorem C11_detectors :
    Gomjml.Gen.Detect.detectors =
      [("checkComponentForMobileCSS", "mj-image"),
       ("hasAccordionComponents", "mj-accordion,mj-accordion-element,mj-accordion-text,mj-accordion-title"),
       ("hasButtonComponents", "mj-button"),
       ("hasCarouselComponents", "mj-carousel,mj-carousel-image"),
       ("hasNavbarComponents", "mj-navbar,mj-navbar-link"),
       ("hasSocialComponents", "mj-social,mj-social-element"),
       ("hasTextComponentsRecursive", "mjml/components.MJButtonComponent,mjml/components.MJTextComponent")] ∧
    Gomjml.Gen.Detect.gates =
      [("hasAccordionComponents", "generateAccordionCSS"), ("hasCarouselComponents", "generateCarouselCSS"),
       ("hasMobileCSSComponents", "<style literal>"), ("hasNavbarComponents", "generateNavbarCSS")] := by decide

/-- non-vacuity: a body ▸ hero ▸ accordion ▸ element ▸ title tree; with the hero among the descending types the accordion is
    found, without it (the code before c385b4a) it is not -/
def tEx : CT := .node "Body" "mj-body" [.node "Hero" "mj-hero" [.node "Accordion" "mj-accordion" [.node "El" "mj-accordion-element" [.node "T" "mj-accordion-title" []]]]]
example : search (fun ty => ty == "Body" || ty == "Hero" || ty == "Accordion") (fun n => n.tag == "mj-accordion") tEx = true ∧
          search (fun ty => ty == "Body" || ty == "Accordion") (fun n => n.tag == "mj-accordion") tEx = false := by decide

end Gomjml.Props.C11
