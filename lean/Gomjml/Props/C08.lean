import Gomjml.Core.Api
import Gomjml.Gen.PkgVars
/-! # C08 — results do not depend on call history; all API paths agree (property theorems only) -/
namespace Gomjml.Props.C08
open Gomjml.Api

/-- after ANY finite history of calls, Render / RenderWithAST / RenderFromAST / NewFromAST return what they return as the
    first call of a fresh process -/
theorem C08_history_independent (w : World) (hist : List Call) (c : Call) (h : ∀ k, c ≠ .renderTree k) :
    (step w (run w init hist).1 c).2 = fresh w c := history_independent w hist c h

/-- the one-shot call = class-order rewrite of rendering from a pre-parsed tree; RenderWithAST = RenderFromAST -/
theorem C08_paths_agree (w : World) (s s' : St) (d : Doc) (hv : w.validation d = none) (hp : w.parse d = .ok ()) :
    (step w s (.render d)).2 = (match (step w s' (.renderFromAST d)).2 with | .ok h => .ok (w.reorder h) | r => r) ∧
    (step w s (.renderWithAST d)).2 = (step w s' (.renderFromAST d)).2 := paths_agree w s s' d hv hp

/-- the documented step-by-step path (NewFromAST, then RenderComponentString, nothing in between) gives the same HTML -/
theorem C08_step_by_step (w : World) (s : St) (d : Doc) (hp : w.parse d = .ok ()) (hr : w.renderErr d = none) :
    let s1 := (step w s (.newFromAST d)).1
    (step w s1 (.renderTree s.trees.length)).2 = .ok (w.html d (w.attrs d) (w.attrs d) []) := new_then_render w s d hp hr

/-- **kept component trees too**: what rendering a tree returns is the same before and after ANY history of other calls
    (compilations of other documents, other trees built and rendered): the tree reads the attribute store it was built with -/
theorem C08_tree_history_independent (w : World) (hist : List Call) (s : St) (k : Nat) (hk : k < s.trees.length)
    (hc : ∀ c ∈ hist, c ≠ .renderTree k) :
    (step w (run w s hist).1 (.renderTree k)).2 = (step w s (.renderTree k)).2 := tree_history_independent w hist s k hk hc

/-- … namely the store of its own document -/
theorem C08_tree_own_store (w : World) (s : St) (k : Nat) (d : Doc) (gb : G) (seen : List G) (hk : s.trees[k]? = some (d, gb, seen))
    (hr : w.renderErr d = none) :
    (step w s (.renderTree k)).2 = .ok (w.html d gb gb seen) := tree_own_store w s k d gb seen hk hr

/-- the shape that failed before 72a1ca4 (finding C08-F1, closed): NewFromAST(a); Render(b); RenderComponentString(tree a) now
    equals NewFromAST(a); RenderComponentString(tree a) -/
def wEx : World :=
  { parse := fun _ => .ok (), attrs := fun d => d + 1, html := fun d gb gr seen => 100 * d + 10 * gb + gr + (if d = 7 then 1000 * seen.length else 0),
    validation := fun _ => none, renderErr := fun d => if d = 9 then some 1 else none, reorder := id }
example : (run wEx init [.newFromAST 1, .render 5, .renderTree 0]).2.getLast? = (run wEx init [.newFromAST 1, .renderTree 0]).2.getLast? := by
  decide
/-- what the model still allows (and the harness watches, `statebits`): a tree whose components accumulate state from one
    rendering to the next renders differently the second time (was true of mj-carousel before 51989f7) -/
example : (run wEx init [.newFromAST 7, .renderTree 0, .renderTree 0]).2.getLast? ≠ (run wEx init [.newFromAST 7, .renderTree 0]).2.getLast? := by
  decide
/-- a compilation that fails while rendering leaves nothing behind for the next one: the same result as in a fresh process -/
example : (run wEx init [.render 9, .render 1]).2 = [.fail 1, (fresh wEx (.render 1))] := by decide
/-- non-vacuity -/
example : (run wEx init [.newFromAST 1, .renderTree 0]).2.getLast? = some (.ok (100 + 20 + 2)) := by decide

/-- Regenerated fact: the only process-wide state a compilation can carry from one call to the next is the attribute store
    (everything else written at run time is the cache machinery, whose transparency is C13) -/
theorem C08_history_carriers :
    ((Gomjml.Gen.PkgVars.pkgVarWriters.filter (fun r => r.2.2 != "once" && r.2.2 != "init")).map (fun r => r.1)).eraseDups
      = ["mjml.cleanupCancel", "mjml.sfCalls", "mjml/globals.instance"] := by decide

end Gomjml.Props.C08
