namespace Gomjml.Merge
/-! Prototype: body loop with pending/remaining flags = MJML merge of solo fragments. -/

inductive Tok | co | cc | t (n : Nat)
deriving DecidableEq, Repr

open Tok

/-- MJML's mergeOutlookConditionnals: delete each adjacent `cc co`, single pass. -/
def merge : List Tok → List Tok
  | cc :: co :: r => merge r
  | x :: r => x :: merge r
  | [] => []

/-- no `cc co` adjacency inside -/
def Normal : List Tok → Prop
  | cc :: co :: _ => False
  | _ :: r => Normal r
  | [] => True

theorem merge_normal : ∀ xs, Normal xs → merge xs = xs
  | [], _ => rfl
  | [x], _ => by cases x <;> simp [merge]
  | x :: y :: r, h => by
    cases x <;> cases y <;> simp_all [merge, Normal] <;> exact merge_normal _ h

structure Blk where
  body : List Tok          -- solo = (if startsCO then [co] else []) ++ body ++ (if endsCC then [cc] else [])
  startsCO : Bool
  endsCC : Bool
  chain : Bool             -- non-full-width plain section at body level: may leave the comment open
  consumes : Bool          -- honours pendingIn by omitting its leading `co`
  secOrWrap : Bool         -- counted by RemainingBodySections

def Blk.solo (b : Blk) : List Tok :=
  (if b.startsCO then [co] else []) ++ b.body ++ (if b.endsCC then [cc] else [])

/-- what the code emits for `b` given the two carried flags -/
def Blk.emit (b : Blk) (pendingIn more : Bool) : List Tok × Bool :=
  let dropHead := pendingIn && b.consumes
  let leave := b.chain && more
  ( (if b.startsCO && !dropHead then [co] else []) ++ b.body ++ (if b.endsCC && !leave then [cc] else []),
    if leave then true else if b.consumes then false else pendingIn )

def bodyLoop : List Blk → Bool → List Tok
  | [], _ => []
  | b :: rest, p =>
    let more := rest.any (·.secOrWrap)
    let r := b.emit p more
    r.1 ++ bodyLoop rest r.2

/-- Well-formed block descriptions (facts about the code's block kinds). -/
structure Blk.WF (b : Blk) : Prop where
  chain_ends : b.chain = true → b.endsCC = true
  cons_starts : b.consumes = true → b.startsCO = true
  body_ne : b.body ≠ []
  body_no_co_head : b.body.head? ≠ some co      -- after our own `co` comes markup, not another marker
  body_no_cc_last : b.body.getLast? ≠ some cc
  body_normal : Normal b.body

/-- The sequences on which gomjml's protocol coincides with MJML's merge. -/
def Good : List Blk → Prop
  | a :: b :: r =>
      ((a.endsCC = true ∧ b.startsCO = true) ↔ (a.chain = true ∧ b.consumes = true)) ∧
      (a.chain = true → (b :: r).any (·.secOrWrap) = true → b.consumes = true) ∧
      (b.consumes = true → b.secOrWrap = true) ∧
      Good (b :: r)
  | _ => True

/-! ### merge lemmas -/

theorem merge_cons_ne_cc (x : Tok) (r : List Tok) (h : x ≠ cc) : merge (x :: r) = x :: merge r := by
  cases x <;> first | (exact absurd rfl h) | (cases r <;> simp [merge])

theorem normal_append_cc_co : ∀ xs ys, Normal xs → merge (xs ++ cc :: co :: ys) = xs ++ merge ys
  | [], ys, _ => by simp [merge]
  | [x], ys, _ => by
    cases x <;> simp [merge]
  | x :: y :: r, ys, h => by
    have ih := normal_append_cc_co (y :: r) ys
    cases x <;> cases y <;> simp_all [merge, Normal]

/-- no merge at the boundary when the boundary is not `cc | co` -/
theorem normal_append_noboundary : ∀ xs ys, Normal xs →
    (xs.getLast? ≠ some cc ∨ ys.head? ≠ some co) → merge (xs ++ ys) = xs ++ merge ys
  | [], ys, _, _ => by simp
  | [x], ys, _, hb => by
    cases x
    · simp [merge_cons_ne_cc]
    · cases ys with
      | nil => simp [merge]
      | cons y r =>
        cases y
        · simp at hb
        · simp [merge]
        · simp [merge]
    · simp [merge_cons_ne_cc]
  | x :: y :: r, ys, h, hb => by
    have ih := normal_append_noboundary (y :: r) ys
    have hb' : (y :: r).getLast? ≠ some cc ∨ ys.head? ≠ some co := by
      simpa [List.getLast?_cons_cons] using hb
    cases x <;> cases y <;> simp_all [merge, Normal]

/-! ### facts about a single well-formed block -/

theorem normal_append_single (xs : List Tok) (x : Tok) (h : Normal xs) (hx : x ≠ co) : Normal (xs ++ [x]) := by
  induction xs with
  | nil => cases x <;> simp [Normal]
  | cons a r ih =>
    cases r with
    | nil => cases a <;> cases x <;> simp_all [Normal]
    | cons b r' => cases a <;> cases b <;> simp_all [Normal]

theorem normal_cons_ne_cc (x : Tok) (xs : List Tok) (hx : x ≠ cc) (h : Normal xs) : Normal (x :: xs) := by
  cases x <;> first | exact absurd rfl hx | (cases xs <;> simp_all [Normal])

def Blk.pre (b : Blk) (drop : Bool) : List Tok := if b.startsCO && !drop then [co] else []

theorem pre_body_normal (b : Blk) (hw : b.WF) (d : Bool) : Normal (b.pre d ++ b.body) := by
  unfold Blk.pre; split
  · exact normal_cons_ne_cc co _ (by decide) hw.body_normal
  · simpa using hw.body_normal

theorem pre_body_last (b : Blk) (hw : b.WF) (d : Bool) : (b.pre d ++ b.body).getLast? ≠ some cc := by
  have hne := hw.body_ne
  have hl := hw.body_no_cc_last
  rw [List.getLast?_append]
  cases hb : b.body.getLast? with
  | none => simp [List.getLast?_eq_none_iff] at hb; exact absurd hb hne
  | some x => simp_all

theorem solo_eq (b : Blk) : b.solo = b.pre false ++ b.body ++ (if b.endsCC then [cc] else []) := by
  simp [Blk.solo, Blk.pre]

/-- head of the flattened rest -/
theorem flat_head (c : Blk) (r : List Blk) (hw : c.WF) :
    ((c :: r).flatMap Blk.solo).head? = some co ↔ c.startsCO = true := by
  have hne := hw.body_ne
  have hh := hw.body_no_co_head
  simp only [List.flatMap_cons, Blk.solo]
  cases hs : c.startsCO
  · cases hb : c.body with
    | nil => exact absurd hb hne
    | cons x xs => simp_all
  · simp

def headConsumes : List Blk → Prop
  | c :: _ => c.consumes = true
  | [] => False

theorem good_tail {a : Blk} {r : List Blk} (h : Good (a :: r)) : Good r := by
  cases r with
  | nil => trivial
  | cons b r' => exact h.2.2.2

theorem bodyLoop_eq : ∀ (bs : List Blk) (p : Bool), (∀ b ∈ bs, b.WF) → Good bs → (p = true → headConsumes bs) →
    (if p then [co] else []) ++ bodyLoop bs p = merge (bs.flatMap Blk.solo)
  | [], p, _, _, hp => by
    cases p
    · simp [bodyLoop, merge]
    · exact absurd (hp rfl) (by simp [headConsumes])
  | b :: rest, p, hw, hg, hp => by
    have hwb : b.WF := hw b (by simp)
    have hwr : ∀ x ∈ rest, x.WF := fun x hx => hw x (by simp [hx])
    have hgr : Good rest := good_tail hg
    -- the part of the output that comes from `b`, before its optional trailing `cc`
    have hprefix : (if p then [co] else []) ++ b.pre (p && b.consumes) = b.pre false := by
      cases hpb : p
      · simp [Blk.pre]
      · have hc : b.consumes = true := by simpa [headConsumes] using hp hpb
        have hs : b.startsCO = true := hwb.cons_starts hc
        simp [Blk.pre, hc, hs]
    simp only [bodyLoop, Blk.emit, List.flatMap_cons]
    rw [solo_eq]
    have hN := pre_body_normal b hwb false
    have hL := pre_body_last b hwb false
    by_cases hleave : (b.chain && rest.any (·.secOrWrap)) = true
    · -- the section leaves the comment open; the next block consumes it
      have hch : b.chain = true := by simp_all
      have hmore : rest.any (·.secOrWrap) = true := by simp_all
      have hend : b.endsCC = true := hwb.chain_ends hch
      cases rest with
      | nil => simp at hmore
      | cons c r =>
        have hcons : c.consumes = true := hg.2.1 hch hmore
        have hcs : c.startsCO = true := (hw c (by simp)).cons_starts hcons
        have ih := bodyLoop_eq (c :: r) true hwr hgr (fun _ => hcons)
        -- flatMap of the rest starts with `co`
        have hflat : (c :: r).flatMap Blk.solo = co :: (c.body ++ (if c.endsCC then [cc] else []) ++ r.flatMap Blk.solo) := by
          simp [List.flatMap_cons, Blk.solo, hcs]
        rw [hflat] at ih ⊢
        have hm : merge (co :: (c.body ++ (if c.endsCC = true then [cc] else []) ++ r.flatMap Blk.solo))
            = co :: merge (c.body ++ (if c.endsCC = true then [cc] else []) ++ r.flatMap Blk.solo) :=
          merge_cons_ne_cc _ _ (by decide)
        rw [hm] at ih
        simp only [if_true, List.singleton_append, List.cons.injEq, true_and] at ih
        simp only [hleave, hend, if_true, Bool.not_true, Bool.and_false, Bool.false_eq_true, if_false,
          List.append_nil]
        have := normal_append_cc_co (b.pre false ++ b.body)
          (c.body ++ (if c.endsCC = true then [cc] else []) ++ r.flatMap Blk.solo) hN
        simp only [List.append_assoc, List.singleton_append] at this ⊢
        rw [this]
        simp only [List.append_assoc] at ih
        rw [← ih, ← List.append_assoc]
        simp only [Blk.pre] at hprefix ⊢
        rw [hprefix]
    · -- the block closes what it opened; no merge at the boundary
      have hleave' : (b.chain && rest.any (·.secOrWrap)) = false := by simpa using hleave
      have hp' : (if b.consumes = true then false else p) = false := by
        cases hpb : p
        · simp
        · have hc : b.consumes = true := by simpa [headConsumes] using hp hpb
          simp [hc]
      have ih := bodyLoop_eq rest false hwr hgr (by simp)
      simp only [hleave', Bool.false_eq_true, if_false, Bool.not_false, Bool.and_true, hp'] at ih ⊢
      simp only [List.nil_append] at ih
      -- boundary: not (`cc` then `co`)
      have hb : ((b.pre false ++ b.body ++ (if b.endsCC = true then [cc] else [])).getLast? ≠ some cc ∨
          (rest.flatMap Blk.solo).head? ≠ some co) := by
        cases rest with
        | nil => right; simp
        | cons c r =>
          by_cases he : b.endsCC = true
          · right
            intro hh
            have hcs : c.startsCO = true := (flat_head c r (hw c (by simp))).1 hh
            have hcc := (hg.1.1 ⟨he, hcs⟩)
            have hsw : c.secOrWrap = true := hg.2.2.1 hcc.2
            simp [hcc.1, hsw] at hleave'
          · left
            simp only [he, Bool.false_eq_true, if_false, List.append_nil]
            exact hL
      have hN' : Normal (b.pre false ++ b.body ++ (if b.endsCC = true then [cc] else [])) := by
        split
        · exact normal_append_single _ _ hN (by decide)
        · simpa using hN
      rw [normal_append_noboundary _ _ hN' hb, ← ih]
      simp only [Blk.pre] at hprefix ⊢
      simp only [← List.append_assoc]
      rw [hprefix]

theorem C01_lifting (bs : List Blk) (hw : ∀ b ∈ bs, b.WF) (hg : Good bs) :
    bodyLoop bs false = merge (bs.flatMap Blk.solo) := by
  simpa using bodyLoop_eq bs false hw hg (by simp)

end Gomjml.Merge
