import Gomjml.Core.Cli
import Gomjml.Core.Cache
/-! # C20 — the CLI is a thin, faithful wrapper around the library (decision logic; property theorems only) -/
namespace Gomjml.Props.C20
open Gomjml.Cli

/-- success with `-o`: the output file holds exactly the library's bytes, nothing goes to standard output or standard error,
    exit 0 -/
theorem C20_success_file (html : String) : cli ⟨true, .ok html, true, true⟩ = ⟨0, "", false, some html⟩ := cli_success_file html
/-- success without `-o`: standard output is exactly the library's bytes, no file is touched, exit 0 -/
theorem C20_success_stdout (html : String) (w : Bool) : cli ⟨true, .ok html, false, w⟩ = ⟨0, html, false, none⟩ := cli_success_stdout html w
/-- any error — unreadable input, an ordinary error, a validation error (HTML present!) — gives a non-zero exit, a message on
    standard error, nothing on standard output, and the output file is neither created nor overwritten -/
theorem C20_error (i : In) (h : i.readOk = false ∨ (∀ html, i.lib ≠ .ok html)) :
    (cli i).exit ≠ 0 ∧ (cli i).stderr = true ∧ (cli i).file = none ∧ (cli i).stdout = "" := cli_error i h
/-- conversely: exit 0 only when the library returned HTML without any error, and then the bytes delivered (file or standard
    output) are the library's -/
theorem C20_exit0 (i : In) (h : (cli i).exit = 0) :
    ∃ html, i.lib = .ok html ∧ ((cli i).file = some html ∨ (cli i).stdout = html) := cli_exit0 i h

/-- the cache flags accept any duration: whatever `--cache-ttl` / `--cache-cleanup-interval` configure (the CLI calls the
    setters only for positive values), the ticker argument is positive — shared with C14 -/
theorem C20_any_duration (w : Gomjml.Cache.World) (ttl : Int) (ops : List Gomjml.Cache.Op) :
    0 < Gomjml.Cache.tickerArg (Gomjml.Cache.runOps w (Gomjml.Cache.init ttl) ops).1 := Gomjml.Cache.ticker_positive _

/-- non-vacuity: a validation error is an error case -/
example : (cli ⟨true, .validation "<html>", true, true⟩).file = none := rfl

end Gomjml.Props.C20
