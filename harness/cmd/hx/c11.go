package main

import (
	"fmt"
	"github.com/preslavrachev/gomjml/mjml"
	"html"
	"regexp"
	"sort"
	"strconv"
	"strings"

	"github.com/preslavrachev/gomjml/mjml/fonts"
)

var colClassRe = regexp.MustCompile(`^mj-column-(per|px)-[0-9-]+$`)
var ruleRe = regexp.MustCompile(`(\.moz-text-html\s+)?\.(mj-column-(?:per|px)-[0-9-]+)\s*\{\s*width:\s*([0-9.]+(?:%|px))\s*!important;\s*max-width:\s*([0-9.]+(?:%|px));?\s*\}`)
var importRe = regexp.MustCompile(`@import url\(([^)]+)\)`)

// widthOfClass decodes the width a responsive class name encodes.
func widthOfClass(c string) string {
	switch {
	case strings.HasPrefix(c, "mj-column-per-"):
		return strings.ReplaceAll(strings.TrimPrefix(c, "mj-column-per-"), "-", ".") + "%"
	case strings.HasPrefix(c, "mj-column-px-"):
		return strings.TrimPrefix(c, "mj-column-px-") + "px"
	}
	return "?"
}

type headFacts struct {
	rules1, rules2 map[string]string // class -> width, standard block / .moz-text-html block
	imports        []string
	links          []string
	css            string
	bodyClasses    map[string]int
	bodyAllClasses map[string]int
	families       []string
	ids            map[string]bool // 16-hex ids seen in head css / body
	headIDs        map[string]bool
}

func extractHead(toks []htmlTok) headFacts {
	f := headFacts{rules1: map[string]string{}, rules2: map[string]string{}, bodyClasses: map[string]int{}, bodyAllClasses: map[string]int{}, ids: map[string]bool{}, headIDs: map[string]bool{}}
	inBody := false
	inStyle := false
	for _, t := range toks {
		switch {
		case t.kind == "o" && t.name == "body":
			inBody = true
		case t.kind == "o" && t.name == "style":
			inStyle = true
		case t.kind == "c" && t.name == "style":
			inStyle = false
		case t.kind == "v" && t.name == "link" && !inBody:
			if h, ok := t.attr("href"); ok {
				f.links = append(f.links, strings.ReplaceAll(h, "&amp;", "&"))
			}
		case t.kind == "t" && inStyle && !inBody:
			f.css += t.text + "\n"
		}
		if inBody && (t.kind == "o" || t.kind == "v") {
			if c, ok := t.attr("class"); ok {
				for _, x := range strings.Fields(c) {
					f.bodyAllClasses[x]++
					if colClassRe.MatchString(x) {
						f.bodyClasses[x]++
					}
				}
			}
			if st, ok := t.attr("style"); ok {
				for _, d := range declsOf(st) {
					if strings.HasPrefix(d, "font-family:") {
						f.families = append(f.families, strings.TrimPrefix(d, "font-family:"))
					}
				}
			}
			for _, a := range t.attrs {
				if a[0] == "id" || a[0] == "for" || a[0] == "name" {
					for _, id := range hexID.FindAllString(a[1], -1) {
						f.ids[id] = true
					}
				}
			}
		}
	}
	for _, m := range ruleRe.FindAllStringSubmatch(f.css, -1) {
		if m[3] != m[4] {
			f.rules1["!width-maxwidth-differ:"+m[2]] = m[3] + "/" + m[4]
		}
		if m[1] != "" {
			f.rules2[m[2]] = m[3]
		} else {
			f.rules1[m[2]] = m[3]
		}
	}
	for _, m := range importRe.FindAllStringSubmatch(f.css, -1) {
		f.imports = append(f.imports, strings.ReplaceAll(m[1], "&amp;", "&"))
	}
	for _, id := range hexID.FindAllString(f.css, -1) {
		f.headIDs[id] = true
	}
	return f
}

func runC11(res *Result, tier string, seed int64, replay string) {
	res.Rule = "documents = seeded grammar documents biased to unusual explicit column widths (percent with decimals, pixels), groups with pixel / percentage / default widths, web fonts on every font-bearing component (stacks naming several mapped fonts, mj-font declarations, used and unused, also named only by author HTML / an mj-class / an inline mj-style rule; declared names that contain, are contained in, or differ in case from a built-in family the body uses), feature components (accordion, navbar with and without hamburger, carousel, fluid-on-mobile images) + every fixture; the real output is tokenised by the Lean lexer with attribute parsing (driver `tags`); oracle: (a) every mj-column-per/px class on a body element has a rule in BOTH head blocks whose width is the one the class name encodes, and every rule is used; (b) accordion / navbar / carousel / fluid-image head CSS present exactly when such a component is rendered, carousel ids in head = ids in body; (c) every mapped web font or mj-font a body font-family stack resolves to is imported, no unreferenced built-in font is imported. Non-trivial = document with ≥2 distinct column classes or ≥1 feature component; distinct by source"
	drv, err := startDriverPool(8)
	if err != nil {
		res.Disagree(Violation{Sig: "driver-missing", What: err.Error()})
		return
	}
	defer drv.Close()
	type doc struct{ name, src string }
	var docs []doc
	if replay != "" {
		if s, ok := replayInput(replay); ok {
			docs = append(docs, doc{"replay", s})
		}
	} else {
		for _, f := range loadFixtures() {
			docs = append(docs, doc{"fixture:" + f.Name, f.MJML})
		}
		n := 250
		if tier == "thorough" {
			n = 8000
		}
		// feature components in every place a content component may stand, and fonts named on their sub-elements
		features := map[string]string{
			"accordion": `<mj-accordion><mj-accordion-element font-family="Lato"><mj-accordion-title font-family="Roboto">Q</mj-accordion-title><mj-accordion-text font-family="Open Sans">A</mj-accordion-text></mj-accordion-element></mj-accordion>`,
			"navbar":    `<mj-navbar hamburger="hamburger"><mj-navbar-link href="/a" font-family="Montserrat">A</mj-navbar-link></mj-navbar>`,
			"carousel":  `<mj-carousel><mj-carousel-image src="a.png"/><mj-carousel-image src="b.png"/></mj-carousel>`,
			"fluid":     `<mj-image src="i.png" fluid-on-mobile="true"/>`,
			// degenerate numbers of children: one image only, and such a carousel next to an ordinary one
			"carousel-one-image":          `<mj-carousel><mj-carousel-image src="a.png"/></mj-carousel>`,
			"carousel-one-image-and-more": `<mj-carousel><mj-carousel-image src="a.png"/></mj-carousel><mj-carousel><mj-carousel-image src="b.png"/><mj-carousel-image src="c.png"/><mj-carousel-image src="d.png"/></mj-carousel>`,
			"accordion-one-empty-element": `<mj-accordion><mj-accordion-element></mj-accordion-element></mj-accordion>`,
			"navbar-one-link":             `<mj-navbar hamburger="hamburger"><mj-navbar-link href="/a">A</mj-navbar-link></mj-navbar>`,
			"social":                      `<mj-social font-family="Droid Sans"><mj-social-element name="facebook" href="h" font-family="Ubuntu">F</mj-social-element></mj-social>`,
			"button":                      `<mj-button href="u" font-family="Lato">B</mj-button>`,
		}
		places := map[string][2]string{
			"column":       {`<mj-section><mj-column>`, `</mj-column></mj-section>`},
			"group":        {`<mj-section><mj-group><mj-column>`, `</mj-column></mj-group></mj-section>`},
			"wrapper":      {`<mj-wrapper><mj-section><mj-column>`, `</mj-column></mj-section></mj-wrapper>`},
			"hero":         {`<mj-hero>`, `</mj-hero>`},
			"wrapper-hero": {`<mj-wrapper><mj-hero>`, `</mj-hero></mj-wrapper>`},
		}
		for fn, fsrc := range features {
			for pn, p := range places {
				docs = append(docs, doc{"feature:" + fn + "-in-" + pn, "<mjml><mj-body>" + p[0] + fsrc + p[1] + "</mj-body></mjml>"})
			}
		}
		// children that are not columns (mj-raw) among automatic-width columns and groups, in every position: the width of a
		// column is 100 % / (number of column-like siblings), in the head as in the body
		{
			col, raw, grp := `<mj-column><mj-text>c</mj-text></mj-column>`, `<mj-raw><p>r</p></mj-raw>`, `<mj-group><mj-column><mj-text>g1</mj-text></mj-column><mj-raw><p>gr</p></mj-raw><mj-column><mj-text>g2</mj-text></mj-column></mj-group>`
			var seqs [][]string
			for n := 1; n <= 3; n++ {
				for pos := 0; pos <= n; pos++ {
					var q []string
					for k := 0; k < n; k++ {
						if k == pos {
							q = append(q, raw)
						}
						q = append(q, col)
					}
					if pos == n {
						q = append(q, raw)
					}
					seqs = append(seqs, q)
				}
			}
			seqs = append(seqs, []string{raw, col, raw, col, raw}, []string{col, grp, raw}, []string{raw, grp}, []string{grp, raw, col, col},
				[]string{`<mj-group><mj-raw><p>first</p></mj-raw><mj-column><mj-text>a</mj-text></mj-column><mj-column><mj-text>b</mj-text></mj-column><mj-column><mj-text>c</mj-text></mj-column></mj-group>`},
				[]string{`<mj-group><mj-column><mj-text>a</mj-text></mj-column><mj-column><mj-text>b</mj-text></mj-column><mj-raw><p>last</p></mj-raw></mj-group>`, col})
			for si, q := range seqs {
				inner := strings.Join(q, "")
				docs = append(docs, doc{fmt.Sprintf("raw-among-columns/%d/body", si), "<mjml><mj-body><mj-section>" + inner + "</mj-section></mj-body></mjml>"})
				docs = append(docs, doc{fmt.Sprintf("raw-among-columns/%d/wrapper", si), "<mjml><mj-body><mj-wrapper><mj-section>" + inner + "</mj-section><mj-raw><p>w</p></mj-raw><mj-section>" + col + "</mj-section></mj-wrapper></mj-body></mjml>"})
				docs = append(docs, doc{fmt.Sprintf("raw-among-columns/%d/after-raw", si), "<mjml><mj-body><mj-raw><p>b</p></mj-raw><mj-section full-width=\"full-width\">" + inner + "</mj-section><mj-raw><p>e</p></mj-raw></mj-body></mjml>"})
			}
		}
		sort.Slice(docs, func(i, j int) bool { return docs[i].name < docs[j].name })
		widths := []string{"40%", "33.33%", "12.5%", "150px", "200px", "25%", "66.6666%", "100%", "7%", "300px", "150.6px", "199.75px", "120.2px", "33.5%"}
		for i := 0; i < n; i++ {
			r := NewRng(seed, fmt.Sprintf("c11/%d", i))
			d := fontHeavyDoc(r, i)
			d.Walk(func(x *Node) {
				switch x.Tag {
				case "mj-column":
					if r.Bool(1, 2) {
						x.Set("width", r.Pick(widths))
					}
				case "mj-group":
					switch r.Intn(3) {
					case 0:
						x.Set("width", r.Pick([]string{"40%", "50%", "75%", "33.33%"}))
					case 1:
						x.Set("width", r.Pick([]string{"200px", "300px"}))
					}
				case "mj-image":
					if r.Bool(1, 3) {
						x.Set("fluid-on-mobile", "true")
					}
				}
			})
			docs = append(docs, doc{fmt.Sprintf("gen:%d", i), d.MJML()})
		}
		// a web font used in one place only: inside a wrapper, a hero, a group, a full-width section, on a sub-element
		for pn, p := range map[string][2]string{
			"wrapper": {`<mj-wrapper><mj-section><mj-column>`, `</mj-column></mj-section></mj-wrapper>`}, "hero": {`<mj-hero>`, `</mj-hero>`},
			"group": {`<mj-section><mj-group><mj-column>`, `</mj-column></mj-group></mj-section>`}, "column": {`<mj-section><mj-column>`, `</mj-column></mj-section>`},
			"fw-wrapper": {`<mj-wrapper full-width="full-width"><mj-section><mj-column>`, `</mj-column></mj-section></mj-wrapper>`},
		} {
			for fi, leaf := range []string{`<mj-text font-family="Roboto">r</mj-text>`, `<mj-button font-family="Lato" href="u">b</mj-button>`,
				`<mj-social font-family="Montserrat"><mj-social-element name="facebook" href="h">F</mj-social-element></mj-social>`,
				`<mj-accordion><mj-accordion-element font-family="Open Sans"><mj-accordion-title>T</mj-accordion-title><mj-accordion-text>X</mj-accordion-text></mj-accordion-element></mj-accordion>`} {
				docs = append(docs, doc{fmt.Sprintf("font-in-%s/%d", pn, fi), "<mjml><mj-body><mj-section><mj-column><mj-image src=\"i.png\"/></mj-column></mj-section>" + p[0] + leaf + p[1] + "</mj-body></mjml>"})
			}
		}
		// mj-font declarations next to built-in fonts: a declared name that CONTAINS a built-in family name (Roboto Slab, Open Sans
		// Condensed, My Lato), is contained in one, or differs in letter case, with the body using the plain built-in family, the
		// declared family, or both — the built-in font the body refers to must still be imported
		for bi, b := range []string{"Roboto", "Lato", "Open Sans", "Ubuntu", "Montserrat", "Droid Sans"} {
			for di, decl := range []string{b + " Slab", "My " + b, b + " Condensed Light", strings.ToUpper(b) + " X", "Raleway", b[:len(b)-1]} {
				for ui, use := range []string{b + ", sans-serif", decl + ", serif", decl + ", " + b} {
					docs = append(docs, doc{fmt.Sprintf("mj-font/%d/%d/%d", bi, di, ui),
						`<mjml><mj-head><mj-font name="` + decl + `" href="https://fonts.example.com/css?family=x` + fmt.Sprint(bi, di) + `"/></mj-head><mj-body><mj-section><mj-column><mj-text font-family="` + use + `">t</mj-text><mj-button href="u" font-family="` + b + `">b</mj-button></mj-column></mj-section></mj-body></mjml>`})
				}
			}
		}
		// the same with Google-style addresses: the declared family's address starts like the built-in one's
		// (family=Roboto+Slab vs family=Roboto:300,…) — a different family all the same
		for bi, b := range []string{"Roboto", "Ubuntu", "Open Sans", "Montserrat", "Lato"} {
			for di, ext := range []string{" Slab", " Mono", " Condensed", " Alternates", "2"} {
				decl := b + ext
				href := "https://fonts.googleapis.com/css?family=" + strings.ReplaceAll(decl, " ", "+") + []string{"", ":400,700", ":300,400,500,700"}[di%3]
				for ui, body := range []string{
					`<mj-text font-family="` + b + `, sans-serif">t</mj-text><mj-button href="u" font-family="Lato, Arial">b</mj-button>`,
					`<mj-text font-family="` + decl + `, serif">t</mj-text><mj-text font-family="` + b + `">u</mj-text><mj-button href="u" font-family="Montserrat">b</mj-button>`,
					`<mj-text font-family="` + decl + `">only the declared one</mj-text>`,
				} {
					docs = append(docs, doc{fmt.Sprintf("mj-font-google/%d/%d/%d", bi, di, ui), `<mjml><mj-head><mj-font name="` + decl + `" href="` + href + `"/></mj-head><mj-body><mj-section><mj-column>` + body + `</mj-column></mj-section></mj-body></mjml>`})
				}
			}
		}
		// a declared family that no component attribute names: only author HTML (a style attribute inside mj-text / mj-button /
		// mj-table / mj-raw), an mj-class, the mj-all default or an inline mj-style rule brings it into the body's inline styles
		for ui, body := range []string{
			`<mj-text>plain <span style="font-family: Decl Sans, serif">styled</span></mj-text>`,
			`<mj-raw><table><tr><td style="font-family:Decl Sans">raw cell</td></tr></table></mj-raw><mj-text>t</mj-text>`,
			`<mj-button href="u"><b style="font-family:'Decl Sans'">go</b></mj-button>`,
			`<mj-table><tr><td style="font-family:Decl Sans, Arial">c</td></tr></mj-table>`,
			`<mj-text css-class="dk">by inline rule</mj-text>`,
			`<mj-text><p class="dk">author element with an inline rule</p></mj-text>`,
			`<mj-text mj-class="dc">by class</mj-text>`,
		} {
			head := `<mj-font name="Decl Sans" href="https://f.example/decl.css"/><mj-attributes><mj-class name="dc" font-family="Decl Sans, serif"/></mj-attributes><mj-style inline="inline">.dk { font-family: Decl Sans, sans-serif; }</mj-style>`
			docs = append(docs, doc{fmt.Sprintf("mj-font-indirect/%d", ui), `<mjml><mj-head>` + head + `</mj-head><mj-body><mj-section><mj-column>` + body + `</mj-column></mj-section></mj-body></mjml>`})
		}
		// an mj-font that restates a built-in font's own URL, with other built-in fonts used before and after it in the body (the
		// default Ubuntu stack of text / button, a font on a navbar link only): every one of them must still be imported
		for bi, b := range []string{"Roboto", "Lato", "Open Sans", "Montserrat"} {
			other := []string{"Lato", "Montserrat", "Roboto", "Open Sans"}[bi]
			decl := `<mj-font name="` + b + `" href="` + fonts.GoogleFontsMapping[b] + `"/>`
			for oi, body := range []string{
				`<mj-text font-family="` + b + `">first</mj-text><mj-text>default stack</mj-text>`,
				`<mj-text>default stack</mj-text><mj-text font-family="` + b + `">later</mj-text>`,
				`<mj-text font-family="` + b + `">first</mj-text><mj-navbar><mj-navbar-link href="/a" font-family="` + other + `">A</mj-navbar-link></mj-navbar>`,
				`<mj-button href="u" font-family="` + other + `">b</mj-button><mj-text font-family="` + b + `">t</mj-text><mj-text font-family="` + other + `, ` + b + `">both</mj-text>`,
			} {
				docs = append(docs, doc{fmt.Sprintf("mj-font-builtin-url/%d/%d", bi, oi), `<mjml><mj-head>` + decl + `</mj-head><mj-body><mj-section><mj-column>` + body + `</mj-column></mj-section></mj-body></mjml>`})
			}
		}
		// every component with every one of its attributes set (one at a time; pairs at the thorough tier): classes, ids, fonts and
		// component CSS must stay in step whatever markup path the attribute selects
		for _, ld := range attrSweepDocs() {
			if tier == "thorough" || !strings.Contains(ld.desc, "+") {
				docs = append(docs, doc{ld.desc, ld.src})
			}
		}
	}
	mapped := map[string]string{}
	for n, u := range fonts.GoogleFontsMapping {
		mapped[strings.ToLower(n)] = u
	}
	// sequential rendering (heads differ), oracle calls in parallel afterwards
	type rendered struct {
		d    doc
		html string
	}
	var outs []rendered
	for di, d := range docs {
		h, err := renderPlain(d.src)
		if h == "" || h == "MJML badly formatted" {
			_ = err
			continue
		}
		outs = append(outs, rendered{d, h})
		// the same document through the component-tree API, rendered twice: the SECOND output is a document like any other
		if di%2 == 0 || strings.HasPrefix(d.name, "font-in-") {
			safely(func() {
				ast, perr := mjml.ParseMJML(d.src)
				if perr != nil {
					return
				}
				c, cerr := mjml.NewFromAST(ast)
				if cerr != nil {
					return
				}
				mjml.RenderComponentString(c)
				if h2, e2 := mjml.RenderComponentString(c); e2 == nil && h2 != "" {
					outs = append(outs, rendered{doc{d.name + "|tree-second-render", d.src}, h2})
				}
			})
		}
	}
	parallel(8, len(outs), func(i int) {
		o := outs[i]
		line, err := drv.Ask("tags " + hexOf(o.html))
		if err != nil {
			return
		}
		f := extractHead(parseTagsLine(line))
		res.mu.Lock()
		res.Programs++
		res.DisagreementsChecked++
		res.mu.Unlock()
		feature := f.bodyAllClasses["mj-accordion"] > 0 || f.bodyAllClasses["mj-carousel"] > 0 || f.bodyAllClasses["mj-menu-checkbox"] > 0 || f.bodyAllClasses["mj-full-width-mobile"] > 0
		res.Case(o.d.src, len(f.bodyClasses) >= 2 || feature)
		if i%120 == 0 {
			var cs []string
			for c := range f.bodyClasses {
				cs = append(cs, c)
			}
			sort.Strings(cs)
			res.Sample(map[string]interface{}{"doc": o.d.name, "body_classes": cs, "imports": f.imports})
		}
		in := map[string]string{"source": o.d.src, "doc": o.d.name}
		fixture := strings.HasPrefix(o.d.name, "fixture:")
		tagSig := func(s string) string {
			if fixture {
				return s + "|" + o.d.name
			}
			return s
		}
		// (a)
		for c := range f.bodyClasses {
			w1, ok1 := f.rules1[c]
			w2, ok2 := f.rules2[c]
			switch {
			case !ok1 || !ok2:
				res.Violate(Violation{Sig: tagSig("class-without-rule|" + classKind(c)), Kind: "input", What: fmt.Sprintf("body uses %s but the head has no rule for it (standard block: %v, moz block: %v)", c, ok1, ok2), Input: in})
			case w1 != widthOfClass(c) || w2 != widthOfClass(c):
				if !sameNumber(w1, widthOfClass(c)) || !sameNumber(w2, widthOfClass(c)) {
					res.Violate(Violation{Sig: tagSig("rule-width-not-encoded-width"), Kind: "input", What: fmt.Sprintf("class %s encodes %s, head rules say %s / %s", c, widthOfClass(c), w1, w2), Input: in})
				}
			}
		}
		for c := range f.rules1 {
			if strings.HasPrefix(c, "!") {
				res.Violate(Violation{Sig: tagSig("rule-width-maxwidth-differ"), Kind: "input", What: c + " " + f.rules1[c], Input: in})
				continue
			}
			if f.bodyClasses[c] == 0 {
				res.Violate(Violation{Sig: tagSig("rule-without-use|" + classKind(c)), Kind: "input", What: fmt.Sprintf("the head defines %s but no body element uses it", c), Input: in})
			}
			if _, ok := f.rules2[c]; !ok {
				res.Violate(Violation{Sig: tagSig("rule-missing-in-moz-block"), Kind: "input", What: c, Input: in})
			}
		}
		// (b)
		feat := []struct{ name, bodyClass, cssMarker string }{
			{"accordion", "mj-accordion", "mj-accordion-checkbox"},
			{"navbar-hamburger", "mj-menu-checkbox", "mj-menu-checkbox"},
			{"carousel", "mj-carousel", ".mj-carousel"},
			{"fluid-image", "mj-full-width-mobile", "mj-full-width-mobile"},
		}
		for _, ft := range feat {
			inBody := f.bodyAllClasses[ft.bodyClass] > 0
			if ft.name == "navbar-hamburger" {
				// the navbar's head CSS belongs to mj-navbar as such (with or without hamburger)
				inBody = strings.Contains(bodySrc(o.d.src), "<mj-navbar")
			}
			if ft.name == "fluid-image" {
				// the fluid-image rules belong to mj-image as such (as in MJML): present exactly when an mj-image is rendered
				inBody = strings.Contains(bodySrc(o.d.src), "<mj-image")
			}
			inHead := strings.Contains(f.css, ft.cssMarker)
			if inBody != inHead {
				res.Violate(Violation{Sig: tagSig(fmt.Sprintf("feature-css|%s|body=%v,head=%v", ft.name, inBody, inHead)), Kind: "input", What: fmt.Sprintf("%s: rendered in body=%v, head CSS present=%v", ft.name, inBody, inHead), Input: in})
			}
		}
		// … and the other way round for carousels: every carousel rendered in the body has its rules in the head (the radio
		// inputs carry the generated id in their class list: mj-carousel-<id>-radio)
		for _, m := range carouselIDRe.FindAllStringSubmatch(o.html, -1) {
			if !f.headIDs[m[1]] {
				res.Violate(Violation{Sig: tagSig("body-carousel-id-not-in-head"), Kind: "input", What: "the body renders a carousel with generated id " + m[1] + ", the head CSS has no rule for it", Input: in})
				break
			}
		}
		for id := range f.headIDs {
			if !f.ids[id] {
				res.Violate(Violation{Sig: tagSig("head-id-not-in-body"), Kind: "input", What: "head CSS refers to generated id " + id + " which no body element carries", Input: in})
			}
		}
		// (c) fonts
		imported := map[string]bool{}
		for _, u := range append(append([]string{}, f.imports...), f.links...) {
			imported[u] = true
		}
		referenced := map[string]bool{}
		for _, fam := range f.families {
			if u := fonts.GetGoogleFontURL(fam); u != "" { // the lookup itself is C05's (deterministic, first listed wins)
				referenced[u] = true
			}
		}
		for u := range referenced {
			if !imported[u] {
				res.Violate(Violation{Sig: tagSig("font-referenced-not-imported"), Kind: "input", What: "a body font-family resolves to " + u + " which the head does not import", Input: in})
			}
		}
		// a family declared with mj-font and named by a body font-family is imported from the declared address
		for _, m := range mjFontDeclRe.FindAllStringSubmatch(o.d.src, -1) {
			name, href := m[1], html.UnescapeString(m[2])
			used := false
			for _, stack := range f.families {
				for _, fam := range strings.Split(stack, ",") {
					if strings.EqualFold(strings.Trim(strings.TrimSpace(fam), `'"`), name) {
						used = true
					}
				}
			}
			if used && !imported[href] {
				res.Violate(Violation{Sig: tagSig("declared-font-referenced-not-imported"), Kind: "input", What: "the body names the family " + name + " declared with mj-font, but the head does not import " + href, Input: in})
			}
			if used {
				referenced[href] = true // a declaration may restate a built-in address
			}
		}
		for _, u := range mapped {
			if imported[u] && !referenced[u] {
				res.Violate(Violation{Sig: tagSig("builtin-font-imported-unused"), Kind: "input", What: "the head imports " + u + " but no body font-family resolves to it", Input: in})
			}
		}
	})
}

var mjFontDeclRe = regexp.MustCompile(`<mj-font name="([^"]*)" href="([^"]*)"`)

// bodySrc: the part of the source from <mj-body on (head defaults such as <mj-attributes><mj-image …/> are not components)
func bodySrc(src string) string {
	if i := strings.Index(src, "<mj-body"); i >= 0 {
		return src[i:]
	}
	return src
}

func classKind(c string) string {
	if strings.HasPrefix(c, "mj-column-px-") {
		return "px"
	}
	if c == "mj-column-per-100" {
		return "per-100"
	}
	return "per"
}

// sameNumber: equal numeric value and equal unit ("33.330%" = "33.33%"); the number is split off by hand — Sscanf's %f would
// read the 'p' of "px" as a hexadecimal-float exponent
func sameNumber(a, b string) bool {
	split := func(s string) (float64, string, bool) {
		i := 0
		for i < len(s) && (s[i] >= '0' && s[i] <= '9' || s[i] == '.' || s[i] == '-') {
			i++
		}
		v, err := strconv.ParseFloat(s[:i], 64)
		return v, s[i:], err == nil
	}
	x, ua, ok1 := split(a)
	y, ub, ok2 := split(b)
	return ok1 && ok2 && x == y && ua == ub
}

var carouselIDRe = regexp.MustCompile(`mj-carousel-([0-9a-f]{16})-radio`)

func init() { register("C11", runC11) }
