import Gomjml.Core.Lines
import Gomjml.Core.TextFlow
/-! # mj-text: the void-tag normaliser behind the content flow (`normalizeVoidHTMLTags`, `trimSpacesAroundBR` in
`mjml/components/text.go`)

`(?i)<(area|base|br|col|embed|hr|img|input|link|meta|param|source|track|wbr)\b([^>]*)/>`: a self-closed void tag is written
with one blank in front of `/>` — except `<br …/>`, which loses the slash — and blanks next to a `<br>` are removed.  Reuses
the case-folding matcher of the parser's own normaliser (`Lines.matchFold`: Go's `(?i)` also folds U+212A into `k` and U+017F
into `s`).  Tied to the implementation by the correspondence run `textvoid` of `hx C04`. -/
namespace Gomjml.TextVoid
open Gomjml.Amp Gomjml.Passes Gomjml.Lines

/-- the alternation of the pattern, in its order -/
def names : List (List B) := [
  [97, 114, 101, 97], [98, 97, 115, 101], [98, 114], [99, 111, 108], [101, 109, 98, 101, 100], [104, 114], [105, 109, 103],
  [105, 110, 112, 117, 116], [108, 105, 110, 107], [109, 101, 116, 97], [112, 97, 114, 97, 109], [115, 111, 117, 114, 99, 101],
  [116, 114, 97, 99, 107], [119, 98, 114]]

def brName : List B := [98, 114]

/-- ASCII word byte (`\b` of RE2 is the ASCII word boundary) -/
def wordB (b : B) : Bool := (b ≥ 48 && b ≤ 57) || (b ≥ 65 && b ≤ 90) || (b ≥ 97 && b ≤ 122) || b == 95

/-- is the last byte of the matched name an ASCII word byte (it is not when the name ends in the Kelvin sign) -/
def lastWord (c : List B) : Bool :=
  match c.getLast? with
  | some l => wordB l
  | none => false

/-- a match of `(names)\b([^>]*)/>` behind a `<`: (which name, the matched bytes without `<` and the final `/>`, what follows) -/
def voidAtB (rest : List B) : Option (List B × List B × List B) :=
  names.findSome? fun n =>
    match matchFold n rest with
    | none => none
    | some (c, rem) =>
      match rem with
      | [] => none
      | x :: _ =>
        -- `\b`: exactly one of the two neighbours is an ASCII word byte (a name that ends in the Kelvin sign has no
        -- boundary behind it)
        if wordB x == lastWord c then none else
        match firstGt rem with
        | none => none
        | some g =>
          if g = 0 then none else
          match rem.drop (g - 1) with
          | 47 :: 62 :: after => some (n, c ++ rem.take (g - 1), after)
          | _ => none

/-- `strings.TrimRight(s, " \n\r\t")` -/
def trimRightWs (s : List B) : List B := (s.reverse.dropWhile Gomjml.TextFlow.isWs).reverse

def normF : Nat → List B → List B
  | 0, s => s
  | _, [] => []
  | fuel + 1, b :: rest =>
    if b == 60 then
      match voidAtB rest with
      | some (n, pre, after) => trimRightWs (60 :: pre) ++ (if n == brName then [62] else [32, 47, 62]) ++ normF fuel after
      | none => b :: normF fuel rest
    else b :: normF fuel rest

def containsSub (needle : List B) : List B → Bool
  | [] => needle.isEmpty
  | b :: r => needle.isPrefixOf (b :: r) || containsSub needle r

def brLow : List B := [60, 98, 114]                 -- "<br"
def brTag : List B := [60, 98, 114, 62]             -- "<br>"
def brTagUp : List B := [60, 66, 82, 62]            -- "<BR>"

/-- `trimSpacesAroundBR` -/
def trimBR (s : List B) : List B :=
  replaceAll (brTagUp ++ [32]) brTagUp (replaceAll (32 :: brTagUp) brTagUp (replaceAll (brTag ++ [32]) brTag (replaceAll (32 :: brTag) brTag s)))

/-- `normalizeVoidHTMLTags` -/
def normalize (s : List B) : List B :=
  let n := normF (s.length + 1) s
  if containsSub brLow n then trimBR n else n

/-- nothing that is not a `<` is touched by the tag scan: a text without `<` passes unchanged -/
theorem normF_no_lt : ∀ (fuel : Nat) (s : List B), (∀ b ∈ s, b ≠ 60) → normF fuel s = s
  | 0, _, _ => rfl
  | _ + 1, [], _ => rfl
  | fuel + 1, b :: r, h => by
    have hb : (b == 60) = false := by simpa using h b (by simp)
    simp only [normF, hb, Bool.false_eq_true, if_false]
    rw [normF_no_lt fuel r (fun x hx => h x (by simp [hx]))]

/-! ### what the tag scan keeps: everything but white space and slashes -/

/-- the bytes that are neither white space nor `/` -/
def inkS (s : List B) : List B := s.filter (fun b => !(Gomjml.TextFlow.isWs b || b == 47))

theorem inkS_append (a b : List B) : inkS (a ++ b) = inkS a ++ inkS b := by simp [inkS]
theorem inkS_cons (x : B) (r : List B) : inkS (x :: r) = (if Gomjml.TextFlow.isWs x || x == 47 then [] else [x]) ++ inkS r := by
  unfold inkS
  rw [List.filter_cons]
  by_cases h : (Gomjml.TextFlow.isWs x || x == 47) = true
  · simp only [h, Bool.not_true, Bool.false_eq_true, if_false, if_true, List.nil_append]
  · have h' : (Gomjml.TextFlow.isWs x || x == 47) = false := by simpa using h
    simp only [h', Bool.not_false, if_true, Bool.false_eq_true, if_false, List.singleton_append]

theorem dropWhile_ws_inkS (s : List B) : inkS (s.dropWhile Gomjml.TextFlow.isWs) = inkS s := by
  induction s with
  | nil => rfl
  | cons b r ih =>
    by_cases h : Gomjml.TextFlow.isWs b = true
    · simp [List.dropWhile, h, inkS_cons, ih]
    · have : Gomjml.TextFlow.isWs b = false := by simpa using h
      simp [List.dropWhile, this]

theorem inkS_reverse (s : List B) : inkS s.reverse = (inkS s).reverse := by simp [inkS, List.filter_reverse]

theorem trimRightWs_inkS (s : List B) : inkS (trimRightWs s) = inkS s := by
  unfold trimRightWs
  rw [inkS_reverse, dropWhile_ws_inkS, inkS_reverse, List.reverse_reverse]

/-- a match covers `pre` and the `/>` behind it -/
theorem voidAtB_split (rest n pre after : List B) (h : voidAtB rest = some (n, pre, after)) : rest = pre ++ [47, 62] ++ after := by
  unfold voidAtB at h
  obtain ⟨nm, _, hn⟩ := List.exists_of_findSome?_eq_some h
  split at hn
  · simp at hn
  · rename_i c rem hmf
    split at hn
    · simp at hn
    · rename_i x xs
      split at hn
      · simp at hn
      · split at hn
        · simp at hn
        · rename_i g _
          split at hn
          · simp at hn
          · split at hn
            · rename_i aft hdrop
              simp at hn
              obtain ⟨_, rfl, rfl⟩ := hn
              have h1 := matchFold_split nm rest c (x :: xs) hmf
              have h2 : (x :: xs) = (x :: xs).take (g - 1) ++ (x :: xs).drop (g - 1) := (List.take_append_drop _ _).symm
              rw [hdrop] at h2
              rw [h1]
              conv => lhs; rw [h2]
              simp
            · simp at hn

/-- **the tag scan rewrites spelling only**: every byte that is neither white space nor a slash comes out, once, in order -/
theorem normF_inkS : ∀ (fuel : Nat) (s : List B), inkS (normF fuel s) = inkS s
  | 0, s => by simp [normF]
  | _ + 1, [] => by simp [normF]
  | fuel + 1, b :: rest => by
    unfold normF
    by_cases hb : (b == 60) = true
    · simp only [hb, if_true]
      split
      · rename_i n pre after hv
        have hs := voidAtB_split rest n pre after hv
        have hb' : b = 60 := by simpa using hb
        subst hb'
        rw [inkS_append, inkS_append, trimRightWs_inkS, normF_inkS fuel after]
        have hmid : inkS (if n == brName then ([62] : List B) else [32, 47, 62]) = [62] := by split <;> decide
        have hrhs : inkS (60 :: (pre ++ [47, 62] ++ after)) = inkS (60 :: pre) ++ [62] ++ inkS after := by
          rw [show (60 :: (pre ++ [47, 62] ++ after) : List B) = (60 :: pre) ++ [47, 62] ++ after from by simp]
          rw [inkS_append, inkS_append]
          have : inkS ([47, 62] : List B) = [62] := by decide
          rw [this]
        rw [hmid]
        conv => rhs; rw [hs, hrhs]
      · rw [inkS_cons, inkS_cons, normF_inkS fuel rest]
    · have hb' : (b == 60) = false := by simpa using hb
      simp only [hb', Bool.false_eq_true, if_false]
      rw [inkS_cons, inkS_cons, normF_inkS fuel rest]

/-- every segment of a replacement pass is kept text or the one replacement -/
theorem replSegs_all (old new : List B) (P : Seg → Prop) (hk : ∀ bs, P (.keep bs)) (hr : P (.repl old new)) :
    ∀ (n : Nat) (s : List B), s.length ≤ n → ∀ g ∈ replSegs old new s, P g := by
  intro n
  induction n with
  | zero =>
    intro s hs
    have : s = [] := List.eq_nil_of_length_eq_zero (by omega)
    subst this
    unfold replSegs; by_cases ho : old = []
    · simp only [ho, dite_true]; intro g hg; simp at hg; subst hg; exact hk _
    · simp only [ho, dite_false]; intro g hg; simp at hg
  | succ n ih =>
    intro s hs
    unfold replSegs
    by_cases ho : old = []
    · simp only [ho, dite_true]; intro g hg; simp at hg; subst hg; exact hk _
    · simp only [ho, dite_false]
      cases s with
      | nil => intro g hg; simp at hg
      | cons b rest =>
        have hpos : 0 < old.length := by cases old <;> simp_all
        by_cases hp : old.isPrefixOf (b :: rest) = true
        · simp only [hp, if_true]
          intro g hg
          rcases List.mem_cons.mp hg with rfl | hg
          · exact hr
          · exact ih _ (by simp only [List.length_drop, List.length_cons] at hs ⊢; omega) g hg
        · have hp' : old.isPrefixOf (b :: rest) = false := Bool.eq_false_iff.mpr hp
          simp only [hp', Bool.false_eq_true, if_false]
          intro g hg
          rcases List.mem_cons.mp hg with rfl | hg
          · exact hk _
          · exact ih rest (by simp at hs; omega) g hg

theorem segs_inkS : ∀ (l : List Seg), (∀ g ∈ l, inkS g.src = inkS g.dst) → inkS (srcOf l) = inkS (dstOf l)
  | [], _ => rfl
  | g :: l, h => by
    rw [srcOf_cons, dstOf_cons, inkS_append, inkS_append, h g (by simp), segs_inkS l (fun x hx => h x (by simp [hx]))]

/-- a replacement that changes white space and slashes only keeps everything else -/
theorem replaceAll_inkS (old new s : List B) (h : inkS old = inkS new) : inkS (replaceAll old new s) = inkS s := by
  rw [← replSegs_dst old new s.length s (Nat.le_refl _)]
  conv => rhs; rw [← replSegs_src old new s.length s (Nat.le_refl _)]
  exact (segs_inkS _ (replSegs_all old new (fun g => inkS g.src = inkS g.dst) (fun _ => rfl) h s.length s (Nat.le_refl _))).symm

/-- **the whole normaliser rewrites spelling only**: tags are re-spelt, blanks next to `<br>` go — every byte that is
    neither white space nor a slash comes out, once, in order -/
theorem normalize_inkS (s : List B) : inkS (normalize s) = inkS s := by
  unfold normalize
  simp only
  split
  · unfold trimBR
    rw [replaceAll_inkS _ _ _ (by decide), replaceAll_inkS _ _ _ (by decide), replaceAll_inkS _ _ _ (by decide),
      replaceAll_inkS _ _ _ (by decide), normF_inkS]
  · exact normF_inkS _ s

end Gomjml.TextVoid
