import Gomjml.Core.Amp
/-! # Small pure helpers that several components go through

* `styles.NormalizeColor` — `#rgb` → `#rrggbb`, everything else unchanged;
* `fonts.ConvertFontFamiliesToURLs` — the loop that keeps the first occurrence of every web-font address (the lookup of one
  family is `MapIter.pick`, modelled separately);
* `fonts.BuildFontsTags` — the import block of the head.

Seeded changes kept landing here (a memo keyed by too little, a de-duplication through a map); the Models are tied to the
implementation by the correspondence runs `normcolor`, `dedup`, `fonttags` of `hx C05` through the packages' public API. -/
namespace Gomjml.SmallPure
open Gomjml.Amp

/-! ### NormalizeColor -/

def isHex (b : B) : Bool := (b ≥ 48 && b ≤ 57) || (b ≥ 97 && b ≤ 102) || (b ≥ 65 && b ≤ 70)

def normalizeColor (v : List B) : List B :=
  if v.length = 4 ∧ v.getD 0 0 = 35 ∧ isHex (v.getD 1 0) ∧ isHex (v.getD 2 0) ∧ isHex (v.getD 3 0) then
    [35, v.getD 1 0, v.getD 1 0, v.getD 2 0, v.getD 2 0, v.getD 3 0, v.getD 3 0]
  else v

/-- normalising twice is normalising once (a six-digit colour is left alone) -/
theorem normalizeColor_idem (v : List B) : normalizeColor (normalizeColor v) = normalizeColor v := by
  by_cases h : v.length = 4 ∧ v.getD 0 0 = 35 ∧ isHex (v.getD 1 0) ∧ isHex (v.getD 2 0) ∧ isHex (v.getD 3 0)
  · have h1 : normalizeColor v = [35, v.getD 1 0, v.getD 1 0, v.getD 2 0, v.getD 2 0, v.getD 3 0, v.getD 3 0] := by
      unfold normalizeColor; rw [if_pos h]
    rw [h1]
    unfold normalizeColor
    simp
  · have h1 : normalizeColor v = v := by unfold normalizeColor; rw [if_neg h]
    rw [h1, h1]

/-- the author's letter case is kept: every digit of the result is a digit the author wrote -/
theorem normalizeColor_digits (v : List B) : ∀ x ∈ normalizeColor v, x ∈ v := by
  unfold normalizeColor
  split
  · rename_i h
    obtain ⟨hl, h0, _⟩ := h
    match v, hl with
    | [a, r, g, b], _ =>
      simp only [List.getD_cons_zero, List.getD_cons_succ] at h0 ⊢
      subst h0
      intro x hx
      simp only [List.mem_cons, List.not_mem_nil, or_false] at hx ⊢
      rcases hx with h | h | h | h | h | h | h <;> simp [h]
  · intro x hx; exact hx

/-! ### keep the first occurrence of each -/

/-- the Go loop: `seen` = what has been appended so far -/
def dedupAux {α} [DecidableEq α] : List α → List α → List α
  | [], out => out
  | x :: r, out => if x ∈ out then dedupAux r out else dedupAux r (out ++ [x])

def dedupFirst {α} [DecidableEq α] (l : List α) : List α := dedupAux l []

theorem dedupAux_spec {α} [DecidableEq α] : ∀ (l out : List α), out.Nodup →
    (dedupAux l out).Nodup ∧ (∀ x, x ∈ dedupAux l out ↔ x ∈ out ∨ x ∈ l) ∧ ∃ t, dedupAux l out = out ++ t ∧ t.Sublist l
  | [], out, h => ⟨h, fun x => by simp [dedupAux], [], by simp [dedupAux], List.Sublist.refl _⟩
  | x :: r, out, h => by
    unfold dedupAux
    by_cases hx : x ∈ out
    · simp only [hx, if_true]
      obtain ⟨h1, h2, t, h3, h4⟩ := dedupAux_spec r out h
      refine ⟨h1, fun y => ?_, t, h3, List.Sublist.cons _ h4⟩
      rw [h2 y]
      constructor
      · rintro (h | h)
        · exact Or.inl h
        · exact Or.inr (List.mem_cons_of_mem _ h)
      · rintro (h | h)
        · exact Or.inl h
        · rcases List.mem_cons.mp h with rfl | h
          · exact Or.inl hx
          · exact Or.inr h
    · simp only [hx, if_false]
      have hnd : (out ++ [x]).Nodup := by
        rw [List.nodup_append]
        refine ⟨h, by simp, ?_⟩
        intro a ha b hb
        have hb' : b = x := by simpa using hb
        subst hb'
        intro e; subst e; exact hx ha
      obtain ⟨h1, h2, t, h3, h4⟩ := dedupAux_spec r (out ++ [x]) hnd
      refine ⟨h1, fun y => ?_, x :: t, by rw [h3]; simp, List.Sublist.cons_cons _ h4⟩
      rw [h2 y]
      constructor
      · rintro (h | h)
        · rcases List.mem_append.mp h with h | h
          · exact Or.inl h
          · have : y = x := by simpa using h
            exact Or.inr (by simp [this])
        · exact Or.inr (List.mem_cons_of_mem _ h)
      · rintro (h | h)
        · exact Or.inl (List.mem_append.mpr (Or.inl h))
        · rcases List.mem_cons.mp h with rfl | h
          · exact Or.inl (by simp)
          · exact Or.inr h

/-- **every address once, none lost, in the order of first use** -/
theorem dedupFirst_spec {α} [DecidableEq α] (l : List α) :
    (dedupFirst l).Nodup ∧ (∀ x, x ∈ dedupFirst l ↔ x ∈ l) ∧ (dedupFirst l).Sublist l := by
  unfold dedupFirst
  obtain ⟨h1, h2, t, h3, h4⟩ := dedupAux_spec l [] List.nodup_nil
  refine ⟨h1, fun x => by simpa using h2 x, ?_⟩
  rw [h3]; simpa using h4

theorem dedupAux_nodup_id {α} [DecidableEq α] : ∀ (l out : List α), (out ++ l).Nodup → dedupAux l out = out ++ l
  | [], out, _ => by simp [dedupAux]
  | x :: r, out, h => by
    unfold dedupAux
    have hx : x ∉ out := by
      intro hm
      rw [List.nodup_append] at h
      exact h.2.2 x hm x (by simp) rfl
    simp only [hx, if_false]
    rw [dedupAux_nodup_id r (out ++ [x]) (by simpa using h)]
    simp

/-- de-duplicating twice is de-duplicating once -/
theorem dedupFirst_idem {α} [DecidableEq α] (l : List α) : dedupFirst (dedupFirst l) = dedupFirst l := by
  have h := (dedupFirst_spec l).1
  unfold dedupFirst at h ⊢
  rw [dedupAux_nodup_id (dedupAux l []) [] (by simpa using h)]
  simp

/-- `ConvertFontFamiliesToURLs`: the address of every family (`lookup`, "" = no web font), the empty ones dropped, the
    first occurrence of each kept -/
def convert (lookup : List B → List B) (fams : List (List B)) : List (List B) :=
  dedupFirst ((fams.map lookup).filter (· ≠ []))

theorem convert_spec (lookup : List B → List B) (fams : List (List B)) :
    (convert lookup fams).Nodup ∧
    (∀ u, u ∈ convert lookup fams ↔ u ≠ [] ∧ ∃ f ∈ fams, lookup f = u) ∧
    (convert lookup fams).Sublist (fams.map lookup) := by
  unfold convert
  obtain ⟨h1, h2, h3⟩ := dedupFirst_spec ((fams.map lookup).filter (· ≠ []))
  refine ⟨h1, fun u => ?_, h3.trans List.filter_sublist⟩
  rw [h2 u]
  simp only [List.mem_filter, List.mem_map, decide_eq_true_eq]
  constructor
  · rintro ⟨⟨f, hf, e⟩, hne⟩; exact ⟨hne, f, hf, e⟩
  · rintro ⟨hne, f, hf, e⟩; exact ⟨⟨f, hf, e⟩, hne⟩

/-! ### BuildFontsTags -/

def bytes (s : String) : List B := s.toUTF8.toList

def fontTags (urls : List (List B)) : List B :=
  if urls = [] then [] else
  bytes "<!--[if !mso]><!-->" ++
  urls.flatMap (fun u => bytes "<link href=\"" ++ u ++ bytes "\" rel=\"stylesheet\" type=\"text/css\">") ++
  bytes "<style type=\"text/css\">" ++
  urls.flatMap (fun u => bytes "@import url(" ++ u ++ bytes ");") ++
  bytes "</style>" ++ bytes "<!--<![endif]-->"

end Gomjml.SmallPure
