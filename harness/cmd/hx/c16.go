package main

import (
	"fmt"
	"regexp"
	"strings"
	"unsafe"

	"github.com/preslavrachev/gomjml/mjml"
	"github.com/preslavrachev/gomjml/parser"
)

// snapshot prints the whole tree: names, attribute lists, text, children, mixed content, line numbers, slice
// lengths *and capacities* and the identity of backing arrays (an append into spare capacity shows up).
func snapshot(n *parser.MJMLNode) string {
	var b strings.Builder
	var rec func(n *parser.MJMLNode, depth int)
	rec = func(n *parser.MJMLNode, depth int) {
		if n == nil {
			b.WriteString("nil;")
			return
		}
		fmt.Fprintf(&b, "%p<%s|%s> text=%q line=%d attrs[%d/%d@%p]:", n, n.XMLName.Space, n.XMLName.Local, n.Text, n.LineNumber, len(n.Attrs), cap(n.Attrs), unsafe.SliceData(n.Attrs))
		for _, a := range n.Attrs[:cap(n.Attrs)][:len(n.Attrs)] {
			fmt.Fprintf(&b, "%s|%s=%q,", a.Name.Space, a.Name.Local, a.Value)
		}
		// spare capacity contents too
		full := n.Attrs[:cap(n.Attrs)]
		for _, a := range full[len(n.Attrs):] {
			fmt.Fprintf(&b, "spare:%s=%q,", a.Name.Local, a.Value)
		}
		fmt.Fprintf(&b, " mixed[%d/%d@%p]:", len(n.MixedContent), cap(n.MixedContent), unsafe.SliceData(n.MixedContent))
		for _, m := range n.MixedContent {
			fmt.Fprintf(&b, "(%q,%p)", m.Text, m.Node)
		}
		fmt.Fprintf(&b, " kids[%d/%d@%p]{", len(n.Children), cap(n.Children), unsafe.SliceData(n.Children))
		fullc := n.Children[:cap(n.Children)]
		for _, c := range fullc[len(n.Children):] {
			fmt.Fprintf(&b, "spare:%p,", c)
		}
		for _, c := range n.Children {
			rec(c, depth+1)
		}
		b.WriteString("}")
	}
	rec(n, 0)
	return b.String()
}

var ptrRe = regexp.MustCompile(`0x[0-9a-f]+`)

// snapshotValues: the snapshot with addresses erased (for comparing two different parses of one text)
func snapshotValues(n *parser.MJMLNode) string { return ptrRe.ReplaceAllString(snapshot(n), "P") }

func safely(f func()) (panicked interface{}) {
	defer func() {
		if p := recover(); p != nil {
			panicked = p
		}
	}()
	f()
	return nil
}

// c16: dynamic half of C16 — the parsed tree is bit-for-bit what it was after any mix of the four API paths.
func runC16(res *Result, tier string, seed int64, replay string) {
	res.Rule = "documents = all testdata fixtures + explicit documents (head-reading; invalid attribute after valid ones; children in orders a renderer might normalise; children a component does not render in front of and between the ones it does; author HTML in every content slot with attribute values that need escaping or re-quoting; every component × every attribute with white space around the value / upper case) + seeded grammar documents (rich generator: head attributes, classes, fonts, inline styles, all leaf kinds); each is parsed once (RenderWithAST), deep-snapshotted (values, slice len/cap, backing-array identity, spare capacity), then rendered again through RenderFromAST, NewFromAST+RenderComponentString, RenderFromAST(debug) and twice through Render(WithCache) and re-snapshotted; non-trivial = document with at least one section; distinct by source text"
	var docs []struct{ name, src string }
	for _, f := range loadFixtures() {
		docs = append(docs, struct{ name, src string }{"fixture:" + f.Name, f.MJML})
	}
	// shapes in which "filter in place" idioms would overwrite the tree: an mj-class whose name is not written last, an invalid
	// attribute after valid ones, defaults and inline rules the renderer reads while rendering
	docs = append(docs, struct{ name, src string }{"explicit:head-reading", cacheDocs[headReadingDoc]})
	docs = append(docs, struct{ name, src string }{"explicit:invalid-after-valid", `<mjml><mj-body><mj-section padding="1px" bogus-a="x" full-width="full-width" bogus-b="y"><mj-column width="50%" nope="1"><mj-image src="i.png" alt="a" href="u" zzz="1" title="t"/></mj-column></mj-section></mj-body></mjml>`})
	// children a component does not render, in front of and between the ones it does: a child list "filtered" in place
	// (kept children written over the skipped ones) shows in the tree
	docs = append(docs, struct{ name, src string }{"explicit:skipped-children", `<mjml><mj-body><mj-section><mj-column>` +
		`<mj-carousel><mj-divider/><mj-carousel-image src="a.png"/><mj-text>t</mj-text><mj-carousel-image src="b.png"/></mj-carousel>` +
		`<mj-carousel><mj-raw><i>r</i></mj-raw><mj-carousel-image src="c.png"/><mj-carousel-image src="d.png"/></mj-carousel>` +
		`<mj-navbar><mj-text>x</mj-text><mj-navbar-link href="/a">A</mj-navbar-link><mj-image src="i.png"/><mj-navbar-link href="/b">B</mj-navbar-link></mj-navbar>` +
		`<mj-social><mj-divider/><mj-social-element name="facebook" href="h">F</mj-social-element><mj-text>y</mj-text><mj-social-element name="github" href="g">G</mj-social-element></mj-social>` +
		`<mj-accordion><mj-text>z</mj-text><mj-accordion-element><mj-image src="j.png"/><mj-accordion-title>T</mj-accordion-title><mj-divider/><mj-accordion-text>X</mj-accordion-text></mj-accordion-element></mj-accordion>` +
		`</mj-column><mj-text>stray text in a section</mj-text><mj-column><mj-text>c2</mj-text></mj-column></mj-section><mj-text>stray text in the body</mj-text></mj-body></mjml>`})
	// parents that hand values down to their children (navbar base-url in front of relative / absolute / fragment addresses,
	// social / accordion / carousel attributes inherited by elements that do or do not write their own): the handing down
	// happens in the components, never in the nodes
	docs = append(docs, struct{ name, src string }{"explicit:parents-hand-down", `<mjml><mj-head><mj-attributes><mj-navbar-link color="#111111"/><mj-social-element icon-size="18px"/><mj-class name="lk" href="cls"/></mj-attributes></mj-head><mj-body><mj-section><mj-column>` +
		`<mj-navbar base-url="https://b.example/"><mj-navbar-link href="about">A</mj-navbar-link><mj-navbar-link href="/abs">B</mj-navbar-link><mj-navbar-link href="#">C</mj-navbar-link><mj-navbar-link href="https://o.example/x">D</mj-navbar-link><mj-navbar-link>E</mj-navbar-link><mj-navbar-link mj-class="lk">F</mj-navbar-link><mj-navbar-link href="">G</mj-navbar-link></mj-navbar>` +
		`<mj-navbar base-url="https://c.example"><mj-navbar-link href="about">A</mj-navbar-link><mj-navbar-link href="/abs">B</mj-navbar-link></mj-navbar>` +
		`<mj-social mode="vertical" inner-padding="7px" icon-size="30px" icon-height="31px" font-size="11px" color="#123456" border-radius="9px" icon-padding="2px" text-padding="1px" line-height="20px" font-family="Georgia" font-style="italic" font-weight="bold" text-decoration="underline" padding="5px" align="left" container-background-color="#eeeeee">` +
		`<mj-social-element name="facebook" href="h">F</mj-social-element><mj-social-element name="github" href="g" padding="1px" icon-size="10px" color="#000001">G</mj-social-element><mj-social-element name="xing-noshare" src="s.png"/></mj-social>` +
		`<mj-accordion border="1px solid #aaaaaa" font-family="Georgia" icon-position="left" icon-width="20px" icon-height="20px" icon-align="top" icon-wrapped-url="w.png" icon-wrapped-alt="+" icon-unwrapped-url="u.png" icon-unwrapped-alt="-" padding="3px">` +
		`<mj-accordion-element><mj-accordion-title>T</mj-accordion-title><mj-accordion-text>X</mj-accordion-text></mj-accordion-element><mj-accordion-element icon-position="right" font-family="Arial" border="none"><mj-accordion-title font-size="9px">T2</mj-accordion-title><mj-accordion-text color="#010101">X2</mj-accordion-text></mj-accordion-element></mj-accordion>` +
		`<mj-carousel tb-border="2px solid #0000ff" tb-border-radius="3px" tb-width="40px" border-radius="4px" icon-width="30px" thumbnails="visible"><mj-carousel-image src="a.png" href="l" alt="a" title="t"/><mj-carousel-image src="b.png" tb-border="none" border-radius="0" thumbnails-src="tb.png"/></mj-carousel>` +
		`</mj-column></mj-section></mj-body></mjml>`})
	// author HTML with a REPEATED attribute name inside mj-table (the XML layer accepts it): whatever the renderer makes of the
	// repetition, it makes it in its own copy
	docs = append(docs, struct{ name, src string }{"explicit:repeated-attribute-names", `<mjml><mj-body><mj-section><mj-column>` +
		`<mj-table><tr class="r" class="s" id="i"><td class="a" class="b" align="left">x</td><td align="left" class="a" align="right" class="b" width="10">y</td></tr></mj-table>` +
		`<mj-table><tr><td style="a:b" style="c:d" class="k">z</td></tr></mj-table></mj-column></mj-section></mj-body></mjml>`})
	// children written in an order a renderer might "normalise": text before title, several titles, links and images with raw
	// content between them, duplicated and out-of-order social networks, head elements after the body
	docs = append(docs, struct{ name, src string }{"explicit:child-orders", `<mjml><mj-body><mj-section><mj-column>` +
		`<mj-accordion><mj-accordion-element><mj-accordion-text>X1</mj-accordion-text><mj-accordion-title>T1</mj-accordion-title></mj-accordion-element>` +
		`<mj-accordion-element><mj-accordion-title>T2a</mj-accordion-title><mj-accordion-text>X2</mj-accordion-text><mj-accordion-title>T2b</mj-accordion-title></mj-accordion-element></mj-accordion>` +
		`<mj-social><mj-social-element name="twitter" href="b">B</mj-social-element><mj-raw><i>r</i></mj-raw><mj-social-element name="facebook" href="a">A</mj-social-element><mj-social-element name="twitter" href="b">B</mj-social-element></mj-social>` +
		`<mj-navbar><mj-navbar-link href="/z">Z</mj-navbar-link><mj-raw><i>r</i></mj-raw><mj-navbar-link href="/a">A</mj-navbar-link><mj-navbar-link href="/z">Z</mj-navbar-link></mj-navbar>` +
		`<mj-carousel><mj-carousel-image src="z.png"/><mj-carousel-image src="a.png"/><mj-carousel-image src="z.png"/></mj-carousel>` +
		`<mj-text>  padded <b>b</b>  text &amp; entity  </mj-text><mj-table><tr><td>2</td></tr><tr><td>1</td></tr></mj-table>` +
		`</mj-column><mj-column><mj-text>second</mj-text></mj-column></mj-section>` +
		`<mj-section><mj-group><mj-column width="70%"><mj-text>wide</mj-text></mj-column><mj-column width="30%"><mj-text>narrow</mj-text></mj-column></mj-group></mj-section>` +
		`<mj-hero><mj-button href="u">B</mj-button><mj-text>after button</mj-text></mj-hero></mj-body>` +
		`<mj-head><mj-title>late head</mj-title><mj-attributes><mj-text color="#111111"/><mj-all padding="1px"/></mj-attributes></mj-head></mjml>`})
	// author HTML in every content slot with attribute values a serialiser has to escape or re-quote (a double quote inside
	// single quotes or written &quot;, an apostrophe, an ampersand, angle brackets, a line break): the escaped copy must be the
	// renderer's own, never the value in the tree
	{
		inner := `<span title='the "big" one' style="font-family:&quot;Open Sans&quot;, sans-serif" data-q="it's">q <a href="http://x/?a=1&amp;b=2" title="&lt;t&gt;">l</a></span><b class='k "k2"'
 id="multi
line">m</b>`
		docs = append(docs, struct{ name, src string }{"explicit:quoted-attribute-values", `<mjml><mj-head><mj-style inline="inline">.k { color: blue; }</mj-style><mj-title>T</mj-title></mj-head><mj-body><mj-section><mj-column>` +
			`<mj-text>` + inner + `</mj-text><mj-button href="u">` + inner + `</mj-button><mj-table><tr><td>` + inner + `</td></tr></mj-table>` +
			`<mj-navbar><mj-navbar-link href="/a">` + inner + `</mj-navbar-link></mj-navbar>` +
			`<mj-social><mj-social-element name="facebook" href="h">` + inner + `</mj-social-element></mj-social>` +
			`<mj-accordion><mj-accordion-element><mj-accordion-title>` + inner + `</mj-accordion-title><mj-accordion-text>` + inner + `</mj-accordion-text></mj-accordion-element></mj-accordion>` +
			`<mj-raw>` + inner + `</mj-raw></mj-column></mj-section><mj-hero><mj-text>` + inner + `</mj-text><mj-button>` + inner + `</mj-button></mj-hero></mj-body></mjml>`})
	}
	// every component with every one of its attributes written with white space around the value, upper-case units and a
	// three-digit colour: values a renderer may want to tidy up — in its own copy, not in the tree
	for _, tag := range bodyTags {
		if tag == "mj-raw" {
			continue
		}
		var all [3][]string
		for _, a := range allowedSorted(tag) {
			v1, _ := testValues(a[0], a[1])
			if v1 == "" || a[0] == "mj-class" {
				continue
			}
			for vi, v := range []string{" " + v1 + " ", "\t" + v1, strings.ToUpper(v1)} {
				all[vi] = append(all[vi], a[0]+`="`+xmlAttrEsc(v)+`"`)
				if src := legalContext(tag, a[0]+`="`+xmlAttrEsc(v)+`"`, ""); src != "" {
					docs = append(docs, struct{ name, src string }{fmt.Sprintf("padded:%s/%s/%d", tag, a[0], vi), src})
				}
			}
		}
		// … and all of them at once (markup paths chosen by combinations: a hero's height with its paddings, …)
		for vi := range all {
			if src := legalContext(tag, strings.Join(all[vi], " "), ""); src != "" {
				docs = append(docs, struct{ name, src string }{fmt.Sprintf("padded-all:%s/%d", tag, vi), src})
			}
		}
	}
	n := 300
	if tier == "thorough" {
		n = 6000
	}
	if replay != "" {
		docs = nil
		n = 0
		if src, ok := replayInput(replay); ok {
			docs = append(docs, struct{ name, src string }{"replay", src})
		}
	}
	for i := 0; i < n; i++ {
		r := NewRng(seed, fmt.Sprintf("c16/%d", i))
		d := genRich(r, &RichOpts{Head: true, MaxAttrs: 3, Features: true, CSSInline: true})
		docs = append(docs, struct{ name, src string }{fmt.Sprintf("gen:%d", i), d.MJML()})
	}
	parallel(8, len(docs), func(i int) {
		d := docs[i]
		var before, after string
		var ast *parser.MJMLNode
		// the reference is the tree exactly as the PARSER produced it, before anything was built or rendered from it
		p := safely(func() {
			a, err := mjml.ParseMJML(d.src)
			if err == nil {
				ast = a
			}
		})
		if p != nil || ast == nil {
			res.Case(d.src, false)
			res.Count("unparsable-or-panic")
			return
		}
		before = snapshot(ast)
		// RenderWithAST returns the tree it parsed itself: it must print like a fresh parse (addresses aside)
		safely(func() {
			if rr, _ := mjml.RenderWithAST(d.src); rr != nil && rr.AST != nil {
				if a, b := snapshotValues(rr.AST), snapshotValues(ast); a != b {
					at := firstDiff(a, b)
					res.Violate(Violation{Sig: "ast-mutated|RenderWithAST", Kind: "history", What: "RenderWithAST(...).AST differs from a fresh parse: …" + around(b, at) + "… became …" + around(a, at) + "…",
						Input: map[string]string{"source": d.src, "doc": d.name}})
				}
			}
		})
		step := ""
		check := func(name string, f func()) bool {
			if pp := safely(f); pp != nil {
				res.Count("panic-in-" + name)
			}
			after = snapshot(ast)
			if after != before {
				step = name
				return false
			}
			return true
		}
		ok := check("RenderFromAST", func() { mjml.RenderFromAST(ast) }) &&
			check("NewFromAST", func() {
				c, err := mjml.NewFromAST(ast)
				if err == nil {
					mjml.RenderComponentString(c)
				}
			}) &&
			check("RenderFromAST-debug", func() { mjml.RenderFromAST(ast, mjml.WithDebugTags(true)) }) &&
			check("RenderFromAST-again", func() { mjml.RenderFromAST(ast) })
		// cached tree shared between renders
		if ok {
			var cached *parser.MJMLNode
			safely(func() {
				rr, _ := mjml.RenderWithAST(d.src, mjml.WithCache())
				if rr != nil {
					cached = rr.AST
				}
			})
			if cached != nil {
				b2 := snapshot(cached)
				safely(func() { mjml.Render(d.src, mjml.WithCache()) })
				safely(func() { mjml.Render(d.src, mjml.WithCache(), mjml.WithDebugTags(true)) })
				if snapshot(cached) != b2 {
					ok = false
					step = "Render(WithCache)"
					before, after = b2, snapshot(cached)
				}
			}
		}
		res.Case(d.src, strings.Contains(d.src, "<mj-section"))
		res.Count("docs")
		if i%97 == 0 {
			res.Sample(map[string]string{"doc": d.name, "source": short(d.src, 300)})
		}
		if !ok {
			at := firstDiff(before, after)
			res.Violate(Violation{Sig: "ast-mutated|" + step, Kind: "history", What: "parsed tree differs after " + step + ": …" + around(before, at) + "… became …" + around(after, at) + "…",
				Input: map[string]string{"source": d.src, "doc": d.name}})
		}
	})
	mjml.StopASTCacheCleanup()
}

func init() { register("C16", runC16) }
