import Gomjml.Core.Frame
import Gomjml.Gen.AstWrites
/-! # C16 — rendering never mutates the parsed AST

Property theorems only.  `Gen.AstWrites.astWrites` is regenerated from /repo on every run: it lists every
assignment, `append` base, `copy`, `delete`, `sort.*`, inc/dec outside package `parser` whose target's access
path passes through `parser.MJMLNode`, `xml.Attr`, `xml.Name`, `parser.MixedContentPart` or slices of them. -/
namespace Gomjml.Props.C16
open Gomjml.Frame

/-- Regenerated fact: the table of AST write sites is empty. -/
theorem no_ast_write_sites : Gomjml.Gen.AstWrites.astWrites = [] := by decide

/-- A system is *covered by the site table* when every write action of every thread that lands in the
    AST region `R` is accounted for by a row of the extracted table. -/
def CoveredBy (sites : List (String × String × String)) (R : Loc → Prop) (progs : Nat → List Act) : Prop :=
  ∀ t l v, Act.write l v ∈ progs t → R l → sites ≠ []

/-- **C16** for every execution and every interleaving of any number of renders over one tree: if the
    rendering code's AST writes are those of the regenerated table, the AST region keeps its initial
    contents and every read of it returns what the parser produced. -/
theorem C16_ast_unchanged (R : Loc → Prop) (m0 : Loc → Val) (σ : List Nat) (s : Sys)
    (hcov : CoveredBy Gomjml.Gen.AstWrites.astWrites R s.progs)
    (hm : ∀ l, R l → s.mem l = m0 l)
    (ht : ∀ t l v, (l, v) ∈ s.trace t → R l → v = m0 l) :
    (∀ l, R l → (run s σ).mem l = m0 l) ∧
    (∀ t l v, (l, v) ∈ (run s σ).trace t → R l → v = m0 l) := by
  apply frame R m0 σ s _ hm ht
  intro t l v hin hR
  exact hcov t l v hin hR no_ast_write_sites

/-- non-vacuity: two renders reading the tree (locations 0,1) and writing only their own buffers (10, 11) -/
example : CoveredBy Gomjml.Gen.AstWrites.astWrites (fun l => l < 2)
    (fun t => if t = 0 then [.read 0, .write 10 5, .read 1] else if t = 1 then [.read 1, .write 11 7] else []) := by
  intro t l v hin hR
  have hR' : l < 2 := hR
  by_cases h0 : t = 0
  · subst h0; simp at hin; obtain ⟨rfl, _⟩ := hin; exact absurd hR' (by decide)
  · by_cases h1 : t = 1
    · subst h1; simp at hin; obtain ⟨rfl, _⟩ := hin; exact absurd hR' (by decide)
    · simp [h0, h1] at hin

end Gomjml.Props.C16
