import Gomjml.Core.InlineTagProofs
/-! # C19 — the inline-style scanner over an HTML fragment (`applyInlineStylesToHTML`)

The fragment is cut into text, comments, other markup (end tags, `<!…>`, `<?…>`) and start tags; everything but the start tags is
copied, each start tag goes through the per-tag step (`InlineTag.inlineTag`).  Tied to the implementation by running both on the
same fragments (driver `inlscan`). -/
namespace Gomjml.InlineScan
open Gomjml.Amp Gomjml.InlineTag

inductive Seg
  | text (b : List B)      -- character data (also what is left when a `<` has no matching `>`)
  | other (b : List B)     -- comment, end tag, `<!…>`, `<?…>`
  | start (b : List B)     -- a start tag, from `<` to the first `>` outside quotes
deriving Repr, DecidableEq

def Seg.bytes : Seg → List B
  | .text b => b | .other b => b | .start b => b

/-- `findTagEnd`: up to and including the first `>` outside quotes (a quote opens at any `"` or `'`) -/
def splitTag : B → List B → Option (List B × List B)
  | _, [] => none
  | q, b :: r =>
    if q != 0 then
      (splitTag (if b == q then 0 else q) r).map (fun (p : List B × List B) => (b :: p.1, p.2))
    else if b == dq || b == sq then (splitTag b r).map (fun (p : List B × List B) => (b :: p.1, p.2))
    else if b == gt then some ([b], r)
    else (splitTag 0 r).map (fun (p : List B × List B) => (b :: p.1, p.2))

def arrow : List B := [45, 45, 62]
/-- up to and including the first `-->` -/
def splitArrow : List B → Option (List B × List B)
  | [] => none
  | b :: r => if arrow.isPrefixOf (b :: r) then some (arrow, (b :: r).drop 3)
              else (splitArrow r).map (fun (p : List B × List B) => (b :: p.1, p.2))

def cOpen : List B := [60, 33, 45, 45]

def segments : Nat → List B → List Seg
  | 0, s => if s == [] then [] else [.text s]
  | fuel + 1, s =>
    let txt := s.takeWhile (· != lt)
    let pre := if txt == [] then [] else [Seg.text txt]
    match s.dropWhile (· != lt) with
    | [] => pre
    | l :: r =>
      if r == [] then pre ++ [.text [l]]
      else if cOpen.isPrefixOf (l :: r) then
        match splitArrow ((l :: r).drop 4) with
        | none => pre ++ [.text (l :: r)]
        | some (c, rest) => pre ++ [.other (cOpen ++ c)] ++ segments fuel rest
      else
        match splitTag 0 r with
        | none => pre ++ [.text (l :: r)]
        | some (c, rest) =>
          let isOther := r.head? == some 47 || r.head? == some 33 || r.head? == some 63
          pre ++ [if isOther then .other (l :: c) else .start (l :: c)] ++ segments fuel rest

def emit (inl : List B → List B) : Seg → List B
  | .start t => inlineTag inl t
  | s => s.bytes

/-- `applyInlineStylesToHTML` -/
def scan (inl : List B → List B) (s : List B) : List B := (segments (s.length + 1) s).flatMap (emit inl)

theorem map_cons_some (x : Option (List B × List B)) (b : B) (c rest : List B)
    (h : x.map (fun (p : List B × List B) => (b :: p.1, p.2)) = some (c, rest)) : ∃ c', x = some (c', rest) ∧ c = b :: c' := by
  cases x with
  | none => simp at h
  | some p =>
    simp only [Option.map_some, Option.some.injEq, Prod.mk.injEq] at h
    exact ⟨p.1, by rw [← h.2], h.1.symm⟩

theorem splitTag_append : ∀ (r : List B) (q : B) (c rest : List B), splitTag q r = some (c, rest) → c ++ rest = r
  | [], _, _, _, h => by simp [splitTag] at h
  | b :: r, q, c, rest, h => by
    unfold splitTag at h
    split at h
    · obtain ⟨c', hs, hc⟩ := map_cons_some _ b c rest h
      subst hc
      simp [splitTag_append r _ c' rest hs]
    · split at h
      · obtain ⟨c', hs, hc⟩ := map_cons_some _ b c rest h
        subst hc
        simp [splitTag_append r _ c' rest hs]
      · split at h
        · simp at h; obtain ⟨h1, h2⟩ := h; subst h1; subst h2; rfl
        · obtain ⟨c', hs, hc⟩ := map_cons_some _ b c rest h
          subst hc
          simp [splitTag_append r _ c' rest hs]

theorem splitArrow_append : ∀ (s c rest : List B), splitArrow s = some (c, rest) → c ++ rest = s
  | [], _, _, h => by simp [splitArrow] at h
  | b :: r, c, rest, h => by
    unfold splitArrow at h
    split at h
    · rename_i hp
      simp only [Option.some.injEq, Prod.mk.injEq] at h
      obtain ⟨h1, h2⟩ := h; subst h1; subst h2
      obtain ⟨t, ht⟩ := List.isPrefixOf_iff_prefix.mp hp
      rw [← ht]; simp [arrow]
    · obtain ⟨c', hs, hc⟩ := map_cons_some _ b c rest h
      subst hc
      simp [splitArrow_append r c' rest hs]

/-- **the scanner loses nothing**: the segments are the fragment, byte for byte -/
theorem segments_bytes : ∀ (fuel : Nat) (s : List B), (segments fuel s).flatMap Seg.bytes = s
  | 0, s => by
    unfold segments
    by_cases h : s = []
    · simp [h]
    · simp [h, Seg.bytes]
  | fuel + 1, s => by
    have hs := List.takeWhile_append_dropWhile (p := (· != lt)) (l := s)
    unfold segments
    simp only []
    have hpre : (if s.takeWhile (· != lt) == [] then ([] : List Seg) else [Seg.text (s.takeWhile (· != lt))]).flatMap Seg.bytes
        = s.takeWhile (· != lt) := by
      by_cases h : s.takeWhile (· != lt) = []
      · simp [h]
      · simp [h, Seg.bytes]
    split
    · rename_i heq
      rw [hpre]; rw [heq] at hs; simpa using hs
    · rename_i l r heq
      rw [heq] at hs
      split
      · rename_i hr
        have : r = [] := by simpa using hr
        subst this
        rw [List.flatMap_append, hpre]; simpa [Seg.bytes] using hs
      · split
        · rename_i hco
          have hpfx := List.isPrefixOf_iff_prefix.mp hco
          obtain ⟨t, ht⟩ := hpfx
          have hdrop : (l :: r).drop 4 = t := by rw [← ht]; simp [cOpen]
          split
          · rw [List.flatMap_append, hpre]; simpa [Seg.bytes] using hs
          · rename_i c rest hsa
            have := splitArrow_append _ c rest hsa
            rw [hdrop] at this
            rw [List.flatMap_append, List.flatMap_append, hpre, segments_bytes fuel rest]
            simp only [List.flatMap_cons, List.flatMap_nil, Seg.bytes, List.append_nil]
            rw [List.append_assoc, List.append_assoc, this, ht]
            exact hs
        · split
          · rw [List.flatMap_append, hpre]; simpa [Seg.bytes] using hs
          · rename_i c rest hst
            have := splitTag_append r 0 c rest hst
            rw [List.flatMap_append, List.flatMap_append, hpre, segments_bytes fuel rest]
            have hb : (if (r.head? == some 47 || r.head? == some 33 || r.head? == some 63) = true then Seg.other (l :: c) else Seg.start (l :: c)).bytes = l :: c := by
              split <;> rfl
            simp only [List.flatMap_cons, List.flatMap_nil, List.append_nil, hb]
            rw [List.append_assoc, List.cons_append, this]
            exact hs

/-- a class value that gets no declarations leaves its tag alone -/
theorem inlineTag_id (inl : List B → List B) (h : ∀ c, inl c = []) (tag : List B) : inlineTag inl tag = tag := by
  unfold inlineTag
  split
  · rfl
  · split
    · rfl
    · split
      · rfl
      · simp [h]

/-- **no targeted class, no change**: when no class gets declarations the fragment comes out byte for byte -/
theorem scan_id (inl : List B → List B) (h : ∀ c, inl c = []) (s : List B) : scan inl s = s := by
  unfold scan
  have : ∀ seg, emit inl seg = seg.bytes := by
    intro seg; cases seg <;> simp [emit, Seg.bytes, inlineTag_id inl h]
  rw [show (segments (s.length + 1) s).flatMap (emit inl) = (segments (s.length + 1) s).flatMap Seg.bytes from by
    congr 1; funext seg; exact this seg]
  exact segments_bytes _ s

end Gomjml.InlineScan
