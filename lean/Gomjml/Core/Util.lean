/-! shared instances -/
deriving instance DecidableEq for Except
