import Gomjml.Core.LayoutSpec
import Gomjml.Core.LayoutCount
import Gomjml.Core.LeavesProofs
/-! # Whole documents: the layout skeleton with a content component in every slot

`Doc` = a layout tree (`Layout.Block`s: sections, columns, groups, wrappers, heroes, raw content) together with what stands in
its content slots, in document order (`Leaves.LeafM`: text, button, image, divider, spacer, table, social, navbar, accordion,
carousel — or `keep` for a slot whose content token stays, as for mj-text / mj-raw modelled by the layout itself).

`Doc.render` = the layout skeleton with every content token replaced by the component's own markup.  The three properties proved
for the skeleton (C02, C03, visibility of C04) carry over to it by `Expand.expand_spec` and `Leaves.leaf_inert`; the content
count by `leaf_count`. -/
namespace Gomjml.LayoutLeaves
open Gomjml.Spec Gomjml.Expand Gomjml.Leaves Gomjml.Layout

structure Doc where
  blocks : List Block
  fills : List LeafM
deriving Repr

def Doc.skeleton (d : Doc) : List GTok := (Layout.render d.blocks).map Tok.toG
def Doc.render (d : Doc) : List GTok := expand (d.fills.map LeafM.toks) d.skeleton

theorem toG_noNot (ts : List Tok) : noNot (ts.map Tok.toG) = true := by
  induction ts with
  | nil => rfl
  | cons x r ih => cases x <;> simpa [Tok.toG, noNot] using ih

/-- **C02 / C03 / C04 (visibility) for every document of the grammar with every content component**: any layout tree, any
    component with any parameters and any number of children in any slot -/
theorem doc_spec (d : Doc) : StdWF d.render ∧ MsoWF d.render ∧ Visible d.render := by
  have hwf := wf_spec _ (C02_C03_all d.blocks)
  exact expand_spec d.skeleton (d.fills.map LeafM.toks) (toG_noNot _)
    (by intro f hf; simp only [List.mem_map] at hf; obtain ⟨l, _, rfl⟩ := hf; exact leaf_inert l)
    hwf.1 hwf.2.1 hwf.2.2

/-! ### content accounting through the substitution -/

theorem cntT_expand : ∀ (ts : List GTok) (fs : List (List GTok)), fs.length = cntT ts →
    cntT (expand fs ts) = (fs.map cntT).sum := by
  intro ts
  induction ts with
  | nil => intro fs h; cases fs <;> simp_all [expand]
  | cons x r ih =>
    intro fs h
    cases x with
    | t s =>
      cases fs with
      | nil => simp at h
      | cons f fs' =>
        simp only [cntT_cons_t, List.length_cons, Nat.add_right_cancel_iff] at h
        simp only [expand, cntT_append, List.map_cons, List.sum_cons, ih fs' h]
    | o b n => have := ih fs (by simpa using h); cases fs <;> simpa [expand] using this
    | c b n => have := ih fs (by simpa using h); cases fs <;> simpa [expand] using this
    | v b n => have := ih fs (by simpa using h); cases fs <;> simpa [expand] using this
    | co => have := ih fs (by simpa using h); cases fs <;> simpa [expand] using this
    | cc => have := ih fs (by simpa using h); cases fs <;> simpa [expand] using this
    | nco => have := ih fs (by simpa using h); cases fs <;> simpa [expand] using this
    | ncc => have := ih fs (by simpa using h); cases fs <;> simpa [expand] using this

theorem cntT_toG (ts : List Tok) : cntT (ts.map Tok.toG) = cnt ts := by
  induction ts with
  | nil => rfl
  | cons x r ih => cases x <;> simp [Tok.toG, ih, cnt]

/-- a document is complete when it names a component for every content slot of its layout -/
def Doc.Complete (d : Doc) : Prop := d.fills.length = (d.blocks.map Block.slots).sum

/-- **exactly once, with components**: the rendered document contains as many author-content tokens as its components have
    content slots — nothing dropped, nothing duplicated -/
theorem doc_count (d : Doc) (h : d.Complete) : cntT d.render = (d.fills.map LeafM.slots).sum := by
  unfold Doc.render
  rw [cntT_expand _ _ (by simp only [List.length_map, Doc.skeleton, cntT_toG, content_count]; exact h)]
  simp only [List.map_map]
  congr 1
  apply List.map_congr_left
  intro l _
  exact leaf_count l

end Gomjml.LayoutLeaves
