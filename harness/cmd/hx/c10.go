package main

import (
	"encoding/json"
	"fmt"
	"sort"
	"strconv"
	"strings"
)

// ===== C10: width documents, scraped widths vs the Lean Model (`Widths.impl`, exact) and Spec (`Widths.spec`) ============

type wEdges struct {
	PadForm string `json:"pad_form"` // "", "1", "2", "3", "4", "sides"   how the padding shorthand is written
	Pad     [4]int `json:"pad"`      // top right bottom left
	Over    string `json:"over"`     // per-side attributes written next to a shorthand: "", "l", "r", "lr"
	OverL   int    `json:"over_l"`
	OverR   int    `json:"over_r"`
	Border  int    `json:"border"`   // border width on every side (0 = none)
	BorderL int    `json:"border_l"` // border-left attribute (per-side form; overrides border on the left)
	// how the lengths are spelt — the same lengths, the same Model input: "" = 20px, "bare" = 20 (a unitless number is pixels),
	// "dot0" = 20.0px, "tab" / "2sp" / "edge" = the values of a shorthand separated by a tab / two blanks / with blanks around
	Spell string `json:"spell,omitempty"`
}

var wSpells = []string{"bare", "dot0", "tab", "2sp", "edge", "zero"}

func (e wEdges) px(v int) string {
	switch e.Spell {
	case "bare":
		return fmt.Sprint(v)
	case "dot0":
		return fmt.Sprintf("%d.0px", v)
	case "zero": // zero-padded: still the decimal number
		return fmt.Sprintf("0%dpx", v)
	}
	return fmt.Sprintf("%dpx", v)
}

func (e wEdges) padAttr() string {
	s := ""
	sep, lead, trail := " ", "", ""
	switch e.Spell {
	case "tab":
		sep = "\t"
	case "2sp":
		sep = "  "
	case "edge":
		lead, trail = " ", "  "
	}
	join := func(vs ...int) string {
		var p []string
		for _, v := range vs {
			p = append(p, e.px(v))
		}
		return ` padding="` + lead + strings.Join(p, sep) + trail + `"`
	}
	switch e.PadForm {
	case "1":
		s = join(e.Pad[0])
	case "2":
		s = join(e.Pad[0], e.Pad[1])
	case "3":
		s = join(e.Pad[0], e.Pad[1], e.Pad[2])
	case "4":
		s = join(e.Pad[0], e.Pad[1], e.Pad[2], e.Pad[3])
	case "sides":
		return fmt.Sprintf(` padding-left="%s" padding-right="%s"`, e.px(e.Pad[3]), e.px(e.Pad[1])) // a single length is written without blanks around it
	}
	if strings.Contains(e.Over, "l") {
		s += fmt.Sprintf(` padding-left="%s"`, e.px(e.OverL))
	}
	if strings.Contains(e.Over, "r") {
		s += fmt.Sprintf(` padding-right="%s"`, e.px(e.OverR))
	}
	return s
}

// effective left/right padding by CSS shorthand rules (defaults given by the component); a per-side attribute wins
func (e wEdges) lr(defL, defR int) (int, int) {
	l, r := defL, defR
	switch e.PadForm {
	case "1":
		l, r = e.Pad[0], e.Pad[0]
	case "2", "3":
		l, r = e.Pad[1], e.Pad[1]
	case "4":
		l, r = e.Pad[3], e.Pad[1]
	case "sides":
		return e.Pad[3], e.Pad[1]
	}
	if strings.Contains(e.Over, "l") {
		l = e.OverL
	}
	if strings.Contains(e.Over, "r") {
		r = e.OverR
	}
	return l, r
}

func (e wEdges) borderAttr() string {
	s := ""
	if e.Border > 0 {
		s += fmt.Sprintf(` border="%dpx solid #000000"`, e.Border)
	}
	if e.BorderL > 0 {
		s += fmt.Sprintf(` border-left="%dpx solid #000000"`, e.BorderL)
	}
	return s
}

func (e wEdges) enc(dl, dr int) string {
	l, r := e.lr(dl, dr)
	bl := e.Border
	if e.BorderL > 0 {
		bl = e.BorderL
	}
	return fmt.Sprintf("%d,%d,%d,%d", l, r, bl, e.Border)
}

func (e wEdges) plain() bool {
	return e.PadForm == "" && e.Over == "" && e.Border == 0 && e.BorderL == 0
}

type wWidth struct {
	Kind string `json:"kind"` // a p x
	Num  int    `json:"num"`
	Den  int    `json:"den"`
}

func (w wWidth) attr() string {
	switch w.Kind {
	case "p":
		if w.Den == 1 {
			return fmt.Sprintf(` width="%d%%"`, w.Num)
		}
		return fmt.Sprintf(` width="%s%%"`, strconv.FormatFloat(float64(w.Num)/float64(w.Den), 'f', -1, 64))
	case "x":
		return fmt.Sprintf(` width="%dpx"`, w.Num)
	case "xf":
		return fmt.Sprintf(` width="%s"`, strconv.FormatFloat(float64(w.Num)/float64(w.Den), 'f', -1, 64)+"px")
	}
	return ""
}

// a pixel width with a fractional part: the Outlook cell carries it as written; what the column hands to its children is the
// width rounded to whole pixels (half to even, as %.0f does) — that is the Model's input
func (w wWidth) roundedPx() int {
	q, r := w.Num/w.Den, w.Num%w.Den
	switch {
	case 2*r > w.Den, 2*r == w.Den && q%2 == 1:
		return q + 1
	}
	return q
}

func (w wWidth) enc() string {
	switch w.Kind {
	case "p":
		return fmt.Sprintf("p%d/%d", w.Num, w.Den)
	case "x":
		return fmt.Sprintf("x%d", w.Num)
	case "xf":
		return fmt.Sprintf("x%d", w.roundedPx())
	}
	return "a"
}

type wLeaf struct {
	Kind string `json:"kind"` // image divider text imagew (explicit pixel width W) carousel dividerp (percentage width P[0]/P[1], written PText)
	W    int    `json:"w,omitempty"`
	P    [2]int `json:"p,omitempty"`
	PT   string `json:"pt,omitempty"`
	// imagew: where the explicit width is written — "" on the element, "class" in an mj-class the image names, "tag" as the
	// mj-image default of mj-attributes.  The Model sees the same width either way.
	Src string `json:"src,omitempty"`
	E   wEdges `json:"e"` // its own padding; Border = the image's own border (narrows the default width on both sides)
	// attributes that select other markup paths but have nothing to do with widths (alignment, links, colours): not part of the
	// Model's input, so any influence on a width shows as a disagreement
	Look string `json:"look,omitempty"`
}

func (l wLeaf) mjml(id string) string {
	switch l.Kind {
	case "image":
		return fmt.Sprintf(`<mj-image src="i.png" alt="leaf%s"%s%s%s/>`, id, l.E.padAttr(), l.E.borderAttr(), l.Look)
	case "imagew":
		switch l.Src {
		case "class":
			return fmt.Sprintf(`<mj-image src="i.png" alt="leaf%s" mj-class="kl%s"%s%s/>`, id, id, l.E.padAttr(), l.Look)
		case "tag":
			return fmt.Sprintf(`<mj-image src="i.png" alt="leaf%s"%s%s/>`, id, l.E.padAttr(), l.Look)
		}
		return fmt.Sprintf(`<mj-image src="i.png" alt="leaf%s" width="%dpx"%s%s/>`, id, l.W, l.E.padAttr(), l.Look)
	case "carousel":
		return fmt.Sprintf(`<mj-carousel thumbnails="hidden"><mj-carousel-image src="c.png" alt="leaf%s"/></mj-carousel>`, id)
	case "divider":
		return fmt.Sprintf(`<mj-divider css-class="leaf%s"%s%s/>`, id, l.E.padAttr(), l.Look)
	case "dividerp":
		return fmt.Sprintf(`<mj-divider css-class="leaf%s" width="%s"%s%s/>`, id, l.PT, l.E.padAttr(), l.Look)
	}
	return "<mj-text" + l.Look + ">t</mj-text>"
}

var leafLooks = map[string][]string{
	"text":    {"", "", ` align="right"`, ` align="center"`, ` align="left"`, ` align="justify"`, ` color="#ff0000" container-background-color="#eeeeee"`, ` height="40px"`},
	"image":   {"", "", ` align="right"`, ` align="left"`, ` href="http://x/u"`, ` container-background-color="#eeeeee"`, ` border-radius="4px"`},
	"divider": {"", "", ` align="right"`, ` align="left"`, ` border-width="2px"`, ` container-background-color="#eeeeee"`},
}

func (l wLeaf) enc() string {
	a, b := l.E.lr(25, 25) // mj-image / mj-divider default padding: 10px 25px
	switch l.Kind {
	case "image":
		return fmt.Sprintf("i%d,%d", a+l.E.Border, b+l.E.Border) // its own border narrows it on both sides
	case "imagew":
		return fmt.Sprintf("w%d,%d,%d", a, b, l.W)
	case "carousel":
		return "k"
	case "divider":
		return fmt.Sprintf("d%d,%d", a, b)
	case "dividerp":
		return fmt.Sprintf("q%d,%d,%d,%d", a, b, l.P[0], l.P[1])
	}
	return "n"
}

type wCol struct {
	W    wWidth `json:"w"`
	E    wEdges `json:"e"`
	Leaf wLeaf  `json:"leaf"`
	// where the column's padding / border attributes are written: "" on the element, "class" in an mj-class the column names,
	// "tag" as the mj-column default of mj-attributes (single-column documents only).  The Model sees the same values either way.
	Src string `json:"src,omitempty"`
}

func (c wCol) mjml(id string) string {
	edges := c.E.padAttr() + c.E.borderAttr()
	switch c.Src {
	case "class":
		edges = ` mj-class="kc` + id + `"`
	case "tag":
		edges = ""
	}
	return fmt.Sprintf(`<mj-column css-class="c%s"%s%s>%s</mj-column>`, id, c.W.attr(), edges, c.Leaf.mjml(id))
}

// headFor: the mj-attributes entries that carry the edges of columns whose Src is not the element itself
func (d *wDoc) headFor() string {
	var b strings.Builder
	add := func(c wCol, id string) {
		switch c.Src {
		case "class":
			fmt.Fprintf(&b, `<mj-class name="kc%s"%s%s/>`, id, c.E.padAttr(), c.E.borderAttr())
		case "tag":
			fmt.Fprintf(&b, `<mj-column%s%s/>`, c.E.padAttr(), c.E.borderAttr())
		}
	}
	addLeaf := func(l wLeaf, id string) {
		if l.Kind != "imagew" {
			return
		}
		switch l.Src {
		case "class":
			fmt.Fprintf(&b, `<mj-class name="kl%s" width="%dpx"/>`, id, l.W)
		case "tag":
			fmt.Fprintf(&b, `<mj-image width="%dpx"/>`, l.W)
		}
	}
	for i, it := range d.Items {
		if it.Col != nil {
			add(*it.Col, strconv.Itoa(i))
			addLeaf(it.Col.Leaf, strconv.Itoa(i))
		}
		for j, c := range it.Cols {
			add(c, fmt.Sprintf("%d_%d", i, j))
			addLeaf(c.Leaf, fmt.Sprintf("%d_%d", i, j))
		}
	}
	for i, l := range d.Leaves {
		addLeaf(l, fmt.Sprintf("h%d", i))
	}
	if b.Len() == 0 {
		return ""
	}
	return "<mj-head><mj-attributes>" + b.String() + "</mj-attributes></mj-head>"
}
func (c wCol) enc() string { return "c:" + c.W.enc() + ":" + c.E.enc(0, 0) + ":" + c.Leaf.enc() }

type wItem struct {
	Col   *wCol   `json:"col,omitempty"`
	Group *wWidth `json:"group,omitempty"`
	Cols  []wCol  `json:"cols,omitempty"`
}

type wDoc struct {
	Body    int     `json:"body"`
	Wrapper *wEdges `json:"wrapper,omitempty"`
	WFull   bool    `json:"wrapper_full_width,omitempty"` // the wrapper is full-width: another outer table, the same box for its children
	Hero    bool    `json:"hero"`
	Sec     wEdges  `json:"sec"` // section (or hero) edges
	Items   []wItem `json:"items,omitempty"`
	Leaves  []wLeaf `json:"leaves,omitempty"` // hero children
}

func (d *wDoc) mjml() string {
	var b strings.Builder
	b.WriteString("<mjml>" + d.headFor() + "<mj-body")
	if d.Body != 600 {
		fmt.Fprintf(&b, ` width="%dpx"`, d.Body)
	}
	b.WriteString(">")
	if d.Wrapper != nil {
		fw := ""
		if d.WFull {
			fw = ` full-width="full-width"`
		}
		b.WriteString(`<mj-wrapper css-class="w0"` + fw + d.Wrapper.padAttr() + d.Wrapper.borderAttr() + ">")
	}
	if d.Hero {
		b.WriteString(`<mj-hero css-class="h0"` + d.Sec.padAttr() + ">")
		for i, l := range d.Leaves {
			b.WriteString(l.mjml(fmt.Sprintf("h%d", i)))
		}
		b.WriteString("</mj-hero>")
	} else {
		b.WriteString(`<mj-section css-class="s0"` + d.Sec.padAttr() + d.Sec.borderAttr() + ">")
		for i, it := range d.Items {
			if it.Col != nil {
				b.WriteString(it.Col.mjml(strconv.Itoa(i)))
				continue
			}
			fmt.Fprintf(&b, `<mj-group css-class="g%d"%s>`, i, it.Group.attr())
			for j, c := range it.Cols {
				b.WriteString(c.mjml(fmt.Sprintf("%d_%d", i, j)))
			}
			b.WriteString("</mj-group>")
		}
		b.WriteString("</mj-section>")
	}
	if d.Wrapper != nil {
		b.WriteString("</mj-wrapper>")
	}
	b.WriteString("</mj-body></mjml>")
	return b.String()
}

// enc: the driver's `width` request
func (d *wDoc) enc() string {
	parts := []string{"width", strconv.Itoa(d.Body)}
	if d.Wrapper != nil {
		parts = append(parts, d.Wrapper.enc(0, 0)) // horizontal defaults of mj-wrapper (20px 0): 0
	} else {
		parts = append(parts, "-")
	}
	if d.Hero {
		parts = append(parts, "h:"+d.Sec.enc(0, 0))
		for _, l := range d.Leaves {
			parts = append(parts, "l:"+l.enc())
		}
		return strings.Join(parts, " ")
	}
	parts = append(parts, "s:"+d.Sec.enc(0, 0))
	for _, it := range d.Items {
		if it.Col != nil {
			parts = append(parts, it.Col.enc())
			continue
		}
		parts = append(parts, fmt.Sprintf("g:%s:%d", it.Group.enc(), len(it.Cols)))
		for _, c := range it.Cols {
			parts = append(parts, c.enc())
		}
	}
	return strings.Join(parts, " ")
}

// ---- scraping the real output ---------------------------------------------------------------------------------------

// scraped / expected widths by key: W (wrapper), S (section), col:<i>, grp:<i>, gcol:<i>_<j>, leaf:<id>
type wVals map[string]string

func styleVal(t htmlTok, key string) string {
	st, _ := t.attr("style")
	for _, d := range declsOf(st) {
		if strings.HasPrefix(d, key+":") {
			return strings.TrimSuffix(strings.TrimPrefix(d, key+":"), "px")
		}
	}
	return ""
}

func scrapeWidths(toks []htmlTok, d *wDoc) wVals {
	v := wVals{}
	groupCols := map[string]int{}
	for i, it := range d.Items {
		if it.Group != nil {
			groupCols[fmt.Sprintf("g%d", i)] = len(it.Cols)
		}
	}
	for i, t := range toks {
		if t.kind != "o" && t.kind != "v" {
			continue
		}
		cls, _ := t.attr("class")
		for _, c := range strings.Fields(cls) {
			switch {
			case c == "w0" && t.name == "div":
				v["W"] = styleVal(t, "max-width")
			case c == "w0-outlook" && t.name == "table" && d.WFull:
				// a full-width wrapper carries its class on the outer 100% table; its own width is that of its Outlook table
				v["W"] = styleVal(t, "width")
			case c == "s0" && t.name == "div":
				v["S"] = styleVal(t, "max-width")
			case strings.HasPrefix(c, "c") && strings.HasSuffix(c, "-outlook") && t.name == "td":
				v["col:"+strings.TrimSuffix(strings.TrimPrefix(c, "c"), "-outlook")] = styleVal(t, "width")
			case strings.HasPrefix(c, "g") && strings.HasSuffix(c, "-outlook") && t.name == "td":
				v["grp:"+strings.TrimSuffix(strings.TrimPrefix(c, "g"), "-outlook")] = styleVal(t, "width")
			case groupCols[c] > 0 && t.name == "div":
				// the Outlook cells of the group's columns follow, one per column, without a class
				n, want := 0, groupCols[c]
				for j := i + 1; j < len(toks) && n < want; j++ {
					u := toks[j]
					if u.kind != "o" || u.name != "td" {
						continue
					}
					if _, has := u.attr("class"); has {
						continue
					}
					st, _ := u.attr("style")
					if strings.HasPrefix(st, "vertical-align:") && strings.Contains(st, "width:") {
						v[fmt.Sprintf("gcol:%s_%d", strings.TrimPrefix(c, "g"), n)] = styleVal(u, "width")
						n++
					}
				}
			case strings.HasPrefix(c, "leaf") && t.name == "td":
				// divider: the Outlook table that follows carries the pixel width
				for j := i + 1; j < len(toks) && j < i+12; j++ {
					if toks[j].kind == "o" && toks[j].name == "table" {
						if w, ok := toks[j].attr("width"); ok && strings.HasSuffix(w, "px") {
							v["leaf:"+strings.TrimPrefix(c, "leaf")] = strings.TrimSuffix(w, "px")
							break
						}
					}
				}
			}
		}
		if t.name == "img" {
			if alt, ok := t.attr("alt"); ok && strings.HasPrefix(alt, "leaf") {
				v["leaf:"+strings.TrimPrefix(alt, "leaf")], _ = t.attr("width")
			}
		}
	}
	return v
}

// expected values from a driver response (`width`: integers, `widthspec`: rationals), under the same keys
func (d *wDoc) expected(resp string) wVals {
	v := wVals{}
	f := map[string]string{}
	for _, kv := range strings.Fields(resp) {
		p := strings.SplitN(kv, "=", 2)
		if len(p) == 2 {
			f[p[0]] = p[1]
		}
	}
	if d.Wrapper != nil {
		v["W"] = f["W"]
	}
	if d.Hero {
		ls := strings.Split(f["hero"], ";")
		for i := range d.Leaves {
			if i < len(ls) && ls[i] != "-" && ls[i] != "" {
				v[fmt.Sprintf("leaf:h%d", i)] = ls[i]
			}
		}
		return v
	}
	v["S"] = f["S"]
	v["B"] = f["B"]
	var outs []string
	if f["items"] != "" {
		outs = strings.Split(f["items"], ";")
	}
	k := 0
	next := func() []string {
		if k >= len(outs) {
			return []string{"", "", "", ""}
		}
		p := strings.Split(outs[k], ",")
		k++
		for len(p) < 4 {
			p = append(p, "")
		}
		return p
	}
	for i, it := range d.Items {
		if it.Col != nil {
			p := next()
			if it.Col.W.Kind != "xf" { // a fractional pixel width is printed as written; only what it hands down is compared
				v[fmt.Sprintf("col:%d", i)] = p[1]
			}
			if p[3] != "-" {
				v[fmt.Sprintf("leaf:%d", i)] = p[3]
			}
			continue
		}
		p := next()
		v[fmt.Sprintf("grp:%d", i)] = p[1]
		for j := range it.Cols {
			q := next()
			if it.Cols[j].W.Kind != "xf" {
				v[fmt.Sprintf("gcol:%d_%d", i, j)] = q[1]
			}
			if q[3] != "-" {
				v[fmt.Sprintf("leaf:%d_%d", i, j)] = q[3]
			}
		}
	}
	return v
}

func ratVal(q string) (float64, bool) {
	p := strings.SplitN(q, "/", 2)
	num, err := strconv.ParseFloat(p[0], 64)
	if err != nil {
		return 0, false
	}
	den := 1.0
	if len(p) == 2 {
		den, _ = strconv.ParseFloat(p[1], 64)
	}
	if den == 0 {
		return 0, false
	}
	return num / den, true
}

// ---- document generation --------------------------------------------------------------------------------------------------

func genEdges(r *Rng, allowForms []string, pBorder int) wEdges {
	e := wEdges{PadForm: r.Pick(allowForms)}
	for i := range e.Pad {
		e.Pad[i] = []int{0, 5, 10, 15, 20, 25, 30}[r.Intn(7)]
	}
	if e.PadForm != "sides" && r.Bool(1, 4) {
		e.Over = r.Pick([]string{"l", "r", "lr"})
		e.OverL = []int{0, 5, 15, 35}[r.Intn(4)]
		e.OverR = []int{0, 10, 20, 45}[r.Intn(4)]
	}
	if e.PadForm != "" && r.Bool(1, 5) {
		e.Spell = r.Pick(wSpells)
	}
	if r.Intn(10) < pBorder {
		e.Border = []int{1, 2, 4}[r.Intn(3)]
	}
	if r.Intn(20) < pBorder {
		e.BorderL = []int{1, 3}[r.Intn(2)]
	}
	return e
}

var wForms = []string{"", "1", "2", "3", "4", "sides"}

func genWidth(r *Rng) wWidth {
	switch r.Intn(6) {
	case 0:
		return wWidth{"p", []int{20, 25, 30, 40, 50}[r.Intn(5)], 1}
	case 1:
		return wWidth{"p", []int{3333, 1250, 6667}[r.Intn(3)], 100}
	case 2:
		if r.Bool(1, 3) {
			return wWidth{"xf", []int{375, 225, 377, 301}[r.Intn(4)], 2} // 187.5 112.5 188.5 150.5 px
		}
		return wWidth{"x", []int{100, 150, 200, 50, 25, 40}[r.Intn(6)], 1}
	}
	return wWidth{Kind: "a"}
}

// percentage widths of a divider: whole and fractional (binary fractions, so that the code's float arithmetic is exact), the
// same value spelt with a trailing zero
var dividerPcts = []struct {
	a, b int
	text string
}{{50, 1, "50%"}, {75, 2, "37.5%"}, {125, 2, "62.5%"}, {25, 2, "12.5%"}, {133, 4, "33.25%"}, {80, 1, "80%"}, {100, 1, "100%"}, {50, 1, "50.0%"}, {1, 2, "0.5%"}, {399, 4, "99.75%"}}

func dividerP(i int) wLeaf {
	p := dividerPcts[i%len(dividerPcts)]
	return wLeaf{Kind: "dividerp", P: [2]int{p.a, p.b}, PT: p.text}
}

func genWLeaf(r *Rng) wLeaf {
	l := wLeaf{Kind: r.Pick([]string{"image", "image", "divider", "divider", "text", "text", "imagew", "carousel", "dividerp"})}
	if l.Kind == "dividerp" {
		l = dividerP(r.Intn(len(dividerPcts)))
	}
	if r.Bool(1, 3) && l.Kind != "carousel" {
		l.E = genEdges(r, wForms, 0)
	}
	switch l.Kind {
	case "image":
		if r.Bool(1, 4) {
			l.E.Border = []int{1, 2, 5}[r.Intn(3)]
		}
		l.Look = r.Pick(leafLooks[l.Kind])
	case "imagew":
		l.W = []int{40, 100, 250, 400, 900}[r.Intn(5)]
		if r.Bool(1, 3) {
			l.Src = "class"
		}
	case "carousel":
	case "dividerp":
		l.Look = r.Pick(leafLooks["divider"])
	default:
		l.Look = r.Pick(leafLooks[l.Kind])
	}
	return l
}

func genCol(r *Rng) wCol {
	c := wCol{W: genWidth(r), E: genEdges(r, wForms, 2), Leaf: genWLeaf(r)}
	if r.Bool(1, 4) {
		c.Src = "class"
	}
	return c
}

func widthDocs(tier string, seed int64) []*wDoc {
	var docs []*wDoc
	plain := wEdges{}
	one := func(e wEdges, leaf string) []wItem {
		return []wItem{{Col: &wCol{W: wWidth{Kind: "a"}, E: e, Leaf: wLeaf{Kind: leaf}}}}
	}
	// one feature at a time, from a plain base
	for _, body := range []int{600, 500, 480, 700} {
		for _, leaf := range []string{"image", "divider"} {
			docs = append(docs, &wDoc{Body: body, Sec: plain, Items: one(plain, leaf)})
			docs = append(docs, &wDoc{Body: body, Wrapper: &wEdges{}, Sec: plain, Items: one(plain, leaf)})
			docs = append(docs, &wDoc{Body: body, Hero: true, Sec: plain, Leaves: []wLeaf{{Kind: leaf}}})
			for _, f := range wForms[1:] {
				e := wEdges{PadForm: f, Pad: [4]int{10, 20, 30, 40}}
				docs = append(docs, &wDoc{Body: body, Sec: e, Items: one(plain, leaf)})
				docs = append(docs, &wDoc{Body: body, Wrapper: &e, Sec: plain, Items: one(plain, leaf)})
				docs = append(docs, &wDoc{Body: body, Sec: plain, Items: one(e, leaf)})
				docs = append(docs, &wDoc{Body: body, Hero: true, Sec: e, Leaves: []wLeaf{{Kind: leaf}}})
				docs = append(docs, &wDoc{Body: body, Sec: plain, Items: []wItem{{Col: &wCol{W: wWidth{Kind: "a"}, Leaf: wLeaf{Kind: leaf, E: e}}}}})
			}
			// the same lengths spelt differently, in every form, on every kind of box
			if body == 600 {
				for _, sp := range wSpells {
					for _, f := range wForms[1:] {
						e := wEdges{PadForm: f, Pad: [4]int{10, 20, 30, 40}, Spell: sp}
						docs = append(docs, &wDoc{Body: body, Sec: e, Items: one(plain, leaf)})
						docs = append(docs, &wDoc{Body: body, Wrapper: &e, Sec: plain, Items: one(plain, leaf)})
						docs = append(docs, &wDoc{Body: body, Sec: plain, Items: one(e, leaf)})
						docs = append(docs, &wDoc{Body: body, Hero: true, Sec: e, Leaves: []wLeaf{{Kind: leaf}}})
						docs = append(docs, &wDoc{Body: body, Sec: plain, Items: []wItem{{Col: &wCol{W: wWidth{Kind: "a"}, Leaf: wLeaf{Kind: leaf, E: e}}}}})
					}
				}
			}
			for _, f := range []string{"", "1", "2", "3", "4"} {
				for _, ov := range []string{"l", "r", "lr"} {
					e := wEdges{PadForm: f, Pad: [4]int{10, 20, 30, 40}, Over: ov, OverL: 5, OverR: 15}
					docs = append(docs, &wDoc{Body: body, Sec: e, Items: one(plain, leaf)})
					docs = append(docs, &wDoc{Body: body, Wrapper: &e, Sec: plain, Items: one(plain, leaf)})
					docs = append(docs, &wDoc{Body: body, Sec: plain, Items: one(e, leaf)})
					docs = append(docs, &wDoc{Body: body, Hero: true, Sec: e, Leaves: []wLeaf{{Kind: leaf}}})
					docs = append(docs, &wDoc{Body: body, Sec: plain, Items: []wItem{{Col: &wCol{W: wWidth{Kind: "a"}, Leaf: wLeaf{Kind: leaf, E: e}}}}})
				}
			}
			for _, bw := range []int{1, 2, 4} {
				e := wEdges{Border: bw}
				docs = append(docs, &wDoc{Body: body, Sec: e, Items: one(plain, leaf)})
				docs = append(docs, &wDoc{Body: body, Wrapper: &e, Sec: plain, Items: one(plain, leaf)})
				docs = append(docs, &wDoc{Body: body, Sec: plain, Items: one(e, leaf)})
				docs = append(docs, &wDoc{Body: body, Sec: wEdges{BorderL: bw}, Items: one(wEdges{Border: 1, BorderL: bw}, leaf)})
			}
			for k := 2; k <= 4; k++ {
				var its []wItem
				for i := 0; i < k; i++ {
					its = append(its, wItem{Col: &wCol{W: wWidth{Kind: "a"}, Leaf: wLeaf{Kind: []string{leaf, "text"}[i%2]}}})
				}
				docs = append(docs, &wDoc{Body: body, Sec: wEdges{PadForm: "2", Pad: [4]int{0, 25, 0, 25}}, Items: its})
				docs = append(docs, &wDoc{Body: body, Sec: plain, Items: its})
				// the same columns inside one group, and a group next to a column
				var cs []wCol
				for _, it := range its {
					cs = append(cs, *it.Col)
				}
				docs = append(docs, &wDoc{Body: body, Sec: plain, Items: []wItem{{Group: &wWidth{Kind: "a"}, Cols: cs}}})
				docs = append(docs, &wDoc{Body: body, Sec: plain, Items: []wItem{{Group: &wWidth{Kind: "a"}, Cols: cs}, its[0]}})
				docs = append(docs, &wDoc{Body: body, Sec: plain, Items: []wItem{{Group: &wWidth{"p", 60, 1}, Cols: cs}, its[0]}})
				docs = append(docs, &wDoc{Body: body, Sec: plain, Items: []wItem{{Group: &wWidth{"x", 300, 1}, Cols: cs}, its[0]}})
			}
			two := func(a, b wWidth) []wItem {
				return []wItem{{Col: &wCol{W: a, Leaf: wLeaf{Kind: leaf}}}, {Col: &wCol{W: b, Leaf: wLeaf{Kind: leaf}}}}
			}
			docs = append(docs, &wDoc{Body: body, Sec: plain, Items: two(wWidth{"p", 40, 1}, wWidth{"p", 60, 1})})
			docs = append(docs, &wDoc{Body: body, Sec: plain, Items: two(wWidth{"p", 3333, 100}, wWidth{Kind: "a"})})
			docs = append(docs, &wDoc{Body: body, Sec: plain, Items: two(wWidth{"x", 150, 1}, wWidth{Kind: "a"})})
			// a pixel column and a percent column carrying the SAME number, in both orders (in a section and in a group): the
			// unit belongs to the width
			for _, n := range []int{50, 25, 40} {
				docs = append(docs, &wDoc{Body: body, Sec: plain, Items: two(wWidth{"x", n, 1}, wWidth{"p", n, 1})})
				docs = append(docs, &wDoc{Body: body, Sec: plain, Items: two(wWidth{"p", n, 1}, wWidth{"x", n, 1})})
				docs = append(docs, &wDoc{Body: body, Sec: plain, Items: []wItem{{Group: &wWidth{Kind: "a"}, Cols: []wCol{{W: wWidth{"x", n, 1}, Leaf: wLeaf{Kind: leaf}}, {W: wWidth{"p", n, 1}, Leaf: wLeaf{Kind: leaf}}}}}})
			}
			docs = append(docs, &wDoc{Body: body, Sec: plain, Items: []wItem{{Group: &wWidth{Kind: "a"}, Cols: []wCol{{W: wWidth{"p", 25, 1}, Leaf: wLeaf{Kind: leaf}}, {W: wWidth{Kind: "a"}, Leaf: wLeaf{Kind: leaf}}}}}})
		}
	}
	// pixel widths with a fractional part on columns (in a section and in a group): what they hand down is the rounded width
	for _, w := range []wWidth{{"xf", 375, 2}, {"xf", 225, 2}, {"xf", 377, 2}, {"xf", 1001, 4}} {
		for _, leaf := range []string{"image", "divider"} {
			docs = append(docs, &wDoc{Body: 600, Sec: plain, Items: []wItem{{Col: &wCol{W: w, Leaf: wLeaf{Kind: leaf}}}, {Col: &wCol{W: wWidth{Kind: "a"}, Leaf: wLeaf{Kind: "text"}}}}})
			docs = append(docs, &wDoc{Body: 600, Wrapper: &wEdges{PadForm: "2", Pad: [4]int{0, 20, 0, 20}}, Sec: plain, Items: []wItem{{Group: &wWidth{"p", 50, 1}, Cols: []wCol{{W: w, Leaf: wLeaf{Kind: leaf}}, {W: wWidth{Kind: "a"}, Leaf: wLeaf{Kind: "text"}}}}}})
		}
	}
	// images with their own border, images with an explicit width below / above what the column leaves, carousels; and the
	// column's edges written on the element, in an mj-class, or as the tag default
	for _, body := range []int{600, 480} {
		for _, src := range []string{"", "class", "tag"} {
			for _, e := range []wEdges{{}, {Border: 4}, {BorderL: 3}, {PadForm: "2", Pad: [4]int{0, 20, 0, 20}}, {PadForm: "sides", Pad: [4]int{0, 10, 0, 30}, Border: 2}} {
				for _, lf := range []wLeaf{{Kind: "image"}, {Kind: "divider"}, {Kind: "image", E: wEdges{Border: 2}}, {Kind: "image", E: wEdges{Border: 5, PadForm: "1", Pad: [4]int{10, 10, 10, 10}}},
					{Kind: "imagew", W: 100}, {Kind: "imagew", W: 900}, {Kind: "imagew", W: 260, E: wEdges{PadForm: "2", Pad: [4]int{0, 40, 0, 40}}}, {Kind: "carousel"}} {
					docs = append(docs, &wDoc{Body: body, Sec: plain, Items: []wItem{{Col: &wCol{W: wWidth{Kind: "a"}, E: e, Leaf: lf, Src: src}}}})
					if src != "tag" {
						docs = append(docs, &wDoc{Body: body, Sec: plain, Items: []wItem{{Col: &wCol{W: wWidth{Kind: "a"}, E: e, Leaf: lf, Src: src}}, {Col: &wCol{W: wWidth{Kind: "a"}, Leaf: wLeaf{Kind: "text"}}}}})
						docs = append(docs, &wDoc{Body: body, Wrapper: &wEdges{PadForm: "2", Pad: [4]int{0, 30, 0, 30}}, Sec: plain, Items: []wItem{{Group: &wWidth{Kind: "a"}, Cols: []wCol{{W: wWidth{Kind: "a"}, E: e, Leaf: lf, Src: src}, {W: wWidth{Kind: "a"}, Leaf: wLeaf{Kind: "text"}}}}}})
					}
				}
			}
		}
		for _, lf := range []wLeaf{{Kind: "imagew", W: 100}, {Kind: "imagew", W: 900}, {Kind: "carousel"}, {Kind: "image", E: wEdges{Border: 3}}} {
			docs = append(docs, &wDoc{Body: body, Hero: true, Sec: plain, Leaves: []wLeaf{lf}})
			docs = append(docs, &wDoc{Body: body, Hero: true, Sec: wEdges{PadForm: "2", Pad: [4]int{0, 50, 0, 50}}, Leaves: []wLeaf{lf, {Kind: "divider"}}})
		}
	}
	// an explicit image width from every source (the element, an mj-class, the mj-image default), below and above what the
	// column leaves, in a full column, one of two columns, a padded column, a hero
	for _, src := range []string{"", "class", "tag"} {
		for _, w := range []int{100, 480, 900} {
			lf := wLeaf{Kind: "imagew", W: w, Src: src}
			e := wEdges{PadForm: "2", Pad: [4]int{0, 40, 0, 40}}
			docs = append(docs, &wDoc{Body: 600, Sec: plain, Items: []wItem{{Col: &wCol{W: wWidth{Kind: "a"}, Leaf: lf}}}})
			docs = append(docs, &wDoc{Body: 600, Sec: plain, Items: []wItem{{Col: &wCol{W: wWidth{Kind: "a"}, Leaf: lf}}, {Col: &wCol{W: wWidth{Kind: "a"}, Leaf: wLeaf{Kind: "text"}}}}})
			docs = append(docs, &wDoc{Body: 600, Sec: plain, Items: []wItem{{Col: &wCol{W: wWidth{Kind: "a"}, E: e, Leaf: lf}}}})
			docs = append(docs, &wDoc{Body: 600, Hero: true, Sec: e, Leaves: []wLeaf{lf}})
		}
	}
	// dividers with a percentage width, whole and fractional: in a full column, a pixel-width column, a padded column, a padded
	// hero, with their own padding
	for i := range dividerPcts {
		lf := dividerP(i)
		e := wEdges{PadForm: "2", Pad: [4]int{0, 40, 0, 40}}
		docs = append(docs, &wDoc{Body: 600, Sec: plain, Items: []wItem{{Col: &wCol{W: wWidth{Kind: "a"}, Leaf: lf}}}})
		docs = append(docs, &wDoc{Body: 600, Sec: plain, Items: []wItem{{Col: &wCol{W: wWidth{"x", 210, 1}, Leaf: lf}}, {Col: &wCol{W: wWidth{Kind: "a"}, Leaf: wLeaf{Kind: "text"}}}}})
		docs = append(docs, &wDoc{Body: 600, Sec: plain, Items: []wItem{{Col: &wCol{W: wWidth{Kind: "a"}, E: e, Leaf: lf}}}})
		docs = append(docs, &wDoc{Body: 520, Hero: true, Sec: e, Leaves: []wLeaf{lf, {Kind: "divider"}}})
		lp := lf
		lp.E = wEdges{PadForm: "4", Pad: [4]int{5, 15, 5, 35}}
		docs = append(docs, &wDoc{Body: 600, Sec: e, Items: []wItem{{Col: &wCol{W: wWidth{"p", 50, 1}, Leaf: lp}}, {Col: &wCol{W: wWidth{"p", 50, 1}, Leaf: lf}}}})
	}
	// every cosmetic look of every leaf kind, alone in a column (which selects the single-column markup paths) and next to a
	// sibling, under a padded / bordered section, wrapper and column
	for _, kind := range []string{"text", "image", "divider"} {
		for _, look := range leafLooks[kind][2:] {
			lf := wLeaf{Kind: kind, Look: look}
			e := wEdges{PadForm: "2", Pad: [4]int{20, 30, 20, 30}}
			bd := wEdges{Border: 10}
			single := []wItem{{Col: &wCol{W: wWidth{Kind: "a"}, Leaf: lf}}}
			half := []wItem{{Col: &wCol{W: wWidth{"p", 50, 1}, Leaf: lf}}}
			pair := []wItem{{Col: &wCol{W: wWidth{Kind: "a"}, Leaf: lf}}, {Col: &wCol{W: wWidth{Kind: "a"}, Leaf: wLeaf{Kind: "text"}}}}
			for _, its := range [][]wItem{single, half, pair} {
				docs = append(docs, &wDoc{Body: 600, Sec: e, Items: its})
				docs = append(docs, &wDoc{Body: 600, Sec: bd, Items: its})
				docs = append(docs, &wDoc{Body: 600, Wrapper: &e, Sec: plain, Items: its})
				docs = append(docs, &wDoc{Body: 600, Wrapper: &e, Sec: e, Items: its})
				docs = append(docs, &wDoc{Body: 600, Sec: plain, Items: its})
			}
			docs = append(docs, &wDoc{Body: 600, Sec: plain, Items: []wItem{{Col: &wCol{W: wWidth{Kind: "a"}, E: e, Leaf: lf}}}})
		}
	}
	// every feature document with a wrapper also with the wrapper full-width (the same box for its children)
	for _, d := range append([]*wDoc{}, docs...) {
		if d.Wrapper != nil && !d.WFull && d.Body == 600 {
			c := *d
			c.WFull = true
			docs = append(docs, &c)
		}
	}
	n := 400
	if tier == "thorough" {
		n = 20000
	}
	for i := 0; i < n; i++ {
		r := NewRng(seed, fmt.Sprintf("c10/%d", i))
		d := &wDoc{Body: []int{600, 600, 500, 480, 640, 700}[r.Intn(6)]}
		if r.Bool(1, 3) {
			e := genEdges(r, wForms, 3)
			d.Wrapper = &e
			d.WFull = r.Bool(1, 3)
		}
		if r.Bool(1, 8) {
			d.Hero = true
			d.Sec = genEdges(r, wForms, 0)
			for j := 0; j < 1+r.Intn(2); j++ {
				l := genWLeaf(r)
				if l.Kind == "text" {
					l.Kind = "image"
					l.Look = r.Pick(leafLooks["image"])
				}
				d.Leaves = append(d.Leaves, l)
			}
			docs = append(docs, d)
			continue
		}
		d.Sec = genEdges(r, wForms, 3)
		k := 1 + r.Intn(4)
		for j := 0; j < k; j++ {
			if r.Bool(1, 4) {
				g := genWidth(r)
				if g.Kind == "xf" { // fractional pixel widths are exercised on columns only
					g = wWidth{"x", g.roundedPx(), 1}
				}
				it := wItem{Group: &g}
				for m := 0; m < 1+r.Intn(3); m++ {
					it.Cols = append(it.Cols, genCol(r))
				}
				d.Items = append(d.Items, it)
				continue
			}
			c := genCol(r)
			d.Items = append(d.Items, wItem{Col: &c})
		}
		docs = append(docs, d)
	}
	return docs
}

// ---- the check -----------------------------------------------------------------------------------------------------------

// integer percentages of the section's direct children when all are plain percentages / automatic; ok=false otherwise
func (d *wDoc) topPercentSum() (sum float64, ok bool) {
	k := len(d.Items)
	for _, it := range d.Items {
		w := it.Group
		if it.Col != nil {
			w = &it.Col.W
		}
		switch w.Kind {
		case "a":
			sum += 100.0 / float64(k)
		case "p":
			sum += float64(w.Num) / float64(w.Den)
		default:
			return 0, false
		}
	}
	return sum, true
}

func checkWidthDoc(res *Result, drv *DriverPool, d *wDoc, html string, sample bool) {
	src := d.mjml()
	line, err := drv.Ask("tags " + hexOf(html))
	if err != nil {
		res.Disagree(Violation{Sig: "driver-failed", What: err.Error()})
		return
	}
	real := scrapeWidths(parseTagsLine(line), d)
	req := d.enc()
	modelR, _ := drv.Ask(req)
	specR, _ := drv.Ask(strings.Replace(req, "width ", "widthspec ", 1))
	in := map[string]interface{}{"source": src, "request": req, "doc": d}
	if modelR == "bad-request" || specR == "bad-request" {
		res.Disagree(Violation{Sig: "model-rejects-request", Kind: "input", What: "the Lean driver rejects the width request", Input: in})
		return
	}
	model, spec := d.expected(modelR), d.expected(specR)
	nontrivial := len(d.Items) >= 2 || !d.Sec.plain() || d.Wrapper != nil || d.Hero
	for _, it := range d.Items {
		if it.Group != nil || (it.Col != nil && !it.Col.E.plain()) {
			nontrivial = true
		}
	}
	res.Case(src, nontrivial)
	res.mu.Lock()
	res.Programs++
	res.DisagreementsChecked++
	res.mu.Unlock()
	if sample {
		res.Sample(map[string]interface{}{"source": short(src, 300), "scraped": real, "model": modelR, "spec": specR})
	}

	// (1) correspondence: every scraped width equals the Model's, exactly; every width the Model predicts is found
	keys := make([]string, 0, len(model))
	for k := range model {
		if k != "B" {
			keys = append(keys, k)
		}
	}
	sort.Strings(keys)
	var badModel []string
	for _, k := range keys {
		got, ok := real[k]
		if !ok || got == "" {
			badModel = append(badModel, fmt.Sprintf("%s not found in the output (Model %s)", k, model[k]))
			continue
		}
		if got != model[k] {
			badModel = append(badModel, fmt.Sprintf("%s is %spx, Model %s", k, got, model[k]))
		}
	}
	res.Count(fmt.Sprintf("observed-widths=%d", len(keys)))
	if len(badModel) > 0 {
		res.Disagree(Violation{Sig: "width-model-mismatch|" + digest(src), Kind: "input", What: "implementation vs Model: " + strings.Join(badModel, "; "), Input: in})
	}

	// (2) the property on the real output, judged by the Spec (exact rationals): whole-pixel agreement wherever the Spec
	//     leaves something to fill, nesting, and the sibling sum
	var badSpec []string
	// dividers with a percentage width: the percentage is cut to a whole pixel — one more rounding step on the way
	pctLeaf := map[string]bool{}
	for i, l := range d.Leaves {
		pctLeaf[fmt.Sprintf("leaf:h%d", i)] = l.Kind == "dividerp"
	}
	for i, it := range d.Items {
		if it.Col != nil {
			pctLeaf[fmt.Sprintf("leaf:%d", i)] = it.Col.Leaf.Kind == "dividerp"
		}
		if it.Group != nil {
			for j, c := range it.Cols {
				pctLeaf[fmt.Sprintf("leaf:%d_%d", i, j)] = c.Leaf.Kind == "dividerp"
			}
		}
	}
	tol := func(k string) float64 {
		extra := 0.0
		if pctLeaf[k] {
			extra = 1
		}
		switch {
		case k == "W" || k == "S":
			return 0.001
		case strings.HasPrefix(k, "gcol:") || (strings.HasPrefix(k, "leaf:") && strings.Contains(k, "_")):
			return 2 + extra // two roundings on the way (group, then column)
		case strings.HasPrefix(k, "leaf:h"):
			if extra > 0 {
				return 1
			}
		}
		return 1 + extra
	}
	degenerate := false
	for _, k := range keys {
		sv, ok := ratVal(spec[k])
		if !ok {
			continue
		}
		if sv < 1 {
			degenerate = true // nothing left to fill: the code falls back to the container, MJML prints a non-positive width
			continue
		}
		got, err := strconv.ParseFloat(real[k], 64)
		if err != nil {
			continue
		}
		if diff := got - sv; diff >= tol(k) || diff <= -tol(k) {
			badSpec = append(badSpec, fmt.Sprintf("%s is %spx, box model %.2f", k, real[k], sv))
		}
	}
	if degenerate {
		res.Count("degenerate-box(no space left)")
	}
	if !d.Hero && !degenerate {
		if b, ok := ratVal(spec["B"]); ok && b >= 1 {
			if ps, ok := d.topPercentSum(); ok && ps <= 100.0000001 {
				sum := 0.0
				for i, it := range d.Items {
					key := fmt.Sprintf("col:%d", i)
					if it.Group != nil {
						key = fmt.Sprintf("grp:%d", i)
					}
					g, _ := strconv.ParseFloat(real[key], 64)
					sum += g
				}
				if sum > b {
					if len(badModel) == 0 && sum <= b+float64(len(d.Items))/2 {
						// exactly what the Model predicts (theorem C10_sibling_sum_partial): whole-pixel rounding only
						res.Count("sibling-sum-exceeds-by-rounding")
						res.Violate(Violation{Sig: "model-predicted|rounded-sibling-sum", Kind: "input",
							What: fmt.Sprintf("sibling Outlook widths sum to %.0fpx in a %.0fpx content box (each rounded to a whole pixel)", sum, b), Input: in})
					} else {
						badSpec = append(badSpec, fmt.Sprintf("sibling Outlook widths sum to %.0fpx in a %.0fpx content box", sum, b))
					}
				}
			}
		}
	}
	if len(badSpec) == 0 {
		res.Count("spec=holds")
		return
	}
	res.Count("spec=fails")
	res.Violate(Violation{Sig: "width-differs|" + digest(src), Kind: "input", What: strings.Join(badSpec, "; "), Input: in})
}

func runC10(res *Result, tier string, seed int64, replay string) {
	res.Rule = "lengths: strings made of what a length may be written with (digits, points, signs, units in both cases, exponents, ASCII and Unicode white space, border shorthands) through strings.Fields / styles.ParseHorizontalSpacing / ParsePixel / ParseBorderWidth vs the Lean Model Core/Lengths (driver `len`; plain decimals are inside the number grammar, anything else only must not crash); width documents: body width {600,500,480,640,700} × optional wrapper (boxed or full-width) × (section with 1–4 children: columns or groups of 1–3 columns; automatic / integer and fractional percentages / pixel widths | hero with images and dividers), every box with padding written in every form (absent, 1/2/3/4-value shorthand, per-side attributes alone and overriding a shorthand) and the lengths spelt in every way that means the same (20px, 20, 20.0px; values separated by a tab or two blanks, blanks around) and borders (all sides, border-left override); images and dividers without explicit width, dividers with a whole or fractional percentage width, with their own paddings (images also with their own border), images with an explicit width below and above what the column leaves (written on the element, in an mj-class, as the mj-image default), carousels; the column's padding / border written on the element, in an mj-class or as the mj-column default; first one feature at a time from a plain base (exhaustive list), then seeded combinations. Widths are scraped from the real output with the Lean lexer (wrapper / section max-width, Outlook td width per column and group, Outlook cells of columns inside groups, img width, divider Outlook table width) and compared (1) with the Model `Widths.impl` (driver `width`) exactly — the correspondence — and (2) with the Spec `Widths.spec` (driver `widthspec`, exact rationals): |Δ| < 1 px per rounding step, plus the sibling-sum clause. Non-trivial = padding/border/wrapper/hero/group somewhere or ≥2 columns; distinct by source"
	drv, err := startDriverPool(8)
	if err != nil {
		res.Disagree(Violation{Sig: "driver-missing", What: err.Error()})
		return
	}
	defer drv.Close()
	if replay == "" {
		runC10Lengths(res, drv, tier, seed)
	}
	if replay != "" {
		in := replayRaw(replay)
		var d wDoc
		b, _ := json.Marshal(in["doc"])
		if json.Unmarshal(b, &d) != nil || d.Body == 0 {
			res.Note("replay: no document in %s", replay)
			return
		}
		h, _ := renderPlain(d.mjml())
		checkWidthDoc(res, drv, &d, h, true)
		return
	}
	docs := widthDocs(tier, seed)
	type out struct {
		d    *wDoc
		html string
	}
	var outs []out
	for _, d := range docs {
		h, err := renderPlain(d.mjml())
		if err != nil || h == "" {
			res.Disagree(Violation{Sig: "render-failed|" + digest(d.mjml()), Kind: "input", What: fmt.Sprintf("render failed: %v", err), Input: map[string]interface{}{"source": d.mjml(), "doc": d}})
			continue
		}
		outs = append(outs, out{d, h})
	}
	parallel(8, len(outs), func(i int) { checkWidthDoc(res, drv, outs[i].d, outs[i].html, i%150 == 0) })
}

func init() { register("C10", runC10) }
