namespace Gomjml.Api
/-! Model of the public entry points (`mjml/render.go`) as a machine over what one call can leave behind for the next: the
    component trees a caller keeps.  C06(b) / C08.

    `attrs d` = the attribute store built from document `d`'s own head.  Since 72a1ca4 every compilation carries its store in its
    render options: a component tree resolves mj-class when it is built and reads tag / mj-all defaults when it is rendered —
    both from the store it was built with (`html d gBuild gRender` with `gRender = gBuild`).  Before, both came from a
    process-wide variable, and a tree rendered after another compilation read that compilation's defaults. -/

abbrev Doc := Nat
abbrev G := Nat
abbrev Html := Nat
abbrev Err := Nat

structure World where
  parse : Doc → Except Err Unit          -- does the document parse (the AST is identified with the document)
  attrs : Doc → G
  html : Doc → G → G → List G → Html     -- document, store at build time, store at render time, and the stores that were
                                         --   in force at the earlier renderings of THIS tree (components memoise resolved
                                         --   values and accumulate state from one Render to the next)
  validation : Doc → Option Err          -- invalid-attribute error reported while building the tree
  renderErr : Doc → Option Err           -- the document parses but rendering its body fails (mj-carousel without images, …)
  reorder : Html → Html                  -- normalizeGroupColumnClassOrder

structure St where
  trees : List (Doc × G × List G)        -- component trees created by NewFromAST: (document, store at build, stores at earlier renders)

inductive Call
  | render (d : Doc)                     -- Render
  | renderWithAST (d : Doc)              -- RenderWithAST
  | renderFromAST (d : Doc)              -- RenderFromAST (ParseMJML d)
  | newFromAST (d : Doc)                 -- NewFromAST (ParseMJML d): appends a tree
  | renderTree (k : Nat)                 -- RenderComponentString (k-th tree)
deriving Repr

/-- the three result shapes of C06(b): HTML and no error; HTML with a validation error; no HTML and an ordinary error -/
inductive Res
  | ok (h : Html)
  | okValidation (h : Html) (e : Err)
  | fail (e : Err)
  | noSuchTree
deriving Repr, DecidableEq

def finish (w : World) (d : Doc) (h : Html) : Res :=
  match w.renderErr d with
  | some e => .fail e
  | none =>
    match w.validation d with
    | none => .ok h
    | some e => .okValidation h e

def step (w : World) (s : St) : Call → St × Res
  | .render d =>
    match w.parse d with
    | .error e => (s, .fail e)
    | .ok _ => (s, finish w d (w.reorder (w.html d (w.attrs d) (w.attrs d) [])))
  | .renderWithAST d =>
    match w.parse d with
    | .error e => (s, .fail e)
    | .ok _ => (s, finish w d (w.html d (w.attrs d) (w.attrs d) []))
  | .renderFromAST d =>
    match w.parse d with
    | .error e => (s, .fail e)
    | .ok _ => (s, finish w d (w.html d (w.attrs d) (w.attrs d) []))
  | .newFromAST d =>
    match w.parse d with
    | .error e => (s, .fail e)
    | .ok _ => ({ trees := s.trees ++ [(d, w.attrs d, [])] }, .ok 0)
  | .renderTree k =>
    match s.trees[k]? with
    | none => (s, .noSuchTree)
    | some (d, gb, seen) =>                                    -- reads the store the tree was built with
      match w.renderErr d with
      | some e => (s, .fail e)
      | none => ({ s with trees := s.trees.set k (d, gb, seen ++ [gb]) }, .ok (w.html d gb gb seen))

def run (w : World) (s : St) : List Call → St × List Res
  | [] => (s, [])
  | c :: r => let (s1, o) := step w s c; let (s2, os) := run w s1 r; (s2, o :: os)

def init : St := ⟨[]⟩

/-- what the call returns when it is the first thing a fresh process does -/
def fresh (w : World) (c : Call) : Res := (step w init c).2

/-- the one-shot entry points and RenderFromAST do not look at the state at all -/
theorem step_state_independent (w : World) (s s' : St) (c : Call) (h : ∀ k, c ≠ .renderTree k) :
    (step w s c).2 = (step w s' c).2 := by
  cases c with
  | render d => simp only [step]; cases w.parse d <;> rfl
  | renderWithAST d => simp only [step]; cases w.parse d <;> rfl
  | renderFromAST d => simp only [step]; cases w.parse d <;> rfl
  | newFromAST d => simp only [step]; cases w.parse d <;> rfl
  | renderTree k => exact absurd rfl (h k)

/-- **C08 (history independence)** for Render / RenderWithAST / RenderFromAST / NewFromAST after any history -/
theorem history_independent (w : World) (hist : List Call) (c : Call) (h : ∀ k, c ≠ .renderTree k) :
    (step w (run w init hist).1 c).2 = fresh w c := step_state_independent w _ _ c h

/-- **C08 (paths agree)**: the one-shot call is the class-order rewrite of rendering from a pre-parsed tree, and
    RenderWithAST is exactly rendering from a pre-parsed tree -/
theorem paths_agree (w : World) (s s' : St) (d : Doc) (hv : w.validation d = none) (hp : w.parse d = .ok ()) :
    (step w s (.render d)).2 = (match (step w s' (.renderFromAST d)).2 with | .ok h => .ok (w.reorder h) | r => r) ∧
    (step w s (.renderWithAST d)).2 = (step w s' (.renderFromAST d)).2 := by
  cases hr : w.renderErr d <;> simp [step, hp, finish, hv, hr]

/-- the step-by-step path, taken without anything in between, yields the same HTML as RenderFromAST -/
theorem new_then_render (w : World) (s : St) (d : Doc) (hp : w.parse d = .ok ()) (hr : w.renderErr d = none) :
    let s1 := (step w s (.newFromAST d)).1
    (step w s1 (.renderTree s.trees.length)).2 = .ok (w.html d (w.attrs d) (w.attrs d) []) := by
  simp [step, hp, hr]

/-- a tree is rendered with the store it was built with, whatever was compiled in between -/
theorem tree_own_store (w : World) (s : St) (k : Nat) (d : Doc) (gb : G) (seen : List G) (hk : s.trees[k]? = some (d, gb, seen))
    (hr : w.renderErr d = none) :
    (step w s (.renderTree k)).2 = .ok (w.html d gb gb seen) := by
  simp [step, hk, hr]

/-- no call touches a tree other than the one it renders: the record of tree `k` survives every other call -/
theorem tree_untouched (w : World) (s : St) (c : Call) (k : Nat) (hk : k < s.trees.length) (hc : c ≠ .renderTree k) :
    (step w s c).1.trees[k]? = s.trees[k]? := by
  cases c with
  | render d => simp only [step]; cases w.parse d <;> rfl
  | renderWithAST d => simp only [step]; cases w.parse d <;> rfl
  | renderFromAST d => simp only [step]; cases w.parse d <;> rfl
  | newFromAST d =>
    simp only [step]
    cases w.parse d with
    | error e => rfl
    | ok _ => simp [List.getElem?_append_left hk]
  | renderTree j =>
    have hjk : j ≠ k := fun h => hc (by rw [h])
    simp only [step]
    cases hj : s.trees[j]? with
    | none => rfl
    | some t =>
      obtain ⟨d, gb, seen⟩ := t
      simp only []
      cases w.renderErr d with
      | some e => rfl
      | none => simp [List.getElem?_set_ne hjk]

/-- what rendering tree `k` returns depends on that tree's record only -/
theorem tree_result_congr (w : World) (s s' : St) (k : Nat) (h : s'.trees[k]? = s.trees[k]?) :
    (step w s' (.renderTree k)).2 = (step w s (.renderTree k)).2 := by
  simp only [step, h]
  cases s.trees[k]? with
  | none => rfl
  | some t =>
    obtain ⟨d, gb, seen⟩ := t
    simp only []
    cases w.renderErr d <;> rfl

/-- **C08 for kept trees**: what rendering tree `k` returns is the same before and after ANY history of other calls -/
theorem tree_history_independent (w : World) : ∀ (hist : List Call) (s : St) (k : Nat), k < s.trees.length →
    (∀ c ∈ hist, c ≠ .renderTree k) →
    (step w (run w s hist).1 (.renderTree k)).2 = (step w s (.renderTree k)).2
  | [], s, k, _, _ => rfl
  | c :: r, s, k, hk, hc => by
    have h1 := tree_untouched w s c k hk (hc c (by simp))
    have hlen : k < (step w s c).1.trees.length := by
      have : (step w s c).1.trees[k]? ≠ none := by rw [h1]; simp [hk]
      exact (List.getElem?_eq_some_iff.mp (Option.ne_none_iff_exists'.mp this).choose_spec).1
    have ih := tree_history_independent w r (step w s c).1 k hlen (fun x hx => hc x (by simp [hx]))
    have hrun : (run w s (c :: r)).1 = (run w (step w s c).1 r).1 := by simp [run]
    rw [hrun, ih]
    exact tree_result_congr w s (step w s c).1 k h1

/-- **C06(b) trichotomy**: every call returns exactly one of the three result shapes, and a validation error never
    changes the HTML -/
theorem result_shapes (w : World) (s : St) (c : Call) (h : ∀ k, c ≠ .renderTree k) :
    (∃ html, (step w s c).2 = .ok html) ∨ (∃ html e, (step w s c).2 = .okValidation html e) ∨ (∃ e, (step w s c).2 = .fail e) := by
  cases c with
  | render d => simp only [step, finish]; cases w.parse d <;> cases w.renderErr d <;> cases w.validation d <;> simp
  | renderWithAST d => simp only [step, finish]; cases w.parse d <;> cases w.renderErr d <;> cases w.validation d <;> simp
  | renderFromAST d => simp only [step, finish]; cases w.parse d <;> cases w.renderErr d <;> cases w.validation d <;> simp
  | newFromAST d => simp only [step]; cases w.parse d <;> simp
  | renderTree k => exact absurd rfl (h k)

theorem validation_keeps_html (w w' : World) (s : St) (d : Doc) (hp : w.parse d = .ok ())
    (hsame : w'.parse = w.parse ∧ w'.attrs = w.attrs ∧ w'.html = w.html ∧ w'.reorder = w.reorder ∧ w'.renderErr = w.renderErr) (e : Err)
    (hr : w.renderErr d = none) (hv : w.validation d = some e) (hv' : w'.validation d = none) :
    ∃ html, (step w s (.render d)).2 = .okValidation html e ∧ (step w' s (.render d)).2 = .ok html := by
  obtain ⟨h1, h2, h3, h4, h5⟩ := hsame
  simp [step, hp, finish, hv, hv', h1, h2, h3, h4, h5, hr]

end Gomjml.Api
