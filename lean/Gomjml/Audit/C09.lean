import Gomjml.Props.C09
#print axioms Gomjml.Props.C09.C09_full_is_winner
#print axioms Gomjml.Props.C09.C09_source_independent
#print axioms Gomjml.Props.C09.C09_noglobal_partial
#print axioms Gomjml.Props.C09.C09_raw_partial
#print axioms Gomjml.Props.C09.C09_sites
#print axioms Gomjml.Props.C09.C09_written_reads
#print axioms Gomjml.Props.C09.C09_no_read_past_resolvers
#print axioms Gomjml.Props.C09.C09_css_class
#print axioms Gomjml.Props.C09.C09_store_is_last_definition
#print axioms Gomjml.Props.C09.C09_class_level_is_the_merge
#print axioms Gomjml.Props.C09.C09_css_class_level_is_the_merge
