import Gomjml.Core.Cdata
import Gomjml.Core.Lines
import Gomjml.Core.TextFlow
/-! # What the XML layer delivers for the content of an mj-text (`wrapMJTextContent` followed by the CDATA decoding)

`Cdata.lean` proves the round trip for its own Model of the escaping (`Rr`); `Lines.lean` has the byte-exact Model of the
pass, written with `replaceAll`.  Here the two are identified and the round trip is stated for the pass itself: for every
content that does not start with a CDATA section of the author's, the XML layer hands the renderer exactly the author's
bytes (void tags normalised) — nothing decoded, nothing lost, whatever the content contains, `]]>` included. -/
namespace Gomjml.Passes
open Gomjml.Amp

theorem pre3_isPrefix (s : List B) : cdEnd.isPrefixOf s = pre3 s := by
  match s with
  | [] => rfl
  | [a] => simp [pre3, cdEnd, List.isPrefixOf]
  | [a, b] => simp [pre3, cdEnd, List.isPrefixOf]
  | a :: b :: c :: r =>
    simp only [pre3, cdEnd, List.isPrefixOf, Bool.and_true]
    rw [show ((93 : B) == a) = (a == 93) from by rw [Bool.beq_comm], show ((93 : B) == b) = (b == 93) from by rw [Bool.beq_comm],
      show ((62 : B) == c) = (c == 62) from by rw [Bool.beq_comm]]
    simp [Bool.and_assoc]

/-- the two Models of `strings.ReplaceAll(s, "]]>", "]]]]><![CDATA[>")` are one function -/
theorem Rr_eq_replaceAll : ∀ (n : Nat) (s : List B), s.length ≤ n → Rr s = replaceAll cdEnd cdEndSafe s := by
  intro n
  induction n with
  | zero =>
    intro s hs
    have : s = [] := by cases s <;> simp_all
    subst this
    rw [Rr_nil, replaceAll]; simp [cdEnd]
  | succ n ih =>
    intro s hs
    cases s with
    | nil => rw [Rr_nil, replaceAll]; simp [cdEnd]
    | cons b t =>
      rw [Rr_cons, replaceAll]
      have hne : ¬ (cdEnd = []) := by simp [cdEnd]
      simp only [hne, dite_false, pre3_isPrefix]
      by_cases hp : pre3 (b :: t) = true
      · simp only [hp, if_true]
        have hl : cdEnd.length = 3 := rfl
        rw [hl, show (b :: t).drop 3 = t.drop 2 from rfl]
        rw [ih (t.drop 2) (by simp at hs ⊢; omega)]
      · have hp' : pre3 (b :: t) = false := Bool.eq_false_iff.mpr hp
        simp only [hp', Bool.false_eq_true, if_false]
        rw [ih t (by simp at hs; omega)]

end Gomjml.Passes

namespace Gomjml.Lines
open Gomjml.Amp Gomjml.Passes

/-- **mj-text content is delivered as written**: for content that does not begin with a CDATA section, what the XML layer
    decodes from what the pass wrote is the content itself (void tags normalised) -/
theorem wrapInner_delivered (inner : List B) (h : cdStart.isPrefixOf (inner.dropWhile isWs) = false) :
    cdataDecode (wrapInner inner) = some (voidNorm inner) := by
  unfold wrapInner
  simp only [h, Bool.false_eq_true, if_false]
  rw [← Rr_eq_replaceAll (voidNorm inner).length (voidNorm inner) (Nat.le_refl _)]
  exact cdata_roundtrip (voidNorm inner)

end Gomjml.Lines

/-! ### content that begins with a CDATA section of the author's (`wrapOutsideCDATA`) -/

namespace Gomjml.Passes
open Gomjml.Amp

/-- the continuation behind a closed section: end of text, or another section -/
def contOk (rest : List B) : Prop := rest = [] ∨ pre9 rest = true

def cont (s rest : List B) : Option (List B) :=
  if rest = [] then some s else (decodeBody (rest.drop 9)).map (s ++ ·)

theorem decode_end (rest : List B) (h : contOk rest) : decodeBody (93 :: 93 :: 62 :: rest) = cont [] rest := by
  rw [decodeBody_cons]
  simp only [pre3, show ((93 : B) == 93 && (93 : B) == 93 && (62 : B) == 62) = true by decide, if_true, List.drop_succ_cons, List.drop_zero]
  unfold cont
  rcases h with h | h
  · subst h; simp
  · have hne : rest ≠ [] := by intro e; subst e; simp [pre9] at h
    have hne' : rest.isEmpty = false := by cases rest <;> simp_all
    simp [hne, hne', h]

theorem take2_append_left (x rest : List B) (h : 2 ≤ x.length) : (x ++ rest).take 2 = x.take 2 := by
  match x, h with
  | a :: b :: t, _ => simp

theorem noprefix_preserved_cont (b : B) (t rest : List B) (h : pre3 (b :: t) = false) :
    pre3 (b :: (Rr t ++ cdEnd ++ rest)) = false := by
  rw [pre3_take2 b (Rr t ++ cdEnd ++ rest) (Rr t ++ cdEnd) (take2_append_left _ rest (by simp [cdEnd]))]
  exact noprefix_preserved b t h

theorem cont_cons (b : B) (s rest : List B) : (cont s rest).map (b :: ·) = cont (b :: s) rest := by
  unfold cont
  split
  · rfl
  · cases decodeBody (rest.drop 9) <;> simp

/-- **CDATA round trip with a continuation** -/
theorem decodeBody_Rr_cont : ∀ (n : Nat) (s rest : List B), s.length ≤ n → contOk rest →
    decodeBody (Rr s ++ cdEnd ++ rest) = cont s rest := by
  intro n
  induction n with
  | zero =>
    intro s rest hs hr
    have : s = [] := by cases s <;> simp_all
    subst this
    rw [Rr_nil]
    simp only [List.nil_append, cdEnd, List.cons_append]
    exact decode_end rest hr
  | succ n ih =>
    intro s rest hs hr
    cases s with
    | nil =>
      rw [Rr_nil]
      simp only [List.nil_append, cdEnd, List.cons_append]
      exact decode_end rest hr
    | cons b t =>
      rw [Rr_cons]
      by_cases hp : pre3 (b :: t) = true
      · obtain ⟨s', hs'⟩ := pre3_shape _ hp
        simp only [List.cons.injEq] at hs'
        obtain ⟨hb, ht⟩ := hs'
        subst hb; subst ht
        simp only [hp, if_true, List.drop_succ_cons, List.drop_zero]
        have hlen : ((62 : B) :: s').length ≤ n := by simp at hs ⊢; omega
        have ih' := ih ((62 : B) :: s') rest hlen hr
        rw [Rr_cons] at ih'
        have hgt : pre3 ((62 : B) :: s') = false := by
          match s' with
          | [] => rfl
          | [_] => rfl
          | _ :: _ :: _ => simp [pre3]
        simp only [hgt, Bool.false_eq_true, if_false, List.cons_append] at ih'
        simp only [cdEndSafe, cdStart, List.cons_append, List.nil_append, List.append_assoc]
        rw [decodeBody_cons]
        simp only [pre3, show ((93 : B) == 93 && (93 : B) == 93 && (93 : B) == 62) = false by decide, Bool.false_eq_true, if_false]
        rw [decodeBody_cons]
        simp only [pre3, show ((93 : B) == 93 && (93 : B) == 93 && (93 : B) == 62) = false by decide, Bool.false_eq_true, if_false]
        rw [decodeBody_cons]
        simp only [pre3, show ((93 : B) == 93 && (93 : B) == 93 && (62 : B) == 62) = true by decide, if_true,
          List.drop_succ_cons, List.drop_zero, List.isEmpty_cons, Bool.false_eq_true, if_false, pre9]
        simp only [show ((60 : B) == 60 && (33 : B) == 33 && (91 : B) == 91 && (67 : B) == 67 && (68 : B) == 68 && (65 : B) == 65 &&
          (84 : B) == 84 && (65 : B) == 65 && (91 : B) == 91) = true by decide, if_true]
        simp only [List.append_assoc] at ih'
        rw [ih']
        rw [cont_cons, cont_cons]
      · have hp' : pre3 (b :: t) = false := Bool.eq_false_iff.mpr hp
        simp only [hp', Bool.false_eq_true, if_false, List.cons_append]
        rw [decodeBody_cons]
        simp only [noprefix_preserved_cont b t rest hp', Bool.false_eq_true, if_false]
        rw [ih t rest (by simp at hs; omega) hr]
        exact cont_cons b t rest

end Gomjml.Passes

namespace Gomjml.Lines
open Gomjml.Amp Gomjml.Passes

theorem indexSub_cdStart (w : List B) : indexSub cdEnd (cdStart ++ w) = (indexSub cdEnd w).map (· + 9) := by
  simp only [cdStart, List.cons_append, List.nil_append]
  simp only [indexSub, cdEnd, List.isPrefixOf]
  simp only [show ((93 : B) == 60) = false by decide, show ((93 : B) == 33) = false by decide, show ((93 : B) == 91) = false by decide,
    show ((93 : B) == 67) = false by decide, show ((93 : B) == 68) = false by decide, show ((93 : B) == 65) = false by decide,
    show ((93 : B) == 84) = false by decide, Bool.false_and, Bool.false_eq_true, if_false, Option.map_map]
  cases indexSub [93, 93, 62] w <;> simp

theorem indexSub_len (pat : List B) (hp : pat ≠ []) : ∀ (w : List B) (e : Nat), indexSub pat w = some e → e + pat.length ≤ w.length
  | [], e, h => by simp [indexSub, hp] at h
  | b :: r, e, h => by
    rw [indexSub] at h
    split at h
    · rename_i hpre
      simp only [Option.some.injEq] at h
      subst h
      have := (List.isPrefixOf_iff_prefix.mp hpre).length_le
      omega
    · cases h1 : indexSub pat r with
      | none => simp [h1] at h
      | some e1 =>
        simp only [h1, Option.map_some, Option.some.injEq] at h
        subst h
        have := indexSub_len pat hp r e1 h1
        simp only [List.length_cons]; omega

/-- one section of the author's: from behind its opener up to and including the first `]]>` -/
theorem decode_section : ∀ (w : List B) (e : Nat) (rest : List B), indexSub cdEnd w = some e → contOk rest →
    decodeBody (w.take (e + 3) ++ rest) = cont (w.take e) rest
  | [], e, rest, h, _ => by simp [indexSub, cdEnd] at h
  | b :: r, e, rest, h, hr => by
    rw [indexSub] at h
    split at h
    · rename_i hpre
      simp only [Option.some.injEq] at h
      subst h
      have hsplit := prefix_split cdEnd (b :: r) hpre
      have ht : (b :: r).take 3 = cdEnd := by
        rw [← hsplit]; simp [cdEnd]
      simp only [Nat.zero_add, ht, List.take_zero]
      exact decode_end rest hr
    · rename_i hnp
      cases h1 : indexSub cdEnd r with
      | none => simp [h1] at h
      | some e1 =>
        simp only [h1, Option.map_some, Option.some.injEq] at h
        subst h
        have hlen := indexSub_len cdEnd (by simp [cdEnd]) r e1 h1
        have hl3 : cdEnd.length = 3 := rfl
        rw [show e1 + 1 + 3 = (e1 + 3) + 1 from by omega, List.take_succ_cons, List.take_succ_cons, List.cons_append, decodeBody_cons]
        have hp3 : pre3 (b :: (r.take (e1 + 3) ++ rest)) = false := by
          rw [pre3_take2 b (r.take (e1 + 3) ++ rest) r]
          · rw [← pre3_isPrefix]; exact Bool.eq_false_iff.mpr hnp
          · rw [take2_append_left _ rest (by simp; omega), List.take_take]
            rw [show min 2 (e1 + 3) = 2 from by omega]
        simp only [hp3, Bool.false_eq_true, if_false]
        rw [decode_section r e1 rest h1 hr]
        exact cont_cons b _ rest

end Gomjml.Lines

namespace Gomjml.Lines
open Gomjml.Amp Gomjml.Passes

/-- what the XML layer delivers for a run of adjacent CDATA sections (nothing else may stand between them) -/
def dec (x : List B) : Option (List B) :=
  if x = [] then some [] else if pre9 x then decodeBody (x.drop 9) else none

theorem cont_dec (s rest : List B) (h : contOk rest) : cont s rest = (dec rest).map (s ++ ·) := by
  unfold cont dec
  rcases h with h | h
  · subst h; simp
  · have hne : rest ≠ [] := by intro e; subst e; simp [pre9] at h
    simp [hne, h]

theorem pre9_cdStart (x : List B) : pre9 (cdStart ++ x) = true := by simp [cdStart, pre9]

theorem dec_piece (x rest : List B) (h : contOk rest) : dec (wrapPiece x ++ rest) = (dec rest).map (x ++ ·) := by
  unfold wrapPiece
  rw [← Rr_eq_replaceAll x.length x (Nat.le_refl _)]
  have hne : cdStart ++ Rr x ++ cdEnd ++ rest ≠ [] := by simp [cdStart]
  have hp : pre9 (cdStart ++ Rr x ++ cdEnd ++ rest) = true := by
    rw [List.append_assoc, List.append_assoc]; exact pre9_cdStart _
  have hd : (cdStart ++ Rr x ++ cdEnd ++ rest).drop 9 = Rr x ++ cdEnd ++ rest := by simp [cdStart]
  rw [dec, if_neg hne, if_pos hp, hd, decodeBody_Rr_cont x.length x rest (Nat.le_refl _) h, cont_dec x rest h]

theorem indexSub_prefix (pat : List B) : ∀ (w : List B) (i : Nat), indexSub pat w = some i → pat.isPrefixOf (w.drop i) = true
  | [], i, h => by
    rw [indexSub] at h
    split at h
    · rename_i hp; simp at h; subst h; subst hp; rfl
    · simp at h
  | b :: r, i, h => by
    rw [indexSub] at h
    split at h
    · rename_i hp; simp at h; subst h; simpa using hp
    · cases h1 : indexSub pat r with
      | none => simp [h1] at h
      | some i1 =>
        simp only [h1, Option.map_some, Option.some.injEq] at h
        subst h
        simpa using indexSub_prefix pat r i1 h1

/-- one section the author wrote, followed by more sections or the end -/
theorem dec_section (u : List B) (e : Nat) (rest : List B) (hu : cdStart.isPrefixOf u = true)
    (he : indexSub cdEnd u = some e) (hr : contOk rest) :
    dec (u.take (e + 3) ++ rest) = (dec rest).map (((u.take e).drop 9) ++ ·) := by
  have hsplit := prefix_split cdStart u hu
  have hl9 : cdStart.length = 9 := rfl
  rw [hl9] at hsplit
  rw [← hsplit] at he
  rw [indexSub_cdStart] at he
  cases h1 : indexSub cdEnd (u.drop 9) with
  | none => simp [h1] at he
  | some e' =>
    simp only [h1, Option.map_some, Option.some.injEq] at he
    subst he
    have htake : u.take (e' + 9 + 3) = cdStart ++ (u.drop 9).take (e' + 3) := by
      conv => lhs; rw [← hsplit]
      rw [List.take_append, hl9]
      rw [show e' + 9 + 3 - 9 = e' + 3 from by omega, List.take_of_length_le (by simp [cdStart])]
    have htake2 : (u.take (e' + 9)).drop 9 = (u.drop 9).take e' := by
      conv => lhs; rw [← hsplit]
      rw [List.take_append, hl9, show e' + 9 - 9 = e' from by omega, List.take_of_length_le (by simp [cdStart])]
      simp [cdStart]
    rw [htake, htake2]
    have hne : cdStart ++ (u.drop 9).take (e' + 3) ++ rest ≠ [] := by simp [cdStart]
    have hp : pre9 (cdStart ++ (u.drop 9).take (e' + 3) ++ rest) = true := by rw [List.append_assoc]; exact pre9_cdStart _
    have hd : (cdStart ++ (u.drop 9).take (e' + 3) ++ rest).drop 9 = (u.drop 9).take (e' + 3) ++ rest := by simp [cdStart]
    rw [dec, if_neg hne, if_pos hp, hd, decode_section (u.drop 9) e' rest h1 hr, cont_dec _ rest hr]

/-- the author's text: his CDATA sections opened, everything else as written (`none`: a section is not terminated) -/
def authorText : Nat → List B → Option (List B)
  | 0, s => if s = [] then some [] else none
  | fuel + 1, s =>
    if s = [] then some [] else
    match indexSub cdStart s with
    | none => some s
    | some idx =>
      match indexSub cdEnd (s.drop idx) with
      | none => none
      | some e =>
        (authorText fuel ((s.drop idx).drop (e + 3))).map (fun r => s.take idx ++ (((s.drop idx).take e).drop 9 ++ r))

/-- **content behind a leading CDATA section is delivered as written** (the branch repaired in cb901ef): what the XML layer
    decodes from what `wrapOutsideCDATA` wrote is the author's text — his sections opened, every other byte as he wrote it -/
theorem wrapOutside_delivered : ∀ (fuel : Nat) (s t : List B), authorText fuel s = some t →
    contOk (wrapOutside fuel s) ∧ dec (wrapOutside fuel s) = some t
  | 0, s, t, h => by
    unfold authorText at h
    split at h
    · rename_i hs; subst hs
      simp only [Option.some.injEq] at h; subst h
      exact ⟨Or.inl rfl, by simp [wrapOutside, dec]⟩
    · simp at h
  | fuel + 1, s, t, h => by
    unfold authorText at h
    unfold wrapOutside
    split at h
    · rename_i hs; subst hs
      simp only [Option.some.injEq] at h; subst h
      exact ⟨Or.inl (by simp), by simp [dec]⟩
    · rename_i hs
      simp only [hs, if_false]
      split at h
      · -- no section at all
        simp only [Option.some.injEq] at h; subst h
        rename_i hnone
        simp only [hnone]
        refine ⟨Or.inr (by unfold wrapPiece; rw [List.append_assoc]; exact pre9_cdStart _), ?_⟩
        have := dec_piece s [] (Or.inl rfl)
        simpa [dec] using this
      · rename_i idx hidx
        simp only [hidx]
        have hu := indexSub_prefix cdStart s idx hidx
        split at h
        · simp at h
        · rename_i e he
          simp only [he]
          cases hr : authorText fuel ((s.drop idx).drop (e + 3)) with
          | none => rw [hr] at h; simp at h
          | some r' =>
            rw [hr] at h
            simp only [Option.map_some, Option.some.injEq] at h
            subst h
            obtain ⟨hc, hd⟩ := wrapOutside_delivered fuel _ r' hr
            have hsec := dec_section (s.drop idx) e _ hu he hc
            rw [hd] at hsec
            have hcsec : contOk ((s.drop idx).take (e + 3) ++ wrapOutside fuel ((s.drop idx).drop (e + 3))) := by
              refine Or.inr ?_
              have hsplit := prefix_split cdStart (s.drop idx) hu
              have hl9 : cdStart.length = 9 := rfl
              have he9 : 9 ≤ e + 3 := by
                have he' := he
                rw [← hsplit, indexSub_cdStart] at he'
                cases h1 : indexSub cdEnd ((s.drop idx).drop cdStart.length) with
                | none => rw [h1] at he'; simp at he'
                | some e' =>
                  rw [h1] at he'
                  simp only [Option.map_some, Option.some.injEq] at he'
                  omega
              rw [← hsplit, List.take_append, hl9, List.take_of_length_le (by simp [cdStart]; omega), List.append_assoc]
              exact pre9_cdStart _
            by_cases h0 : idx = 0
            · subst h0
              simp only [if_true, List.nil_append, List.take_zero]
              exact ⟨hcsec, by simpa using hsec⟩
            · simp only [h0, if_false]
              refine ⟨Or.inr (by unfold wrapPiece; rw [List.append_assoc, List.append_assoc]; exact pre9_cdStart _), ?_⟩
              rw [dec_piece _ _ hcsec, hsec]
              simp

end Gomjml.Lines

namespace Gomjml.Lines
open Gomjml.Amp Gomjml.Passes

/-- the pass itself, for content that begins with a CDATA section -/
theorem wrapInner_delivered_cdata (inner t : List B) (h : cdStart.isPrefixOf (inner.dropWhile isWs) = true)
    (ht : authorText ((voidNorm inner).length + 1) (voidNorm inner) = some t) : dec (wrapInner inner) = some t := by
  unfold wrapInner
  rw [if_pos h]
  exact (wrapOutside_delivered _ _ _ ht).2

/-- non-vacuity: `<![CDATA[a]]> &lt;` — the author's text is `a &lt;`, the escape as he wrote it -/
example : authorText 20 [60, 33, 91, 67, 68, 65, 84, 65, 91, 97, 93, 93, 62, 32, 38, 108, 116, 59] = some [97, 32, 38, 108, 116, 59] := by
  decide

end Gomjml.Lines

/-! ### from the source to the inner HTML of the rendered mj-text -/

namespace Gomjml.Lines
open Gomjml.Amp Gomjml.Passes Gomjml.TextFlow

theorem ink_append (a b : List B) : ink (a ++ b) = ink a ++ ink b := by simp [ink]

theorem ink_trimRightSp (s : List B) : ink (trimRightSp s) = ink s := by
  unfold trimRightSp
  induction hr : s.reverse generalizing s with
  | nil => simp [List.reverse_eq_nil_iff.mp hr, ink]
  | cons b r ih =>
    have hs : s = r.reverse ++ [b] := by
      have := congrArg List.reverse hr; simpa using this
    subst hs
    by_cases h : (b == 32) = true
    · have hb : b = 32 := by simpa using h
      subst hb
      simp only [List.dropWhile_cons, h, if_true]
      have := ih r.reverse (by simp)
      rw [this, ink_append]
      simp [ink, Gomjml.TextFlow.isWs]
    · simp [List.dropWhile_cons, h]

/-- the void-tag normalisation of the pre-pass moves blanks only: every other byte stays, in order -/
theorem voidNormF_ink (names : List (List B)) : ∀ (fuel : Nat) (s : List B), ink (voidNormF names fuel s) = ink s
  | 0, s => by simp [voidNormF]
  | fuel + 1, [] => by simp [voidNormF]
  | fuel + 1, b :: rest => by
    unfold voidNormF
    by_cases hb : (b == 60) = true
    · simp only [hb, if_true]
      split
      · rename_i pre after hv
        have hs := voidAt_split names rest pre after hv
        have hb' : b = 60 := by simpa using hb
        subst hb'
        simp only [ink_append, ink_trimRightSp, voidNormF_ink names fuel after]
        rw [hs]
        simp only [← List.cons_append, ink_append]
        simp [ink, Gomjml.TextFlow.isWs]
      · have : ∀ (x : B) (l : List B), ink (x :: l) = ink [x] ++ ink l := fun x l => by rw [← ink_append]; rfl
        rw [this, this b rest, voidNormF_ink names fuel rest]
    · have hb' : (b == 60) = false := by simpa using hb
      simp only [hb', Bool.false_eq_true, if_false]
      have : ∀ (x : B) (l : List B), ink (x :: l) = ink [x] ++ ink l := fun x l => by rw [← ink_append]; rfl
      rw [this, this b rest, voidNormF_ink names fuel rest]

theorem voidNorm_ink (s : List B) : ink (voidNorm s) = ink s := voidNormF_ink _ _ s

/-- **mj-text, end to end**: for content that does not begin with a CDATA section and has no no-break space, the inner HTML
    the component builds (`TextFlow.textInner` of what the XML layer delivered; the void-tag respelling behind it has its own
    theorem) keeps every byte of the author's content that is
    not white space, in order — through the pre-pass (void tags, `]]>` escaping), the CDATA decoding and the white-space
    collapsing -/
theorem text_end_to_end (inner : List B) (h : cdStart.isPrefixOf (inner.dropWhile Gomjml.Passes.isWs) = false)
    (hc : ∀ b ∈ inner, b ≠ 0xC2) :
    ∃ x, cdataDecode (wrapInner inner) = some x ∧ ink (textInner x) = ink inner := by
  refine ⟨voidNorm inner, wrapInner_delivered inner h, ?_⟩
  have hv : ∀ b ∈ voidNorm inner, b ≠ 0xC2 := by
    intro b hb hbc
    subst hbc
    have hw : Gomjml.TextFlow.isWs 0xC2 = false := by decide
    have hin : (0xC2 : B) ∈ ink (voidNorm inner) := by
      unfold ink; rw [List.mem_filter]; exact ⟨hb, by simp [hw]⟩
    rw [voidNorm_ink] at hin
    unfold ink at hin
    rw [List.mem_filter] at hin
    exact hc _ hin.1 rfl
  rw [textInner_ink (voidNorm inner) hv, voidNorm_ink]

end Gomjml.Lines
