import Gomjml.Core.Passes
/-! The parser's textual pre-passes as **edit scripts** (C17: "a line number on which that element's start tag actually
    stands in the input").

    `ParseMJML` rewrites the text three times before the XML decoder sees it (`stripNonMSOComments`,
    `preprocessHTMLEntities`, `wrapMJTextContent`) and looks line numbers up in the rewritten text.  Here every pass is a list
    of segments — bytes that are kept, and pieces that are replaced — whose sources concatenate to the pass's input and whose
    targets concatenate to its output.  A pass moves no line iff every replaced piece has as many line feeds as its
    replacement (`LineOk`); then every kept byte has the same number of line feeds in front of it before and after
    (`rel_lines`).

    `wrapMJTextContent` is modelled here byte for byte (`wrap`), including the void-tag normaliser's regular expression
    (`(?i)<(?:area|…|wbr)([^>]*?)/>`, Go's case folding of `k` and `s` included). -/
namespace Gomjml.Lines
open Gomjml.Amp Gomjml.Passes

/-- number of line feeds -/
def nl (s : List B) : Nat := s.count 10

@[simp] theorem nl_nil : nl [] = 0 := rfl
@[simp] theorem nl_append (a b : List B) : nl (a ++ b) = nl a + nl b := by simp [nl]
theorem nl_cons (x : B) (a : List B) : nl (x :: a) = nl a + (if x = 10 then 1 else 0) := by
  simp only [nl, List.count_cons]
  by_cases h : x = 10 <;> simp [h]

inductive Seg where
  | keep (bs : List B)
  | repl (old new : List B)

def Seg.src : Seg → List B
  | .keep bs => bs
  | .repl o _ => o
def Seg.dst : Seg → List B
  | .keep bs => bs
  | .repl _ n => n

def srcOf (l : List Seg) : List B := l.flatMap Seg.src
def dstOf (l : List Seg) : List B := l.flatMap Seg.dst

@[simp] theorem srcOf_nil : srcOf [] = [] := rfl
@[simp] theorem dstOf_nil : dstOf [] = [] := rfl
@[simp] theorem srcOf_cons (g : Seg) (l : List Seg) : srcOf (g :: l) = g.src ++ srcOf l := by simp [srcOf]
@[simp] theorem dstOf_cons (g : Seg) (l : List Seg) : dstOf (g :: l) = g.dst ++ dstOf l := by simp [dstOf]
@[simp] theorem srcOf_append (a b : List Seg) : srcOf (a ++ b) = srcOf a ++ srcOf b := by simp [srcOf]
@[simp] theorem dstOf_append (a b : List Seg) : dstOf (a ++ b) = dstOf a ++ dstOf b := by simp [dstOf]

/-- a segment moves no line -/
def Seg.ok (g : Seg) : Prop := nl g.src = nl g.dst
def LineOk (l : List Seg) : Prop := ∀ g ∈ l, g.ok

theorem Seg.keep_ok (bs : List B) : (Seg.keep bs).ok := rfl

theorem lineOk_nil : LineOk [] := fun _ h => by simp at h
theorem lineOk_cons {g : Seg} {l : List Seg} (hg : g.ok) (hl : LineOk l) : LineOk (g :: l) := by
  intro x hx
  rcases List.mem_cons.mp hx with rfl | h
  · exact hg
  · exact hl x h
theorem lineOk_tail {g : Seg} {l : List Seg} (h : LineOk (g :: l)) : LineOk l := fun x hx => h x (by simp [hx])
theorem lineOk_append_left {a b : List Seg} (h : LineOk (a ++ b)) : LineOk a := fun x hx => h x (by simp [hx])

theorem lines_total : ∀ (l : List Seg), LineOk l → nl (srcOf l) = nl (dstOf l)
  | [], _ => rfl
  | g :: l, h => by
    have hg : g.ok := h g (by simp)
    simp only [srcOf_cons, dstOf_cons, nl_append]
    rw [lines_total l (lineOk_tail h)]
    unfold Seg.ok at hg
    omega

/-- `Rel l i j`: offset `i` of the input and offset `j` of the output are **the same place** — the `m`-th byte (or the end)
    of one kept segment -/
def Rel (l : List Seg) (i j : Nat) : Prop :=
  ∃ (pre : List Seg) (bs : List B) (post : List Seg) (m : Nat), l = pre ++ Seg.keep bs :: post ∧ m ≤ bs.length ∧
    i = (srcOf pre).length + m ∧ j = (dstOf pre).length + m

/-- **a pass whose replaced pieces keep their line feeds moves no kept byte to another line** -/
theorem rel_lines (l : List Seg) (h : LineOk l) (i j : Nat) (r : Rel l i j) :
    nl ((srcOf l).take i) = nl ((dstOf l).take j) := by
  obtain ⟨pre, bs, post, m, rfl, hm, rfl, rfl⟩ := r
  have hpre : LineOk pre := lineOk_append_left h
  simp only [srcOf_append, dstOf_append, srcOf_cons, dstOf_cons, Seg.src, Seg.dst]
  rw [List.take_length_add_append, List.take_length_add_append, List.take_append_of_le_length hm,
    List.take_append_of_le_length hm]
  simp only [nl_append]
  rw [lines_total pre hpre]

/-- … and the byte at the two places is the same byte -/
theorem rel_byte (pre post : List Seg) (bs : List B) (m k : Nat) (hm : m + k < bs.length) :
    (srcOf (pre ++ Seg.keep bs :: post))[(srcOf pre).length + (m + k)]? =
      (dstOf (pre ++ Seg.keep bs :: post))[(dstOf pre).length + (m + k)]? := by
  simp only [srcOf_append, dstOf_append, srcOf_cons, dstOf_cons, Seg.src, Seg.dst]
  rw [List.getElem?_append_right (Nat.le_add_right _ _), List.getElem?_append_right (Nat.le_add_right _ _)]
  simp only [Nat.add_sub_cancel_left]
  rw [List.getElem?_append_left hm, List.getElem?_append_left hm]

/-! ### pass 2a: `escapeAttributeAmpersands` -/

def escSegs (E : Ent) : (inTag : Bool) → (quote : B) → (sk blk : Nat) → List B → List Seg
  | _, _, _, _, [] => []
  | inTag, q, sk + 1, blk, b :: rest => .keep [b] :: escSegs E inTag q sk blk rest
  | inTag, q, 0, blk + 1, b :: rest =>
    if (closer blk).isPrefixOf (b :: rest) then .keep [b] :: escSegs E inTag q 2 0 rest
    else .keep [b] :: escSegs E inTag q 0 (blk + 1) rest
  | inTag, q, 0, 0, b :: rest =>
    if q != 0 then
      if b == q then .keep [b] :: escSegs E inTag 0 0 0 rest
      else if b == amp then
        (if entityAhead E rest then Seg.keep [b] else Seg.repl [b] ampEsc) :: escSegs E inTag q 0 0 rest
      else .keep [b] :: escSegs E inTag q 0 0 rest
    else if b == lt && cmOpen.isPrefixOf rest then .keep [b] :: escSegs E inTag 0 3 1 rest
    else if b == lt && cdOpen.isPrefixOf rest then .keep [b] :: escSegs E inTag 0 8 2 rest
    else
      let inTag' := if b == lt then true else if b == gt then false else inTag
      let q' := if (b == dq || b == sq) && inTag then b else 0
      .keep [b] :: escSegs E inTag' q' 0 0 rest

theorem escSegs_src (E : Ent) : ∀ (s : List B) (t : Bool) (q : B) (sk blk : Nat), srcOf (escSegs E t q sk blk s) = s
  | [], _, _, sk, blk => by cases sk <;> cases blk <;> simp [escSegs]
  | b :: rest, t, q, sk + 1, blk => by simp [escSegs, Seg.src, escSegs_src E rest]
  | b :: rest, t, q, 0, blk + 1 => by
    rw [escSegs]; split <;> simp [Seg.src, escSegs_src E rest]
  | b :: rest, t, q, 0, 0 => by
    rw [escSegs]
    by_cases hq : (q != 0) = true
    · simp only [hq, if_true]
      by_cases h1 : (b == q) = true
      · simp [h1, Seg.src, escSegs_src E rest]
      · by_cases h2 : (b == amp) = true
        · by_cases h3 : entityAhead E rest = true <;> simp [h1, h2, h3, Seg.src, escSegs_src E rest]
        · simp [h1, h2, Seg.src, escSegs_src E rest]
    · simp only [hq, Bool.false_eq_true, if_false]
      split
      · simp [Seg.src, escSegs_src E rest]
      · split <;> simp [Seg.src, escSegs_src E rest]

theorem escSegs_dst (E : Ent) : ∀ (s : List B) (t : Bool) (q : B) (sk blk : Nat), dstOf (escSegs E t q sk blk s) = esc E t q sk blk s
  | [], _, _, sk, blk => by cases sk <;> cases blk <;> simp [escSegs, esc]
  | b :: rest, t, q, sk + 1, blk => by simp [escSegs, esc, Seg.dst, escSegs_dst E rest]
  | b :: rest, t, q, 0, blk + 1 => by
    rw [escSegs, esc]; split <;> simp [Seg.dst, escSegs_dst E rest]
  | b :: rest, t, q, 0, 0 => by
    rw [escSegs, esc]
    by_cases hq : (q != 0) = true
    · simp only [hq, if_true]
      by_cases h1 : (b == q) = true
      · simp [h1, Seg.dst, escSegs_dst E rest]
      · by_cases h2 : (b == amp) = true
        · by_cases h3 : entityAhead E rest = true <;> simp [h1, h2, h3, Seg.dst, escSegs_dst E rest]
        · simp [h1, h2, Seg.dst, escSegs_dst E rest]
    · simp only [hq, Bool.false_eq_true, if_false]
      split
      · simp [Seg.dst, escSegs_dst E rest]
      · split <;> simp [Seg.dst, escSegs_dst E rest]

theorem escSegs_ok (E : Ent) : ∀ (s : List B) (t : Bool) (q : B) (sk blk : Nat), LineOk (escSegs E t q sk blk s)
  | [], _, _, sk, blk => by cases sk <;> cases blk <;> simp only [escSegs] <;> exact lineOk_nil
  | b :: rest, t, q, sk + 1, blk => by
    rw [escSegs]; exact lineOk_cons (Seg.keep_ok _) (escSegs_ok E rest _ _ _ _)
  | b :: rest, t, q, 0, blk + 1 => by
    rw [escSegs]; split <;> exact lineOk_cons (Seg.keep_ok _) (escSegs_ok E rest _ _ _ _)
  | b :: rest, t, q, 0, 0 => by
    rw [escSegs]
    by_cases hq : (q != 0) = true
    · simp only [hq, if_true]
      by_cases h1 : (b == q) = true
      · simp only [h1, if_true]; exact lineOk_cons (Seg.keep_ok _) (escSegs_ok E rest _ _ _ _)
      · by_cases h2 : (b == amp) = true
        · simp only [h1, h2, if_true]
          refine lineOk_cons ?_ (escSegs_ok E rest _ _ _ _)
          by_cases h3 : entityAhead E rest = true
          · simp only [h3, if_true]; exact Seg.keep_ok _
          · have h3' : entityAhead E rest = false := by simpa using h3
            simp only [h3', Bool.false_eq_true, if_false]
            have : b = amp := by simpa using h2
            subst this
            show nl [amp] = nl ampEsc
            decide
        · simp only [h1, h2]; exact lineOk_cons (Seg.keep_ok _) (escSegs_ok E rest _ _ _ _)
    · simp only [hq, Bool.false_eq_true, if_false]
      split
      · exact lineOk_cons (Seg.keep_ok _) (escSegs_ok E rest _ _ _ _)
      · split <;> exact lineOk_cons (Seg.keep_ok _) (escSegs_ok E rest _ _ _ _)

/-! ### pass 2b: every `strings.ReplaceAll` step -/

def replSegs (old new : List B) (s : List B) : List Seg :=
  if hold : old = [] then [.keep s] else
  match s with
  | [] => []
  | b :: rest =>
    if old.isPrefixOf (b :: rest) then .repl old new :: replSegs old new ((b :: rest).drop old.length)
    else .keep [b] :: replSegs old new rest
termination_by s.length
decreasing_by
  · have : 0 < old.length := by cases old <;> simp_all
    simp only [List.length_drop, List.length_cons]; omega
  · simp

theorem prefix_split (old s : List B) (h : old.isPrefixOf s = true) : old ++ s.drop old.length = s := by
  obtain ⟨t, rfl⟩ := List.isPrefixOf_iff_prefix.mp h
  simp

theorem replSegs_src (old new : List B) : ∀ (n : Nat) (s : List B), s.length ≤ n → srcOf (replSegs old new s) = s := by
  intro n
  induction n with
  | zero =>
    intro s hs
    have : s = [] := List.eq_nil_of_length_eq_zero (by omega)
    subst this
    unfold replSegs; by_cases ho : old = [] <;> simp [ho, Seg.src]
  | succ n ih =>
    intro s hs
    unfold replSegs
    by_cases ho : old = []
    · simp [ho, Seg.src]
    · simp only [ho, dite_false]
      cases s with
      | nil => simp
      | cons b rest =>
        have hpos : 0 < old.length := by cases old <;> simp_all
        by_cases hp : old.isPrefixOf (b :: rest) = true
        · simp only [hp, if_true, srcOf_cons, Seg.src]
          rw [ih _ (by simp only [List.length_drop, List.length_cons] at hs ⊢; omega)]
          exact prefix_split old _ hp
        · have hp' : old.isPrefixOf (b :: rest) = false := Bool.eq_false_iff.mpr hp
          simp only [hp', Bool.false_eq_true, if_false, srcOf_cons, Seg.src]
          rw [ih rest (by simp at hs; omega)]
          rfl

theorem replSegs_dst (old new : List B) : ∀ (n : Nat) (s : List B), s.length ≤ n → dstOf (replSegs old new s) = replaceAll old new s := by
  intro n
  induction n with
  | zero =>
    intro s hs
    have : s = [] := List.eq_nil_of_length_eq_zero (by omega)
    subst this
    unfold replSegs replaceAll; by_cases ho : old = [] <;> simp [ho, Seg.dst]
  | succ n ih =>
    intro s hs
    unfold replSegs replaceAll
    by_cases ho : old = []
    · simp [ho, Seg.dst]
    · simp only [ho, dite_false]
      cases s with
      | nil => simp
      | cons b rest =>
        have hpos : 0 < old.length := by cases old <;> simp_all
        by_cases hp : old.isPrefixOf (b :: rest) = true
        · simp only [hp, if_true, dstOf_cons, Seg.dst]
          rw [ih _ (by simp only [List.length_drop, List.length_cons] at hs ⊢; omega)]
        · have hp' : old.isPrefixOf (b :: rest) = false := Bool.eq_false_iff.mpr hp
          simp only [hp', Bool.false_eq_true, if_false, dstOf_cons, Seg.dst]
          rw [ih rest (by simp at hs; omega)]
          rfl

theorem replSegs_ok (old new : List B) (h : nl old = nl new) : ∀ (n : Nat) (s : List B), s.length ≤ n → LineOk (replSegs old new s) := by
  intro n
  induction n with
  | zero =>
    intro s hs
    have : s = [] := List.eq_nil_of_length_eq_zero (by omega)
    subst this
    unfold replSegs; by_cases ho : old = []
    · simp only [ho, dite_true]; exact lineOk_cons (Seg.keep_ok _) lineOk_nil
    · simp only [ho, dite_false]; exact lineOk_nil
  | succ n ih =>
    intro s hs
    unfold replSegs
    by_cases ho : old = []
    · simp only [ho, dite_true]; exact lineOk_cons (Seg.keep_ok _) lineOk_nil
    · simp only [ho, dite_false]
      cases s with
      | nil => exact lineOk_nil
      | cons b rest =>
        have hpos : 0 < old.length := by cases old <;> simp_all
        by_cases hp : old.isPrefixOf (b :: rest) = true
        · simp only [hp, if_true]
          exact lineOk_cons h (ih _ (by simp only [List.length_drop, List.length_cons] at hs ⊢; omega))
        · have hp' : old.isPrefixOf (b :: rest) = false := Bool.eq_false_iff.mpr hp
          simp only [hp', Bool.false_eq_true, if_false]
          exact lineOk_cons (Seg.keep_ok _) (ih rest (by simp at hs; omega))

/-- a replacement that keeps the line feeds of what it replaces keeps the line feeds of the text -/
theorem replaceAll_nl (old new : List B) (h : nl old = nl new) (s : List B) : nl (replaceAll old new s) = nl s := by
  rw [← replSegs_dst old new s.length s (Nat.le_refl _), ← lines_total _ (replSegs_ok old new h s.length s (Nat.le_refl _)),
    replSegs_src old new s.length s (Nat.le_refl _)]

/-! ### pass 2b′: `replaceInMarkup` — the same outside comments and CDATA sections, which are kept -/

def replSegsM (old new : List B) (s : List B) : List Seg :=
  if hold : old = [] then [.keep s] else
  match s with
  | [] => []
  | b :: rest =>
    if hk : 0 < nonMarkupLen (b :: rest) then
      .keep ((b :: rest).take (nonMarkupLen (b :: rest))) :: replSegsM old new ((b :: rest).drop (nonMarkupLen (b :: rest)))
    else if old.isPrefixOf (b :: rest) then .repl old new :: replSegsM old new ((b :: rest).drop old.length)
    else .keep [b] :: replSegsM old new rest
termination_by s.length
decreasing_by
  · simp only [List.length_drop, List.length_cons]; omega
  · have : 0 < old.length := by cases old <;> simp_all
    simp only [List.length_drop, List.length_cons]; omega
  · simp

theorem replSegsM_all (old new : List B) (h : nl old = nl new) : ∀ (n : Nat) (s : List B), s.length ≤ n →
    srcOf (replSegsM old new s) = s ∧ dstOf (replSegsM old new s) = replaceAllM old new s ∧ LineOk (replSegsM old new s) := by
  intro n
  induction n with
  | zero =>
    intro s hs
    have : s = [] := List.eq_nil_of_length_eq_zero (by omega)
    subst this
    unfold replSegsM replaceAllM
    by_cases ho : old = []
    · simp only [ho, dite_true]; exact ⟨by simp [Seg.src], by simp [Seg.dst], lineOk_cons (Seg.keep_ok _) lineOk_nil⟩
    · simp only [ho, dite_false]; exact ⟨rfl, rfl, lineOk_nil⟩
  | succ n ih =>
    intro s hs
    unfold replSegsM replaceAllM
    by_cases ho : old = []
    · simp only [ho, dite_true]; exact ⟨by simp [Seg.src], by simp [Seg.dst], lineOk_cons (Seg.keep_ok _) lineOk_nil⟩
    · simp only [ho, dite_false]
      cases s with
      | nil => exact ⟨rfl, rfl, lineOk_nil⟩
      | cons b rest =>
        have hpos : 0 < old.length := by cases old <;> simp_all
        by_cases hk : 0 < nonMarkupLen (b :: rest)
        · simp only [hk, dite_true]
          obtain ⟨i1, i2, i3⟩ := ih ((b :: rest).drop (nonMarkupLen (b :: rest)))
            (by simp only [List.length_drop, List.length_cons] at hs ⊢; omega)
          refine ⟨?_, ?_, lineOk_cons (Seg.keep_ok _) i3⟩
          · simp only [srcOf_cons, Seg.src, i1, List.take_append_drop]
          · simp only [dstOf_cons, Seg.dst, i2]
        · simp only [hk, dite_false]
          by_cases hp : old.isPrefixOf (b :: rest) = true
          · simp only [hp, if_true]
            obtain ⟨i1, i2, i3⟩ := ih ((b :: rest).drop old.length)
              (by simp only [List.length_drop, List.length_cons] at hs ⊢; omega)
            refine ⟨?_, ?_, lineOk_cons h i3⟩
            · simp only [srcOf_cons, Seg.src, i1]; exact prefix_split old _ hp
            · simp only [dstOf_cons, Seg.dst, i2]
          · have hp' : old.isPrefixOf (b :: rest) = false := Bool.eq_false_iff.mpr hp
            simp only [hp', Bool.false_eq_true, if_false]
            obtain ⟨i1, i2, i3⟩ := ih rest (by simp at hs; omega)
            refine ⟨?_, ?_, lineOk_cons (Seg.keep_ok _) i3⟩
            · simp only [srcOf_cons, Seg.src, i1]; rfl
            · simp only [dstOf_cons, Seg.dst, i2]; rfl

/-! ### pass 3: `wrapMJTextContent`, byte for byte -/

def openN : List B := [60, 109, 106, 45, 116, 101, 120, 116]        -- "<mj-text"
def stem : List B := [60, 47, 109, 106, 45, 116, 101, 120, 116]     -- "</mj-text"  (closeNeedle without its '>')

/-- `equalFoldASCII` -/
def eqFold : List B → List B → Bool
  | [], [] => true
  | a :: as, b :: bs => lower a == lower b && eqFold as bs
  | _, _ => false

def prefixCI (needle s : List B) : Bool := eqFold (s.take needle.length) needle

/-- `indexCI` from the start of `s` (non-empty needle) -/
def indexCI (needle : List B) : List B → Option Nat
  | [] => none
  | b :: rest => if prefixCI needle (b :: rest) then some 0 else (indexCI needle rest).map (· + 1)

/-- `findTagEnd`'s scan: the offset just after the first `>` outside quotes -/
def tagEndAux : B → List B → Option Nat
  | _, [] => none
  | q, c :: rest =>
    if q != 0 then (tagEndAux (if c == q then 0 else q) rest).map (· + 1)
    else if c == dq || c == sq then (tagEndAux c rest).map (· + 1)
    else if c == gt then some 1
    else (tagEndAux 0 rest).map (· + 1)

/-- `previousNonSpace` over the bytes in front of the `>` (the tag starts with `<`, so the scan never leaves the tag) -/
def lastNonSpace (s : List B) : B :=
  match s.reverse.dropWhile isWs with
  | b :: _ => b
  | [] => 0

def findTagEnd (s : List B) : Option (Nat × Bool) :=
  (tagEndAux 0 s).map fun e => (e, decide (0 < e - 1) && lastNonSpace (s.take (e - 1)) == 47)

/-- `indexMJTextClose`: (offset of `<`, length of the end tag) of the first `</mj-text` + white space + `>` -/
def findClose : List B → Option (Nat × Nat)
  | [] => none
  | b :: rest =>
    if prefixCI stem (b :: rest) then
      match ((b :: rest).drop stem.length).dropWhile isWs with
      | 62 :: _ => some (0, stem.length + (((b :: rest).drop stem.length).takeWhile isWs).length + 1)
      | _ => (findClose rest).map (fun p => (p.1 + 1, p.2))
    else (findClose rest).map (fun p => (p.1 + 1, p.2))

/-- one literal of the void-tag pattern under `(?i)`: Go folds `k` with U+212A (Kelvin sign) and `s` with U+017F (long s);
    returns (consumed bytes, rest) -/
def matchFold : (name : List B) → (inp : List B) → Option (List B × List B)
  | [], inp => some ([], inp)
  | c :: cs, inp =>
    match inp with
    | [] => none
    | x :: xs =>
      if lower x == c then (matchFold cs xs).map (fun p => (x :: p.1, p.2))
      else if c == 107 then
        match inp with
        | 0xE2 :: 0x84 :: 0xAA :: xs' => (matchFold cs xs').map (fun p => (0xE2 :: 0x84 :: 0xAA :: p.1, p.2))
        | _ => none
      else if c == 115 then
        match inp with
        | 0xC5 :: 0xBF :: xs' => (matchFold cs xs').map (fun p => (0xC5 :: 0xBF :: p.1, p.2))
        | _ => none
      else none

def firstGt : List B → Option Nat
  | [] => none
  | b :: rest => if b == gt then some 0 else (firstGt rest).map (· + 1)

/-- a match of `(?:names)([^>]*?)/>` behind a `<`: (the matched bytes without `<` and without the final `/>`, what follows) -/
def voidAt (names : List (List B)) (rest : List B) : Option (List B × List B) :=
  names.findSome? fun n =>
    match matchFold n rest with
    | none => none
    | some (c, rem) =>
      match firstGt rem with
      | none => none
      | some g =>
        if g = 0 then none else
        match rem.drop (g - 1) with
        | 47 :: 62 :: after => some (c ++ rem.take (g - 1), after)
        | _ => none

def trimRightSp (s : List B) : List B := (s.reverse.dropWhile (· == 32)).reverse

/-- `normalizeSelfClosingVoidTags` -/
def voidNormF (names : List (List B)) : Nat → List B → List B
  | 0, s => s
  | _, [] => []
  | fuel + 1, b :: rest =>
    if b == 60 then
      match voidAt names rest with
      | some (pre, after) => trimRightSp (60 :: pre) ++ [32, 47, 62] ++ voidNormF names fuel after
      | none => b :: voidNormF names fuel rest
    else b :: voidNormF names fuel rest

def voidNorm (s : List B) : List B := voidNormF Gomjml.Gen.Parser.voidElementsB (s.length + 1) s

/-- `bytes.Index` -/
def indexSub (pat : List B) : List B → Option Nat
  | [] => if pat = [] then some 0 else none
  | b :: r => if pat.isPrefixOf (b :: r) then some 0 else (indexSub pat r).map (· + 1)

/-- a stretch of raw content in a CDATA section of its own -/
def wrapPiece (s : List B) : List B := cdStart ++ replaceAll cdEnd cdEndSafe s ++ cdEnd

/-- `wrapOutsideCDATA` (content that starts with a CDATA section the author wrote): the author's sections as written, every
    stretch between and behind them in a section of its own; an unterminated section is left to the XML layer -/
def wrapOutside : Nat → List B → List B
  | 0, s => s
  | fuel + 1, s =>
    if s = [] then [] else
    match indexSub cdStart s with
    | none => wrapPiece s
    | some idx =>
      (if idx = 0 then [] else wrapPiece (s.take idx)) ++
      (match indexSub cdEnd (s.drop idx) with
       | none => s.drop idx
       | some e => (s.drop idx).take (e + 3) ++ wrapOutside fuel ((s.drop idx).drop (e + 3)))

/-- what is written for the content of one mj-text -/
def wrapInner (inner : List B) : List B :=
  if cdStart.isPrefixOf (inner.dropWhile isWs) then wrapOutside ((voidNorm inner).length + 1) (voidNorm inner)
  else cdStart ++ replaceAll cdEnd cdEndSafe (voidNorm inner) ++ cdEnd

/-- the loop of `wrapMJTextContent` over what is left of the text -/
def wrapSegs : Nat → List B → List Seg
  | 0, s => [.keep s]
  | fuel + 1, s =>
    match indexCI openN s with
    | none => [.keep s]
    | some idx =>
      match findTagEnd (s.drop idx) with
      | none => [.keep (s.take idx), .keep (s.drop idx)]
      | some (e, selfc) =>
        if selfc then .keep (s.take idx) :: .keep ((s.drop idx).take e) :: wrapSegs fuel ((s.drop idx).drop e)
        else
          match findClose ((s.drop idx).drop e) with
          | none => [.keep (s.take idx), .keep ((s.drop idx).take e), .keep ((s.drop idx).drop e)]
          | some (ci, len) =>
            .keep (s.take idx) :: .keep ((s.drop idx).take e) ::
              .repl (((s.drop idx).drop e).take ci) (wrapInner (((s.drop idx).drop e).take ci)) ::
              .repl (((((s.drop idx).drop e).drop ci).take len).take stem.length) stem ::
              .keep (((((s.drop idx).drop e).drop ci).take len).drop stem.length) ::
              wrapSegs fuel ((((s.drop idx).drop e).drop ci).drop len)

def wrap (s : List B) : List B := dstOf (wrapSegs (s.length + 1) s)

theorem reassemble (u : List B) (ci len k : Nat) :
    u.take ci ++ (((u.drop ci).take len).take k ++ (((u.drop ci).take len).drop k ++ (u.drop ci).drop len)) = u := by
  rw [← List.append_assoc (List.take k _), List.take_append_drop, List.take_append_drop, List.take_append_drop]

/-- the segments of `wrap` are segments of its input, for every text -/
theorem wrapSegs_src : ∀ (fuel : Nat) (s : List B), srcOf (wrapSegs fuel s) = s
  | 0, s => by simp [wrapSegs, Seg.src]
  | fuel + 1, s => by
    unfold wrapSegs
    split
    · simp [Seg.src]
    · rename_i idx _
      split
      · simp [Seg.src]
      · rename_i e selfc _
        split
        · simp only [srcOf_cons, Seg.src, wrapSegs_src fuel, List.take_append_drop]
        · split
          · simp only [srcOf_cons, srcOf_nil, Seg.src, List.append_nil, List.take_append_drop]
          · rename_i ci len _
            simp only [srcOf_cons, Seg.src, wrapSegs_src fuel, reassemble, List.take_append_drop]

/-! #### no line feed is added or dropped -/

theorem nl_reverse (s : List B) : nl s.reverse = nl s := by simp [nl]

theorem nl_dropWhile_sp : ∀ (s : List B), nl (s.dropWhile (· == 32)) = nl s
  | [] => rfl
  | b :: r => by
    by_cases h : (b == 32) = true
    · have hb : b = 32 := by simpa using h
      subst hb
      simp only [List.dropWhile_cons, h, if_true, nl_dropWhile_sp r, nl_cons]
      simp
    · simp [List.dropWhile_cons, h]

theorem nl_trimRightSp (s : List B) : nl (trimRightSp s) = nl s := by
  unfold trimRightSp
  rw [nl_reverse, nl_dropWhile_sp, nl_reverse]

theorem matchFold_split : ∀ (name inp c r : List B), matchFold name inp = some (c, r) → inp = c ++ r
  | [], inp, c, r, h => by simp [matchFold] at h; obtain ⟨rfl, rfl⟩ := h; rfl
  | n :: ns, [], c, r, h => by simp [matchFold] at h
  | n :: ns, x :: xs, c, r, h => by
    unfold matchFold at h
    simp only at h
    split at h
    · cases hm : matchFold ns xs with
      | none => simp [hm] at h
      | some p =>
        simp [hm] at h
        obtain ⟨rfl, rfl⟩ := h
        have := matchFold_split ns xs p.1 p.2 (by rw [hm])
        simp [this]
    · split at h
      · split at h
        · rename_i xs' heq
          cases hm : matchFold ns xs' with
          | none => simp [hm] at h
          | some p =>
            simp [hm] at h
            obtain ⟨rfl, rfl⟩ := h
            have := matchFold_split ns xs' p.1 p.2 (by rw [hm])
            rw [heq, this]; rfl
        · simp at h
      · split at h
        · split at h
          · rename_i xs' heq
            cases hm : matchFold ns xs' with
            | none => simp [hm] at h
            | some p =>
              simp [hm] at h
              obtain ⟨rfl, rfl⟩ := h
              have := matchFold_split ns xs' p.1 p.2 (by rw [hm])
              rw [heq, this]; rfl
          · simp at h
        · simp at h

/-- a void-tag match is `pre ++ "/>" ++ after` -/
theorem voidAt_split (names : List (List B)) (rest pre after : List B) (h : voidAt names rest = some (pre, after)) :
    rest = pre ++ [47, 62] ++ after := by
  unfold voidAt at h
  obtain ⟨n, _, hn⟩ := List.exists_of_findSome?_eq_some h
  split at hn
  · simp at hn
  · rename_i c rem hmf
    split at hn
    · simp at hn
    · rename_i g _
      split at hn
      · simp at hn
      · split at hn
        · rename_i aft hdrop
          simp at hn
          obtain ⟨rfl, rfl⟩ := hn
          have h1 := matchFold_split n rest c rem hmf
          have h2 : rem = rem.take (g - 1) ++ rem.drop (g - 1) := (List.take_append_drop _ _).symm
          rw [hdrop] at h2
          rw [h1]
          conv => lhs; rw [h2]
          simp
        · simp at hn

theorem voidNormF_nl (names : List (List B)) : ∀ (fuel : Nat) (s : List B), nl (voidNormF names fuel s) = nl s
  | 0, s => by simp [voidNormF]
  | fuel + 1, [] => by simp [voidNormF]
  | fuel + 1, b :: rest => by
    unfold voidNormF
    by_cases hb : (b == 60) = true
    · simp only [hb, if_true]
      split
      · rename_i pre after hv
        have hs := voidAt_split names rest pre after hv
        have hb' : b = 60 := by simpa using hb
        subst hb'
        simp only [nl_append, nl_trimRightSp, voidNormF_nl names fuel after]
        rw [hs]
        simp only [nl_append, nl_cons]
        simp [nl]
      · rw [nl_cons, nl_cons, voidNormF_nl names fuel rest]
    · have hb' : (b == 60) = false := by simpa using hb
      simp only [hb', Bool.false_eq_true, if_false]
      rw [nl_cons, nl_cons, voidNormF_nl names fuel rest]

theorem wrapPiece_nl (s : List B) : nl (wrapPiece s) = nl s := by
  unfold wrapPiece
  simp only [nl_append]
  rw [replaceAll_nl cdEnd cdEndSafe (by decide)]
  have h1 : nl cdStart = 0 := by decide
  have h2 : nl cdEnd = 0 := by decide
  omega

theorem nl_take_drop (s : List B) (k : Nat) : nl (s.take k) + nl (s.drop k) = nl s := by
  rw [← nl_append, List.take_append_drop]

theorem wrapOutside_nl : ∀ (fuel : Nat) (s : List B), nl (wrapOutside fuel s) = nl s
  | 0, s => rfl
  | fuel + 1, s => by
    unfold wrapOutside
    split
    · rename_i h; rw [h]
    · split
      · exact wrapPiece_nl s
      · rename_i idx _
        have hpre : nl (if idx = 0 then [] else wrapPiece (s.take idx)) = nl (s.take idx) := by
          split
          · rename_i h0; subst h0; simp [nl]
          · exact wrapPiece_nl _
        rw [nl_append, hpre]
        split
        · exact nl_take_drop s idx
        · rename_i e _
          rw [nl_append, wrapOutside_nl fuel, nl_take_drop (s.drop idx) (e + 3), nl_take_drop s idx]

theorem wrapInner_nl (inner : List B) : nl (wrapInner inner) = nl inner := by
  unfold wrapInner voidNorm
  split
  · rw [wrapOutside_nl]; exact voidNormF_nl _ _ _
  · simp only [nl_append]
    rw [replaceAll_nl cdEnd cdEndSafe (by decide), voidNormF_nl]
    have h1 : nl cdStart = 0 := by decide
    have h2 : nl cdEnd = 0 := by decide
    omega

theorem lower_lf (x : B) (h : lower x = 10) : x = 10 := by
  unfold lower at h
  split at h
  · rename_i hc
    exfalso
    simp only [Bool.and_eq_true, decide_eq_true_eq] at hc
    have h65 : (65 : B) ≤ x := hc.1
    have h90 : x ≤ (90 : B) := hc.2
    have e := congrArg UInt8.toNat h
    rw [UInt8.toNat_add] at e
    have a : 65 ≤ x.toNat := by simpa using UInt8.le_iff_toNat_le.mp h65
    have b : x.toNat ≤ 90 := by simpa using UInt8.le_iff_toNat_le.mp h90
    simp at e
    omega
  · exact h

theorem eqFold_nl : ∀ (a b : List B), eqFold a b = true → nl b = 0 → nl a = 0
  | [], [], _, _ => rfl
  | [], _ :: _, h, _ => by simp [eqFold] at h
  | _ :: _, [], h, _ => by simp [eqFold] at h
  | x :: as, y :: bs, h, hb => by
    simp only [eqFold, Bool.and_eq_true, beq_iff_eq] at h
    rw [nl_cons] at hb ⊢
    have hy : y ≠ 10 := by intro e; simp [e] at hb
    have hbs : nl bs = 0 := by omega
    have hx : x ≠ 10 := by
      intro e
      subst e
      have : lower y = 10 := by rw [← h.1]; decide
      exact hy (lower_lf y this)
    rw [eqFold_nl as bs h.2 hbs]
    simp [hx]

theorem findClose_stem : ∀ (u : List B) (ci len : Nat), findClose u = some (ci, len) → prefixCI stem (u.drop ci) = true
  | [], _, _, h => by simp [findClose] at h
  | b :: rest, ci, len, h => by
    unfold findClose at h
    split at h
    · rename_i hp
      split at h
      · simp at h
        obtain ⟨rfl, _⟩ := h
        simpa using hp
      · cases hf : findClose rest with
        | none => simp [hf] at h
        | some p =>
          simp [hf] at h
          obtain ⟨rfl, rfl⟩ := h
          simpa using findClose_stem rest p.1 p.2 (by rw [hf])
    · cases hf : findClose rest with
      | none => simp [hf] at h
      | some p =>
        simp [hf] at h
        obtain ⟨rfl, rfl⟩ := h
        simpa using findClose_stem rest p.1 p.2 (by rw [hf])

/-- **`wrapMJTextContent` moves no line**: every piece it replaces — the content of an mj-text, the name part of its end
    tag — is replaced by something with the same number of line feeds -/
theorem wrapSegs_ok : ∀ (fuel : Nat) (s : List B), LineOk (wrapSegs fuel s)
  | 0, s => by simp only [wrapSegs]; exact lineOk_cons (Seg.keep_ok _) lineOk_nil
  | fuel + 1, s => by
    unfold wrapSegs
    split
    · exact lineOk_cons (Seg.keep_ok _) lineOk_nil
    · rename_i idx _
      split
      · exact lineOk_cons (Seg.keep_ok _) (lineOk_cons (Seg.keep_ok _) lineOk_nil)
      · rename_i e selfc _
        split
        · exact lineOk_cons (Seg.keep_ok _) (lineOk_cons (Seg.keep_ok _) (wrapSegs_ok fuel _))
        · split
          · exact lineOk_cons (Seg.keep_ok _) (lineOk_cons (Seg.keep_ok _) (lineOk_cons (Seg.keep_ok _) lineOk_nil))
          · rename_i ci len hfc
            refine lineOk_cons (Seg.keep_ok _) (lineOk_cons (Seg.keep_ok _) (lineOk_cons ?_ (lineOk_cons ?_
              (lineOk_cons (Seg.keep_ok _) (wrapSegs_ok fuel _)))))
            · exact (wrapInner_nl _).symm
            · simp only [Seg.ok, Seg.src, Seg.dst]
              have hp := findClose_stem _ ci len hfc
              unfold prefixCI at hp
              have h0 : nl stem = 0 := by decide
              rw [h0]
              by_cases hl : stem.length ≤ len
              · rw [List.take_take, Nat.min_eq_left hl]
                exact eqFold_nl _ _ hp h0
              · -- cannot happen (the end tag is at least as long as its name); the statement holds all the same
                have hl' : len ≤ stem.length := by omega
                rw [List.take_take, Nat.min_eq_right hl']
                have hsub : nl (List.take len (List.drop ci (List.drop e (List.drop idx s)))) ≤
                    nl (List.take stem.length (List.drop ci (List.drop e (List.drop idx s)))) := by
                  unfold nl
                  exact List.Sublist.count_le _ (by
                    have : List.take len (List.drop ci (List.drop e (List.drop idx s))) =
                        List.take len (List.take stem.length (List.drop ci (List.drop e (List.drop idx s)))) := by
                      rw [List.take_take, Nat.min_eq_left hl']
                    rw [this]; exact List.take_sublist _ _)
                have := eqFold_nl _ _ hp h0
                omega

/-! ### pass 1: `stripNonMSOComments` removes bytes in front of the root element only -/

theorem afterClose_sublist : ∀ (s r : List B), afterClose s = some r → r.Sublist s
  | [], _, h => by simp [afterClose] at h
  | b :: t, r, h => by
    unfold afterClose at h
    split at h
    · simp at h; subst h; exact (List.drop_sublist 2 t).trans (List.sublist_cons_self _ _)
    · exact (afterClose_sublist t r h).trans (List.sublist_cons_self _ _)

theorem dropComments_sublist : ∀ (n : Nat) (s : List B), s.length ≤ n → (dropComments s).Sublist s := by
  intro n
  induction n with
  | zero =>
    intro s hs
    have : s = [] := List.eq_nil_of_length_eq_zero (by omega)
    subst this
    rw [dropComments]; exact List.Sublist.refl _
  | succ n ih =>
    intro s hs
    cases s with
    | nil => rw [dropComments]; exact List.Sublist.refl _
    | cons b r =>
      rw [dropComments]
      split
      · split
        · rename_i rest hac
          have h1 := afterClose_sublist _ _ hac
          have hl := afterClose_length _ _ hac
          have h2 := ih rest (by simp only [List.length_drop, List.length_cons] at hl hs ⊢; omega)
          exact h2.trans (h1.trans (List.drop_sublist _ _))
        · exact List.nil_sublist _
      · exact (ih r (by simp at hs; omega)).cons_cons b

theorem trimLeft_sublist : ∀ (s : List B), (trimLeft s).Sublist s
  | [] => List.Sublist.refl _
  | b :: r => by
    unfold trimLeft
    split
    · exact (trimLeft_sublist r).trans (List.sublist_cons_self _ _)
    · exact List.Sublist.refl _

/-- **lines in front of the root**: with `strippedLines` = line feeds of the input − line feeds of the stripped text (what
    `ParseMJML` computes), every place at or behind the root element has, in the stripped text, `strippedLines` fewer line
    feeds in front of it than in the input -/
theorem strip_lines (s p root : List B) (h : splitAtRoot s = some (p, root)) (m : Nat) :
    nl ((strip s).take ((trimLeft (dropComments p)).length + m)) + (nl s - nl (strip s)) = nl (s.take (p.length + m)) := by
  have hs : s = p ++ root := by
    unfold splitAtRoot at h
    cases hr : rootIdx s with
    | none => simp [hr] at h
    | some i => simp [hr] at h; obtain ⟨rfl, rfl⟩ := h; simp
  have hst : strip s = trimLeft (dropComments p) ++ root := by unfold strip; rw [h]
  have hle : nl (trimLeft (dropComments p)) ≤ nl p := by
    unfold nl
    exact List.Sublist.count_le _ ((trimLeft_sublist _).trans (dropComments_sublist p.length p (Nat.le_refl _)))
  rw [hst, List.take_length_add_append]
  conv => rhs; rw [hs, List.take_length_add_append]
  rw [hs]
  simp only [nl_append]
  omega

theorem strip_none (s : List B) (h : splitAtRoot s = none) : strip s = s := by unfold strip; rw [h]

/-! ### the three passes in a row -/

/-- the places related through every `replaceInMarkup` step in turn -/
def stepsRel : List (List B × List B) → List B → Nat → Nat → Prop
  | [], _, i, k => i = k
  | st :: r, s, i, k => ∃ j, Rel (replSegsM st.1 st.2 s) i j ∧ stepsRel r (replaceAllM st.1 st.2 s) j k

theorem stepsRel_lines : ∀ (steps : List (List B × List B)) (s : List B) (i k : Nat),
    (∀ st ∈ steps, nl st.1 = nl st.2) → stepsRel steps s i k →
    nl (s.take i) = nl ((steps.foldl (fun acc st => replaceAllM st.1 st.2 acc) s).take k)
  | [], s, i, k, _, h => by simp only [stepsRel] at h; subst h; rfl
  | st :: r, s, i, k, hs, h => by
    obtain ⟨j, h1, h2⟩ := h
    obtain ⟨a1, a2, hok⟩ := replSegsM_all st.1 st.2 (hs st (by simp)) s.length s (Nat.le_refl _)
    have e1 := rel_lines _ hok i j h1
    rw [a1, a2] at e1
    rw [e1, List.foldl_cons]
    exact stepsRel_lines r _ j k (fun x hx => hs x (by simp [hx])) h2

/-- every regenerated `ReplaceAll` step of `preprocessHTMLEntities` is free of line feeds on both sides -/
theorem steps_no_lf : ∀ st ∈ Gomjml.Gen.Parser.entityStepsB, nl st.1 = nl st.2 := by decide

/-- the text the XML decoder reads -/
def preprocess (s : List B) : List B := wrap (entities (strip s))

/-- the same place in the stripped text (offset `i`) and in the text handed to the decoder (offset `k`) -/
def PipeRel (s : List B) (i k : Nat) : Prop :=
  ∃ j1 j2, Rel (escSegs entTable false 0 0 0 (strip s)) i j1 ∧
    stepsRel Gomjml.Gen.Parser.entityStepsB (escapeAmp (strip s)) j1 j2 ∧
    Rel (wrapSegs ((entities (strip s)).length + 1) (entities (strip s))) j2 k

theorem pipe_lines (s : List B) (i k : Nat) (h : PipeRel s i k) : nl ((strip s).take i) = nl ((preprocess s).take k) := by
  obtain ⟨j1, j2, h1, h2, h3⟩ := h
  have e1 := rel_lines _ (escSegs_ok entTable (strip s) false 0 0 0) i j1 h1
  rw [escSegs_src, escSegs_dst] at e1
  have e2 := stepsRel_lines _ _ j1 j2 steps_no_lf h2
  have e3 := rel_lines _ (wrapSegs_ok _ _) j2 k h3
  rw [wrapSegs_src] at e3
  rw [e1]
  have e2' : nl (List.take j1 (esc entTable false 0 0 0 (strip s))) = nl (List.take j2 (entities (strip s))) := e2
  rw [e2']
  exact e3

end Gomjml.Lines
