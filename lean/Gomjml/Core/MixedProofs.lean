import Gomjml.Core.Mixed
import Gomjml.Core.Lengths
/-! Proofs about `Gomjml.Mixed`: the reader reads back what the serialiser wrote. -/
namespace Gomjml.Mixed
open Gomjml.Amp Gomjml.CharData

/-! ### scanning up to a stop byte -/

theorem untilB_append (stop : B → Bool) : ∀ (x r : List B), (∀ b ∈ x, stop b = false) →
    (r = [] ∨ ∃ c r', r = c :: r' ∧ stop c = true) → untilB stop (x ++ r) = (x, r)
  | [], r, _, hr => by
    rcases hr with rfl | ⟨c, r', rfl, hc⟩
    · simp [untilB]
    · simp [untilB, hc]
  | b :: x, r, hx, hr => by
    have hb : stop b = false := hx b (by simp)
    have ih := untilB_append stop x r (fun c hc => hx c (by simp [hc])) hr
    simp [untilB, hb, ih]

/-! ### attribute values -/

theorem escQ_no_quote (v : List B) : ∀ b ∈ escQ v, (b == 34) = false := by
  intro b hb
  unfold escQ at hb
  rw [List.mem_flatMap] at hb
  obtain ⟨x, _, hx⟩ := hb
  unfold escQB at hx
  split at hx
  · simp [quot] at hx; rcases hx with rfl | rfl | rfl | rfl | rfl | rfl <;> decide
  · rename_i h
    simp at hx; subst hx
    simpa using h

theorem escQ_length (v : List B) : v.length ≤ (escQ v).length := by
  induction v with
  | nil => simp [escQ]
  | cons b r ih =>
    unfold escQ at ih ⊢
    simp only [List.flatMap_cons, List.length_append, List.length_cons]
    have : 1 ≤ (escQB b).length := by unfold escQB; split <;> simp [quot]
    omega

/-- a client decoding `&quot;` gets the value back, for every value without an ampersand -/
theorem unq_escQ : ∀ (v : List B) (fuel : Nat), v.length ≤ fuel → wfVal v = true → unq fuel (escQ v) = v
  | [], fuel, _, _ => by cases fuel <;> simp [escQ, unq]
  | b :: r, 0, h, _ => by simp at h
  | b :: r, fuel + 1, h, hw => by
    have hw' : wfVal r = true ∧ b ≠ 38 := by
      simp only [wfVal, List.all_cons, Bool.and_eq_true, bne_iff_ne, ne_eq] at hw ⊢
      exact ⟨hw.2, hw.1⟩
    have ih := unq_escQ r fuel (by simpa using h) hw'.1
    unfold escQ at ih ⊢
    simp only [List.flatMap_cons]
    by_cases h1 : b = 34
    · subst h1
      rw [show escQB 34 = [38, 113, 117, 111, 116, 59] from rfl]
      show unq (fuel + 1) (38 :: 113 :: 117 :: 111 :: 116 :: 59 :: List.flatMap escQB r) = _
      rw [unq]
      simp [quot, List.isPrefixOf, ih]
    · have hesc : escQB b = [b] := by simp [escQB, h1]
      rw [hesc]
      show unq (fuel + 1) (b :: List.flatMap escQB r) = _
      rw [unq]
      have hne : (38 : B) ≠ b := fun h => hw'.2 h.symm
      have n1 : quot.isPrefixOf (b :: List.flatMap escQB r) = false := by
        simp only [quot, List.isPrefixOf]; simp [hne]
      simp only [n1, Bool.false_eq_true, if_false]
      rw [ih]

/-! ### attributes -/

theorem serAttrs_length (a : List (List B × List B)) : a.length ≤ (serAttrs a).length := by
  induction a with
  | nil => simp [serAttrs]
  | cons kv r ih =>
    obtain ⟨k, v⟩ := kv
    simp only [serAttrs, List.length_cons, List.length_append]
    omega

theorem wfKey_no_eq (k : List B) (h : wfKey k = true) : ∀ b ∈ k, (b == 61) = false := by
  intro b hb
  simp only [wfKey, Bool.and_eq_true, List.all_eq_true, bne_iff_ne, ne_eq] at h
  simpa using h.2 b hb

/-- a key never looks like the end of a void tag: what follows the blank is not `/>` -/
theorem key_not_void (k rest : List B) (h : wfKey k = true) : [47, 62].isPrefixOf (k ++ 61 :: rest) = false := by
  cases k with
  | nil => simp [List.isPrefixOf]
  | cons c k' =>
    have hc : c ≠ 47 := by
      simp only [wfKey, List.head?_cons, Bool.and_eq_true, bne_iff_ne, ne_eq, Option.some.injEq] at h
      exact h.1
    have hc' : (47 : B) ≠ c := fun e => hc e.symm
    simp [List.isPrefixOf, hc']

/-- the attributes of a start tag come back, in order, with the values the author wrote; `tail` is `>` or ` />` -/
theorem readAttrs_ser : ∀ (a : List (List B × List B)) (fuel : Nat) (X : List B) (vd : Bool),
    wfAttrs a = true → a.length < fuel →
    readAttrs fuel (serAttrs a ++ (if vd then 32 :: 47 :: 62 :: X else 62 :: X)) = some (a, vd, X)
  | [], 0, _, _, _, h => by simp at h
  | [], fuel + 1, X, vd, _, _ => by
    cases vd <;> simp [serAttrs, readAttrs, List.isPrefixOf]
  | (k, v) :: r, 0, _, _, _, h => by simp at h
  | (k, v) :: r, fuel + 1, X, vd, hw, hl => by
    have hkv : wfKey k = true ∧ wfVal v = true ∧ wfAttrs r = true := by
      simp only [wfAttrs, List.all_cons, Bool.and_eq_true] at hw ⊢
      exact ⟨hw.1.1, hw.1.2, hw.2⟩
    have ih := readAttrs_ser r fuel X vd hkv.2.2 (by simpa using hl)
    -- the text behind the blank
    have hshape : serAttrs ((k, v) :: r) ++ (if vd then 32 :: 47 :: 62 :: X else 62 :: X) =
        32 :: (k ++ 61 :: 34 :: (escQ v ++ 34 :: (serAttrs r ++ (if vd then 32 :: 47 :: 62 :: X else 62 :: X)))) := by
      simp [serAttrs, List.append_assoc]
    rw [hshape, readAttrs]
    have hnv := key_not_void k (34 :: (escQ v ++ 34 :: (serAttrs r ++ (if vd then 32 :: 47 :: 62 :: X else 62 :: X)))) hkv.1
    have hk := untilB_append (· == 61) k (61 :: 34 :: (escQ v ++ 34 :: (serAttrs r ++ (if vd then 32 :: 47 :: 62 :: X else 62 :: X))))
      (wfKey_no_eq k hkv.1) (Or.inr ⟨61, _, rfl, by decide⟩)
    have hv := untilB_append (· == 34) (escQ v) (34 :: (serAttrs r ++ (if vd then 32 :: 47 :: 62 :: X else 62 :: X)))
      (escQ_no_quote v) (Or.inr ⟨34, _, rfl, by decide⟩)
    have hq := unq_escQ v (escQ v).length (escQ_length v) hkv.2.1
    simp only [show ((32 : B) == 62) = false from by decide, show ((32 : B) == 32) = true from by decide,
      Bool.false_eq_true, if_false, if_true, hnv, hk, hv, ih, hq]

/-! ### single tokens -/

theorem wfName_stop (n : List B) (h : wfName n = true) : ∀ b ∈ n, nameStop b = false := by
  intro b hb
  simp only [wfName, Bool.and_eq_true, List.all_eq_true, Bool.not_eq_true'] at h
  exact h.2 b hb

theorem wfName_cons (n : List B) (h : wfName n = true) : ∃ c n', n = c :: n' ∧ c ≠ 47 ∧ c ≠ 62 := by
  cases n with
  | nil => simp [wfName] at h
  | cons c n' =>
    refine ⟨c, n', rfl, ?_, ?_⟩
    · simp only [wfName, List.head?_cons, Bool.and_eq_true, bne_iff_ne, ne_eq, Option.some.injEq] at h
      exact h.1.2
    · have := wfName_stop (c :: n') h c (by simp)
      simp only [nameStop, Bool.or_eq_false_iff, beq_eq_false_iff_ne, ne_eq] at this
      exact this.2

theorem readTok_open (n : List B) (a : List (List B × List B)) (X : List B) (vd : Bool)
    (hn : wfName n = true) (ha : wfAttrs a = true) :
    readTok (60 :: (n ++ (serAttrs a ++ (if vd then 32 :: 47 :: 62 :: X else 62 :: X)))) =
      some (if vd then .void n a else .opn n a, X) := by
  obtain ⟨c, n', rfl, hc47, _⟩ := wfName_cons n hn
  have hstop : ∃ d r', (serAttrs a ++ (if vd then 32 :: 47 :: 62 :: X else 62 :: X)) = d :: r' ∧ nameStop d = true := by
    cases a with
    | nil => cases vd <;> simp [serAttrs, nameStop]
    | cons kv r => obtain ⟨k, v⟩ := kv; exact ⟨32, _, rfl, by decide⟩
  have hu := untilB_append nameStop (c :: n') (serAttrs a ++ (if vd then 32 :: 47 :: 62 :: X else 62 :: X))
    (wfName_stop _ hn) (Or.inr (by obtain ⟨d, r', h1, h2⟩ := hstop; exact ⟨d, r', h1, h2⟩))
  have hra := readAttrs_ser a ((serAttrs a ++ (if vd then 32 :: 47 :: 62 :: X else 62 :: X)).length + 1) X vd ha (by
    have := serAttrs_length a
    simp only [List.length_append]; omega)
  have hc47' : (c == 47) = false := by simpa using hc47
  show readTok (60 :: (c :: n' ++ (serAttrs a ++ (if vd then 32 :: 47 :: 62 :: X else 62 :: X)))) = _
  simp only [readTok, List.cons_append, show ((60 : B) == 60) = true from by decide, if_true, hc47', Bool.false_eq_true, if_false,
    readOpen]
  rw [show c :: (n' ++ (serAttrs a ++ if vd = true then 32 :: 47 :: 62 :: X else 62 :: X)) =
      (c :: n') ++ (serAttrs a ++ if vd = true then 32 :: 47 :: 62 :: X else 62 :: X) from rfl, hu]
  simp only [hra]

theorem readTok_close (n X : List B) (hn : wfName n = true) :
    readTok (60 :: 47 :: (n ++ 62 :: X)) = some (.cls n, X) := by
  have hu := untilB_append (· == 62) n (62 :: X) (fun b hb => by
    have := wfName_stop n hn b hb
    simp only [nameStop, Bool.or_eq_false_iff] at this
    exact this.2) (Or.inr ⟨62, X, rfl, by decide⟩)
  simp only [readTok, show ((60 : B) == 60) = true from by decide, if_true, show ((47 : B) == 47) = true from by decide, readClose, hu]

theorem escape_length (s : List B) : s.length ≤ (escape s).length := by
  induction s with
  | nil => simp [escape]
  | cons b r ih =>
    unfold escape at ih ⊢
    simp only [List.flatMap_cons, List.length_append, List.length_cons]
    have : 1 ≤ (escB b).length := by unfold escB; split <;> (try split) <;> (try split) <;> simp [eAmp, eLt, eGt]
    omega

theorem escape_ne_nil (s : List B) (h : s ≠ []) : escape s ≠ [] := by
  intro he
  have := escape_length s
  rw [he] at this
  cases s with
  | nil => exact h rfl
  | cons b r => simp at this

/-- what may follow a text run: nothing, or a tag -/
def Clean (r : List B) : Prop := r = [] ∨ ∃ r', r = 60 :: r'

theorem readTok_text (s R : List B) (hs : s ≠ []) (hR : Clean R) :
    readTok (escape s ++ R) = some (.text s, R) := by
  have hno : ∀ b ∈ escape s, (b == 60) = false := fun b hb => by simpa using (escape_no_markup s b hb).1
  have hu := untilB_append (· == 60) (escape s) R hno (by
    rcases hR with rfl | ⟨r', rfl⟩
    · exact Or.inl rfl
    · exact Or.inr ⟨60, r', rfl, by decide⟩)
  have hne := escape_ne_nil s hs
  cases he : escape s with
  | nil => exact absurd he hne
  | cons b r =>
    have hb : (b == 60) = false := hno b (by simp [he])
    have hrt := unescape_escape s (escape s).length (escape_length s)
    show readTok (b :: r ++ R) = _
    simp only [readTok, List.cons_append, hb, Bool.false_eq_true, if_false, readText]
    rw [show b :: (r ++ R) = escape s ++ R from by simp [he], hu]
    simp only [hrt]

/-! ### the whole input -/

theorem read_nil : read [] = some [] := by
  rw [read]; simp

theorem read_step (s : List B) (e : Ev) (r : List B) (h : readTok s = some (e, r)) (hl : r.length < s.length) :
    read s = (read r).map (e :: ·) := by
  have hne : s ≠ [] := by intro h0; subst h0; simp at hl
  rw [read]
  simp [hne, h, hl]

theorem clean_serParts (void : List B → Bool) (ps : List (Part Node)) (R : List B) (hw : wfParts true ps = true) (hR : Clean R) :
    Clean (serParts void ps ++ R) := by
  cases ps with
  | nil => simpa [serParts] using hR
  | cons p r =>
    cases p with
    | text s => simp [wfParts] at hw
    | node n =>
      cases n with
      | mk nm a kids =>
        right
        simp only [serParts, serNode]
        split <;> exact ⟨_, rfl⟩

/-- **the round trip**: reading the serialisation of any well-formed content gives its events, in order, and goes on with
    whatever follows -/
theorem read_serParts (void : List B → Bool) : ∀ (k : Nat) (ps : List (Part Node)) (prev : Bool) (R : List B),
    szParts ps ≤ k → wfParts prev ps = true → Clean R →
    read (serParts void ps ++ R) = (read R).map (evParts void ps ++ ·) := by
  intro k
  induction k with
  | zero =>
    intro ps prev R hk _ _
    cases ps with
    | nil => simp [serParts, evParts]
    | cons p r => cases p <;> simp [szParts] at hk
  | succ k ih =>
    intro ps prev R hk hw hR
    cases ps with
    | nil => simp [serParts, evParts]
    | cons p r =>
      cases p with
      | text s =>
        simp only [wfParts, Bool.and_eq_true, Bool.not_eq_true', bne_iff_ne, ne_eq] at hw
        obtain ⟨⟨_, hs⟩, hwr⟩ := hw
        have hs' : s ≠ [] := by simpa using hs
        have hcl := clean_serParts void r R hwr hR
        have htok := readTok_text s (serParts void r ++ R) hs' hcl
        have hlen : (serParts void r ++ R).length < (escape s ++ (serParts void r ++ R)).length := by
          have := escape_ne_nil s hs'
          have : 0 < (escape s).length := List.length_pos_iff.mpr this
          simp only [List.length_append]; omega
        have hrest := ih r true R (by simp only [szParts] at hk; omega) hwr hR
        simp only [serParts, evParts, List.append_assoc]
        rw [read_step _ _ _ htok hlen, hrest]
        cases read R <;> simp
      | node n =>
        cases n with
        | mk nm a kids =>
          simp only [wfParts, wfNode, Bool.and_eq_true] at hw
          obtain ⟨⟨⟨hnm, ha⟩, hkids⟩, hwr⟩ := hw
          have hrest := ih r false R (by simp only [szParts, szNode] at hk; omega) hwr hR
          simp only [serParts, serNode, evParts, evNode]
          by_cases hv : void nm = true
          · -- a void element: one token
            simp only [hv, if_true, List.cons_append, List.append_assoc, List.nil_append]
            have htok := readTok_open nm a (serParts void r ++ R) true hnm ha
            simp only [if_true] at htok
            rw [read_step _ _ _ htok (by simp only [List.length_cons, List.length_append]; omega), hrest]
            cases read R <;> simp
          · have hv' : void nm = false := by simpa using hv
            simp only [hv', Bool.false_eq_true, if_false, List.cons_append, List.append_assoc, List.nil_append]
            -- start tag, content, end tag, the rest
            have htok := readTok_open nm a (serParts void kids ++ (60 :: 47 :: (nm ++ 62 :: (serParts void r ++ R)))) false hnm ha
            simp only [Bool.false_eq_true, if_false] at htok
            rw [read_step _ _ _ htok (by simp only [List.length_cons, List.length_append]; omega)]
            have hkid := ih kids false (60 :: 47 :: (nm ++ 62 :: (serParts void r ++ R)))
              (by simp only [szParts, szNode] at hk; omega) hkids (Or.inr ⟨_, rfl⟩)
            rw [hkid]
            have hcl := readTok_close nm (serParts void r ++ R) hnm
            rw [read_step _ _ _ hcl (by simp only [List.length_cons, List.length_append]; omega), hrest]
            cases read R <;> simp

/-- the same for a whole content: nothing follows -/
theorem read_content (void : List B → Bool) (ps : List (Part Node)) (hw : wfParts false ps = true) :
    read (serParts void ps) = some (evParts void ps) := by
  have := read_serParts void (szParts ps) ps false [] (Nat.le_refl _) hw (Or.inl rfl)
  simpa [read_nil] using this

end Gomjml.Mixed

/-! ### the Model is its core on tidy trees -/

namespace Gomjml.Mixed
open Gomjml.Amp Gomjml.CharData Gomjml.InlineCss Gomjml.Lengths

/-- a byte no white-space character ends with (ASCII, not white space) -/
def plainR (b : B) : Bool := !isAsciiSp b && b < 128

theorem spaceLenRev_plainR (b : B) (r : List B) (h : plainR b = true) : spaceLenRev (b :: r) = 0 := by
  simp only [plainR, isAsciiSp, Bool.and_eq_true, Bool.not_eq_true', Bool.or_eq_false_iff, beq_eq_false_iff_ne, ne_eq,
    decide_eq_true_eq] at h
  obtain ⟨⟨⟨⟨⟨⟨h9, h10⟩, h11⟩, h12⟩, h13⟩, h32⟩, hlt⟩ := h
  unfold spaceLenRev
  split <;> first | rfl | (simp_all) | skip
  all_goals (try (exfalso; revert hlt; decide))
  all_goals
    refine ⟨⟨⟨fun h => ?_, ?_⟩, ?_⟩, ?_⟩
    · exfalso
      have h1 := UInt8.lt_iff_toNat_lt.mp hlt
      have h2 := UInt8.le_iff_toNat_le.mp h
      simp at h1 h2; omega
    all_goals (rintro rfl; revert hlt; decide)

theorem trimSpace_id (s : List B) (h1 : ∀ b r, s = b :: r → plain b = true)
    (h2 : ∀ b r, s.reverse = b :: r → plainR b = true) : trimSpace s = s := by
  cases s with
  | nil => simp [trimSpace, trimLeftF, trimRightRevF]
  | cons b r =>
    have hl : trimLeftF (b :: r).length (b :: r) = b :: r := by
      simp only [List.length_cons, trimLeftF, spaceLen_plain b r (h1 b r rfl), if_true]
    unfold trimSpace
    simp only [hl]
    cases hrev : (b :: r).reverse with
    | nil => simp at hrev
    | cons c t =>
      have hc := h2 c t hrev
      have : trimRightRevF (b :: r).length (c :: t) = c :: t := by
        simp only [List.length_cons, trimRightRevF, spaceLenRev_plainR c t hc, if_true]
      rw [this, ← hrev, List.reverse_reverse]

/-- the first byte of a text run that nothing is trimmed from (no white space, does not start a white-space character) -/
def textStartOK : List B → Bool
  | [] => false
  | b :: _ => plain b
/-- … and its last byte -/
def textEndOK (s : List B) : Bool :=
  match s.reverse with
  | [] => false
  | b :: _ => plainR b

def edgeOK (ps : List (Part Node)) : Bool :=
  (match ps with
   | .text s :: _ => textStartOK s
   | _ => true) &&
  (match ps.getLast? with
   | some (.text s) => textEndOK s
   | _ => true)

mutual
  def tidyNode : Node → Bool
    | .mk _ _ ps => edgeOK ps && tidyList ps
  def tidyList : List (Part Node) → Bool
    | [] => true
    | .text _ :: r => tidyList r
    | .node n :: r => tidyNode n && tidyList r
end

/-- no level of the tree begins or ends with a text run that begins / ends with white space -/
def tidy (ps : List (Part Node)) : Bool := edgeOK ps && tidyList ps

theorem plain_not_ws (b : B) (h : plain b = true) : asciiWs b = false := by
  simp only [plain, isAsciiSp, Bool.and_eq_true, Bool.not_eq_true', Bool.or_eq_false_iff, beq_eq_false_iff_ne, ne_eq] at h
  simp only [asciiWs, Bool.or_eq_false_iff, beq_eq_false_iff_ne, ne_eq]
  obtain ⟨⟨⟨⟨⟨⟨⟨⟨⟨h9, h10⟩, _⟩, _⟩, h13⟩, h32⟩, _⟩, _⟩, _⟩, _⟩ := h
  exact ⟨⟨⟨h32, h10⟩, h13⟩, h9⟩

theorem plainR_not_ws (b : B) (h : plainR b = true) : asciiWs b = false := by
  simp only [plainR, isAsciiSp, Bool.and_eq_true, Bool.not_eq_true', Bool.or_eq_false_iff, beq_eq_false_iff_ne, ne_eq] at h
  simp only [asciiWs, Bool.or_eq_false_iff, beq_eq_false_iff_ne, ne_eq]
  obtain ⟨⟨⟨⟨⟨⟨h9, h10⟩, _⟩, _⟩, h13⟩, h32⟩, _⟩ := h
  exact ⟨⟨⟨h32, h10⟩, h13⟩, h9⟩

theorem trimL_id (s : List B) (h : textStartOK s = true) : trimL s = s := by
  cases s with
  | nil => simp [textStartOK] at h
  | cons b r => simp [trimL, List.dropWhile, plain_not_ws b h]

theorem trimR_id (s : List B) (h : textEndOK s = true) : trimR s = s := by
  unfold textEndOK at h
  unfold trimR
  cases hr : s.reverse with
  | nil => simp [hr] at h
  | cons b r =>
    simp only [hr] at h
    simp only [List.dropWhile, plainR_not_ws b h]
    rw [← hr, List.reverse_reverse]

/-- the loop of the Go function writes the core serialisation when nothing is trimmed at the ends and the children's
    contents are their core serialisations -/
theorem loop_eq_ser (void : List B → Bool) (inner : List (Part Node) → List B) : ∀ (ps : List (Part Node)) (i n : Nat),
    n = i + ps.length →
    (∀ s r, i = 0 → ps = .text s :: r → trimL s = s) →
    (∀ s, ps.getLast? = some (.text s) → trimR s = s) →
    (∀ nm a kids, Part.node (.mk nm a kids) ∈ ps → inner kids = serParts void kids) →
    loop void inner ps i n = serParts void ps
  | [], _, _, _, _, _, _ => by simp [loop, serParts]
  | .text s :: r, i, n, hn, h1, h2, h3 => by
    have ih := loop_eq_ser void inner r (i + 1) n (by simp only [List.length_cons] at hn; omega)
      (fun _ _ h0 _ => by omega)
      (fun t ht => h2 t (by
        cases r with
        | nil => simp at ht
        | cons q r' => simpa [List.getLast?_cons_cons] using ht))
      (fun nm a kids hm => h3 nm a kids (by simp [hm]))
    simp only [loop, serParts, ih]
    congr 1
    have e1 : (if i = 0 then trimL s else s) = s := by
      split
      · rename_i h0; exact h1 s r h0 rfl
      · rfl
    rw [e1]
    split
    · rename_i hl
      have hr : r = [] := by
        simp only [List.length_cons] at hn
        cases r with
        | nil => rfl
        | cons q r' => simp only [List.length_cons] at hn; omega
      subst hr
      rw [h2 s (by simp)]
    · rfl
  | .node (.mk nm a kids) :: r, i, n, hn, h1, h2, h3 => by
    have ih := loop_eq_ser void inner r (i + 1) n (by simp only [List.length_cons] at hn; omega)
      (fun _ _ h0 _ => by omega)
      (fun t ht => h2 t (by
        cases r with
        | nil => simp at ht
        | cons q r' => simpa [List.getLast?_cons_cons] using ht))
      (fun nm' a' kids' hm => h3 nm' a' kids' (by simp [hm]))
    have hk := h3 nm a kids (by simp)
    simp only [loop, serParts, serNode, ih, hk]

theorem edgeOK_first (ps : List (Part Node)) (h : edgeOK ps = true) (s : List B) (r : List (Part Node))
    (hp : ps = .text s :: r) : textStartOK s = true := by
  subst hp
  simp only [edgeOK, Bool.and_eq_true] at h
  exact h.1

theorem edgeOK_last (ps : List (Part Node)) (h : edgeOK ps = true) (s : List B)
    (hp : ps.getLast? = some (.text s)) : textEndOK s = true := by
  simp only [edgeOK, Bool.and_eq_true, hp] at h
  exact h.2

/-- the first byte written is not white space and starts no white-space character -/
theorem serParts_head_plain (void : List B → Bool) (ps : List (Part Node)) (h : edgeOK ps = true) :
    ∀ c t, serParts void ps = c :: t → plain c = true := by
  intro c t hc
  cases ps with
  | nil => simp [serParts] at hc
  | cons p r =>
    cases p with
    | text s =>
      have hs := edgeOK_first _ h s r rfl
      cases s with
      | nil => simp [textStartOK] at hs
      | cons b s' =>
        simp only [textStartOK] at hs
        simp only [serParts, escape, List.flatMap_cons, List.append_assoc] at hc
        unfold escB at hc
        split at hc
        · simp only [eAmp, List.cons_append, List.cons.injEq] at hc; rw [← hc.1]; decide
        · split at hc
          · simp only [eLt, List.cons_append, List.cons.injEq] at hc; rw [← hc.1]; decide
          · split at hc
            · simp only [eGt, List.cons_append, List.cons.injEq] at hc; rw [← hc.1]; decide
            · simp only [List.cons_append, List.nil_append, List.cons.injEq] at hc; rw [← hc.1]; exact hs
    | node n =>
      cases n with
      | mk nm a kids =>
        simp only [serParts, serNode] at hc
        split at hc <;> (simp only [List.cons_append, List.cons.injEq] at hc; rw [← hc.1]; decide)

theorem escB_last (b : B) (h : plainR b = true) : ∃ pre c, escB b = pre ++ [c] ∧ plainR c = true := by
  unfold escB
  split
  · exact ⟨[38, 97, 109, 112], 59, rfl, by decide⟩
  · split
    · exact ⟨[38, 108, 116], 59, rfl, by decide⟩
    · split
      · exact ⟨[38, 103, 116], 59, rfl, by decide⟩
      · exact ⟨[], b, rfl, h⟩

/-- … and the last byte written ends no white-space character -/
theorem serParts_last_plainR (void : List B → Bool) : ∀ (ps : List (Part Node)), ps ≠ [] →
    (∀ s, ps.getLast? = some (.text s) → textEndOK s = true) →
    ∃ pre c, serParts void ps = pre ++ [c] ∧ plainR c = true
  | [], h, _ => absurd rfl h
  | [p], _, hl => by
    cases p with
    | text s =>
      have hs := hl s (by simp)
      unfold textEndOK at hs
      cases hr : s.reverse with
      | nil => simp [hr] at hs
      | cons b r' =>
        simp only [hr] at hs
        have hsr : s = r'.reverse ++ [b] := by
          have := congrArg List.reverse hr
          simpa using this
        obtain ⟨pre, c, he, hc⟩ := escB_last b hs
        refine ⟨escape r'.reverse ++ pre, c, ?_, hc⟩
        simp only [serParts, List.append_nil, hsr, escape, List.flatMap_append, List.flatMap_cons, List.flatMap_nil, he,
          List.append_assoc]
    | node n =>
      cases n with
      | mk nm a kids =>
        simp only [serParts, serNode, List.append_nil]
        split
        · exact ⟨60 :: (nm ++ (serAttrs a ++ [32, 47])), 62, by simp, by decide⟩
        · exact ⟨60 :: (nm ++ (serAttrs a ++ 62 :: (serParts void kids ++ 60 :: 47 :: nm))), 62, by simp, by decide⟩
  | p :: q :: r, _, hl => by
    obtain ⟨pre, c, he, hc⟩ := serParts_last_plainR void (q :: r) (by simp)
      (fun s hs => hl s (by simpa [List.getLast?_cons_cons] using hs))
    cases p with
    | text s => exact ⟨escape s ++ pre, c, by simp only [serParts] at he ⊢; rw [he, List.append_assoc], hc⟩
    | node n => exact ⟨serNode void n ++ pre, c, by simp only [serParts] at he ⊢; rw [he, List.append_assoc], hc⟩

theorem mem_node_facts : ∀ (ps : List (Part Node)) (nm : List B) (a : List (List B × List B)) (kids : List (Part Node)),
    Part.node (.mk nm a kids) ∈ ps → depthParts kids + 1 ≤ depthParts ps ∧ (tidyList ps = true → tidy kids = true)
  | [], _, _, _, h => by simp at h
  | .text s :: r, nm, a, kids, h => by
    have hm : Part.node (.mk nm a kids) ∈ r := by simpa using h
    have := mem_node_facts r nm a kids hm
    simp only [depthParts, tidyList]
    exact this
  | .node n :: r, nm, a, kids, h => by
    simp only [List.mem_cons] at h
    rcases h with h | h
    · have hn : n = .mk nm a kids := by injection h with h'; exact h'.symm
      subst hn
      simp only [depthParts, depthNode, tidyList, tidyNode, Bool.and_eq_true, tidy]
      exact ⟨by omega, fun ht => ht.1⟩
    · have := mem_node_facts r nm a kids h
      simp only [depthParts, tidyList, Bool.and_eq_true]
      exact ⟨by omega, fun ht => this.2 ht.2⟩

/-- **the Model is its core**: on a tree no level of which begins or ends with white space, `GetMixedContent` writes exactly
    the core serialisation — so the round trip is a statement about what the real function returns -/
theorem content_tidy (void : List B → Bool) : ∀ (f : Nat) (ps : List (Part Node)), depthParts ps ≤ f → tidy ps = true →
    content void (f + 1) ps = serParts void ps := by
  intro f
  induction f with
  | zero =>
    intro ps hd ht
    simp only [tidy, Bool.and_eq_true] at ht
    have hloop := loop_eq_ser void (content void 0) ps 0 ps.length (by simp)
      (fun s r _ hp => trimL_id s (edgeOK_first ps ht.1 s r hp))
      (fun s hp => trimR_id s (edgeOK_last ps ht.1 s hp))
      (fun nm a kids hm => by have := (mem_node_facts ps nm a kids hm).1; omega)
    show Gomjml.InlineCss.trimSpace (loop void (content void 0) ps 0 ps.length) = _
    rw [hloop]
    apply trimSpace_id
    · intro b r hb; exact serParts_head_plain void ps ht.1 b r hb
    · intro b r hb
      cases ps with
      | nil => simp [serParts] at hb
      | cons p q =>
        obtain ⟨pre, c, he, hc⟩ := serParts_last_plainR void (p :: q) (by simp) (fun s hs => edgeOK_last _ ht.1 s hs)
        rw [he] at hb
        simp only [List.reverse_append, List.reverse_cons, List.reverse_nil, List.nil_append, List.cons_append,
          List.cons.injEq] at hb
        rw [← hb.1]; exact hc
  | succ g ih =>
    intro ps hd ht
    simp only [tidy, Bool.and_eq_true] at ht
    have hloop := loop_eq_ser void (content void (g + 1)) ps 0 ps.length (by simp)
      (fun s r _ hp => trimL_id s (edgeOK_first ps ht.1 s r hp))
      (fun s hp => trimR_id s (edgeOK_last ps ht.1 s hp))
      (fun nm a kids hm => by
        have hf := mem_node_facts ps nm a kids hm
        exact ih kids (by omega) (hf.2 ht.2))
    show Gomjml.InlineCss.trimSpace (loop void (content void (g + 1)) ps 0 ps.length) = _
    rw [hloop]
    apply trimSpace_id
    · intro b r hb; exact serParts_head_plain void ps ht.1 b r hb
    · intro b r hb
      cases ps with
      | nil => simp [serParts] at hb
      | cons p q =>
        obtain ⟨pre, c, he, hc⟩ := serParts_last_plainR void (p :: q) (by simp) (fun s hs => edgeOK_last _ ht.1 s hs)
        rw [he] at hb
        simp only [List.reverse_append, List.reverse_cons, List.reverse_nil, List.nil_append, List.cons_append,
          List.cons.injEq] at hb
        rw [← hb.1]; exact hc

end Gomjml.Mixed
