import Gomjml.Props.C11
#print axioms Gomjml.Props.C11.C11_classes
#print axioms Gomjml.Props.C11.C11_width_encoded
#print axioms Gomjml.Props.C11.C11_font_lookup
#print axioms Gomjml.Props.C11.C11_search_reaches
#print axioms Gomjml.Props.C11.C11_search_complete
#print axioms Gomjml.Props.C11.C11_detection_covers_builders
#print axioms Gomjml.Props.C11.C11_detectors
