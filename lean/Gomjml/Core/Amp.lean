namespace Gomjml.Amp
/-! Prototype for C18/C12: `escapeAttributeAmpersands` as a structural byte scanner, and two laws. -/

abbrev B := UInt8

def amp : B := 38      -- '&'
def semi : B := 59     -- ';'
def lt : B := 60
def gt : B := 62
def dq : B := 34
def sq : B := 39

/-- `isEntityTerminator` -/
def isTerm (b : B) : Bool :=
  b == semi || b == amp || b == 32 || b == 10 || b == 9 || b == dq || b == sq || b == lt || b == gt

/-- `isValidEntity` is a parameter here (a fixed table + numeric forms in the real model) -/
structure Ent where
  valid : List B → Bool

/-- does `rest` start with `name;` for a valid entity name?  (the look-ahead of the Go loop) -/
def entityAhead (E : Ent) (rest : List B) : Bool :=
  let name := rest.takeWhile (fun b => !isTerm b)
  match rest.dropWhile (fun b => !isTerm b) with
  | b :: _ => b == semi && E.valid name
  | [] => false

def ampEsc : List B := [amp, 97, 109, 112, semi]   -- "&amp;"

/-- the scanner; `quote = 0` means "not inside a quoted attribute value" -/
def esc (E : Ent) : (inTag : Bool) → (quote : B) → List B → List B
  | _, _, [] => []
  | inTag, q, b :: rest =>
    if q != 0 then
      if b == q then b :: esc E inTag 0 rest
      else if b == amp then
        (if entityAhead E rest then [b] else ampEsc) ++ esc E inTag q rest
      else b :: esc E inTag q rest
    else
      let inTag' := if b == lt then true else if b == gt then false else inTag
      let q' := if (b == dq || b == sq) && inTag then b else 0
      b :: esc E inTag' q' rest

/-- **Law 1**: without any `&` the pass is the identity. -/
theorem esc_noamp (E : Ent) : ∀ (s : List B) (inTag : Bool) (q : B), (∀ b ∈ s, b ≠ amp) → esc E inTag q s = s
  | [], _, _, _ => rfl
  | b :: rest, inTag, q, h => by
    have hb : b ≠ amp := h b (by simp)
    have hr : ∀ x ∈ rest, x ≠ amp := fun x hx => h x (by simp [hx])
    unfold esc
    by_cases hq : q != 0
    · simp only [hq, ite_true]
      by_cases hbq : b == q
      · simp [hbq, esc_noamp E rest inTag 0 hr]
      · have : (b == amp) = false := by simpa using hb
        simp [hbq, this, esc_noamp E rest inTag q hr]
    · simp only [hq, Bool.false_eq_true, ite_false]
      simp [esc_noamp E rest _ _ hr]

/-- **Law 2**: outside quoted attribute values nothing changes (bytes are only rewritten while `quote ≠ 0`);
    stated for a text that contains no quote character at all. -/
theorem esc_noquote (E : Ent) : ∀ (s : List B) (inTag : Bool), (∀ b ∈ s, b ≠ dq ∧ b ≠ sq) → esc E inTag 0 s = s
  | [], _, _ => rfl
  | b :: rest, inTag, h => by
    have hb := h b (by simp)
    have hr : ∀ x ∈ rest, x ≠ dq ∧ x ≠ sq := fun x hx => h x (by simp [hx])
    unfold esc
    have h1 : (b == dq) = false := by simpa using hb.1
    have h2 : (b == sq) = false := by simpa using hb.2
    simp [h1, h2, esc_noquote E rest _ hr]

end Gomjml.Amp

namespace Gomjml.Amp

/-- `&amp;` is an entity the scanner leaves alone (given that `amp` is a valid entity name) -/
theorem entityAhead_amp (E : Ent) (hE : E.valid [97, 109, 112] = true) (rest : List B) :
    entityAhead E (97 :: 109 :: 112 :: semi :: rest) = true := by
  simp [entityAhead, isTerm, semi, amp, dq, sq, lt, gt, List.takeWhile, List.dropWhile, hE]

/-- inside a quoted value an ordinary byte (not the quote, not `&`) is copied -/
theorem esc_copy (E : Ent) (inTag : Bool) (q b : B) (rest : List B) (hq : (q != 0) = true) (hbq : (b == q) = false) (hba : (b == amp) = false) :
    esc E inTag q (b :: rest) = b :: esc E inTag q rest := by
  rw [esc]; simp [hq, hbq, hba]

/-- … and at an `&` the look-ahead decides -/
theorem esc_at_amp (E : Ent) (inTag : Bool) (q : B) (rest : List B) (hq : (q != 0) = true) (haq : (amp == q) = false) :
    esc E inTag q (amp :: rest) = (if entityAhead E rest then [amp] else ampEsc) ++ esc E inTag q rest := by
  rw [esc]; simp [hq, haq]

/-- `&amp;` itself is left exactly as written -/
theorem esc_amp_entity (E : Ent) (hE : E.valid [97, 109, 112] = true) (inTag : Bool) (q : B) (hq : q = dq ∨ q = sq) (rest : List B) :
    esc E inTag q (ampEsc ++ rest) = ampEsc ++ esc E inTag q rest := by
  have hamp := entityAhead_amp E hE rest
  have hq0 : (q != 0) = true := by rcases hq with rfl | rfl <;> decide
  have haq : (amp == q) = false := by rcases hq with rfl | rfl <;> decide
  have c1 : ((97 : B) == q) = false := by rcases hq with rfl | rfl <;> decide
  have c2 : ((109 : B) == q) = false := by rcases hq with rfl | rfl <;> decide
  have c3 : ((112 : B) == q) = false := by rcases hq with rfl | rfl <;> decide
  have c4 : (semi == q) = false := by rcases hq with rfl | rfl <;> decide
  show esc E inTag q (amp :: 97 :: 109 :: 112 :: semi :: rest) = amp :: 97 :: 109 :: 112 :: semi :: esc E inTag q rest
  rw [esc_at_amp E inTag q _ hq0 haq, hamp, esc_copy E inTag q 97 _ hq0 c1 (by decide), esc_copy E inTag q 109 _ hq0 c2 (by decide),
    esc_copy E inTag q 112 _ hq0 c3 (by decide), esc_copy E inTag q semi _ hq0 c4 (by decide)]
  rfl

/-- **a bare ampersand in an attribute value is read like `&amp;`**: inside a quoted value (either kind of quote), at a place
    where no entity follows, the scanner's output for `&…` and for `&amp;…` is the same — byte for byte, whatever comes after -/
theorem esc_bare_amp (E : Ent) (hE : E.valid [97, 109, 112] = true) (inTag : Bool) (q : B) (hq : q = dq ∨ q = sq)
    (rest : List B) (h : entityAhead E rest = false) :
    esc E inTag q (amp :: rest) = esc E inTag q (ampEsc ++ rest) := by
  have hq0 : (q != 0) = true := by rcases hq with rfl | rfl <;> decide
  have haq : (amp == q) = false := by rcases hq with rfl | rfl <;> decide
  rw [esc_amp_entity E hE inTag q hq rest, esc_at_amp E inTag q rest hq0 haq, h]
  rfl

end Gomjml.Amp
