import Gomjml.Props.C02
#print axioms Gomjml.Props.C02.C02_full
#print axioms Gomjml.Props.C02.C02_combined
#print axioms Gomjml.Layout.C02_C03_all
#print axioms Gomjml.Layout.wf_spec
