import Gomjml.Props.C02
#print axioms Gomjml.Props.C02.C02_full
#print axioms Gomjml.Props.C02.C02_combined
#print axioms Gomjml.Layout.C02_C03_all
#print axioms Gomjml.Layout.wf_spec
#print axioms Gomjml.Props.C02.C02_components
#print axioms Gomjml.Props.C02.C02_component_inert
#print axioms Gomjml.Expand.expand_spec
