import Gomjml.Core.Amp
/-! Byte-exact model of `mjml/inline_styles.go`: from the text of the `<mj-style inline="inline">` blocks to the table
    "class name ↦ declarations" the renderer inlines (`collectInlineClassStyles`, `parseInlineCSSRules`,
    `parseInlineSelectors`, `parseInlineDeclarations`, `extractInlineClass`), and its specification: the declarations of a
    class are the declarations of every rule that names the class as a lone selector, once per naming, in source order —
    whatever else the rules name, however they are grouped, whatever was appended to whichever list before. -/
namespace Gomjml.InlineCss
open Gomjml.Amp

/-! ### `strings.TrimSpace` on UTF-8 bytes: ASCII white space and the Unicode `White_Space` characters -/

/-- length of the white-space character at the head of `s` (0 if there is none) -/
def spaceLen : List B → Nat
  | 9 :: _ | 10 :: _ | 11 :: _ | 12 :: _ | 13 :: _ | 32 :: _ => 1
  | 0xC2 :: 0x85 :: _ | 0xC2 :: 0xA0 :: _ => 2
  | 0xE1 :: 0x9A :: 0x80 :: _ => 3
  | 0xE2 :: 0x80 :: c :: _ => if (0x80 ≤ c && c ≤ 0x8A) || c == 0xA8 || c == 0xA9 || c == 0xAF then 3 else 0
  | 0xE2 :: 0x81 :: 0x9F :: _ => 3
  | 0xE3 :: 0x80 :: 0x80 :: _ => 3
  | _ => 0

/-- the same at the end of the text, given reversed -/
def spaceLenRev : List B → Nat
  | 9 :: _ | 10 :: _ | 11 :: _ | 12 :: _ | 13 :: _ | 32 :: _ => 1
  | 0x85 :: 0xC2 :: _ | 0xA0 :: 0xC2 :: _ => 2
  | 0x80 :: 0x9A :: 0xE1 :: _ => 3
  | 0x9F :: 0x81 :: 0xE2 :: _ => 3
  | 0x80 :: 0x80 :: 0xE3 :: _ => 3
  | c :: 0x80 :: 0xE2 :: _ => if (0x80 ≤ c && c ≤ 0x8A) || c == 0xA8 || c == 0xA9 || c == 0xAF then 3 else 0
  | _ => 0

def trimLeftF : Nat → List B → List B
  | 0, s => s
  | fuel + 1, s => if spaceLen s = 0 then s else trimLeftF fuel (s.drop (spaceLen s))

def trimRightRevF : Nat → List B → List B
  | 0, s => s
  | fuel + 1, s => if spaceLenRev s = 0 then s else trimRightRevF fuel (s.drop (spaceLenRev s))

def trimSpace (s : List B) : List B :=
  let l := trimLeftF s.length s
  (trimRightRevF l.length l.reverse).reverse

/-! ### `strings.Split` on one byte, `strings.Index` of one byte -/

def splitOn (sep : B) : List B → List (List B)
  | [] => [[]]
  | b :: r =>
    if b == sep then [] :: splitOn sep r
    else match splitOn sep r with
      | [] => [[b]]          -- unreachable
      | h :: t => (b :: h) :: t

def indexOf (c : B) : List B → Option Nat
  | [] => none
  | b :: r => if b == c then some 0 else (indexOf c r).map (· + 1)

/-! ### the parser -/

structure Decl where
  prop : List B
  val : List B
deriving DecidableEq, Repr

structure Rule where
  sels : List (List B)
  decls : List Decl
deriving Repr

/-- `parseInlineSelectors` -/
def parseSelectors (part : List B) : List (List B) :=
  if part = [] then [] else ((splitOn 44 part).map trimSpace).filter (· ≠ [])

/-- `parseInlineDeclarations` -/
def parseDecls (part : List B) : List Decl :=
  (splitOn 59 part).filterMap fun p =>
    let t := trimSpace p
    if t = [] then none else
    match indexOf 58 t with
    | none => none
    | some k =>
      let pr := trimSpace (t.take k)
      let v := trimSpace (t.drop (k + 1))
      if pr = [] || v = [] then none else some ⟨pr, v⟩

/-- the loop of `parseInlineCSSRules` over the (already trimmed) text -/
def parseRulesF : Nat → List B → List Rule
  | 0, _ => []
  | fuel + 1, text =>
    if text = [] then [] else
    match indexOf 123 text with
    | none => []
    | some st =>
      let selPart := trimSpace (text.take st)
      let rest := text.drop (st + 1)
      let (declPart, rest') := match indexOf 125 rest with
        | none => (rest, [])
        | some e => (rest.take e, rest.drop (e + 1))
      let sels := parseSelectors selPart
      let ds := parseDecls declPart
      if sels = [] || ds = [] then parseRulesF fuel rest' else ⟨sels, ds⟩ :: parseRulesF fuel rest'

def parseRules (css : List B) : List Rule :=
  let t := trimSpace css
  parseRulesF (t.length + 1) t

/-- the characters after which a selector is more than a lone class: ` \t\n\r.#:>+~[*,` -/
def combinators : List B := [32, 9, 10, 13, 46, 35, 58, 62, 43, 126, 91, 42, 44]

/-- `extractInlineClass` -/
def extractClass (sel : List B) : Option (List B) :=
  match trimSpace sel with
  | 46 :: name => if name = [] || name.any (combinators.contains ·) then none else some name
  | _ => none

/-! ### the table: an association list with Go's `m[k] = append(m[k], xs...)` -/

abbrev Table := List (List B × List Decl)

def Table.get (t : Table) (c : List B) : List Decl :=
  match t with
  | [] => []
  | (k, v) :: r => if k = c then v else Table.get r c

def Table.app (t : Table) (c : List B) (ds : List Decl) : Table :=
  match t with
  | [] => [(c, ds)]
  | (k, v) :: r => if k = c then (k, v ++ ds) :: r else (k, v) :: Table.app r c ds

/-- one rule: every selector that is a lone class gets the rule's declarations appended -/
def addRule (t : Table) (r : Rule) : Table :=
  r.sels.foldl (fun acc s => match extractClass s with | some c => acc.app c r.decls | none => acc) t

/-- `collectInlineClassStyles` over the texts of the inline blocks, in document order -/
def collect (texts : List (List B)) : Table := (texts.flatMap parseRules).foldl addRule []

/-! ### specification and proof -/

/-- what a class gets from one rule: the rule's declarations once per selector that names the class alone -/
def fromRule (c : List B) (r : Rule) : List Decl :=
  r.sels.flatMap fun s => if extractClass s = some c then r.decls else []

/-- **the Spec**: the declarations of every rule naming the class, in source order -/
def spec (texts : List (List B)) (c : List B) : List Decl := (texts.flatMap parseRules).flatMap (fromRule c)

theorem get_app_same : ∀ (t : Table) (c : List B) (ds : List Decl), (t.app c ds).get c = t.get c ++ ds
  | [], c, ds => by simp [Table.app, Table.get]
  | (k, v) :: r, c, ds => by
    unfold Table.app
    by_cases h : k = c
    · simp [h, Table.get]
    · simp [h, Table.get, get_app_same r c ds]

theorem get_app_other : ∀ (t : Table) (c d : List B) (ds : List Decl), d ≠ c → (t.app d ds).get c = t.get c
  | [], c, d, ds, h => by simp [Table.app, Table.get, h]
  | (k, v) :: r, c, d, ds, h => by
    unfold Table.app
    by_cases hk : k = d
    · subst hk; simp [Table.get, h]
    · by_cases hc : k = c
      · subst hc
        have hk' : ¬ (k = d) := hk
        simp [hk', Table.get]
      · simp [hk, hc, Table.get, get_app_other r c d ds h]

theorem addSels_get (c : List B) (ds : List Decl) : ∀ (sels : List (List B)) (t : Table),
    (sels.foldl (fun acc s => match extractClass s with | some c' => acc.app c' ds | none => acc) t).get c =
      t.get c ++ sels.flatMap (fun s => if extractClass s = some c then ds else [])
  | [], t => by simp
  | s :: r, t => by
    simp only [List.foldl_cons, List.flatMap_cons]
    rw [addSels_get c ds r]
    cases he : extractClass s with
    | none => simp
    | some c' =>
      by_cases hc : c' = c
      · subst hc; simp [get_app_same, List.append_assoc]
      · have : ¬ (some c' = some c) := by simpa using hc
        simp [get_app_other _ c c' ds hc, hc]

theorem addRule_get (t : Table) (r : Rule) (c : List B) : (addRule t r).get c = t.get c ++ fromRule c r :=
  addSels_get c r.decls r.sels t

theorem foldl_addRule_get (c : List B) : ∀ (rs : List Rule) (t : Table),
    (rs.foldl addRule t).get c = t.get c ++ rs.flatMap (fromRule c)
  | [], t => by simp
  | r :: rs, t => by
    simp only [List.foldl_cons, List.flatMap_cons]
    rw [foldl_addRule_get c rs, addRule_get, List.append_assoc]

/-- **the table is the Spec**, for every list of style texts and every class name -/
theorem collect_spec (texts : List (List B)) (c : List B) : (collect texts).get c = spec texts c := by
  unfold collect spec
  rw [foldl_addRule_get]
  simp [Table.get]

/-- a selector is inlined only as a lone class: a dot, a non-empty name, nothing that continues the selector -/
theorem extractClass_lone (sel name : List B) (h : extractClass sel = some name) :
    trimSpace sel = 46 :: name ∧ name ≠ [] ∧ ∀ b ∈ name, b ∉ combinators := by
  unfold extractClass at h
  split at h
  · rename_i nm heq
    split at h
    · simp at h
    · rename_i hc
      simp only [Option.some.injEq] at h
      subst h
      simp only [Bool.or_eq_true, decide_eq_true_eq, List.any_eq_true, not_or, not_exists, not_and] at hc
      refine ⟨heq, hc.1, fun b hb hin => ?_⟩
      exact hc.2 b hb (by simpa using hin)
  · simp at h

/-- every declaration the parser keeps has a property and a value (a rule never contributes a half-empty declaration) -/
theorem parseDecls_nonempty (part : List B) : ∀ d ∈ parseDecls part, d.prop ≠ [] ∧ d.val ≠ [] := by
  intro d hd
  unfold parseDecls at hd
  rw [List.mem_filterMap] at hd
  obtain ⟨p, _, hp⟩ := hd
  simp only at hp
  split at hp
  · simp at hp
  · split at hp
    · simp at hp
    · rename_i k _
      split at hp
      · simp at hp
      · rename_i hne
        simp only [Option.some.injEq] at hp
        subst hp
        simp only [Bool.or_eq_true, decide_eq_true_eq, not_or] at hne
        exact hne

/-- … and so does every entry of the table: nothing but kept declarations of parsed rules gets in -/
theorem spec_mem (texts : List (List B)) (c : List B) : ∀ d ∈ spec texts c, ∃ t ∈ texts, ∃ r ∈ parseRules t, d ∈ r.decls := by
  intro d hd
  unfold spec at hd
  rw [List.mem_flatMap] at hd
  obtain ⟨r, hr, hdr⟩ := hd
  rw [List.mem_flatMap] at hr
  obtain ⟨t, ht, hrt⟩ := hr
  refine ⟨t, ht, r, hrt, ?_⟩
  unfold fromRule at hdr
  rw [List.mem_flatMap] at hdr
  obtain ⟨s, _, hs⟩ := hdr
  split at hs
  · exact hs
  · simp at hs

end Gomjml.InlineCss
