import Gomjml.Core.LayoutSpec
/-! # C03 — output is well-formed for Outlook: conditional content balanced (property theorems only) -/
namespace Gomjml.Props.C03
open Gomjml.Layout Gomjml.Spec

/-- **C03 on the tame fragment, for every tree**: what Outlook sees (conditional content spliced in) is strictly nested —
    every table, row, cell and VML shape opened inside a conditional is closed by a later conditional at the same depth. -/
theorem C03_partial (bs : List Block) (h : Tame bs false) : MsoWF ((render bs).map Tok.toG) :=
  (wf_spec _ (C02_C03_tame bs h)).2.1

/-- **C03 for every body whose wrappers are tame** -/
theorem C03_all_bodies (bs : List Block) (hw : WrappersTame bs) : MsoWF ((render bs).map Tok.toG) :=
  (wf_spec _ (C02_C03_all bs hw)).2.1

/-- non-vacuity: a wrapper with a coloured section, a raw and a right-aligned single column; a background-image section -/
example : Tame [.wrapper ⟨false, true, [.sec ⟨false, false, false, false, true, false, [.col ⟨false, [.text]⟩]⟩, .raw false,
                                        .sec ⟨false, false, true, false, false, false, [.col ⟨false, [.text]⟩]⟩]⟩,
                .section ⟨false, true, false, false, false, false, [.col ⟨true, [.text, .raw]⟩, .col ⟨false, []⟩]⟩] false := by
  simp [Tame, Wrapper.tame, secsOf, Section.emit, emitToks, secLeave, nextConsumes]

/-- **the full statement is false of the code**: the wrapper ↔ section Outlook hand-over is unbalanced for
    a wrapper whose only child is a blank raw … -/
example : ¬ MsoWF ((render [.wrapper ⟨false, false, [.raw true]⟩]).map Tok.toG) := by unfold MsoWF; decide
/-- … a full-width section with a background colour inside a wrapper … -/
example : ¬ MsoWF ((render [.wrapper ⟨false, false, [.sec ⟨true, false, false, false, true, false, []⟩]⟩]).map Tok.toG) := by
  unfold MsoWF; decide
/-- … a full-width section inside a coloured wrapper … -/
example : ¬ MsoWF ((render [.wrapper ⟨false, true, [.sec ⟨true, false, false, false, false, false, []⟩]⟩]).map Tok.toG) := by
  unfold MsoWF; decide
/-- … and mixes of consumer and non-consumer sections -/
example : ¬ MsoWF ((render [.wrapper ⟨false, false, [.sec ⟨false, false, false, false, false, false, []⟩,
                                                     .sec ⟨true, true, false, false, false, false, []⟩]⟩]).map Tok.toG) := by
  unfold MsoWF; decide

end Gomjml.Props.C03
