import Gomjml.Core.Cdata
import Gomjml.Core.Lines
import Driver.TagP
/-! driver sub-protocols for the parser's textual pre-passes: `amp`, `ent`, `strip`, `cdesc`, `wrap` (wrapMJTextContent), `pre` (all three passes in ParseMJML's order) (hex in, hex out) -/
open Gomjml.Passes

namespace Driver.PassP

def hexOfBytes (bs : List UInt8) : String :=
  String.mk (bs.flatMap (fun b => [Driver.TagP.hexDigit (b.toNat / 16), Driver.TagP.hexDigit (b.toNat % 16)]))

def run1 (f : List UInt8 → List UInt8) (args : List String) : String :=
  match args with
  | [h] => hexOfBytes (f (Driver.HtmlP.unhex h).toList)
  | [] => hexOfBytes (f [])
  | _ => "bad-request"

def handle (which : String) (args : List String) : String :=
  match which with
  | "amp" => run1 escapeAmp args
  | "ent" => run1 entities args
  | "strip" => run1 strip args
  | "cdesc" => run1 Rr args
  | "wrap" => run1 Gomjml.Lines.wrap args
  | "pre" => run1 Gomjml.Lines.preprocess args
  | "cdrt" => run1 (fun s => match cdataDecode (cdataWrap' s) with | some r => r | none => [33]) args
  | _ => "bad-request"

end Driver.PassP
