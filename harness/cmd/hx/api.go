package main

import (
	"bytes"
	"crypto/sha256"
	"encoding/hex"
	"encoding/json"
	"fmt"
	"os"
	"os/exec"
	"runtime"
	"sort"
	"strconv"
	"strings"
	"sync"
	"sync/atomic"
	"time"

	"github.com/preslavrachev/gomjml/mjml"
	"github.com/preslavrachev/gomjml/mjml/fonts"
	"github.com/preslavrachev/gomjml/mjml/styles"
	"github.com/preslavrachev/gomjml/parser"
)

// ===== child: a history of public API calls in a fresh process =====================================================

type apiJob struct {
	Docs []string `json:"docs"`
	Ops  []string `json:"ops"` // R<d> Render, C<d> Render+cache, D<d> Render+debug, W<d> RenderWithAST, F<d> RenderFromAST, N<d> NewFromAST, T<k> RenderComponentString; P<d> parse and keep the tree, X<d> RenderWithAST and keep its tree, A<k> RenderFromAST(kept tree k), M<k> NewFromAST(kept tree k)
	Full bool     `json:"full"`
}

type apiObs struct {
	Digest string `json:"digest"`
	Err    string `json:"err"`
	IDs    int    `json:"ids"`
	Panic  string `json:"panic,omitempty"`
	HTML   string `json:"html,omitempty"`
	// reports delivered to a reporter the CALLER supplied as an option (ops r w f n), "tag/attr/line;…"
	Reports string `json:"reports,omitempty"`
}

func digest(s string) string {
	h := sha256.Sum256([]byte(alphaIDs(s)))
	return hex.EncodeToString(h[:8])
}

func countIDs(s string) int {
	m := map[string]bool{}
	for _, id := range hexID.FindAllString(s, -1) {
		m[id] = true
	}
	return len(m)
}

func apiChild() {
	var job apiJob
	if err := json.NewDecoder(os.Stdin).Decode(&job); err != nil {
		os.Exit(2)
	}
	for i, d := range job.Docs {
		if raw, err := hex.DecodeString(d); err == nil {
			job.Docs[i] = string(raw)
		}
	}
	enc := json.NewEncoder(os.Stdout)
	var trees []mjml.Component
	var asts []*parser.MJMLNode // trees a caller parsed once and keeps (P, X), rendered any number of times (A, M)
	for _, op := range job.Ops {
		var o apiObs
		func() {
			defer func() {
				if p := recover(); p != nil {
					o.Panic = fmt.Sprint(p)
				}
			}()
			k, _ := strconv.Atoi(op[1:])
			var html string
			var err error
			var reports []string
			callerReporter := func(o *mjml.RenderOpts) {
				o.InvalidAttributeReporter = func(tag, attr string, line int) { reports = append(reports, fmt.Sprintf("%s/%s/%d", tag, attr, line)) }
			}
			defer func() { o.Reports = strings.Join(reports, ";") }()
			switch op[0] {
			case 'r':
				html, err = mjml.Render(job.Docs[k], callerReporter)
			case 'w':
				var rr *mjml.RenderResult
				rr, err = mjml.RenderWithAST(job.Docs[k], callerReporter)
				if rr != nil {
					html = rr.HTML
				}
			case 'f':
				var ast *parser.MJMLNode
				ast, err = mjml.ParseMJML(job.Docs[k])
				if err == nil {
					html, err = mjml.RenderFromAST(ast, callerReporter)
				}
			case 'n':
				var ast *parser.MJMLNode
				ast, err = mjml.ParseMJML(job.Docs[k])
				if err == nil {
					var c mjml.Component
					c, err = mjml.NewFromAST(ast, callerReporter)
					if err == nil {
						trees = append(trees, c)
					}
				}
			case 'R':
				html, err = mjml.Render(job.Docs[k])
			case 'C':
				html, err = mjml.Render(job.Docs[k], mjml.WithCache())
			case 'D':
				html, err = mjml.Render(job.Docs[k], mjml.WithDebugTags(true))
			case 'W':
				var rr *mjml.RenderResult
				rr, err = mjml.RenderWithAST(job.Docs[k])
				if rr != nil {
					html = rr.HTML
				}
			case 'F':
				var ast *parser.MJMLNode
				ast, err = mjml.ParseMJML(job.Docs[k])
				if err == nil {
					html, err = mjml.RenderFromAST(ast)
				}
			case 'N':
				var ast *parser.MJMLNode
				ast, err = mjml.ParseMJML(job.Docs[k])
				if err == nil {
					var c mjml.Component
					c, err = mjml.NewFromAST(ast)
					if err == nil {
						trees = append(trees, c)
					}
				}
			case 'P':
				var ast *parser.MJMLNode
				ast, err = mjml.ParseMJML(job.Docs[k])
				if err == nil {
					asts = append(asts, ast)
				}
			case 'X':
				var rr *mjml.RenderResult
				rr, err = mjml.RenderWithAST(job.Docs[k])
				if rr != nil {
					html = rr.HTML
					if rr.AST != nil {
						asts = append(asts, rr.AST)
					}
				}
			case 'A':
				if k < len(asts) {
					html, err = mjml.RenderFromAST(asts[k])
				} else {
					err = fmt.Errorf("no-ast")
				}
			case 'M':
				if k < len(asts) {
					var c mjml.Component
					c, err = mjml.NewFromAST(asts[k])
					if err == nil {
						trees = append(trees, c)
					}
				} else {
					err = fmt.Errorf("no-ast")
				}
			case 'T':
				if k < len(trees) {
					html, err = mjml.RenderComponentString(trees[k])
				} else {
					err = fmt.Errorf("no-tree")
				}
			}
			o.Digest = digest(html)
			if html == "" {
				o.Digest = "-"
			}
			o.IDs = countIDs(html)
			if err != nil {
				o.Err = err.Error()
			}
			if job.Full {
				o.HTML = html
			}
		}()
		enc.Encode(o)
	}
}

// runAPIChild runs a call history in a fresh process; a child starved past its limit on a saturated machine is run once more,
// alone and with three times the limit, before the run counts as failed (see runCacheChild)
func runAPIChild(job apiJob) ([]apiObs, string) {
	apiChildGate.RLock()
	obs, crash := runAPIChildOnce(job, 120*time.Second)
	apiChildGate.RUnlock()
	if strings.HasPrefix(crash, "timeout") {
		apiChildGate.Lock()
		obs, crash = runAPIChildOnce(job, 360*time.Second)
		apiChildGate.Unlock()
	}
	return obs, crash
}

var apiChildGate sync.RWMutex

func runAPIChildOnce(job apiJob, limit time.Duration) ([]apiObs, string) {
	self, _ := os.Executable()
	cmd := exec.Command(self, "apichild")
	// documents travel as hex: JSON would replace bytes that are not valid UTF-8
	hexJob := job
	hexJob.Docs = make([]string, len(job.Docs))
	for i, d := range job.Docs {
		hexJob.Docs[i] = hex.EncodeToString([]byte(d))
	}
	b, _ := json.Marshal(hexJob)
	cmd.Stdin = bytes.NewReader(b)
	var out, errb bytes.Buffer
	cmd.Stdout, cmd.Stderr = &out, &errb
	if err := cmd.Start(); err != nil {
		return nil, err.Error()
	}
	done := make(chan error, 1)
	go func() { done <- cmd.Wait() }()
	var werr error
	select {
	case werr = <-done:
	case <-time.After(limit):
		cmd.Process.Kill()
		werr = fmt.Errorf("timeout")
	}
	var obs []apiObs
	dec := json.NewDecoder(&out)
	for dec.More() {
		var o apiObs
		if dec.Decode(&o) != nil {
			break
		}
		obs = append(obs, o)
	}
	if werr != nil {
		return obs, werr.Error() + ": " + short(errb.String(), 500)
	}
	return obs, ""
}

// ===== C05 ====================================================================================================

func fontHeavyDoc(r *Rng, i int) *Node {
	d := genRich(r, &RichOpts{Head: true, MaxAttrs: 3, Features: true, CSSInline: i%3 == 0})
	// make sure several distinct web fonts are in play
	fams := []string{"Roboto", "Lato", "Open Sans", "Ubuntu", "Montserrat", "Roboto, Open Sans, sans-serif", "Lato, Roboto", "Open Sans, Lato, Arial"}
	k := 0
	d.Walk(func(n *Node) {
		switch n.Tag {
		case "mj-text", "mj-button", "mj-navbar-link", "mj-social-element", "mj-accordion-title", "mj-accordion-text":
			if r.Bool(2, 3) {
				n.Set("font-family", fams[(i+k)%len(fams)])
				k++
			}
		}
	})
	return d
}

func countTags(n *Node) (carousels, hamburgers int) {
	n.Walk(func(x *Node) {
		if x.Tag == "mj-carousel" {
			carousels++
		}
		if x.Tag == "mj-navbar" {
			if v, ok := x.Get("hamburger"); ok && v != "" {
				hamburgers++
			}
		}
	})
	return
}

func runC05(res *Result, tier string, seed int64, replay string) {
	res.Rule = "every document is also compiled right after compilations that FAILED (an element that cannot be rendered behind sections already written, in a hero, in a wrapper; a parse error; a validation error) and must return the same bytes; documents = seeded grammar documents biased to ≥2 distinct web-font families (stacks naming several mapped fonts included), several column widths, mj-class lists, global attributes, carousels and hamburger navbars, + all fixtures + documents that declare the same web font twice + every built-in social network by its plain name and its variants (-noshare, another suffix, upper case); each compiled N times in this process (sequentially) and once in each of P fresh processes that compile the whole list in different orders (one of them the exact reverse); + pairs of documents differing in one class of head content only (other mj-attributes / mj-class / inline rules / fonts, same body and author HTML); outputs compared byte-wise after α-renaming the 16-hex generated ids; per output the number of distinct ids must equal the number of carousels + hamburger navbars. Font lookup: real GetGoogleFontURL vs the Lean model `pick` on every family. Non-trivial = document with ≥2 distinct font families; distinct by source"
	nDocs, reps, procs := 150, 20, 4
	if tier == "thorough" {
		nDocs, reps, procs = 1500, 100, 12
	}
	type doc struct {
		name string
		src  string
		node *Node
	}
	var docs []doc
	if replay != "" {
		if src, ok := replayInput(replay); ok {
			docs = append(docs, doc{"replay", src, nil})
		}
		reps, procs = 200, 12
	} else {
		for _, f := range loadFixtures() {
			docs = append(docs, doc{"fixture:" + f.Name, f.MJML, nil})
		}
		for i := 0; i < nDocs; i++ {
			d := fontHeavyDoc(NewRng(seed, fmt.Sprintf("c05/%d", i)), i)
			docs = append(docs, doc{fmt.Sprintf("gen:%d", i), d.MJML(), d})
		}
		// columns with many children, each the first user of another web font (work split over goroutines would show as a
		// different order of the font imports), and sections with many columns
		for k, nkids := range []int{8, 12, 20, 40} {
			fams := []string{"Roboto", "Lato", "Open Sans", "Ubuntu", "Montserrat", "Droid Sans", "Raleway", "Oswald"}
			var kids, cols strings.Builder
			for j := 0; j < nkids; j++ {
				fmt.Fprintf(&kids, `<mj-text font-family="%s">t%d</mj-text>`, fams[(j*3+k)%len(fams)], j)
				fmt.Fprintf(&cols, `<mj-column><mj-button font-family="%s" href="u">b%d</mj-button></mj-column>`, fams[(j*5+k)%len(fams)], j)
			}
			docs = append(docs, doc{fmt.Sprintf("wide:column-%d", nkids), "<mjml><mj-body><mj-section><mj-column>" + kids.String() + "</mj-column></mj-section></mj-body></mjml>", nil})
			docs = append(docs, doc{fmt.Sprintf("wide:section-%d", nkids), "<mjml><mj-body><mj-section>" + cols.String() + "</mj-section><mj-hero>" + kids.String() + "</mj-hero></mj-body></mjml>", nil})
		}
		// every built-in social network by its plain name and by its variants (`-noshare`, another suffix, upper case): which
		// built-in icon / colour / share address a name resolves to must not depend on anything but the name
		{
			nets := []string{"facebook", "twitter", "x", "google", "pinterest", "linkedin", "instagram", "web", "snapchat", "youtube", "tumblr", "github", "xing", "vimeo", "medium", "soundcloud", "dribbble"}
			var plain, noshare, other strings.Builder
			for _, nme := range nets {
				fmt.Fprintf(&plain, `<mj-social-element name="%s" href="https://e.example/%s">%s</mj-social-element>`, nme, nme, nme)
				fmt.Fprintf(&noshare, `<mj-social-element name="%s-noshare" href="https://e.example/%s">%s</mj-social-element>`, nme, nme, nme)
				fmt.Fprintf(&other, `<mj-social-element name="%s-round" href="https://e.example/%s"/><mj-social-element name="%sX" href="u"/>`, nme, nme, strings.ToUpper(nme))
			}
			for nm, b := range map[string]string{"plain": plain.String(), "noshare": noshare.String(), "other": other.String()} {
				docs = append(docs, doc{"social-names:" + nm, "<mjml><mj-body><mj-section><mj-column><mj-social>" + b + "</mj-social><mj-social mode=\"vertical\">" + b + "</mj-social></mj-column></mj-section></mj-body></mjml>", nil})
			}
		}
		// inline rules for class names one of which is a prefix of the other, listed in both orders on components and in author HTML
		docs = append(docs, doc{"inline:prefix-class-names", `<mjml><mj-head><mj-style inline="inline">.note { color:#333333; font-size:13px; } .note-big { font-size:18px; } .n { margin:0; }</mj-style></mj-head><mj-body><mj-section><mj-column>` +
			`<mj-text css-class="note-big note">a</mj-text><mj-text css-class="note note-big n">b</mj-text><mj-text><p class="note-big note n">c</p><p class="n note note-big">d</p></mj-text>` +
			`<mj-button href="u" css-class="n note-big note">e</mj-button><mj-raw><i class="note-big n note">f</i></mj-raw></mj-column></mj-section></mj-body></mjml>`, nil})
		// the same web font declared twice (a head partial included twice), next to other declared and built-in fonts
		for k, head := range []string{
			`<mj-font name="Dup" href="https://f.example/dup.css"/><mj-font name="Dup" href="https://f.example/dup.css"/><mj-font name="Other" href="https://f.example/other.css"/>`,
			`<mj-font name="A" href="https://f.example/same.css"/><mj-font name="B" href="https://f.example/same.css"/><mj-font name="C" href="https://f.example/c.css"/><mj-font name="A" href="https://f.example/same.css"/>`,
		} {
			docs = append(docs, doc{fmt.Sprintf("fonts:declared-twice-%d", k), "<mjml><mj-head>" + head + `</mj-head><mj-body><mj-section><mj-column><mj-text font-family="Dup, A, Roboto">a</mj-text><mj-text font-family="Other, C, Lato">b</mj-text><mj-button font-family="Ubuntu" href="u">c</mj-button></mj-column></mj-section></mj-body></mjml>`, nil})
		}
		// "regardless of what was compiled before": pairs of documents that differ in one class of head content only (the same
		// body, the same author HTML, other mj-attributes / mj-class / inline rules / fonts …) — state kept from one compilation
		// under a key that misses the differing part shows when the two are compiled in the other order
		for _, ic := range isoClasses() {
			docs = append(docs, doc{"iso:" + ic.name + ":a", ic.a, nil}, doc{"iso:" + ic.name + ":b", ic.b, nil})
		}
	}
	// (1) repeated calls within this process, sequential
	base := make([]string, len(docs))
	for i, d := range docs {
		h, err := mjml.Render(d.src)
		e := ""
		if err != nil {
			e = err.Error()
		}
		base[i] = alphaIDs(h) + "\x00" + e
		fams := map[string]bool{}
		for _, m := range strings.Split(d.src, "font-family=\"")[1:] {
			fams[m[:strings.IndexByte(m+"\"", '"')]] = true
		}
		res.Case(d.src, len(fams) >= 2)
		res.Count(fmt.Sprintf("font-families=%d", min(len(fams), 4)))
		if i%60 == 0 {
			res.Sample(map[string]string{"doc": d.name, "source": short(d.src, 400)})
		}
		if d.node != nil && err == nil {
			c, hb := countTags(d.node)
			if got := countIDs(h); got != c+hb {
				res.Violate(Violation{Sig: "id-count", Kind: "input", What: fmt.Sprintf("%d distinct generated ids in one output, document has %d carousels + %d hamburger navbars", got, c, hb),
					Input: map[string]string{"source": d.src}})
			}
		}
		nrep := reps
		if strings.HasPrefix(d.name, "wide:") {
			nrep = reps * 15
		}
		for k := 0; k < nrep; k++ {
			h2, err2 := mjml.Render(d.src)
			e2 := ""
			if err2 != nil {
				e2 = err2.Error()
			}
			if alphaIDs(h2)+"\x00"+e2 != base[i] {
				at := firstDiff(alphaIDs(h2), alphaIDs(h))
				res.Violate(Violation{Sig: "nondeterministic|in-process", Kind: "input", What: fmt.Sprintf("call %d returned different bytes at offset %d: …%s… vs …%s…", k+2, at, around(alphaIDs(h), at), around(alphaIDs(h2), at)),
					Input: map[string]string{"source": d.src, "doc": d.name}})
				break
			}
		}
	}
	// (1b) "regardless of what was compiled before" — also when what was compiled before FAILED: compilations that stop half-way
	// (an element that cannot be rendered behind sections that were already written, in a hero, in a wrapper; a parse error; a
	// validation error) alternate with compilations of good documents, which must return what they returned before
	if replay == "" {
		pre := `<mj-section><mj-column><mj-text>LEFTOVER-MARKER text of a compilation that failed</mj-text></mj-column></mj-section>`
		var failing []string
		for _, c := range []string{
			`<mj-section><mj-column><mj-image/></mj-column></mj-section>`,
			`<mj-section><mj-column><mj-carousel></mj-carousel></mj-column></mj-section>`,
			`<mj-section><mj-column><mj-carousel-image src="a.png"/></mj-column></mj-section>`,
			`<mj-section><mj-column><mj-text bogus="1">v</mj-text></mj-column></mj-section>`,
			`<mj-section><mj-column><mj-text>unclosed</mj-column></mj-section>`,
			`<mj-hero><mj-text>h</mj-text><mj-image/></mj-hero>`,
			`<mj-wrapper><mj-section><mj-column><mj-text>w</mj-text><mj-carousel/></mj-column></mj-section></mj-wrapper>`,
		} {
			failing = append(failing, `<mjml><mj-head><mj-title>failed</mj-title><mj-attributes><mj-text color="#123456"/><mj-class name="c" padding="1px"/></mj-attributes><mj-style inline="inline">.k { top: 0 }</mj-style></mj-head><mj-body>`+pre+pre+c+`</mj-body></mjml>`)
		}
		step := len(docs)/40 + 1
		for fi, f := range failing {
			for i := fi % step; i < len(docs); i += step {
				for k := 0; k < 3; k++ {
					mjml.Render(f)
					h2, err2 := mjml.Render(docs[i].src)
					e2 := ""
					if err2 != nil {
						e2 = err2.Error()
					}
					res.mu.Lock()
					res.Programs++
					res.mu.Unlock()
					if alphaIDs(h2)+"\x00"+e2 != base[i] {
						at := firstDiff(alphaIDs(h2), strings.SplitN(base[i], "\x00", 2)[0])
						res.Violate(Violation{Sig: "nondeterministic|after-failed-compilation", Kind: "history", What: fmt.Sprintf("compiled right after a compilation that failed, the document returns different bytes at offset %d: …%s…", at, around(alphaIDs(h2), at)),
							Input: map[string]string{"failed-before": f, "source": docs[i].src, "doc": docs[i].name}})
						break
					}
				}
			}
			res.Count("after-failed-compilation")
		}
	}
	// (2) fresh processes, different compile orders
	srcs := make([]string, len(docs))
	for i, d := range docs {
		srcs[i] = d.src
	}
	var mu sync.Mutex
	parallel(procs, procs, func(p int) {
		perm := NewRng(seed, fmt.Sprintf("c05/perm/%d", p)).Perm(len(docs))
		if p == 0 {
			// one process compiles the list in exactly the reverse of this process's order
			for i := range perm {
				perm[i] = len(docs) - 1 - i
			}
		}
		ops := make([]string, len(perm))
		for i, k := range perm {
			ops[i] = fmt.Sprintf("R%d", k)
		}
		obs, crash := runAPIChild(apiJob{Docs: srcs, Ops: ops})
		mu.Lock()
		defer mu.Unlock()
		if crash != "" || len(obs) != len(ops) {
			res.Violate(Violation{Sig: "process-crash", Kind: "input", What: "fresh-process compile crashed: " + crash})
			return
		}
		for i, k := range perm {
			want := digest(strings.SplitN(base[k], "\x00", 2)[0])
			if strings.SplitN(base[k], "\x00", 2)[0] == "" {
				want = "-"
			}
			if obs[i].Digest != want || obs[i].Err != strings.SplitN(base[k], "\x00", 2)[1] {
				res.Violate(Violation{Sig: "nondeterministic|across-processes", Kind: "input", What: fmt.Sprintf("fresh process %d returned different bytes for %s", p, docs[k].name),
					Input: map[string]string{"source": docs[k].src, "doc": docs[k].name}})
				return
			}
		}
	})
	// (3) correspondence: font lookup vs the Lean model
	drv, err := startDriver()
	if err != nil {
		res.Disagree(Violation{Sig: "driver-missing", What: err.Error()})
		return
	}
	defer drv.Close()
	var names []string
	for n := range fonts.GoogleFontsMapping {
		names = append(names, n)
	}
	sort.Strings(names)
	urlID := map[string]int{}
	for i, n := range names {
		urlID[fonts.GoogleFontsMapping[n]] = 100 + i
	}
	fams := append([]string{}, fontPool...)
	fams = append(fams, "Roboto, Open Sans, sans-serif", "Open Sans, Roboto", "Lato, Roboto", "open sans", "UBUNTU, lato", "Montserrat Alternates, Lato", "  \"Roboto\" ", "sans-serif", "")
	for i := 0; i < 200; i++ {
		r := NewRng(seed, fmt.Sprintf("c05/fam/%d", i))
		var parts []string
		for j, n := 0, 1+r.Intn(4); j < n; j++ {
			parts = append(parts, r.Pick(append(names, "Arial", "Helvetica", "sans-serif", "roboto", "LATO")))
		}
		fams = append(fams, strings.Join(parts, ", "))
	}
	for _, fam := range fams {
		real := fonts.GetGoogleFontURL(fam)
		clean := strings.ToLower(strings.Trim(fam, `"' `))
		var args []string
		for rank, n := range names {
			idx := strings.Index(clean, strings.ToLower(n))
			is := "-"
			if idx >= 0 {
				is = strconv.Itoa(idx)
			}
			args = append(args, fmt.Sprintf("%d:%s:%d:%d", rank, is, len(n), urlID[fonts.GoogleFontsMapping[n]]))
		}
		got, err := drv.Ask("pick " + strings.Join(args, " "))
		want := "-"
		if real != "" {
			want = strconv.Itoa(urlID[real])
		}
		res.mu.Lock()
		res.Programs++
		res.DisagreementsChecked++
		res.mu.Unlock()
		if err != nil || got != want {
			res.Disagree(Violation{Sig: "font-lookup-model-mismatch", Kind: "input", What: fmt.Sprintf("GetGoogleFontURL(%q) = %q, Lean pick says %s", fam, real, got), Input: map[string]string{"family": fam}})
			// is the implementation itself order dependent on this input?
			seen := map[string]bool{}
			for k := 0; k < 300; k++ {
				seen[fonts.GetGoogleFontURL(fam)] = true
			}
			if len(seen) > 1 {
				res.Violate(Violation{Sig: "nondeterministic|font-lookup", Kind: "input", What: fmt.Sprintf("GetGoogleFontURL(%q) returned %d different URLs in 300 calls", fam, len(seen)), Input: map[string]string{"family": fam}})
			}
			break
		}
	}
	// ---- the small pure helpers through the packages' public API against the Lean Models (Core/SmallPure):
	// ConvertFontFamiliesToURLs = lookup of each family, empty ones dropped, first occurrence kept; BuildFontsTags; NormalizeColor
	nsp := 300
	if tier == "thorough" {
		nsp = 6000
	}
	pool := append([]string{}, fams...)
	for i := 0; i < nsp; i++ {
		r := NewRng(seed, fmt.Sprintf("c05/small/%d", i))
		var list []string
		for j, n := 0, r.Intn(9); j < n; j++ {
			if j > 0 && r.Bool(1, 3) {
				list = append(list, list[r.Intn(len(list))]) // the same family again
			} else {
				list = append(list, r.Pick(pool))
			}
		}
		real := fonts.ConvertFontFamiliesToURLs(list)
		req := "dedup"
		for _, f := range list {
			req += " " + hexOrDash(fonts.GetGoogleFontURL(f))
		}
		want := "."
		if len(real) > 0 {
			var hs []string
			for _, u := range real {
				hs = append(hs, hexOrDash(u))
			}
			want = strings.Join(hs, " ")
		}
		got, err := drv.Ask(req)
		distinct := map[string]bool{}
		for _, u := range real {
			distinct[u] = true
		}
		res.Case("font-imports|"+req, len(real) >= 2 && len(list) > len(real))
		res.mu.Lock()
		res.Programs++
		res.DisagreementsChecked++
		res.mu.Unlock()
		if err != nil || strings.TrimSpace(got) != want {
			res.Disagree(Violation{Sig: "font-imports-model-mismatch", Kind: "input", What: fmt.Sprintf("ConvertFontFamiliesToURLs(%q) = %q, Model says %s", list, real, short(got, 200)), Input: map[string]string{"families": strings.Join(list, "|")}})
			// the property itself: same list, same answer, every time; each address once
			first := strings.Join(real, "\n")
			for k := 0; k < 200; k++ {
				if again := strings.Join(fonts.ConvertFontFamiliesToURLs(list), "\n"); again != first {
					res.Violate(Violation{Sig: "nondeterministic|font-imports", Kind: "input", What: fmt.Sprintf("ConvertFontFamiliesToURLs(%q) answered differently on call %d", list, k), Input: map[string]string{"families": strings.Join(list, "|")}})
					break
				}
			}
		}
		// the import block of an address list (arbitrary addresses: the real ones, with odd characters, repeated)
		var urls []string
		for j, n := 0, r.Intn(5); j < n; j++ {
			urls = append(urls, r.Pick(append(append([]string{}, real...), "https://f.example/css?family=A+B:300,400", "u\"q", "a&b", "", "é", "x);@import url(y")))
		}
		reqT := "fonttags"
		for _, u := range urls {
			reqT += " " + hexOrDash(u)
		}
		gotT, errT := drv.Ask(reqT)
		res.mu.Lock()
		res.Programs++
		res.DisagreementsChecked++
		res.mu.Unlock()
		if wantT := hexOrDash(fonts.BuildFontsTags(urls)); errT != nil || strings.TrimSpace(gotT) != wantT {
			res.Disagree(Violation{Sig: "font-tags-model-mismatch", Kind: "input", What: fmt.Sprintf("BuildFontsTags(%q) and the Model differ", urls), Input: map[string]string{"urls": strings.Join(urls, "|")}})
		}
		// a colour value: three- and six-digit, both letter cases, near misses, bytes that are not ASCII
		var cv string
		switch r.Intn(6) {
		case 0, 1:
			cv = "#" + r.Pick([]string{"a", "F", "0", "9", "g", "G", "é"[:1], " "}) + r.Pick([]string{"b", "C", "1", "z", "\xff"}) + r.Pick([]string{"c", "D", "7", "-"})
		case 2:
			cv = "#" + r.Pick([]string{"aabbcc", "ABC", "abcd", "ab", "", "12345", "1234567"})
		case 3:
			cv = r.Pick([]string{"red", "abc", "#", "rgb(1,2,3)", " #abc", "#abc ", "##ab", "#ab#", "transparent", ""})
		default:
			b := make([]byte, r.Intn(6))
			for j := range b {
				b[j] = "#0aAfFgG9 \x80\xc3"[r.Intn(12)]
			}
			cv = string(b)
		}
		gotC, errC := drv.Ask("normcolor " + hexOrDash(cv))
		res.mu.Lock()
		res.Programs++
		res.DisagreementsChecked++
		res.mu.Unlock()
		if wantC := hexOrDash(styles.NormalizeColor(cv)); errC != nil || strings.TrimSpace(gotC) != wantC {
			res.Disagree(Violation{Sig: "normalize-color-model-mismatch", Kind: "input", What: fmt.Sprintf("NormalizeColor(%q) = %q, Model says %s", cv, styles.NormalizeColor(cv), gotC), Input: map[string]string{"value": cv}})
		}
	}
}

// ===== C07 ====================================================================================================

type isoClass struct {
	name string
	a, b string
}

func isoClasses() []isoClass {
	body := `<mj-body><mj-section><mj-column><mj-text css-class="ka">Hello <span class="ka">styled</span> <a class="kb" href="http://x/">l</a></mj-text><mj-button mj-class="m1" href="u">Go</mj-button><mj-divider/></mj-column></mj-section></mj-body>`
	doc := func(head string) string { return "<mjml>" + head + body + "</mjml>" }
	return []isoClass{
		{"mj-attributes", doc(`<mj-head><mj-attributes><mj-all font-family="Lato"/><mj-text color="#ff0000" font-size="20px"/></mj-attributes></mj-head>`),
			doc(`<mj-head><mj-attributes><mj-all font-family="Roboto"/><mj-text color="#0000ff" font-size="11px"/><mj-button background-color="#00ff00"/></mj-attributes></mj-head>`)},
		{"mj-class", doc(`<mj-head><mj-attributes><mj-class name="m1" background-color="#111111" font-size="9px"/></mj-attributes></mj-head>`),
			doc(`<mj-head><mj-attributes><mj-class name="m1" background-color="#eeeeee" font-size="30px"/></mj-attributes></mj-head>`)},
		// the same list of several classes on the same elements, the classes defined differently, partly, or not at all
		{"mj-class-list", strings.ReplaceAll(doc(`<mj-head><mj-attributes><mj-class name="m1" background-color="#111111" font-size="9px"/><mj-class name="m2" color="#222222" font-size="22px" css-class="from-a"/></mj-attributes></mj-head>`), `mj-class="m1"`, `mj-class="m1 m2"`),
			strings.ReplaceAll(doc(`<mj-head><mj-attributes><mj-class name="m2" color="#eeeeee" inner-padding="1px 2px"/><mj-class name="m1" background-color="#dddddd" font-size="30px" css-class="from-b"/></mj-attributes></mj-head>`), `mj-class="m1"`, `mj-class="m1 m2"`)},
		{"mj-class-list-undefined", strings.ReplaceAll(doc(`<mj-head><mj-attributes><mj-class name="m1" background-color="#111111"/><mj-class name="m2" color="#222222" font-size="22px"/></mj-attributes></mj-head>`), `mj-class="m1"`, `mj-class="m1 m2"`),
			strings.ReplaceAll(doc(``), `mj-class="m1"`, `mj-class="m1 m2"`)},
		{"mj-class-list-partly", strings.ReplaceAll(strings.ReplaceAll(doc(`<mj-head><mj-attributes><mj-class name="m2" color="#222222" padding="1px"/></mj-attributes></mj-head>`), `mj-class="m1"`, `mj-class="m1 m2"`), `<mj-divider/>`, `<mj-divider mj-class="m1 m2"/>`),
			strings.ReplaceAll(strings.ReplaceAll(doc(`<mj-head><mj-attributes><mj-class name="m1" border-width="7px" padding="3px"/></mj-attributes></mj-head>`), `mj-class="m1"`, `mj-class="m1 m2"`), `<mj-divider/>`, `<mj-divider mj-class="m1 m2"/>`)},
		{"mj-font", doc(`<mj-head><mj-font name="Raleway" href="https://fonts.example/r.css"/></mj-head>`),
			doc(`<mj-head><mj-font name="Pacifico" href="https://fonts.example/p.css"/></mj-head>`)},
		{"inline-style", doc(`<mj-head><mj-style inline="inline">.ka { color: #123456; } .kb { color: #ff0000; }</mj-style></mj-head>`),
			doc(`<mj-head><mj-style inline="inline">.ka { text-decoration: underline; font-weight: bold; } .kb { color: #0000ff; }</mj-style></mj-head>`)},
		{"mj-style", doc(`<mj-head><mj-style>.x { color: red; }</mj-style></mj-head>`), doc(`<mj-head><mj-style>.y { margin: 0; }</mj-style></mj-head>`)},
		{"title-preview", doc(`<mj-head><mj-title>Title A</mj-title><mj-preview>Prev A</mj-preview></mj-head>`), doc(`<mj-head><mj-title>Title B</mj-title></mj-head>`)},
		{"font-family-body", strings.Replace(doc(""), `<mj-text css-class="ka">`, `<mj-text css-class="ka" font-family="Roboto">`, 1), strings.Replace(doc(""), `<mj-text css-class="ka">`, `<mj-text css-class="ka" font-family="Lato, Open Sans">`, 1)},
		{"body-only", doc(""), strings.Replace(doc(""), "Hello", "Goodbye <b>x</b>", 1)},
		{"validation", strings.Replace(doc(""), `<mj-divider/>`, `<mj-divider bogus="1"/>`, 1), strings.Replace(doc(""), `<mj-divider/>`, `<mj-divider other-bogus="2" border-width="3px"/>`, 1)},
		{"body-width", strings.Replace(doc(""), "<mj-body>", `<mj-body width="480px">`, 1), strings.Replace(doc(""), "<mj-body>", `<mj-body width="700px">`, 1)},
		// spelling twins: the same document with values written in another letter case or an equivalent spelling — anything a
		// compilation remembers under a key that folds the two together shows when the other spelling was compiled first
		{"colour-case-short", strings.NewReplacer(`<mj-text css-class="ka">`, `<mj-text css-class="ka" color="#FA0" container-background-color="#0Bc">`, `<mj-button mj-class="m1"`, `<mj-button mj-class="m1" background-color="#C0D" color="#FFF"`).Replace(doc("")),
			strings.NewReplacer(`<mj-text css-class="ka">`, `<mj-text css-class="ka" color="#fa0" container-background-color="#0bC">`, `<mj-button mj-class="m1"`, `<mj-button mj-class="m1" background-color="#c0d" color="#fff"`).Replace(doc(""))},
		{"colour-case-long", strings.NewReplacer(`<mj-text css-class="ka">`, `<mj-text css-class="ka" color="#FFAA00">`, `<mj-divider/>`, `<mj-divider border-color="#ABCDEF"/>`).Replace(doc("")),
			strings.NewReplacer(`<mj-text css-class="ka">`, `<mj-text css-class="ka" color="#ffaa00">`, `<mj-divider/>`, `<mj-divider border-color="#abcdef"/>`).Replace(doc(""))},
		{"colour-case-head", doc(`<mj-head><mj-attributes><mj-all color="#AbC"/><mj-class name="m1" background-color="#DeF"/></mj-attributes></mj-head>`),
			doc(`<mj-head><mj-attributes><mj-all color="#aBc"/><mj-class name="m1" background-color="#dEf"/></mj-attributes></mj-head>`)},
		{"value-case", strings.NewReplacer(`<mj-text css-class="ka">`, `<mj-text css-class="ka" font-family="ROBOTO, Arial" align="RIGHT" padding="10PX 5PX">`).Replace(doc("")),
			strings.NewReplacer(`<mj-text css-class="ka">`, `<mj-text css-class="ka" font-family="Roboto, arial" align="right" padding="10px 5px">`).Replace(doc(""))},
		{"value-spacing", strings.NewReplacer(`<mj-text css-class="ka">`, `<mj-text css-class="ka" padding="10px  20px" font-family="Lato,Ubuntu">`, `<mj-divider/>`, `<mj-divider border-width="2.0px" width="50.0%"/>`).Replace(doc("")),
			strings.NewReplacer(`<mj-text css-class="ka">`, `<mj-text css-class="ka" padding="10px 20px" font-family="Lato, Ubuntu">`, `<mj-divider/>`, `<mj-divider border-width="2px" width="50%"/>`).Replace(doc(""))},
		{"class-case", strings.NewReplacer(`css-class="ka"`, `css-class="Ka"`, `class="kb"`, `class="KB"`).Replace(doc(`<mj-head><mj-style inline="inline">.ka { color: #123456; } .kb { color: #ff0000; }</mj-style></mj-head>`)),
			doc(`<mj-head><mj-style inline="inline">.ka { color: #123456; } .kb { color: #ff0000; }</mj-style></mj-head>`)},
		// font stacks that begin alike and name another web font further on (or none): whatever a compilation remembers about a
		// stack must be about the whole stack
		// the same author HTML start tag (a class and a style attribute of its own) under different inline rules: whatever is
		// remembered about a tag's text must not carry another compilation's declarations
		{"inline-rule-on-styled-author-tag", strings.Replace(doc(`<mj-head><mj-style inline="inline">.ka { color: red; }</mj-style></mj-head>`), `<mj-divider/>`, `<mj-text><p class="ka" style="margin:0 0 3px 7px">x</p><span class="ka" style="top:1px">y</span></mj-text><mj-raw><i class="ka" style="left:0">z</i></mj-raw>`, 1),
			strings.Replace(doc(`<mj-head><mj-style inline="inline">.ka { color: teal; font-weight: bold; }</mj-style></mj-head>`), `<mj-divider/>`, `<mj-text><p class="ka" style="margin:0 0 3px 7px">x</p><span class="ka" style="top:1px">y</span></mj-text><mj-raw><i class="ka" style="left:0">z</i></mj-raw>`, 1)},
		{"font-stack-lead", strings.NewReplacer(`<mj-text css-class="ka">`, `<mj-text css-class="ka" font-family="Arial, Roboto, sans-serif">`, `<mj-button mj-class="m1"`, `<mj-button mj-class="m1" font-family="Helvetica, Montserrat"`).Replace(doc("")),
			strings.NewReplacer(`<mj-text css-class="ka">`, `<mj-text css-class="ka" font-family="Arial, Lato, sans-serif">`, `<mj-button mj-class="m1"`, `<mj-button mj-class="m1" font-family="Helvetica, sans-serif"`).Replace(doc(""))},
		{"font-stack-tail", strings.NewReplacer(`<mj-text css-class="ka">`, `<mj-text css-class="ka" font-family="Roboto, Arial">`).Replace(doc("")),
			strings.NewReplacer(`<mj-text css-class="ka">`, `<mj-text css-class="ka" font-family="Roboto, Open Sans, Arial">`).Replace(doc(""))},
		{"group-columns", `<mjml><mj-body><mj-section><mj-group><mj-column><mj-text>a</mj-text></mj-column><mj-column><mj-text>b</mj-text></mj-column></mj-group></mj-section></mj-body></mjml>`,
			`<mjml><mj-body><mj-section><mj-column width="33%"><mj-text>a</mj-text></mj-column><mj-column width="67%"><mj-image src="x.png"/></mj-column></mj-section><mj-hero><mj-text>h</mj-text></mj-hero></mj-body></mjml>`},
	}
}

// documents whose compilation fails: half way through rendering (no pictures in the carousel, image without src, a carousel
// image on its own), in the parser, in validation
var failingDocs = []string{
	`<mjml><mj-body><mj-section><mj-column><mj-text font-family="Montserrat">before</mj-text><mj-carousel></mj-carousel></mj-column></mj-section></mj-body></mjml>`,
	`<mjml><mj-body><mj-section><mj-column><mj-text font-family="Oswald">t</mj-text><mj-image/></mj-column></mj-section></mj-body></mjml>`,
	`<mjml><mj-body><mj-section><mj-column><mj-carousel-image src="a.png"/></mj-column></mj-section></mj-body></mjml>`,
	`<mjml><mj-body><mj-section><mj-column><mj-text>unclosed</mj-column></mj-section></mj-body></mjml>`,
	`<mjml><mj-body><mj-section><mj-column><mj-text bogus="1" font-family="Merriweather">v</mj-text></mj-column></mj-section></mj-body></mjml>`,
}

// zooDoc: the legal context of every body component, all of them in one body, with every attribute of every element's table
// set to its first (which = 0) or second (which = 1) typed test value; parts that do not compile alone are left out
func zooDoc(which int) string {
	var parts []string
	for _, tag := range bodyTags {
		if tag == "mj-body" || tag == "mj-raw" {
			continue
		}
		d := parseNodeTree(legalContext(tag, "", ""))
		if d == nil || d.child("mj-body") == nil {
			continue
		}
		d.child("mj-body").Walk(func(x *Node) {
			if !strings.HasPrefix(x.Tag, "mj-") || x.Tag == "mj-body" {
				return
			}
			for _, a := range allowedSorted(x.Tag) {
				attr, ty := a[0], a[1]
				if attr == "css-class" || attr == "mj-class" || attr == "full-width" || attr == "src" || attr == "href" || attr == "name" ||
					attr == "width" || attr == "height" || attr == "mode" || strings.Contains(attr, "url") {
					continue
				}
				v1, v2 := testValues(attr, ty)
				if v1 == "" {
					continue
				}
				if which == 1 {
					v1 = v2
				}
				// texts that need escaping on the way out (a shared escape buffer shows as another document's text)
				if attr == "alt" || attr == "title" {
					v1 = fmt.Sprintf(`the "%s" one of %d, said "%s"`, v1, which, strings.Repeat(v1, 3+which))
				}
				x.Set(attr, v1)
			}
		})
		if _, err := mjml.Render(d.MJML()); err != nil {
			continue
		}
		var sb strings.Builder
		for _, k := range d.child("mj-body").Kids {
			sb.WriteString(k.MJML())
		}
		parts = append(parts, sb.String())
	}
	return "<mjml><mj-body>" + strings.Join(parts, "") + "</mj-body></mjml>"
}

func runC07(res *Result, tier string, seed int64, replay string) {
	res.Rule = "for each class of head difference (mj-attributes, mj-class, mj-font, inline mj-style, mj-style, title/preview, breakpoint, body-only, validation errors, body width, group/column widths) two documents that differ only in that class are compiled concurrently by N ∈ {2,4,8,16} goroutines (with and without WithCache, Gosched perturbation; every other round right after compilations that failed while rendering, parsing or validating), every result compared with the solo result (the same compilation made first in a fresh process); a document pair holding every component and sub-element with every attribute of its table set (one value in one document, another in the other); seeded random document sets beyond the classes; built with -race and the race reports parsed. Non-trivial = round with ≥2 different documents in flight; distinct by (class, N, cache, round)"
	rounds := 8
	if tier == "thorough" {
		rounds = 200
	}
	type exp struct{ html, err string }
	soloOf := func(src string, cache bool) exp {
		var opts []mjml.RenderOption
		if cache {
			opts = append(opts, mjml.WithCache())
		}
		h, err := mjml.Render(src, opts...)
		e := ""
		if err != nil {
			e = err.Error()
		}
		return exp{alphaIDs(h), e}
	}
	classes := isoClasses()
	// random sets: documents with different heads drawn from the rich generator
	for i := 0; i < 6; i++ {
		r := NewRng(seed, fmt.Sprintf("c07/rand/%d", i))
		// heads keep fonts / styles / titles but no mj-attributes: interference through the attribute store is the recorded
		// finding and has its own classes above; anything that shows up here is something else
		strip := func(n *Node) string {
			for _, k := range n.Kids {
				if k.Tag == "mj-head" {
					var keep []*Node
					for _, h := range k.Kids {
						if h.Tag != "mj-attributes" {
							keep = append(keep, h)
						}
					}
					k.Kids = keep
				}
			}
			return n.MJML()
		}
		a := strip(genRich(r, &RichOpts{Head: true, MaxAttrs: 3, Features: true, CSSInline: true}))
		b := strip(genRich(r, &RichOpts{Head: true, MaxAttrs: 3, Features: true, CSSInline: true}))
		classes = append(classes, isoClass{fmt.Sprintf("random-%d", i), a, b})
	}
	// every component and sub-element in one document, every attribute of its table set — to one value in document a, to
	// another in document b: anything a component keeps outside the compilation (a prebuilt tag, a buffer, a memo) and
	// completes per element shows as the other document's value or as a race
	{
		za, zb := zooDoc(0), zooDoc(1)
		classes = append(classes, isoClass{"component-zoo", za, zb})
	}
	if replay != "" {
		in := replayRaw(replay)
		if a, ok := in["a"].(string); ok {
			b, _ := in["b"].(string)
			classes = []isoClass{{fmt.Sprint(in["class"]), a, b}}
			rounds = 600
		}
	}
	// "the HTML and error it would return when run alone": alone = first in a fresh process (a reference computed in this
	// process would already have seen the other document of the pair)
	freshOf := func(src string) (exp, bool) {
		obs, crash := runAPIChild(apiJob{Docs: []string{src}, Ops: []string{"R0"}, Full: true})
		if crash != "" || len(obs) != 1 {
			return exp{}, false
		}
		return exp{alphaIDs(obs[0].HTML), obs[0].Err}, true
	}
	type freshRes struct {
		e  exp
		ok bool
	}
	freshAll := make([]freshRes, 2*len(classes))
	parallel(16, len(freshAll), func(i int) {
		src := classes[i/2].a
		if i%2 == 1 {
			src = classes[i/2].b
		}
		e, ok := freshOf(src)
		freshAll[i] = freshRes{e, ok}
	})
	for ci, cl := range classes {
		soloA, soloB := soloOf(cl.a, false), soloOf(cl.b, false)
		if fa, ok := freshAll[2*ci].e, freshAll[2*ci].ok; ok {
			if fb, ok := freshAll[2*ci+1].e, freshAll[2*ci+1].ok; ok {
				res.Count("solo-reference=fresh-process")
				if fa != soloA || fb != soloB {
					which, got, want := "a", soloA, fa
					if fa == soloA {
						which, got, want = "b", soloB, fb
					}
					at := firstDiff(got.html, want.html)
					cls := cl.name
					if strings.HasPrefix(cls, "random-") {
						cls = "random"
					}
					res.Violate(Violation{Sig: "interference|" + cls + "|vs-fresh-process", Kind: "schedule",
						What:  fmt.Sprintf("document %s compiled in a process that compiled other documents before differs from the same compilation alone in a fresh process at offset %d: …%s… vs alone …%s… (err %q vs %q)", which, at, around(got.html, at), around(want.html, at), got.err, want.err),
						Input: map[string]interface{}{"class": cl.name, "a": cl.a, "b": cl.b}})
				}
				soloA, soloB = fa, fb
			}
		}
		if soloA == soloB {
			res.Note("class %s: the two documents render identically; class is vacuous", cl.name)
		}
		failed := false
		for round := 0; round < rounds && !failed; round++ {
			n := []int{2, 4, 8, 16}[round%4]
			cache := round%3 == 1
			// every other round starts after compilations that FAILED (while rendering, while parsing, in validation): whatever a
			// failed compilation hands back to pools or leaves in shared tables must not reach the compilations that follow
			if round%2 == 1 {
				for _, bad := range failingDocs {
					safely(func() { mjml.Render(bad) })
				}
			}
			var wg sync.WaitGroup
			var bad atomic.Value
			start := make(chan struct{})
			for g := 0; g < n; g++ {
				wg.Add(1)
				go func(g int) {
					defer wg.Done()
					<-start
					src, want := cl.a, soloA
					if g%2 == 1 {
						src, want = cl.b, soloB
					}
					for it := 0; it < 4; it++ {
						if (g+it)%3 == 0 {
							runtime.Gosched()
						}
						got := soloOf(src, cache)
						if got != want {
							at := firstDiff(got.html, want.html)
							bad.Store(fmt.Sprintf("goroutine %d of %d (cache=%v): result differs from its solo result at offset %d: …%s… vs solo …%s… (err %q vs %q)", g, n, cache, at, around(got.html, at), around(want.html, at), got.err, want.err))
							return
						}
					}
				}(g)
			}
			close(start)
			wg.Wait()
			res.Case(fmt.Sprintf("%s/%d/%v/%d", cl.name, n, cache, round), soloA != soloB)
			res.Count("class=" + strings.SplitN(cl.name, "-", 2)[0])
			if b := bad.Load(); b != nil {
				cls := cl.name
				if strings.HasPrefix(cls, "random-") {
					cls = "random"
				}
				res.Violate(Violation{Sig: "interference|" + cls, Kind: "schedule", What: fmt.Sprint(b), Input: map[string]interface{}{"class": cl.name, "a": cl.a, "b": cl.b}})
				failed = true
			}
		}
		if len(res.Samples) < 3 {
			res.Sample(map[string]string{"class": cl.name, "a": short(cl.a, 200), "b": short(cl.b, 200)})
		}
	}
	// ---- one option LIST shared by concurrent callers (built once with spare capacity and passed with the spread form, as a
	// service does): what a compilation appends for itself must not land in the caller's backing array.  Documents with and
	// without offending attributes; every result (HTML and error) against the same call made alone
	if replay == "" {
		var docs []string
		for i := 0; i < 8; i++ {
			bogus := ""
			if i%2 == 1 {
				bogus = fmt.Sprintf(` bogus-%d="1" other-%d="2"`, i, i)
			}
			docs = append(docs, fmt.Sprintf(`<mjml><mj-body><mj-section><mj-column><mj-text%s>shared options %d</mj-text></mj-column></mj-section></mj-body></mjml>`, bogus, i))
		}
		for vi, mk := range []func() []mjml.RenderOption{
			func() []mjml.RenderOption { return make([]mjml.RenderOption, 0, 4) },
			func() []mjml.RenderOption { return append(make([]mjml.RenderOption, 0, 8), mjml.WithCache()) },
			func() []mjml.RenderOption { return append(make([]mjml.RenderOption, 0, 3), mjml.WithDebugTags(false)) },
		} {
			shared := mk()
			var solos []exp
			for _, d := range docs {
				h, err := mjml.Render(d, shared...)
				e := ""
				if err != nil {
					e = err.Error()
				}
				solos = append(solos, exp{alphaIDs(h), e})
			}
			var bad atomic.Value
			var wg sync.WaitGroup
			reps := 300 * rounds / 8
			for g := range docs {
				wg.Add(1)
				go func(g int) {
					defer wg.Done()
					for k := 0; k < reps && bad.Load() == nil; k++ {
						h, err := mjml.Render(docs[g], shared...)
						e := ""
						if err != nil {
							e = err.Error()
						}
						if alphaIDs(h) != solos[g].html || e != solos[g].err {
							bad.Store(fmt.Sprintf("document %d compiled with a shared option list next to others: error %q, alone %q (HTML equal: %v)", g, short(e, 120), short(solos[g].err, 120), alphaIDs(h) == solos[g].html))
						}
						if k%16 == 0 {
							runtime.Gosched()
						}
					}
				}(g)
			}
			wg.Wait()
			res.Case(fmt.Sprintf("shared-option-list/%d", vi), true)
			res.Count("class=shared-option-list")
			if b := bad.Load(); b != nil {
				res.Violate(Violation{Sig: "interference|shared-option-list", Kind: "schedule", What: fmt.Sprint(b), Input: map[string]interface{}{"variant": vi, "docs": docs}})
			}
		}
	}
	mjml.StopASTCacheCleanup()
	for _, rr := range raceReports() {
		res.Count("race-reports")
		if rr.globals {
			res.Violate(Violation{Sig: "data-race|globals.instance", Kind: "site", What: fmt.Sprintf("race detector: %s (×%d), through the process-wide attribute store", rr.pair, rr.n)})
			continue
		}
		res.Violate(Violation{Sig: "data-race|" + rr.pair, Kind: "schedule", What: fmt.Sprintf("race detector: %s (×%d)", rr.pair, rr.n)})
	}
}

// ===== C08 ====================================================================================================

var apiDocs = []string{
	`<mjml><mj-head><mj-attributes><mj-all font-family="Lato"/><mj-text color="#ff0000"/><mj-class name="m1" font-size="9px"/></mj-attributes></mj-head><mj-body><mj-section><mj-column><mj-text mj-class="m1">A</mj-text></mj-column></mj-section></mj-body></mjml>`,
	`<mjml><mj-head><mj-attributes><mj-all font-family="Roboto"/><mj-text color="#0000ff"/><mj-class name="m1" font-size="30px"/></mj-attributes></mj-head><mj-body><mj-section><mj-column><mj-text mj-class="m1">A</mj-text></mj-column></mj-section></mj-body></mjml>`,
	`<mjml><mj-body><mj-section><mj-group><mj-column><mj-text mj-class="m1">A</mj-text></mj-column><mj-column><mj-text>B</mj-text></mj-column></mj-group></mj-section></mj-body></mjml>`,
	`<mjml><mj-body><mj-section><mj-column><mj-text>unclosed</mj-column></mj-section></mj-body></mjml>`,
	`<mjml><mj-head><mj-attributes><mj-section background-color="#cccccc"/></mj-attributes></mj-head><mj-body><mj-section><mj-column><mj-text color="#00ff00" align="center" bogus="1">V</mj-text></mj-column></mj-section></mj-body></mjml>`, // the invalid attribute comes after valid ones
	`<mjml><mj-body><mj-section><mj-column><mj-carousel><mj-carousel-image src="a.png"/><mj-carousel-image src="b.png"/></mj-carousel><mj-accordion><mj-accordion-element><mj-accordion-title>Ti</mj-accordion-title><mj-accordion-text>Tx</mj-accordion-text></mj-accordion-element></mj-accordion></mj-column></mj-section></mj-body></mjml>`,
	`<mjml><mj-body><mj-section><mj-column><mj-navbar hamburger="hamburger"><mj-navbar-link href="/a">A</mj-navbar-link></mj-navbar><mj-social><mj-social-element name="facebook" href="h">F</mj-social-element></mj-social><mj-image src="i.png" fluid-on-mobile="true"/></mj-column></mj-section></mj-body></mjml>`,
	// parses, but rendering the body fails half way (mj-carousel without images): whatever a failed compilation leaves
	// behind (buffers, pools, counters) must not reach the next one
	`<mjml><mj-body><mj-section><mj-column><mj-text>before</mj-text><mj-carousel></mj-carousel></mj-column></mj-section></mj-body></mjml>`,
	// spellings XML does not distinguish: white space before '>' and around '=', single quotes, an attribute on mj-attributes and
	// mj-head, a comment inside the head — paths that look at the source TEXT instead of the tree would treat them differently
	"<mjml ><mj-head\n><mj-attributes ><mj-all font-family = 'Lato' /><mj-text\n color='#ff0000' font-size=\"20px\"/><mj-class name='m1' font-weight=\"700\" /></mj-attributes ><!-- c --><mj-title >T</mj-title ></mj-head ><mj-body ><mj-section ><mj-column ><mj-text mj-class = 'm1' >A</mj-text ></mj-column ></mj-section ></mj-body ></mjml >",
	// a web font used only inside a wrapper (the wrapper's children are built with their own copy of the render options)
	`<mjml><mj-body><mj-section><mj-column><mj-image src="i.png"/></mj-column></mj-section><mj-wrapper><mj-section><mj-column><mj-text font-family="Roboto">in wrapper</mj-text></mj-column></mj-section></mj-wrapper></mj-body></mjml>`,
}

var (
	apiOkBits    = "1110111211" // 2 = parses, rendering fails
	apiValBits   = "0000100000"
	apiStateBits = "0000000000" // no document's tree carries render-to-render state (after the carousel-CSS fix)
	apiAttrs     = "1,2,0,0,3,0,0,0,4,0"
)

// one pair of documents per class of head difference (shared with C07): history independence must hold across each of them
func init() {
	next := 5
	// the head-reading document of the cache check: author HTML with class + own style attribute inside mj-text / mj-table /
	// mj-button / mj-raw next to an inline rule — a renderer that writes the merged style back into the tree shows when the
	// same tree is rendered again
	{
		d := cacheDocs[headReadingDoc]
		apiDocs = append(apiDocs, d)
		apiOkBits += "1"
		if _, err := mjml.Render(d); err != nil {
			apiValBits += "1"
		} else {
			apiValBits += "0"
		}
		apiStateBits += "0"
		apiAttrs += fmt.Sprintf(",%d", next)
		next++
	}
	// documents that switch on per-compilation flags of the render options while rendering (a lone right-aligned text in a
	// section next to a plain mj-style: "an empty style tag is required"; a title; a preview; a breakpoint; debug-looking
	// content): whatever a compilation leaves in an options object must not reach the next one
	for _, d := range []string{
		`<mjml><mj-head><mj-style>.x { color: red; }</mj-style></mj-head><mj-body><mj-section><mj-column><mj-text align="right">R</mj-text></mj-column></mj-section></mj-body></mjml>`,
		`<mjml><mj-head><mj-title>Only here</mj-title><mj-preview>Preview only here</mj-preview><mj-breakpoint width="320px"/></mj-head><mj-body width="480px"><mj-section><mj-column><mj-text align="right">R</mj-text></mj-column></mj-section><mj-wrapper><mj-section><mj-group><mj-column><mj-text>g</mj-text></mj-column></mj-group></mj-section></mj-wrapper><mj-hero><mj-text>h</mj-text></mj-hero></mj-body></mjml>`,
		// a preview and a title that hold nothing but white space (early returns in the head components), next to the document
		// above that has real ones
		"<mjml><mj-head><mj-title>  </mj-title><mj-preview>\n    </mj-preview></mj-head><mj-body><mj-section><mj-column><mj-text>blank preview</mj-text></mj-column></mj-section></mj-body></mjml>",
		// no body at all: every path gives the sentinel, whatever was compiled before (head content must not leak either way)
		`<mjml><mj-head><mj-title>Body-less</mj-title><mj-attributes><mj-all font-family="Oswald"/></mj-attributes></mj-head></mjml>`,
	} {
		apiDocs = append(apiDocs, d)
		apiOkBits += "1"
		apiValBits += "0"
		apiStateBits += "0"
		apiAttrs += ",0"
	}
	// validation reports that share their first (tag, attribute, line): a document with two invalid attributes and one with the
	// first of them only — an error value kept and extended between compilations shows as repeated or foreign details
	for _, d := range []string{
		`<mjml><mj-body><mj-section><mj-column><mj-text bogus-one="1">V</mj-text><mj-image src="i.png" bogus-two="2"/></mj-column></mj-section></mj-body></mjml>`,
		`<mjml><mj-body><mj-section><mj-column><mj-text bogus-one="1">W</mj-text><mj-divider/></mj-column></mj-section></mj-body></mjml>`,
	} {
		apiDocs = append(apiDocs, d)
		apiOkBits += "1"
		apiValBits += "1"
		apiStateBits += "0"
		apiAttrs += ",0"
	}
	for _, cl := range isoClasses() {
		for _, d := range []string{cl.a, cl.b} {
			apiDocs = append(apiDocs, d)
			apiOkBits += "1"
			if cl.name == "validation" {
				apiValBits += "1"
			} else {
				apiValBits += "0"
			}
			apiStateBits += "0"
			// documents whose heads define mj-attributes get distinct store ids, all others share store 0
			if strings.Contains(d, "<mj-attributes>") {
				apiAttrs += fmt.Sprintf(",%d", next)
				next++
			} else {
				apiAttrs += ",0"
			}
		}
	}
}

// eqOps says what each op of a history must behave like: a kept tree is just the parse of its document, so A<k> (RenderFromAST of
// kept tree k) must return what F<doc> returns, M<k> builds what N<doc> builds, X<d> is W<d>; P<d> (parse and keep) returns nothing.
func eqOps(h []string) []string {
	eq := make([]string, len(h))
	var astDoc []int
	for j, o := range h {
		k, _ := strconv.Atoi(o[1:])
		switch o[0] {
		case 'P':
			if k < len(apiOkBits) && apiOkBits[k] != '0' {
				astDoc = append(astDoc, k)
			}
			eq[j] = ""
		case 'X':
			if k < len(apiOkBits) && apiOkBits[k] == '1' {
				astDoc = append(astDoc, k)
			}
			eq[j] = fmt.Sprintf("W%d", k)
		case 'A':
			if k < len(astDoc) {
				eq[j] = fmt.Sprintf("F%d", astDoc[k])
			}
		case 'M':
			if k < len(astDoc) {
				eq[j] = fmt.Sprintf("N%d", astDoc[k])
			}
		default:
			eq[j] = o
		}
	}
	return eq
}

func runC08(res *Result, tier string, seed int64, replay string) {
	res.Rule = "histories of calls to Render / RenderWithAST / RenderFromAST / NewFromAST / RenderComponentString (plus Render with cache and with debug; plus trees the caller parsed once or got back from RenderWithAST and keeps: rendered and built from any number of times, each time required to behave like a fresh parse) over five documents with conflicting heads (two with different mj-all / tag / mj-class defaults, one without head and with a group, one unparsable, one with a validation error); every history runs in a fresh process; each result is compared with the same call made FIRST in a fresh process, and with the Lean API model (driver `api`), which says which results must be the fresh ones and which trees are rendered with another document's store. Also: Render = class-order rewrite of RenderFromAST; the paths agree (HTML, returned error, what the reporter hears) when the caller passes an option of its own, a validation reporter; and on sources whose root is not a complete <mjml> document (fragments, a lone body or head element, no body, two bodies). Non-trivial = history with ≥2 calls on different documents; distinct by op list"
	drv, err := startDriverPool(4)
	if err != nil {
		res.Disagree(Violation{Sig: "driver-missing", What: err.Error()})
		return
	}
	defer drv.Close()
	// fresh references: one process per (call kind, document)
	fresh := map[string]apiObs{}
	var fmu sync.Mutex
	var refOps []string
	for _, k := range "RCDWF" {
		for d := range apiDocs {
			refOps = append(refOps, fmt.Sprintf("%c%d", k, d))
		}
	}
	parallel(16, len(refOps), func(i int) {
		obs, crash := runAPIChild(apiJob{Docs: apiDocs, Ops: []string{refOps[i]}, Full: true})
		fmu.Lock()
		defer fmu.Unlock()
		if crash != "" || len(obs) != 1 {
			res.Violate(Violation{Sig: "process-crash|" + refOps[i], Kind: "history", What: crash})
			return
		}
		fresh[refOps[i]] = obs[0]
	})
	treeFresh := map[int]apiObs{}
	for d := range apiDocs {
		obs, _ := runAPIChild(apiJob{Docs: apiDocs, Ops: []string{fmt.Sprintf("N%d", d), "T0"}, Full: true})
		if len(obs) == 2 {
			treeFresh[d] = obs[1]
		}
	}
	// paths agree (fresh processes): Render = reorder(RenderFromAST), RenderWithAST = RenderFromAST, step-by-step = RenderFromAST
	for d := range apiDocs {
		r, w, f, t := fresh[fmt.Sprintf("R%d", d)], fresh[fmt.Sprintf("W%d", d)], fresh[fmt.Sprintf("F%d", d)], treeFresh[d]
		if alphaIDs(mjml.VerifNormalizeGroupColumnClassOrder(f.HTML)) != alphaIDs(r.HTML) || r.Err != f.Err {
			at := firstDiff(alphaIDs(mjml.VerifNormalizeGroupColumnClassOrder(f.HTML)), alphaIDs(r.HTML))
			res.Violate(Violation{Sig: fmt.Sprintf("paths-disagree|Render-vs-RenderFromAST|doc%d", d), Kind: "history", What: fmt.Sprintf("Render differs from the class-order rewrite of RenderFromAST at %d: …%s…", at, around(r.HTML, at)), Input: map[string]interface{}{"source": apiDocs[d]}})
		}
		if alphaIDs(w.HTML) != alphaIDs(f.HTML) || w.Err != f.Err {
			res.Violate(Violation{Sig: fmt.Sprintf("paths-disagree|RenderWithAST-vs-RenderFromAST|doc%d", d), Kind: "history", What: "RenderWithAST and RenderFromAST differ", Input: map[string]interface{}{"source": apiDocs[d]}})
		}
		if f.HTML != "" && alphaIDs(t.HTML) != alphaIDs(f.HTML) {
			res.Violate(Violation{Sig: fmt.Sprintf("paths-disagree|step-by-step-vs-RenderFromAST|doc%d", d), Kind: "history", What: "NewFromAST+RenderComponentString and RenderFromAST differ", Input: map[string]interface{}{"source": apiDocs[d]}})
		}
	}
	// the same with an option of the caller's own (a validation reporter): the paths must still agree on HTML and error, and
	// the caller's reporter must be told the same on every path
	if replay == "" {
		var ops []string
		for _, k := range "rwf" {
			for d := range apiDocs {
				ops = append(ops, fmt.Sprintf("%c%d", k, d))
			}
		}
		with := map[string]apiObs{}
		parallel(16, len(ops), func(i int) {
			obs, crash := runAPIChild(apiJob{Docs: apiDocs, Ops: []string{ops[i]}, Full: true})
			fmu.Lock()
			defer fmu.Unlock()
			if crash == "" && len(obs) == 1 {
				with[ops[i]] = obs[0]
			}
		})
		for d := range apiDocs {
			r, w, f := with[fmt.Sprintf("r%d", d)], with[fmt.Sprintf("w%d", d)], with[fmt.Sprintf("f%d", d)]
			var nt apiObs
			if obs, _ := runAPIChild(apiJob{Docs: apiDocs, Ops: []string{fmt.Sprintf("n%d", d), "T0"}, Full: true}); len(obs) == 2 {
				nt = obs[1]
				nt.Reports = obs[0].Reports
			}
			res.Case(fmt.Sprintf("caller-reporter|doc%d", d), r.Reports != "")
			res.Count("paths-with-caller-option")
			bad := ""
			switch {
			case r.Err != f.Err || w.Err != f.Err:
				bad = fmt.Sprintf("returned errors differ: Render %q, RenderWithAST %q, RenderFromAST %q", r.Err, w.Err, f.Err)
			case alphaIDs(mjml.VerifNormalizeGroupColumnClassOrder(f.HTML)) != alphaIDs(r.HTML) || alphaIDs(w.HTML) != alphaIDs(f.HTML):
				bad = "returned HTML differs between the paths"
			case r.Reports != f.Reports || w.Reports != f.Reports:
				bad = fmt.Sprintf("the caller's reporter is told different things: Render %q, RenderWithAST %q, RenderFromAST %q", r.Reports, w.Reports, f.Reports)
			case f.HTML != "" && (alphaIDs(nt.HTML) != alphaIDs(f.HTML) || nt.Reports != f.Reports):
				bad = fmt.Sprintf("NewFromAST+RenderComponentString differs from RenderFromAST (reports %q vs %q)", nt.Reports, f.Reports)
			}
			if bad != "" {
				res.Violate(Violation{Sig: fmt.Sprintf("paths-disagree|with-caller-reporter|doc%d", d), Kind: "history", What: "with a validation reporter supplied by the caller as an option: " + bad, Input: map[string]interface{}{"source": apiDocs[d]}})
			}
		}
	}
	// sources whose root element is not <mjml> (a fragment, a lone body, a head element, the root without a body, two
	// bodies): whatever the one-shot call makes of them, the other paths make the same of them
	if replay == "" {
		frags := []string{
			`<mj-section><mj-column><mj-text>fragment</mj-text></mj-column></mj-section>`, `<mj-text>Hello</mj-text>`, `<mj-body/>`,
			`<mj-body><mj-section><mj-column><mj-text>b</mj-text></mj-column></mj-section></mj-body>`, `<mj-title>x</mj-title>`, `<mj-head><mj-title>x</mj-title></mj-head>`,
			`<mjml/>`, `<mjml><mj-head><mj-title>t</mj-title></mj-head></mjml>`,
			`<mjml><mj-body><mj-section><mj-column><mj-text>one</mj-text></mj-column></mj-section></mj-body><mj-body><mj-section><mj-column><mj-text>two</mj-text></mj-column></mj-section></mj-body></mjml>`,
			`<mj-wrapper><mj-section><mj-column><mj-text>w</mj-text></mj-column></mj-section></mj-wrapper>`, `<div>not mjml at all</div>`,
			// a top-level element written twice: whichever of the two a path reads (the first head, the first body), every path reads
			// the same one — for the definitions, the title / preview / styles / fonts / breakpoint alike
			`<mjml><mj-head><mj-title>one</mj-title></mj-head><mj-head><mj-attributes><mj-all color="#ff0000"/><mj-body background-color="#123456"/><mj-text font-size="30px"/><mj-class name="k" align="right"/></mj-attributes><mj-title>two</mj-title><mj-preview>p2</mj-preview><mj-style>.x{color:red}</mj-style><mj-style inline="inline">.k{margin:0}</mj-style><mj-breakpoint width="300px"/><mj-font name="Zeta" href="https://z.example/css"/></mj-head><mj-body><mj-section><mj-column><mj-text mj-class="k" css-class="k" font-family="Zeta">two heads</mj-text></mj-column></mj-section></mj-body></mjml>`,
			`<mjml><mj-head/><mj-head><mj-attributes><mj-class name="k" color="#00ff00"/><mj-section background-color="#eeeeee"/></mj-attributes><mj-font name="Zeta" href="https://z.example/css"/></mj-head><mj-body><mj-section><mj-column><mj-text mj-class="k" font-family="Zeta">empty head first</mj-text></mj-column></mj-section></mj-body></mjml>`,
			`<mjml><mj-body><mj-section><mj-column><mj-text mj-class="k">heads behind the body</mj-text></mj-column></mj-section></mj-body><mj-head><mj-attributes><mj-text color="#010203"/></mj-attributes></mj-head><mj-head><mj-attributes><mj-text color="#040506" padding="1px"/><mj-class name="k" font-size="9px"/></mj-attributes><mj-title>late</mj-title></mj-head></mjml>`,
			`<mjml><mj-head><mj-attributes><mj-all font-family="Georgia"/></mj-attributes></mj-head><mj-body background-color="#111111"><mj-section><mj-column><mj-text>first body</mj-text></mj-column></mj-section></mj-body><mj-head><mj-attributes><mj-all font-family="Courier"/></mj-attributes></mj-head><mj-body background-color="#222222" width="500px"><mj-section><mj-column><mj-text>second body</mj-text></mj-column></mj-section></mj-body></mjml>`,
		}
		for d := range frags {
			get := func(ops ...string) apiObs {
				obs, _ := runAPIChild(apiJob{Docs: frags, Ops: ops, Full: true})
				if len(obs) != len(ops) {
					return apiObs{Err: "<process ended>"}
				}
				return obs[len(obs)-1]
			}
			r, w, f := get(fmt.Sprintf("R%d", d)), get(fmt.Sprintf("W%d", d)), get(fmt.Sprintf("F%d", d))
			nt := get(fmt.Sprintf("N%d", d), "T0")
			res.Case(fmt.Sprintf("fragment-root|%d", d), true)
			res.Count("paths-on-fragment-roots")
			bad := ""
			switch {
			case (r.Err == "") != (f.Err == "") || (w.Err == "") != (f.Err == ""):
				bad = fmt.Sprintf("one path fails, another does not: Render %q, RenderWithAST %q, RenderFromAST %q", r.Err, w.Err, f.Err)
			case alphaIDs(mjml.VerifNormalizeGroupColumnClassOrder(f.HTML)) != alphaIDs(r.HTML) || alphaIDs(w.HTML) != alphaIDs(f.HTML):
				bad = fmt.Sprintf("returned HTML differs: Render %q, RenderWithAST %q, RenderFromAST %q", short(r.HTML, 60), short(w.HTML, 60), short(f.HTML, 60))
			case f.Err == "" && alphaIDs(nt.HTML) != alphaIDs(f.HTML):
				bad = fmt.Sprintf("NewFromAST+RenderComponentString gives %q (err %q), RenderFromAST %q", short(nt.HTML, 60), nt.Err, short(f.HTML, 60))
			}
			if bad != "" {
				res.Violate(Violation{Sig: fmt.Sprintf("paths-disagree|fragment-root|%d", d), Kind: "history", What: "a source whose root is not a complete <mjml> document: " + bad, Input: map[string]interface{}{"source": frags[d]}})
			}
		}
	}
	// an option of the caller's own that clears a field the entry points fill in before the options run (FontTracker): every
	// path must then still give the document the fonts IT uses — before and after another document was compiled the same way
	if replay == "" {
		clear := func(o *mjml.RenderOpts) { o.FontTracker = nil }
		fontDoc := `<mjml><mj-body><mj-section><mj-column><mj-text font-family="Montserrat, Arial">m</mj-text><mj-button font-family="Lato" href="u">l</mj-button></mj-column></mj-section></mj-body></mjml>`
		others := []string{`<mjml><mj-body></mj-body></mjml>`, `<mjml><mj-body><mj-section><mj-column><mj-image src="i.png"/></mj-column></mj-section></mj-body></mjml>`,
			`<mjml><mj-body><mj-section><mj-column><mj-text font-family="Arial">plain</mj-text></mj-column></mj-section></mj-body></mjml>`, fontDoc}
		paths := map[string]func(src string, opt ...mjml.RenderOption) (string, error){
			"Render": func(src string, opt ...mjml.RenderOption) (string, error) { return mjml.Render(src, opt...) },
			"RenderFromAST": func(src string, opt ...mjml.RenderOption) (string, error) {
				ast, err := mjml.ParseMJML(src)
				if err != nil {
					return "", err
				}
				return mjml.RenderFromAST(ast, opt...)
			},
			"NewFromAST+RenderComponentString": func(src string, opt ...mjml.RenderOption) (string, error) {
				ast, err := mjml.ParseMJML(src)
				if err != nil {
					return "", err
				}
				comp, err := mjml.NewFromAST(ast, opt...)
				if err != nil {
					return "", err
				}
				return mjml.RenderComponentString(comp)
			},
		}
		for pn, path := range paths {
			for di, d := range others {
				plain, _ := path(d)
				before, _ := path(d, clear)
				path(fontDoc, clear)
				after, _ := path(d, clear)
				res.Case(fmt.Sprintf("cleared-option-field|%s|%d", pn, di), true)
				if before != after || alphaIDs(mjml.VerifNormalizeGroupColumnClassOrder(before)) != alphaIDs(mjml.VerifNormalizeGroupColumnClassOrder(plain)) {
					res.Violate(Violation{Sig: fmt.Sprintf("history-dependent|cleared-option-field|%s|%d", pn, di), Kind: "history",
						What:  fmt.Sprintf("%s with a caller option that clears FontTracker: the same document compiles differently after another document was compiled the same way (equal before/after: %v, equal to the call without the option: %v)", pn, before == after, before == plain),
						Input: map[string]interface{}{"source": d, "compiled-between": fontDoc}})
				}
			}
		}
	}
	// histories
	var hists [][]string
	if replay != "" {
		in := replayRaw(replay)
		var h []string
		if ops, ok := in["ops"].([]interface{}); ok {
			for _, o := range ops {
				h = append(h, fmt.Sprint(o))
			}
		}
		hists = [][]string{h}
	} else {
		n, maxLen := 400, 12
		if tier == "thorough" {
			n, maxLen = 4000, 200
		}
		// exhaustive pairs and a family of triples first
		kinds := "RCDWFN"
		// groups: the seven hand-written documents together, and each pair of documents that differ in one class of head feature
		nHand := len(apiDocs) - 2*len(isoClasses())
		group := func(d int) int {
			if d < nHand {
				return 0
			}
			return 1 + (d-nHand)/2
		}
		for _, k1 := range kinds {
			for d1 := range apiDocs {
				for _, k2 := range kinds {
					for d2 := range apiDocs {
						if group(d1) != group(d2) {
							continue
						}
						h := []string{fmt.Sprintf("%c%d", k1, d1), fmt.Sprintf("%c%d", k2, d2)}
						if k1 == 'N' {
							h = append(h, "T0", "T0")
						}
						hists = append(hists, h)
					}
				}
			}
		}
		// a tree a caller parsed once, rendered many times (and the tree RenderWithAST hands back): every document, every way
		for d := range apiDocs {
			if apiOkBits[d] == '0' {
				continue
			}
			hists = append(hists, []string{fmt.Sprintf("P%d", d), "A0", "A0", "A0", "M0", "T0", "A0", "T0"})
			hists = append(hists, []string{fmt.Sprintf("P%d", d), "M0", "T0", "M0", "T1", "A0", fmt.Sprintf("R%d", d), "A0"})
			if apiOkBits[d] == '1' {
				hists = append(hists, []string{fmt.Sprintf("X%d", d), "A0", fmt.Sprintf("X%d", d), "A0", "A1", "M0", "T0"})
				hists = append(hists, []string{fmt.Sprintf("C%d", d), fmt.Sprintf("C%d", d), fmt.Sprintf("C%d", d), fmt.Sprintf("R%d", d), fmt.Sprintf("C%d", d)})
			}
		}
		for i := 0; i < n; i++ {
			r := NewRng(seed, fmt.Sprintf("c08/%d", i))
			L := 2 + r.Intn(maxLen-1)
			var h []string
			trees, asts := 0, 0
			for j := 0; j < L; j++ {
				k := "RRCDWFFNNTTTPXAAAMM"[r.Intn(19)]
				if k == 'A' || k == 'M' {
					if asts == 0 {
						k = 'P'
					} else {
						if k == 'M' {
							trees++
						}
						h = append(h, fmt.Sprintf("%c%d", k, r.Intn(asts)))
						continue
					}
				}
				if k == 'T' {
					if trees == 0 {
						k = 'N'
					} else {
						h = append(h, fmt.Sprintf("T%d", r.Intn(trees)))
						continue
					}
				}
				d := r.Intn(len(apiDocs))
				if k == 'N' && apiOkBits[d] != '0' {
					trees++
				}
				if (k == 'P' && apiOkBits[d] != '0') || (k == 'X' && apiOkBits[d] == '1') {
					asts++
				}
				h = append(h, fmt.Sprintf("%c%d", k, d))
			}
			hists = append(hists, h)
		}
	}
	parallel(16, len(hists), func(i int) {
		real := hists[i]
		// kept trees (P / X / A / M) are judged as the calls they must be equivalent to; the child process runs the real ops
		h := eqOps(real)
		// the model does not distinguish cache/debug variants of Render: both are `render`
		var mops []string
		mi := make([]int, len(h))
		for j, o := range h {
			mi[j] = -1
			if o == "" {
				continue
			}
			m := o
			if o[0] == 'C' || o[0] == 'D' {
				m = "R" + o[1:]
			}
			mi[j] = len(mops)
			mops = append(mops, m)
		}
		var pred string
		var err error
		if len(mops) > 0 {
			pred, err = drv.Ask("api " + apiOkBits + " " + apiValBits + " " + apiStateBits + " " + apiAttrs + " " + strings.Join(mops, " "))
		}
		predsAll := strings.Fields(pred)
		if err != nil || len(predsAll) != len(mops) {
			res.Disagree(Violation{Sig: "driver-bad-output", What: fmt.Sprint(err, pred)})
			return
		}
		preds := make([]string, len(h))
		for j := range h {
			if mi[j] >= 0 {
				preds[j] = predsAll[mi[j]]
			}
		}
		obs, crash := runAPIChild(apiJob{Docs: apiDocs, Ops: real, Full: false})
		// digests first (cheap); the full HTML is fetched again only for a history that disagrees somewhere
		needFull := false
		for j, o := range h {
			if j < len(obs) && o != "" && o[0] != 'N' {
				var want apiObs
				if o[0] == 'T' {
					p := strings.Split(preds[j], ":")
					if len(p) > 1 {
						d, _ := strconv.Atoi(p[1])
						want = treeFresh[d]
					}
				} else {
					want = fresh[o]
				}
				if obs[j].Digest != want.Digest || obs[j].Err != want.Err {
					needFull = true
				}
			}
		}
		if needFull {
			obs, crash = runAPIChild(apiJob{Docs: apiDocs, Ops: real, Full: true})
		} else {
			for j := range obs {
				// equal digests: reuse the reference HTML so that the comparisons below see equality
				o := h[j]
				if o == "" {
					continue
				}
				switch o[0] {
				case 'N':
				case 'T':
					p := strings.Split(preds[j], ":")
					if len(p) > 1 {
						d, _ := strconv.Atoi(p[1])
						obs[j].HTML = treeFresh[d].HTML
					}
				default:
					obs[j].HTML = fresh[o].HTML
				}
			}
		}
		distinctDocs := map[byte]bool{}
		for _, o := range h {
			if o != "" && o[0] != 'T' {
				distinctDocs[o[1]] = true
			}
		}
		res.Case(strings.Join(real, " "), len(distinctDocs) >= 2)
		res.mu.Lock()
		res.Programs++
		res.DisagreementsChecked += len(h)
		res.mu.Unlock()
		if i%300 == 5 {
			res.Sample(map[string]interface{}{"history": real, "judged_as": h, "model": preds})
		}
		res.Count(fmt.Sprintf("len%03d", min(len(h), 200)/10*10))
		in := map[string]interface{}{"ops": real}
		if crash != "" || len(obs) != len(h) {
			res.Violate(Violation{Sig: "process-crash|" + short(strings.Join(h, ","), 60), Kind: "history", What: crash, Input: in})
			return
		}
		for j, o := range h {
			ob := obs[j]
			if ob.Panic != "" {
				res.Violate(Violation{Sig: "panic|" + o, Kind: "history", What: ob.Panic, Input: in})
				return
			}
			switch {
			case o == "" || o[0] == 'N':
				// parse / creation only; nothing rendered
			case o[0] == 'T':
				p := strings.Split(preds[j], ":")
				if p[0] == "no-tree" {
					continue
				}
				if len(p) < 2 {
					res.Disagree(Violation{Sig: "api-model-mismatch|tree-prediction", Kind: "history", What: "unexpected model prediction " + preds[j], Input: in})
					continue
				}
				d, _ := strconv.Atoi(p[1])
				want := treeFresh[d]
				same := alphaIDs(ob.HTML) == alphaIDs(want.HTML)
				if p[0] == "tree-fail" {
					if ob.Err == "" || ob.Err != want.Err || ob.HTML != "" {
						res.Violate(Violation{Sig: "history-dependent|failing-tree", Kind: "history", What: fmt.Sprintf("op %d %s: rendering the tree of doc %d must fail as it does in a fresh process (got err %q, html %d bytes)", j, o, d, ob.Err, len(ob.HTML)), Input: in})
					}
					continue
				}
				if p[0] == "tree-again" {
					if same {
						res.Disagree(Violation{Sig: "api-model-mismatch|tree-again", Kind: "history", What: "model says this tree carries render-to-render state, the implementation re-rendered it identically", Input: in})
					} else {
						res.Violate(Violation{Sig: "history-dependent|tree-rendered-twice", Kind: "history", What: fmt.Sprintf("op %d %s: tree of doc %d rendered again differs from its first rendering", j, o, d), Input: in})
					}
					continue
				}
				if p[0] == "tree-own" && !same {
					res.Violate(Violation{Sig: "history-dependent|tree-own-store", Kind: "history", What: fmt.Sprintf("op %d %s: tree of doc %d rendered with its own store in force, yet differs from the fresh result", j, o, d), Input: in})
					return
				}
				if p[0] == "tree-stale" && !same {
					// the recorded finding: a tree rendered after another document was compiled
					res.Violate(Violation{Sig: "history-dependent|tree-rendered-after-other-compilation", Kind: "history", What: fmt.Sprintf("op %d %s: tree of doc %d rendered after another compilation picks up that document's defaults (model: %s)", j, o, d, preds[j]), Input: in})
				}
			default:
				want := fresh[o]
				if alphaIDs(ob.HTML) != alphaIDs(want.HTML) || ob.Err != want.Err {
					at := firstDiff(alphaIDs(ob.HTML), alphaIDs(want.HTML))
					v := Violation{Sig: "history-dependent|" + string(o[0]), Kind: "history", What: fmt.Sprintf("op %d %s differs from the same call made first in a fresh process at offset %d: …%s… vs fresh …%s…", j, o, at, around(ob.HTML, at), around(want.HTML, at)), Input: in}
					res.Violate(v)
					return
				}
				if preds[j] != "same" {
					res.Disagree(Violation{Sig: "api-model-mismatch", Kind: "history", What: fmt.Sprintf("model says %s for op %d %s but the implementation returned the fresh result", preds[j], j, o), Input: in})
				}
			}
		}
	})
}

func init() {
	register("C05", runC05)
	register("C07", runC07)
	register("C08", runC08)
}
