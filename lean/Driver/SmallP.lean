import Gomjml.Core.SmallPure
import Driver.MixP
/-! driver sub-protocols of the small pure helpers (arguments are hex, `-` = empty):
    `normcolor <hex>` → hex of `normalizeColor`; `dedup <hex>…` (the address of each family in order of use, `-` = none) → `convert`: the kept addresses, in order (`.` if none);
    `fonttags <hex>…` → hex of `fontTags` -/
open Gomjml.SmallPure

namespace Driver.SmallP
open Driver.MixP (unhex hexOrDash)

def colorHandle (args : List String) : String :=
  match args with
  | [h] => hexOrDash (normalizeColor (unhex h))
  | _ => "bad-request"

def dedupHandle (args : List String) : String :=
  match convert (fun u => u) (args.map unhex) with
  | [] => "."
  | l => " ".intercalate (l.map hexOrDash)

def tagsHandle (args : List String) : String := hexOrDash (fontTags (args.map unhex))

end Driver.SmallP
