import Gomjml.Props.C20
#print axioms Gomjml.Props.C20.C20_success_file
#print axioms Gomjml.Props.C20.C20_success_stdout
#print axioms Gomjml.Props.C20.C20_error
#print axioms Gomjml.Props.C20.C20_exit0
#print axioms Gomjml.Props.C20.C20_any_duration
