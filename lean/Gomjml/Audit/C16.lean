import Gomjml.Props.C16
#print axioms Gomjml.Props.C16.no_ast_write_sites
#print axioms Gomjml.Props.C16.C16_ast_unchanged
