import Gomjml.Core.Tag
import Gomjml.Gen.ClassSites
/-! # C19 — inline CSS is applied completely and touches nothing but style attributes (property theorems only)

Component side, on the byte-exact `HTMLTag` model.  The scanner over author HTML (`applyInlineStylesToHTML`) is judged on
the real bytes by the Lean lexer (harness), see the evidence. -/
namespace Gomjml.Props.C19
open Gomjml.Tag

/-- applying inline rules to a component's tag changes nothing but its style list, to which exactly the declarations of
    the targeted rules are appended, in class-attribute order and rule order -/
theorem C19_only_styles (rules : Rules) (t : HTag) (classes : List String) :
    applyInline rules t classes = { t with styles := t.styles ++ declsFor rules classes } := applyInline_eq rules t classes

/-- the rendered open tag is write-for-write the same outside ` style="…"` -/
theorem C19_rendered (rules : Rules) (t : HTag) (classes : List String) :
    renderOpen (applyInline rules t classes) =
      ["<", t.name] ++ t.attrs.flatMap attrWrites ++ classWrites t.classes ++ stylesWrites (t.styles ++ declsFor rules classes) ++ [">"] :=
  renderOpen_applyInline rules t classes

/-- a document without a matching inline rule is untouched -/
theorem C19_no_match (rules : Rules) (t : HTag) (classes : List String) (h : ∀ c ∈ classes, rules.lookup c = none) :
    applyInline rules t classes = t := applyInline_none rules t classes h

/-- non-vacuity -/
example : bytes (renderOpen (applyInline [("ka", [("color", "red"), ("font-weight", "bold")]), ("kb", [("margin", "0")])]
                              ⟨"div", [("class", "kb zz ka")], [], [("padding", "1px")]⟩ ["kb", "zz", "ka"]))
    = "<div class=\"kb zz ka\" style=\"padding:1px;margin:0;color:red;font-weight:bold;\">" := by decide

/-- **completeness over all code sites**: every function of package `components` that puts a css-class on an element also
    applies the inline rules (regenerated table).  The two remaining rows put a *derived* class on an element — `<class>-outlook`
    on the Outlook cell of a navbar link, `<class>-thumbnail` on a carousel thumbnail — which no author rule targets. -/
def derivedClassOnly : List String :=
  ["mjml/components.(*MJCarouselComponent).renderThumbnails", "mjml/components.(*MJNavbarComponent).renderMSOTableCellOpen"]

theorem C19_class_sites :
    ∀ r ∈ Gomjml.Gen.ClassSites.classSites, r.2 = "yes" ∨ r.1 ∈ derivedClassOnly := by decide

end Gomjml.Props.C19
