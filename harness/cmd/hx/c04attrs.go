package main

import (
	"fmt"
	"html"
	"strings"
)

// ===== C04, content that travels through attributes ("all entity spellings … in text and attribute values") =================
//
// Text attributes (alt, title, aria labels) and link / image addresses are authored content too: whatever the author wrote —
// percent signs, things that look like format directives or placeholders, escaped quotes and angle brackets, ampersands in
// every spelling, non-ASCII letters — must come out as that value.  Metamorphic oracle: the output for a value V equals the
// output for a plain reference value with the reference replaced by V, both read with character references decoded once
// (so `&amp;` and `&#38;` in the output are the same, a value used as a format string or cut short is not).

type attrSlot struct {
	name string
	url  bool
	wrap func(v string) string // body markup of one component carrying v in the attribute
}

func attrSlots() []attrSlot {
	car := func(a string) func(string) string {
		return func(v string) string {
			return `<mj-carousel><mj-carousel-image src="http://x/a.png" ` + a + `="` + v + `"/><mj-carousel-image src="http://x/b.png" alt="second"/></mj-carousel>`
		}
	}
	return []attrSlot{
		{"image-alt", false, func(v string) string { return `<mj-image src="http://x/i.png" alt="` + v + `"/>` }},
		{"image-title", false, func(v string) string { return `<mj-image src="http://x/i.png" title="` + v + `"/>` }},
		{"image-href", true, func(v string) string { return `<mj-image src="http://x/i.png" href="` + v + `"/>` }},
		{"image-src", true, func(v string) string { return `<mj-image src="` + v + `" alt="a"/>` }},
		{"carousel-image-alt", false, car("alt")},
		{"carousel-image-title", false, car("title")},
		{"carousel-image-href", true, car("href")},
		{"carousel-image-src", true, func(v string) string {
			return `<mj-carousel><mj-carousel-image src="` + v + `" alt="first" title="t"/><mj-carousel-image src="http://x/b.png"/></mj-carousel>`
		}},
		{"carousel-image-thumbnails-src", true, func(v string) string {
			return `<mj-carousel><mj-carousel-image src="http://x/a.png" thumbnails-src="` + v + `" alt="first"/><mj-carousel-image src="http://x/b.png"/></mj-carousel>`
		}},
		{"button-href", true, func(v string) string { return `<mj-button href="` + v + `">B</mj-button>` }},
		{"button-title", false, func(v string) string { return `<mj-button href="http://x/u" title="` + v + `">B</mj-button>` }},
		{"navbar-link-href", true, func(v string) string {
			return `<mj-navbar><mj-navbar-link href="` + v + `">L</mj-navbar-link></mj-navbar>`
		}},
		{"social-element-href", true, func(v string) string {
			return `<mj-social><mj-social-element name="facebook-noshare" href="` + v + `">F</mj-social-element></mj-social>`
		}},
		{"social-element-href-vertical", true, func(v string) string {
			return `<mj-social mode="vertical"><mj-social-element name="facebook-noshare" href="` + v + `">F</mj-social-element><mj-social-element name="twitter-noshare" href="http://x/t">T</mj-social-element></mj-social>`
		}},
		{"social-element-alt-vertical", false, func(v string) string {
			return `<mj-social mode="vertical"><mj-social-element name="facebook" href="http://x/f" alt="` + v + `">F</mj-social-element></mj-social>`
		}},
		{"social-element-alt", false, func(v string) string {
			return `<mj-social><mj-social-element name="facebook" href="http://x/f" alt="` + v + `">F</mj-social-element></mj-social>`
		}},
		{"social-element-title", false, func(v string) string {
			return `<mj-social><mj-social-element name="facebook" href="http://x/f" title="` + v + `">F</mj-social-element></mj-social>`
		}},
		{"section-background-url", true, func(v string) string {
			return `</mj-column></mj-section><mj-section background-url="` + v + `"><mj-column><mj-text>s</mj-text>`
		}},
		{"hero-background-url", true, func(v string) string {
			return `</mj-column></mj-section><mj-hero background-url="` + v + `"><mj-text>h</mj-text></mj-hero><mj-section><mj-column>`
		}},
		{"wrapper-background-url", true, func(v string) string {
			return `</mj-column></mj-section><mj-wrapper background-url="` + v + `"><mj-section><mj-column><mj-text>w</mj-text></mj-column></mj-section></mj-wrapper><mj-section><mj-column>`
		}},
		{"social-element-src", true, func(v string) string {
			return `<mj-social><mj-social-element href="http://x/f" src="` + v + `">F</mj-social-element></mj-social>`
		}},
	}
}

type attrPayload struct{ name, src string }

func attrPayloads(url bool) (ref string, ps []attrPayload) {
	if url {
		return "http://x/S1EREFS2E", []attrPayload{
			{"query", "http://x/S1E?a=1&amp;b=2&amp;c=S2E"},
			{"query-bare-amp", "http://x/S1E?a=1&b=2&c=S2E"},
			{"percent-encoded", "http://x/S1E%20with%2Fescapes?d=50%25&amp;e=%s%d#S2E"},
			{"placeholders", "http://x/S1E/{{id}}/[[URL]]/$1/%7Bx%7D?S2E"},
			{"non-ascii", "http://x/S1E/İstanbul/日本語/😀?S2E"},
			{"numeric-amp", "http://x/S1E?a=1&#38;b=2&#x26;S2E"},
		}
	}
	return "S1EREFS2E", []attrPayload{
		{"words", "S1E two words S2E"},
		{"percent-signs", "S1E 100% cotton, up to 50%off S2E"},
		{"percent-at-end", "S1E S2E up to 50%"},
		{"format-directives", "S1E %s %d %v %[1]s %% %!x(MISSING) S2E %"},
		{"placeholders", "S1E {{x}} [[URL]] $1 \\1 ${y} S2E"},
		{"amp-entity", "S1E Tom &amp; Jerry S2E"},
		{"bare-amp", "S1E Tom & Jerry S2E"},
		{"escaped-quotes", "S1E say &quot;hi&quot; it's S2E"},
		{"escaped-markup", "S1E &lt;b&gt;bold&lt;/b&gt; S2E"},
		{"numeric-references", "S1E &#60;i&#62; &#38; &#x22; S2E"},
		{"named-entities", "S1E &copy; &nbsp;&mdash; S2E"},
		{"non-ascii", "S1E İstanbul K 日本語 😀 S2E"},
		{"amp-then-entity-name", "S1E &amp;lt; &amp;amp; &amp;#60; S2E"},
	}
}

// decodeSrc: what the XML layer makes of the attribute value as written (bare ampersands are read like &amp;, HTML named
// entities like their characters — html.UnescapeString knows all of them)
func decodeSrc(v string) string { return html.UnescapeString(v) }

func runC04Attrs(res *Result, drv *DriverPool) {
	wrapDoc := func(inner string) string {
		return "<mjml><mj-body><mj-section><mj-column>" + inner + "</mj-column></mj-section></mj-body></mjml>"
	}
	for _, sl := range attrSlots() {
		ref, ps := attrPayloads(sl.url)
		base, berr := renderPlain(wrapDoc(sl.wrap(ref)))
		base = alphaIDs(base)
		if berr != nil || !strings.Contains(base, ref) {
			res.Violate(Violation{Sig: "attr-content-lost|" + sl.name + "|reference", Kind: "input", What: fmt.Sprintf("the reference value of %s does not reach the output (error %v)", sl.name, berr), Input: map[string]string{"source": wrapDoc(sl.wrap(ref))}})
			continue
		}
		ub := html.UnescapeString(base)
		for _, p := range ps {
			src := wrapDoc(sl.wrap(p.src))
			got, err := renderPlain(src)
			got = alphaIDs(got)
			res.Case("attr|"+sl.name+"|"+p.name, true)
			res.Count("attr-slot=" + sl.name)
			in := map[string]string{"source": src, "slot": sl.name, "payload": p.name}
			if err != nil {
				res.Violate(Violation{Sig: "attr-content-error|" + sl.name + "|" + p.name, Kind: "input", What: fmt.Sprintf("%s with value %q: %v", sl.name, p.src, err), Input: in})
				continue
			}
			// (a) read as HTML (the Lean lexer): every attribute value that carries the first sentinel carries the whole value —
			// a quote or a bracket in the value must not end the attribute or the tag early
			if line, lerr := drv.Ask("tags " + hexOf(got)); lerr == nil {
				dec, found := decodeSrc(p.src), 0
				for _, t := range parseTagsLine(line) {
					for _, a := range t.attrs {
						if strings.Contains(a[1], "S1E") {
							found++
							if !strings.Contains(html.UnescapeString(a[1]), dec) {
								res.Violate(Violation{Sig: "attr-content-cut|" + sl.name + "|" + p.name, Kind: "input",
									What:  fmt.Sprintf("%s=%q: read as HTML, <%s %s> has the value %q — not the author's value %q", sl.name, p.src, t.name, a[0], a[1], dec),
									Input: in})
								found = -1000
							}
						}
					}
				}
				if found == 0 {
					res.Violate(Violation{Sig: "attr-content-lost|" + sl.name + "|" + p.name, Kind: "input", What: fmt.Sprintf("%s=%q: no attribute of the output carries the value", sl.name, p.src), Input: in})
				}
				if found <= 0 {
					continue
				}
			}
			want := strings.ReplaceAll(ub, ref, decodeSrc(p.src))
			if ug := html.UnescapeString(got); ug != want {
				at := firstDiff(ug, want)
				res.Violate(Violation{Sig: "attr-content-differs|" + sl.name + "|" + p.name, Kind: "input",
					What:  fmt.Sprintf("%s=%q: the output is not the output of the reference value with the value put in its place (character references decoded), at offset %d: …%s… vs expected …%s…", sl.name, p.src, at, around(ug, at), around(want, at)),
					Input: in})
			}
		}
	}
}

// ---- every string-typed attribute a component accepts reaches the output ------------------------------------------------
//
// "A structurally valid document never loses content silently": an attribute that the allowed-attribute table accepts with
// the type "string" (addresses, alternative texts, names, font families, border shorthands …) and that the component then reads
// nowhere is content lost without an error.  For every (component, string attribute) a distinctive value is written on the
// element in its legal context; the value (or, for shorthands, its distinctive part) must occur in the output.

// consumed, not rendered: the attribute selects behaviour instead of being written out
var consumedStringAttrs = map[string]bool{
	"mj-style/inline": true, "mj-font/name": true, "mj-font/href": true, "mj-social-element/name": true, "mj-navbar/hamburger": true, "mj-hero/mode": true,
	"mj-navbar/base-url":               true, // prefixed to relative link addresses
	"mj-carousel-image/thumbnails-src": true, // covered by the attribute matrix (needs visible thumbnails)
	// set by the legal context itself (a second writing would be a duplicate attribute): covered by the attribute matrix
	"mj-image/src": true, "mj-carousel-image/src": true, "mj-navbar-link/href": true, "mj-social-element/href": true,
}

// contentLikeAttr: addresses, alternative and tool-tip texts, names and link attributes — what the author wrote to be carried
// into the markup as it is (styling attributes such as borders, fonts, decorations are not content in the sense of C04)
func contentLikeAttr(a string) bool {
	switch a {
	case "href", "src", "srcset", "sizes", "usemap", "alt", "title", "name", "rel", "target", "ico-open", "ico-close":
		return true
	}
	return strings.HasSuffix(a, "-url") || strings.HasSuffix(a, "-alt") || strings.HasSuffix(a, "-icon") || strings.HasSuffix(a, "-src")
}

func stringAttrValue(attr string) (value, expect string) {
	switch {
	case strings.Contains(attr, "border") && attr != "border-radius" && attr != "border-style":
		return "3px dashed #a1b2c3", "#a1b2c3"
	case attr == "font-family" || strings.HasSuffix(attr, "-font-family"):
		return "Sentinelfont, serif", "Sentinelfont"
	case strings.HasSuffix(attr, "url") || attr == "href" || attr == "src" || strings.HasSuffix(attr, "-icon") || strings.HasSuffix(attr, "-src") || attr == "ico-open" || attr == "ico-close":
		return "http://x/S1EREF.png", "http://x/S1EREF.png"
	case attr == "srcset":
		return "http://x/S1EREF.png 2x", "http://x/S1EREF.png 2x"
	case attr == "usemap":
		return "#S1EREF", "#S1EREF"
	}
	return "s1eref", "s1eref"
}

func runC04StringAttrs(res *Result) {
	for _, tag := range bodyTags {
		for _, a := range allowedSorted(tag) {
			if a[1] != "string" || consumedStringAttrs[tag+"/"+a[0]] || !contentLikeAttr(a[0]) {
				continue
			}
			val, expect := stringAttrValue(a[0])
			src := legalContext(tag, a[0]+`="`+val+`"`, "")
			if src == "" {
				continue
			}
			// link attributes need a link
			if (tag == "mj-button" || tag == "mj-image" || tag == "mj-carousel-image") && (a[0] == "rel" || a[0] == "target" || a[0] == "name") {
				src = strings.Replace(src, "<"+tag+" ", "<"+tag+` href="http://x/u" `, 1)
				if tag == "mj-carousel-image" {
					src = strings.Replace(src, `<mj-carousel-image src="a.png" `, `<mj-carousel-image src="a.png" href="http://x/u" `, 1)
				}
			}
			// the hamburger navbar writes its icon attributes only when the hamburger is switched on
			if tag == "mj-navbar" && strings.HasPrefix(a[0], "ico-") {
				src = strings.Replace(src, "<mj-navbar ", `<mj-navbar hamburger="hamburger" `, 1)
			}
			got, err := renderPlain(src)
			res.Case("string-attr|"+tag+"|"+a[0], true)
			res.Count("string-attr-sweep")
			in := map[string]string{"source": src, "component": tag, "attribute": a[0]}
			if err != nil {
				res.Violate(Violation{Sig: "string-attr-error|" + tag + "|" + a[0], Kind: "input", What: fmt.Sprintf("<%s %s=%q>: %v", tag, a[0], val, err), Input: in})
				continue
			}
			if !strings.Contains(strings.ToLower(html.UnescapeString(got)), strings.ToLower(expect)) {
				res.Violate(Violation{Sig: "string-attr-dropped|" + tag + "|" + a[0], Kind: "input",
					What:  fmt.Sprintf("<%s %s=%q> is accepted without an error, but %q occurs nowhere in the output: the attribute is dropped silently", tag, a[0], val, expect),
					Input: in})
			}
		}
	}
}
