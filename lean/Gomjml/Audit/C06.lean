import Gomjml.Props.C06
#print axioms Gomjml.Props.C06.disciplined_seqAll
#print axioms Gomjml.Props.C06.C06a_all_sites_disciplined
#print axioms Gomjml.Props.C06.C06a_renderer_disciplined
#print axioms Gomjml.Props.C06.C06a_fault
#print axioms Gomjml.Props.C06.C06b_result_shapes
#print axioms Gomjml.Props.C06.C06c_panic_census
