import Gomjml.Props.C03
#print axioms Gomjml.Props.C03.C03_full
#print axioms Gomjml.Props.C03.C03_wrapper_hand_over
#print axioms Gomjml.Layout.C02_C03_all
#print axioms Gomjml.Layout.wf_spec
#print axioms Gomjml.Props.C03.C03_components
#print axioms Gomjml.Props.C03.C03_social_loop
#print axioms Gomjml.Props.C03.C03_navbar_loop
#print axioms Gomjml.Props.C03.C03_navbar_first
