import Gomjml.Core.Tag
import Driver.HtmlP
/-! driver sub-protocol `tag`: run the HTMLTag Model on an operation list; payloads hex-encoded -/
open Gomjml.Tag

namespace Driver.TagP

def hexDigit (n : Nat) : Char := if n < 10 then Char.ofNat (48 + n) else Char.ofNat (87 + n)
def hexOfString (s : String) : String :=
  String.mk (s.toUTF8.toList.flatMap (fun b => [hexDigit (b.toNat / 16), hexDigit (b.toNat % 16)]))
def unhexS (h : String) : String :=
  match String.fromUTF8? (Driver.HtmlP.unhex h) with | some s => s | none => "�"

def applyOp (t : HTag) (op : String) : HTag :=
  match op.splitOn ":" with
  | ["a", n, v] => addAttr t (unhexS n) (unhexS v)
  | ["ma", n, v] => maybeAddAttr t (unhexS n) (if v == "-" then none else some (unhexS v))
  | ["c", c] => addClass t (unhexS c)
  | ["s", n, v] => addStyle t (unhexS n) (unhexS v)
  | ["ms", n, v] => maybeAddStyle t (unhexS n) (unhexS v)
  | _ => t

/-- `tag <hex name> ops…` → hex(open) hex(close) hex(selfclosing) -/
def handle (args : List String) : String :=
  match args with
  | name :: ops =>
    let t := ops.foldl applyOp (new (unhexS name))
    s!"{hexOfString (bytes (renderOpen t))} {hexOfString (bytes (renderClose t))} {hexOfString (bytes (renderSelfClosing t))}"
  | _ => "bad-request"

end Driver.TagP
