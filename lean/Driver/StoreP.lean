import Gomjml.Core.Store
import Driver.TagP
/-! driver sub-protocol `store <entries…> ? <queries…>`: the children of the head's mj-attributes blocks in document order —
    `A:<attrs>` mj-all, `C:<attrs>` mj-class (its `name` among the attributes), `T<hex tag>:<attrs>` a tag default, `/` between
    blocks; attrs = `<hex key>=<hex value>` joined by `,` (`-` = empty hex).  Queries: `g:<hex tag>:<hex attr>` (GetGlobalAttribute),
    `c:<hex class>:<hex attr>` (GetClassAttribute).  Answer: one hex value per query (`-` = empty). -/
open Gomjml.Store

namespace Driver.StoreP
open Driver.TagP (unhexS hexOfString)

def un (h : String) : String := if h == "-" then "" else unhexS h

def attrs (s : String) : Attrs :=
  if s == "" then [] else
  (s.splitOn ",").filterMap fun kv =>
    match kv.splitOn "=" with
    | [k, v] => some (un k, un v)
    | _ => none

def entry (s : String) : Option Entry :=
  match s.splitOn ":" with
  | [h, as] =>
    if h == "A" then some (.all (attrs as))
    else if h == "C" then some (.cls (attrs as))
    else if h.startsWith "T" then some (.tag (un (h.drop 1).toString) (attrs as))
    else none
  | _ => none

/-- the token list cut at the `/` tokens -/
def cutBlocks : List String → List String → List (List String)
  | [], cur => [cur.reverse]
  | t :: r, cur => if t == "/" then cur.reverse :: cutBlocks r [] else cutBlocks r (t :: cur)

def blocksOf (ts : List String) : List (List Entry) := (cutBlocks ts []).map fun b => b.filterMap entry

def query (s : Store) (q : String) : String :=
  let sh := fun (v : String) => if v == "" then "-" else hexOfString v
  match q.splitOn ":" with
  | ["g", t, a] => sh (globalAttr s (un t) (un a))
  | ["c", c, a] => sh (classAttr s (un c) (un a))
  | _ => "bad-query"

def handle (args : List String) : String :=
  let es := args.takeWhile (· != "?")
  let qs := (args.dropWhile (· != "?")).drop 1
  let s := build (blocksOf es)
  " ".intercalate (qs.map (query s))

end Driver.StoreP
