import Gomjml.Core.Resolve
import Driver.TagP
/-! driver sub-protocol `res`: Spec winner and the three accessor models for a batch of source tuples.
    item = `own|c1;c2;…|tag|all|builtin`, every value hex, `-` = not defined; output per item `winner,full,noglobal,raw,css-class` (hex; the last: what `GetCSSClass` gives when the attribute is css-class) -/
open Gomjml.Resolve

namespace Driver.ResP
open Driver.TagP (unhexS hexOfString)

def opt (s : String) : Option String := if s == "-" then none else some (unhexS s)

def item (s : String) : String :=
  match s.splitOn "|" with
  | [o, cs, t, a, b] =>
    let src : Sources := ⟨(opt o).getD "", (if cs == "" then [] else (cs.splitOn ";").map opt), opt t, opt a, (opt b).getD ""⟩
    s!"{hexOfString (winner src)},{hexOfString (accFull src)},{hexOfString (accNoGlobal src)},{hexOfString (accRaw src)},{hexOfString (accCssClass src)}"
  | _ => "bad-item"

def handle (args : List String) : String := " ".intercalate (args.map item)

end Driver.ResP
