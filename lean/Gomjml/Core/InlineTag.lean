import Gomjml.Core.Amp
/-! # C19 — the inline-style scanner's per-tag step (`inlineStylesInTag` in mjml/components/inline_html.go)

Byte-exact, control-flow-faithful model of `parseTag` and of the write-back: a start tag is cut into its name and a list of
attributes (white space in front, the attribute as written, name, value, quote), the declarations of the targeted classes are
merged into the style attribute (or a style attribute is appended) and the tag is written back — untouched attributes with the
bytes they were written with.  The model also keeps what the loop did NOT consume (`rest`), which the Go code ignores: a parse is
`clean` when that is just the closing `>`.  For clean parses the write-back is proved to reproduce the input byte for byte apart
from the style attribute (`Props.C19`).  Tied to the implementation by running both on the same tags (driver `inltag`). -/
namespace Gomjml.InlineTag
open Gomjml.Amp

def slash : B := 47
def eqs : B := 61
def isSp (b : B) : Bool := b == 32 || b == 10 || b == 13 || b == 9

structure Attr where
  pre : List B        -- white space in front of the attribute
  name : List B
  value : List B
  quote : B           -- 0 = written without quotes
  hasValue : Bool
  raw : List B        -- the attribute exactly as written; [] once it has been rewritten
deriving Repr, DecidableEq

/-- how the attribute loop ended -/
inductive Ending
  | gt                         -- at `>` (or at the end of the text)
  | slash (suffix : List B)    -- at `/`: self-closing, `suffix` = white space in front of the slash ++ "/"
  | badName                    -- an attribute name was expected and none found
deriving Repr, DecidableEq

structure Parsed where
  name : List B
  attrs : List Attr
  ending : Ending
  /-- bytes the loop did not look at: from the white space in front of the stopping point (`gt`, `badName`), or behind the
      slash and the white space after it (`slash`) -/
  rest : List B
deriving Repr, DecidableEq

/-- an unquoted value ends at white space or `>`; a `/` directly in front of `>` is the self-closing mark -/
def spanUnq : List B → List B × List B
  | [] => ([], [])
  | b :: r =>
    if isSp b || b == gt then ([], b :: r)
    else if b == slash && r.head? == some gt then ([], b :: r)
    else let (v, rest) := spanUnq r; (b :: v, rest)

def isNameByte (b : B) : Bool := !isSp b && b != eqs && b != gt && b != slash
def isTagNameByte (b : B) : Bool := !isSp b && b != gt && b != slash

/-- the value part behind an attribute name: `(value, quote, hasValue, remaining)`; `r1` = text directly behind the name -/
def parseValue (r1 : List B) : List B × B × Bool × List B :=
  match r1.dropWhile isSp with
  | e :: r3 =>
    if e == eqs then
      match r3.dropWhile isSp with
      | q :: r5 =>
        if q == dq || q == sq then
          (r5.takeWhile (· != q), q, true, (r5.dropWhile (· != q)).drop 1)
        else
          let (v, rest) := spanUnq (q :: r5)
          (v, 0, true, rest)
      | [] => ([], 0, true, [])
    else ([], 0, false, r1)     -- no '=': the white space behind the name belongs to what follows
  | [] => ([], 0, false, r1)

/-- the attribute loop of `parseTag`; `s` = text behind the tag name -/
def loop : Nat → List B → List Attr → List Attr × Ending × List B
  | 0, s, acc => (acc.reverse, .gt, s)
  | fuel + 1, s, acc =>
    let pre := s.takeWhile isSp
    match s.dropWhile isSp with
    | [] => (acc.reverse, .gt, s)
    | b :: r =>
      if b == gt then (acc.reverse, .gt, s)
      else if b == slash then (acc.reverse, .slash (pre ++ [slash]), r.dropWhile isSp)
      else
        let nm := (b :: r).takeWhile isNameByte
        let r1 := (b :: r).dropWhile isNameByte
        if nm == [] then (acc.reverse, .badName, s)
        else
          let (v, q, hv, rest) := parseValue r1
          let raw := (b :: r).take ((b :: r).length - rest.length)
          loop fuel rest (⟨pre, nm, v, q, hv, raw⟩ :: acc)

/-- `parseTag`: `none` when the text does not start with `<` followed by a tag name -/
def parse (tag : List B) : Option Parsed :=
  match tag with
  | l :: r =>
    if l == lt && r.length ≥ 1 then
      let r0 := r.dropWhile isSp
      let nm := r0.takeWhile isTagNameByte
      if nm == [] then none
      else
        let (attrs, e, rest) := loop (r0.length + 1) (r0.dropWhile isTagNameByte) []
        some ⟨nm, attrs, e, rest⟩
    else none
  | [] => none

/-- is the tag self-closing, and with which suffix?  (`parseTag`'s two ways of deciding) -/
def trimRight (s : List B) : List B := (s.reverse.dropWhile isSp).reverse

def closing (tag : List B) (p : Parsed) : List B :=
  match p.ending with
  | .slash suffix => suffix
  | _ =>
    -- decided on the text: the trimmed tag ends with "/>"
    let t := trimRight (tag.dropWhile isSp)
    if [slash, gt].isSuffixOf t then
      (if [32, slash, gt].isSuffixOf tag then [32, slash, gt] else [slash])
    else []

def emitAttr (a : Attr) : List B :=
  a.pre ++ (if a.raw != [] then a.raw
            else a.name ++ (if a.hasValue then [eqs] ++ [if a.quote == 0 then dq else a.quote] ++ a.value ++ [if a.quote == 0 then dq else a.quote] else []))

/-- the write-back -/
def rebuild (name : List B) (attrs : List Attr) (close : List B) : List B :=
  [lt] ++ name ++ attrs.flatMap emitAttr ++ close ++ [gt]

def lowerB (b : B) : B := if b ≥ 65 && b ≤ 90 then b + 32 else b
def nameIs (n : List B) (a : Attr) : Bool := a.name.map lowerB == n
def classN : List B := [99, 108, 97, 115, 115]
def styleN : List B := [115, 116, 121, 108, 101]

def trimB (s : List B) : List B := trimRight (s.dropWhile isSp)

/-- `mergeInlineStyleValues` -/
def mergeStyle (existing inline : List B) : List B :=
  if existing == [] then inline
  else if inline == [] then existing
  else
    let e := trimB existing
    let i := trimB inline
    if e == [] then i
    else if i == [] then e
    else (if [semi].isSuffixOf e then e else e ++ [semi]) ++ i

/-- index of the LAST attribute with the given (case-insensitive) name -/
def lastIdx (n : List B) (attrs : List Attr) : Option Nat :=
  (attrs.zipIdx.filter (fun p => nameIs n p.1)).getLast?.map (·.2)

/-- `inlineStylesInTag`; `inl` = declarations for a class attribute value (`BuildInlineStyleString`) -/
def inlineTag (inl : List B → List B) (tag : List B) : List B :=
  match parse tag with
  | none => tag
  | some p =>
    if p.attrs == [] then tag
    else match lastIdx classN p.attrs with
      | none => tag
      | some ci =>
        let d := inl (p.attrs[ci]?.map (·.value) |>.getD [])
        if d == [] then tag
        else
          let attrs' := match lastIdx styleN p.attrs with
            | some si => p.attrs.modify si (fun a => { a with value := mergeStyle a.value d, hasValue := true, raw := [] })
            | none => p.attrs ++ [⟨[32], styleN, d, dq, true, []⟩]
          rebuild p.name attrs' ((closing tag p))

/-- a parse that looked at every byte: the loop stopped at the closing `>` -/
def Parsed.clean (p : Parsed) : Bool :=
  match p.ending with
  | .gt => p.rest.dropWhile isSp == [gt]
  | .slash _ => p.rest == [gt]
  | .badName => false

end Gomjml.InlineTag
