-- Root of the `Gomjml` library: models, lemmas and property theorems.
import Gomjml.Core.Merge
import Gomjml.Core.WriterFault
import Gomjml.Core.Tree
import Gomjml.Core.SingleFlight
import Gomjml.Core.Cache
import Gomjml.Core.Frame
import Gomjml.Core.Perm
import Gomjml.Core.Lexer
import Gomjml.Core.Layout
import Gomjml.Core.Amp
