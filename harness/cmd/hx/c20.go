package main

import (
	"bytes"
	"fmt"
	"os"
	"os/exec"
	"path/filepath"
	"strings"
	"syscall"
	"time"

	"github.com/preslavrachev/gomjml/mjml"
)

type cliCase struct {
	doc      string // valid | carousel | invalid | unparsable | missing | dir | empty
	out      string // file | stdout | none | both | baddir
	debug    bool
	cache    bool
	ttl      string // "" = flag absent
	interval string
}

func (c cliCase) String() string {
	return fmt.Sprintf("%s/%s/debug=%v/cache=%v/ttl=%s/int=%s", c.doc, c.out, c.debug, c.cache, c.ttl, c.interval)
}

var cliDocs = map[string]string{
	"valid":      cacheDocs[0],
	"carousel":   `<mjml><mj-body><mj-section><mj-column><mj-carousel><mj-carousel-image src="a.png"/><mj-carousel-image src="b.png"/></mj-carousel></mj-column></mj-section></mj-body></mjml>`,
	"invalid":    cacheDocs[3],
	"unparsable": cacheDocs[2],
	"empty":      "",
	"head":       `<mjml><mj-head><mj-title>T</mj-title><mj-attributes><mj-all font-family="Lato"/></mj-attributes></mj-head><mj-body><mj-section><mj-column><mj-text>X</mj-text><mj-button href="u">B</mj-button></mj-column></mj-section></mj-body></mjml>`,
}

func buildCLI(dir string) (string, string) {
	bin := filepath.Join(dir, "gomjml")
	cmd := exec.Command("go", "build", "-o", bin, "./cmd/gomjml")
	cmd.Dir = repoDir()
	cmd.Env = append(os.Environ(), "GOFLAGS=-mod=mod", "GOPROXY=off")
	out, err := cmd.CombinedOutput()
	if err != nil {
		return "", string(out)
	}
	return bin, ""
}

func runC20(res *Result, tier string, seed int64, replay string) {
	res.Rule = "the built gomjml binary, one fresh process per case: documents {valid, carousel (random id), head attributes, invalid-attribute, unparsable, empty, missing path, directory} × output {-o file, -s, neither, both, -o into a missing directory} × --debug × --cache × --cache-ttl {absent, 1ns, 0s, -1s, 10m, 2562047h} × --cache-cleanup-interval {absent, 0s, 1ns, 1m, -5s}; observed exit code / stdout / stderr / output-file bytes (pre-existing file holds a sentinel) vs the Lean decision model (driver `cli`) applied to the in-process mjml.Render result with the corresponding options. + inputs that are not regular files (a named pipe, /dev/stdin fed by a pipe; to standard output and to -o) + path cases (relative paths, '..' through real and symlinked directories, trailing separators, missing components, symlinked files, absolute paths, the path \"-\" with and without a file of that name and a document waiting on standard input; for the input and for -o) judged against what os.ReadFile / os.WriteFile do with the same strings. Non-trivial = case that reaches the library; distinct by case tuple"
	dir, err := os.MkdirTemp("", "verif-c20-")
	if err != nil {
		res.Disagree(Violation{Sig: "tmpdir", What: err.Error()})
		return
	}
	defer os.RemoveAll(dir)
	bin, berr := buildCLI(dir)
	if bin == "" {
		res.Disagree(Violation{Sig: "cli-build-failed", Kind: "config", What: short(berr, 500)})
		return
	}
	drv, err := startDriverPool(4)
	if err != nil {
		res.Disagree(Violation{Sig: "driver-missing", What: err.Error()})
		return
	}
	defer drv.Close()
	ttls := []string{"", "1ns", "0s", "-1s", "10m", "2562047h"}
	ints := []string{"", "0s", "1ns", "1m", "-5s"}
	var cases []cliCase
	for _, d := range []string{"valid", "carousel", "head", "invalid", "unparsable", "empty", "missing", "dir"} {
		for _, o := range []string{"file", "stdout", "none", "both", "baddir"} {
			for _, dbg := range []bool{false, true} {
				for _, ca := range []bool{false, true} {
					for _, t := range ttls {
						for _, iv := range ints {
							if !ca && (t != "" || iv != "") && tier != "thorough" && !(t == "1ns" && iv == "0s") {
								continue // quick tier: duration flags mostly together with --cache
							}
							cases = append(cases, cliCase{d, o, dbg, ca, t, iv})
						}
					}
				}
			}
		}
	}
	res.Exhaustive = true
	// the library results are computed sequentially up front: concurrent in-process renders of documents with different
	// heads interfere with each other (C07's finding) and would make the reference itself unreliable
	type libRes struct {
		html string
		kind string
	}
	libOf := map[string]libRes{}
	for name, content := range cliDocs {
		for _, dbg := range []bool{false, true} {
			var opts []mjml.RenderOption
			if dbg {
				opts = append(opts, mjml.WithDebugTags(true))
			}
			h, e := mjml.Render(content, opts...) // the cache option does not change the result (C13)
			k := "fail"
			switch {
			case e == nil:
				k = "ok"
			case h != "":
				k = "val"
			}
			libOf[fmt.Sprintf("%s/%v", name, dbg)] = libRes{h, k}
		}
	}
	parallel(16, len(cases), func(i int) {
		c := cases[i]
		wd := filepath.Join(dir, fmt.Sprintf("case%d", i))
		os.MkdirAll(wd, 0o755)
		defer os.RemoveAll(wd)
		in := filepath.Join(wd, "in.mjml")
		content, isDoc := cliDocs[c.doc]
		switch c.doc {
		case "missing":
			in = filepath.Join(wd, "does-not-exist.mjml")
		case "dir":
			in = wd
		default:
			os.WriteFile(in, []byte(content), 0o644)
		}
		outPath := filepath.Join(wd, "out.html")
		// longer than any output: a write that does not truncate leaves a tail behind
		sentinel := strings.Repeat("PRE-EXISTING CONTENT\n", 4000)
		preexisting := i%2 == 0
		if preexisting {
			os.WriteFile(outPath, []byte(sentinel), 0o644)
		}
		args := []string{"compile", in}
		hasOut := false
		switch c.out {
		case "file":
			args = append(args, "-o", outPath)
			hasOut = true
		case "stdout":
			args = append(args, "-s")
		case "both":
			args = append(args, "-o", outPath, "-s")
			hasOut = true
		case "baddir":
			outPath = filepath.Join(wd, "no-such-dir", "out.html")
			preexisting = false
			args = append(args, "-o", outPath)
			hasOut = true
		}
		if c.debug {
			args = append(args, "--debug")
		}
		if c.cache {
			args = append(args, "--cache")
		}
		if c.ttl != "" {
			args = append(args, "--cache-ttl="+c.ttl)
		}
		if c.interval != "" {
			args = append(args, "--cache-cleanup-interval="+c.interval)
		}
		cmd := exec.Command(bin, args...)
		var so, se bytes.Buffer
		cmd.Stdout, cmd.Stderr = &so, &se
		done := make(chan error, 1)
		cmd.Start()
		go func() { done <- cmd.Wait() }()
		var werr error
		select {
		case werr = <-done:
		case <-time.After(30 * time.Second):
			cmd.Process.Kill()
			werr = fmt.Errorf("hang")
		}
		exit := 0
		if werr != nil {
			exit = 1
			if ee, ok := werr.(*exec.ExitError); ok {
				exit = ee.ExitCode()
			}
		}
		fileBytes, ferr := os.ReadFile(outPath)
		fileState := "-"
		if ferr == nil {
			fileState = string(fileBytes)
		}
		// ---- expected: the library, in process, with the corresponding options
		lib := "fail"
		html := ""
		if isDoc {
			lr := libOf[fmt.Sprintf("%s/%v", c.doc, c.debug)]
			html, lib = lr.html, lr.kind
		}
		readOk := "1"
		if !isDoc {
			readOk = "0"
		}
		writeOk := "1"
		if c.out == "baddir" {
			writeOk = "0"
		}
		pred, perr := drv.Ask(fmt.Sprintf("cli %s %s %s %s", readOk, lib, b01(hasOut), writeOk))
		if perr != nil {
			res.Disagree(Violation{Sig: "driver-failed", What: perr.Error()})
			return
		}
		res.Case(c.String(), isDoc)
		res.mu.Lock()
		res.Programs++
		res.DisagreementsChecked++
		res.mu.Unlock()
		if i%400 == 3 {
			res.Sample(map[string]interface{}{"args": args[2:], "doc": c.doc, "exit": exit, "model": pred})
		}
		res.Count("doc=" + c.doc)
		// decode prediction
		f := map[string]string{}
		for _, kv := range strings.Fields(pred) {
			p := strings.SplitN(kv, "=", 2)
			f[p[0]] = p[1]
		}
		canon := func(s string) string { return alphaIDs(s) }
		problems := []string{}
		sigs := []string{}
		if exit > 1 || exit < 0 || strings.Contains(se.String(), "panic:") || strings.Contains(se.String(), "goroutine ") {
			problems = append(problems, fmt.Sprintf("process crashed (exit %d): %s", exit, short(se.String(), 200)))
			sigs = append(sigs, "crash")
		}
		if (f["exit"] == "0") != (exit == 0) {
			problems = append(problems, fmt.Sprintf("exit code %d, model %s", exit, f["exit"]))
			sigs = append(sigs, "exit-code")
		}
		wantStdout := ""
		if f["stdout"] == "H" {
			wantStdout = html
		}
		if canon(so.String()) != canon(wantStdout) {
			problems = append(problems, fmt.Sprintf("stdout differs from the library's bytes at %d", firstDiff(canon(so.String()), canon(wantStdout))))
			sigs = append(sigs, "stdout-bytes")
		}
		if (f["stderr"] == "1") != (se.Len() > 0) {
			problems = append(problems, fmt.Sprintf("stderr non-empty=%v, model %s", se.Len() > 0, f["stderr"]))
			sigs = append(sigs, "stderr")
		}
		wantFile := "-"
		if preexisting {
			wantFile = sentinel
		}
		if f["file"] == "H" {
			wantFile = html
		}
		if canon(fileState) != canon(wantFile) {
			what := "output file differs from the library's bytes"
			if f["file"] != "H" {
				what = "output file created or overwritten by a failing run"
			}
			problems = append(problems, what)
			sigs = append(sigs, "file-bytes")
		}
		if len(problems) > 0 {
			res.Violate(Violation{Sig: strings.Join(sigs, "+") + "|" + c.doc + "/" + c.out, Kind: "config", What: strings.Join(problems, "; "),
				Input: map[string]interface{}{"args": args[2:], "doc": c.doc, "source": content, "case": c.String()}})
		}
	})
	c20Paths(res, bin, dir)
	c20Streams(res, bin, dir)
}

// c20Paths: the file named on the command line is the file the operating system resolves — relative paths, "..", symlinked
// directories, a trailing separator, a component that does not exist — for the input and for -o; the expectation comes from
// what os.ReadFile / os.WriteFile do with the very same path string in the same directory.
func c20Paths(res *Result, bin, dir string) {
	docX := `<mjml><mj-body><mj-section><mj-column><mj-text>document X (shared)</mj-text></mj-column></mj-section></mj-body></mjml>`
	docY := `<mjml><mj-body><mj-section><mj-column><mj-text>document Y (top)</mj-text></mj-column></mj-section></mj-body></mjml>`
	type pc struct {
		name string
		in   string
		out  string // "" = stdout
	}
	cases := []pc{
		{"plain", "in.mjml", "out.html"}, {"dot-slash", "./in.mjml", "./out.html"}, {"double-slash", ".//in.mjml", "sub//out.html"},
		{"dotdot-real-dir", "sub/../in.mjml", "sub/../out.html"}, {"out-through-symlink", "in.mjml", "tpl/../out.html"},
		{"in-through-symlink", "tpl/../in.mjml", ""}, {"in-through-symlink-to-file", "tpl/../in.mjml", "out.html"},
		{"in-trailing-separator", "in.mjml/", "out.html"}, {"in-missing-component", "missing/../in.mjml", "out.html"},
		{"out-trailing-separator", "in.mjml", "out.html/"}, {"out-missing-component", "in.mjml", "missing/../out.html"},
		{"in-symlinked-file", "link.mjml", "out.html"}, {"absolute", "ABS/in.mjml", "ABS/sub/out.html"},
		// a path is a path: "-" names the file called "-" (there is one in the first case, none in the other two); a valid
		// document waits on standard input in every case and must not be read
		{"dash-file", "-", "out.html"}, {"dash-missing", "-", "out.html"}, {"dash-missing-stdout", "-", ""},
	}
	docStdin := `<mjml><mj-body><mj-section><mj-column><mj-text>from standard input</mj-text></mj-column></mj-section></mj-body></mjml>`
	for i, c := range cases {
		wd := filepath.Join(dir, fmt.Sprintf("path%d", i))
		os.MkdirAll(filepath.Join(wd, "shared", "templates"), 0o755)
		os.MkdirAll(filepath.Join(wd, "sub"), 0o755)
		os.WriteFile(filepath.Join(wd, "in.mjml"), []byte(docY), 0o644)
		os.WriteFile(filepath.Join(wd, "shared", "in.mjml"), []byte(docX), 0o644)
		os.Symlink(filepath.Join("shared", "templates"), filepath.Join(wd, "tpl"))
		os.Symlink(filepath.Join("shared", "in.mjml"), filepath.Join(wd, "link.mjml"))
		if c.name == "dash-file" {
			os.WriteFile(filepath.Join(wd, "-"), []byte(docX), 0o644)
		}
		in := strings.ReplaceAll(c.in, "ABS", wd)
		out := strings.ReplaceAll(c.out, "ABS", wd)
		// what the operating system makes of the very same strings, from the same directory
		old, _ := os.Getwd()
		os.Chdir(wd)
		srcBytes, rerr := os.ReadFile(in)
		var werr error
		wrote := ""
		if out != "" {
			probe := []byte("probe")
			if werr = os.WriteFile(out, probe, 0o644); werr == nil {
				// find the file the OS wrote, then remove it again
				filepath.Walk(wd, func(p string, fi os.FileInfo, _ error) error {
					if fi != nil && fi.Mode().IsRegular() {
						if b, _ := os.ReadFile(p); string(b) == "probe" {
							wrote = p
						}
					}
					return nil
				})
				os.Remove(wrote)
			}
		}
		os.Chdir(old)
		want, wantErr := "", rerr != nil
		if rerr == nil {
			want, _ = mjml.Render(string(srcBytes))
		}
		args := []string{"compile", in}
		if out != "" {
			args = append(args, "-o", out)
		}
		cmd := exec.Command(bin, args...)
		cmd.Dir = wd
		cmd.Stdin = strings.NewReader(docStdin)
		var so, se bytes.Buffer
		cmd.Stdout, cmd.Stderr = &so, &se
		runErr := cmd.Run()
		res.Case("path|"+c.name, true)
		res.Count("paths")
		in2 := map[string]interface{}{"case": "path/" + c.name, "args": args, "layout": "in.mjml (Y), shared/in.mjml (X), sub/, tpl -> shared/templates, link.mjml -> shared/in.mjml"}
		fail := func(sig, what string) {
			res.Violate(Violation{Sig: sig + "|path/" + c.name, Kind: "config", What: what, Input: in2})
		}
		switch {
		case wantErr || (out != "" && werr != nil):
			if runErr == nil {
				fail("exit-code", fmt.Sprintf("the operating system refuses this path (read: %v, write: %v) but the command exits 0", rerr, werr))
			} else if se.Len() == 0 {
				fail("stderr", "the command fails without a message on standard error")
			} else if so.Len() != 0 {
				fail("stdout-on-error", "the command fails and still writes to standard output")
			}
			if wantErr && out != "" && werr == nil {
				if _, serr := os.Stat(filepath.Join(wd, out)); serr == nil {
					fail("file-created-on-error", "the input cannot be read, yet the output file was created")
				}
			}
		case runErr != nil:
			fail("exit-code", fmt.Sprintf("the operating system accepts these paths but the command fails: %v %s", runErr, short(se.String(), 200)))
		case out == "":
			if alphaIDs(so.String()) != alphaIDs(want) {
				fail("stdout-bytes", "standard output is not the compilation of the file the path names")
			}
		default:
			got, gerr := os.ReadFile(wrote)
			if wrote == "" || gerr != nil {
				fail("file-bytes", "the file the path names was not written")
			} else if alphaIDs(string(got)) != alphaIDs(want) {
				fail("file-bytes", "the output file does not hold the compilation of the file the input path names")
			}
		}
	}
}

// c20Streams: inputs that are not regular files — a named pipe, /dev/stdin fed by a pipe: "the file's content" is what reading
// the path yields (os.ReadFile reads to the end of the stream; a size taken from stat would be 0)
func c20Streams(res *Result, bin, dir string) {
	src := `<mjml><mj-body><mj-section><mj-column><mj-text>streamed input</mj-text><mj-divider/></mj-column></mj-section></mj-body></mjml>`
	want, _ := mjml.Render(src)
	wd := filepath.Join(dir, "streams")
	os.MkdirAll(wd, 0o755)
	fail := func(name, sig, what string) {
		res.Violate(Violation{Sig: sig + "|stream/" + name, Kind: "config", What: what, Input: map[string]interface{}{"case": "stream/" + name, "source": src}})
	}
	for _, toFile := range []bool{false, true} {
		// (a) a named pipe
		fifo := filepath.Join(wd, "in.fifo")
		os.Remove(fifo)
		if err := syscall.Mkfifo(fifo, 0o644); err == nil {
			go func() {
				if f, err := os.OpenFile(fifo, os.O_WRONLY, 0); err == nil {
					f.WriteString(src)
					f.Close()
				}
			}()
			args := []string{"compile", fifo}
			out := filepath.Join(wd, "fifo.html")
			os.Remove(out)
			if toFile {
				args = append(args, "-o", out)
			}
			cmd := exec.Command(bin, args...)
			var so, se bytes.Buffer
			cmd.Stdout, cmd.Stderr = &so, &se
			done := make(chan error, 1)
			go func() { done <- cmd.Run() }()
			var runErr error
			select {
			case runErr = <-done:
			case <-time.After(10 * time.Second):
				cmd.Process.Kill()
				runErr = fmt.Errorf("timeout")
			}
			res.Case(fmt.Sprintf("stream|fifo|%v", toFile), true)
			res.Count("streams")
			got := so.String()
			if toFile {
				b, _ := os.ReadFile(out)
				got = string(b)
			}
			if runErr != nil {
				fail("fifo", "exit-code", fmt.Sprintf("input through a named pipe: the command fails (%v: %s) although reading the path yields a valid document", runErr, short(se.String(), 160)))
			} else if got != want {
				fail("fifo", "output-bytes", "input through a named pipe: the output is not the library's result for the content of the pipe")
			}
		}
		// (b) /dev/stdin fed by a pipe
		args := []string{"compile", "/dev/stdin"}
		out := filepath.Join(wd, "stdin.html")
		os.Remove(out)
		if toFile {
			args = append(args, "-o", out)
		}
		cmd := exec.Command(bin, args...)
		cmd.Stdin = strings.NewReader(src)
		var so, se bytes.Buffer
		cmd.Stdout, cmd.Stderr = &so, &se
		runErr := cmd.Run()
		res.Case(fmt.Sprintf("stream|stdin|%v", toFile), true)
		res.Count("streams")
		got := so.String()
		if toFile {
			b, _ := os.ReadFile(out)
			got = string(b)
		}
		if runErr != nil {
			fail("dev-stdin", "exit-code", fmt.Sprintf("input /dev/stdin fed by a pipe: the command fails (%v: %s)", runErr, short(se.String(), 160)))
		} else if got != want {
			fail("dev-stdin", "output-bytes", "input /dev/stdin fed by a pipe: the output is not the library's result for what was piped in")
		}
	}
}

func init() { register("C20", runC20) }
