import Gomjml.Core.Cache
import Gomjml.Gen.Misc
/-! # C14 — fixed TTL, eviction, safe configuration

Property theorems only (model and lemmas: `Gomjml/Core/Cache.lean`). -/
namespace Gomjml.Props.C14
open Gomjml.Cache

/-- reuse strictly before expiry: the compilation is a hit, nothing in the cache changes (in particular the expiry
    is not extended) and the parser is not called -/
theorem C14_hit (w : World) (s : CS) (d : Doc) (o : Opt) (e : Entry) (hs : s.store (w.hash d) = some e) (hnow : s.now < e.expires) :
    (step w s (.render d true o)).1 = arm s ∧ (step w s (.render d true o)).1.parses = s.parses ∧
    (step w s (.render d true o)).1.store (w.hash d) = some e :=
  ⟨hit_no_change w s d o e hs hnow, hit_no_parse w s d o e hs hnow, by rw [hit_no_change w s d o e hs hnow]; simpa using hs⟩

/-- never at or after expiry: the entry is dropped, the document is parsed again (exactly once) and re-cached with a
    fresh stamp -/
theorem C14_expired (w : World) (s : CS) (d : Doc) (o : Opt) (e : Entry) (hs : s.store (w.hash d) = some e) (hnow : e.expires ≤ s.now)
    (a : Ast) (hp : w.parse d = .ok a) :
    (step w s (.render d true o)).1.store (w.hash d) = some ⟨a, s.now + s.ttl, s.now, s.ttl⟩ ∧
    (step w s (.render d true o)).1.parses = s.parses + 1 :=
  ⟨expired_reparsed w s d o e hs hnow a hp, miss_one_parse w s d o (Or.inr ⟨e, hs, hnow⟩)⟩

/-- fixed TTL: in every reachable state every entry expires exactly `ttl-at-store-time` after it was stored -/
theorem C14_fixed_ttl (w : World) (ttl : Int) (ops : List Op) (k : CKey) (e : Entry)
    (h : (runOps w (init ttl) ops).1.store k = some e) :
    e.expires = e.stored + e.ttlAt ∧ e.stored ≤ (runOps w (init ttl) ops).1.now :=
  (inv_reachable w ttl ops).stamp k e h

/-- eviction: after one sweep of a live cleaner no entry past its expiry remains (so an expired entry survives at most
    until the next tick, i.e. one cleanup interval) -/
theorem C14_sweep (w : World) (s : CS) (hc : s.cleaner = true) (k : CKey) (e : Entry)
    (h : (step w s .tick).1.store k = some e) : e.expires ≥ s.now := after_tick w s hc k e h

/-- any configuration is safe: the ticker is always created with a positive duration -/
theorem C14_ticker_positive (w : World) (ttl : Int) (ops : List Op) : 0 < tickerArg (runOps w (init ttl) ops).1 :=
  ticker_positive _

/-- once-only setters -/
theorem C14_setTTL_once (w : World) (s : CS) (d d' : Int) :
    (step w (step w s (.setTTL d)).1 (.setTTL d')).1 = (step w s (.setTTL d)).1 := setTTL_once w s d d'
theorem C14_setInterval_once (w : World) (s : CS) (d d' : Int) :
    (step w (step w s (.setInterval d)).1 (.setInterval d')).1 = (step w s (.setInterval d)).1 := setInterval_once w s d d'
theorem C14_setTTL_first (w : World) (s : CS) (d : Int) (h : s.ttlDone = false) : (step w s (.setTTL d)).1.ttl = d :=
  setTTL_first w s d h
theorem C14_setInterval_first (w : World) (s : CS) (d : Int) (h : s.intDone = false) :
    (step w s (.setInterval d)).1.interval = d := setInterval_first w s d h
theorem C14_ttl_then_interval (w : World) (ttl d i : Int) :
    (step w (step w (init ttl) (.setTTL d)).1 (.setInterval i)).1.interval = i := ttl_then_interval w ttl d i

/-- non-vacuity for the hit / expired hypotheses -/
def wEx : World := { parse := fun d => .ok (d + 10), rend := fun a _ => a, hash := fun d => d }
example : ∃ (s : CS) (e : Entry), s.store 0 = some e ∧ s.now < e.expires :=
  ⟨(runOps wEx (init 100) [.render 0 true 0]).1, ⟨10, 100, 0, 100⟩, by decide, by decide⟩
example : ∃ (s : CS) (e : Entry), s.store 0 = some e ∧ e.expires ≤ s.now :=
  ⟨(runOps wEx (init 100) [.render 0 true 0, .advance 100]).1, ⟨10, 100, 0, 100⟩, by decide, by decide⟩

/-- Regenerated fact: the only comparisons between times on the cache path are the strict `Before` on lookup and the
    strict `After` in the sweep. -/
theorem C14_time_comparisons :
    Gomjml.Gen.Misc.timeComparisons =
      [("mjml.parseAST", "Before", "time.Now()", "entry.expires"),
       ("mjml.startASTCacheCleanup", "After", "now", "entry.expires")] := by decide

/-- Regenerated fact: an entry's expiry is computed in one place, as `time.Now().Add(ttl)` (saturating: a huge TTL gives the
    far future, never the past). -/
theorem C14_expiry_expression : Gomjml.Gen.Misc.expiryExprs = [("mjml.parseAST", "time.Now().Add(ttl)")] := by decide

end Gomjml.Props.C14
