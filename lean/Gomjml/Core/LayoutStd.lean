import Gomjml.Core.LayoutSpec
/-! The standard client's half of the layout model, for EVERY document.

`Layout.run` tracks both stacks and so rejects bodies whose *Outlook* tables are unbalanced (the wrapper ↔ section hand-over,
finding C03-F1).  What a standard client sees does not depend on what is inside Outlook conditionals; `runS` is the machine
that ignores it: mode, the standard client's stack, no VML outside a conditional, no author content inside one.

Everything the combined machine accepts the standard machine accepts too (`run_runS`), so all neutrality lemmas of
`Layout.lean` carry over; what is new here is that **wrappers of every configuration** — full-width and background-image
sections, delegated backgrounds, blank raws, forced tables — are neutral for the standard machine.  Result:
`std_all : ∀ bs, runS ⟨false, []⟩ (render bs) = some ⟨false, []⟩`, hence C02 and the visibility half of C04 without any
side condition. -/
namespace Gomjml.Layout
open Tok Tag Gomjml.Spec

structure SS where
  mso : Bool
  std : List Tag
deriving DecidableEq, Repr

def stepS (s : SS) : Tok → Option SS
  | co => if s.mso then none else some { s with mso := true }
  | cc => if s.mso then some { s with mso := false } else none
  | t => if s.mso then none else some s
  | v n => if !s.mso && n.outlookOnly then none else some s
  | o n => if s.mso then some s else if n.outlookOnly then none else some { s with std := n :: s.std }
  | c n =>
    if s.mso then some s
    else match s.std with
      | [] => none
      | k :: sr => if k ≠ n then none else some { s with std := sr }

def runS (s : SS) : List Tok → Option SS
  | [] => some s
  | x :: xs => (stepS s x).bind (fun s' => runS s' xs)

theorem runS_append (s : SS) (xs ys : List Tok) : runS s (xs ++ ys) = (runS s xs).bind (fun s' => runS s' ys) := by
  induction xs generalizing s with
  | nil => simp [runS]
  | cons x xs ih =>
    simp only [List.cons_append, runS]
    cases h : stepS s x with
    | none => simp
    | some s' => simp [ih]

/-- one step of the combined machine is one step of the standard machine -/
theorem step_stepS (s s' : MS) (x : Tok) (h : stepTok s x = some s') : stepS ⟨s.mso, s.std⟩ x = some ⟨s'.mso, s'.std⟩ := by
  obtain ⟨m, sd, al⟩ := s
  cases x with
  | co => cases m <;> simp [stepTok] at h; subst h; simp [stepS]
  | cc => cases m <;> simp [stepTok] at h; subst h; simp [stepS]
  | t => cases m <;> simp [stepTok] at h; subst h; simp [stepS]
  | v n =>
    simp only [stepTok] at h
    split at h
    · simp at h
    · rename_i hc; simp at h; subst h; simp only [stepS]; simp [hc]
  | o n =>
    simp only [stepTok] at h
    cases m
    · simp only [Bool.false_eq_true, if_false] at h
      split at h
      · simp at h
      · rename_i hc; simp at h; subst h; simp [stepS, hc]
    · simp at h; subst h; simp [stepS]
  | c n =>
    simp only [stepTok] at h
    cases al with
    | nil => simp at h
    | cons a ar =>
      simp only at h
      split at h
      · simp at h
      · cases m
        · simp only [Bool.false_eq_true, if_false] at h
          cases sd with
          | nil => simp at h
          | cons k sr =>
            simp only at h
            split at h
            · simp at h
            · rename_i hk; simp at h; subst h; simp [stepS, hk]
        · simp at h; subst h; simp [stepS]

theorem run_runS : ∀ (xs : List Tok) (s r : MS), run s xs = some r → runS ⟨s.mso, s.std⟩ xs = some ⟨r.mso, r.std⟩
  | [], s, r, h => by simp [run] at h; subst h; rfl
  | x :: xs, s, r, h => by
    simp only [run] at h
    cases hx : stepTok s x with
    | none => simp [hx] at h
    | some s1 =>
      simp only [hx, Option.bind_some] at h
      simp only [runS, step_stepS s s1 x hx, Option.bind_some]
      exact run_runS xs s1 r h

/-- neutral for the standard client -/
def NeutralS (xs : List Tok) : Prop := ∀ sd, runS ⟨false, sd⟩ xs = some ⟨false, sd⟩

theorem neutralS_of_neutral {xs : List Tok} (h : Neutral xs) : NeutralS xs := by
  intro sd
  have := run_runS xs ⟨false, sd, []⟩ ⟨false, sd, []⟩ (h sd [])
  simpa using this

theorem neutralS_nil : NeutralS [] := by intro sd; rfl

theorem neutralS_append {xs ys} (hx : NeutralS xs) (hy : NeutralS ys) : NeutralS (xs ++ ys) := by
  intro sd; rw [runS_append, hx]; simpa using hy sd

/-- the standard machine only looks at the top of its stack -/
theorem runS_frame : ∀ (xs : List Tok) (m : Bool) (s : List Tag) (r : SS) (sd : List Tag),
    runS ⟨m, s⟩ xs = some r → runS ⟨m, s ++ sd⟩ xs = some ⟨r.mso, r.std ++ sd⟩
  | [], m, s, r, sd, h => by simp [runS] at h ⊢; subst h; simp
  | x :: xs, m, s, r, sd, h => by
    simp only [runS] at h ⊢
    cases hs : stepS ⟨m, s⟩ x with
    | none => simp [hs] at h
    | some s1 =>
      simp only [hs, Option.bind_some] at h
      have hstep : stepS ⟨m, s ++ sd⟩ x = some ⟨s1.mso, s1.std ++ sd⟩ := by
        cases x with
        | co => cases m <;> simp [stepS] at hs ⊢; subst hs; simp
        | cc => cases m <;> simp [stepS] at hs ⊢; subst hs; simp
        | t => cases m <;> simp [stepS] at hs ⊢; subst hs; simp
        | v n =>
          simp only [stepS] at hs ⊢
          split at hs
          · simp at hs
          · rename_i hc; simp at hs; subst hs; simp [hc]
        | o n =>
          simp only [stepS] at hs ⊢
          cases m
          · simp only [Bool.false_eq_true, if_false] at hs ⊢
            split at hs
            · simp at hs
            · rename_i hc; simp at hs; subst hs; simp [hc]
          · simp at hs ⊢; subst hs; simp
        | c n =>
          simp only [stepS] at hs ⊢
          cases m
          · simp only [Bool.false_eq_true, if_false] at hs ⊢
            cases s with
            | nil => simp at hs
            | cons k sr =>
              simp only [List.cons_append] at hs ⊢
              split at hs
              · simp at hs
              · rename_i hk; simp at hs; subst hs; simp [hk]
          · simp at hs ⊢; subst hs; simp
      simp only [hstep, Option.bind_some]
      exact runS_frame xs s1.mso s1.std r sd h

theorem frame0S (xs : List Tok) (m m' : Bool) (s : List Tag) (h : runS ⟨m, []⟩ xs = some ⟨m', s⟩) (sd : List Tag) :
    runS ⟨m, sd⟩ xs = some ⟨m', s ++ sd⟩ := by
  simpa using runS_frame xs m [] ⟨m', s⟩ sd h

/-- a concrete fragment that is neutral on the empty stack is neutral everywhere -/
theorem closedS (xs : List Tok) (h : runS ⟨false, []⟩ xs = some ⟨false, []⟩) : NeutralS xs := by
  intro sd; simpa using frame0S xs false false [] h sd

/-- concrete prefix, neutral middle, concrete suffix -/
theorem sandwichS (pre kids post : List Tok) (m m' : Bool) (S : List Tag)
    (h1 : runS ⟨m, []⟩ pre = some ⟨false, S⟩) (hk : NeutralS kids)
    (h2 : runS ⟨false, S⟩ post = some ⟨m', []⟩) (sd : List Tag) :
    runS ⟨m, sd⟩ (pre ++ kids ++ post) = some ⟨m', sd⟩ := by
  rw [runS_append, runS_append, frame0S pre m false S h1 sd]
  simp only [Option.bind_some]
  rw [hk]
  simp only [Option.bind_some]
  simpa using runS_frame post false S ⟨m', []⟩ sd h2

/-! ### sections inside a wrapper, wrapper children, wrappers — every configuration -/

def preIW (fw bg wmb : Bool) : List Tok :=
  (if fw then [o table, o tbody, o tr, o td] ++
     (if bg then [co, o vrect, v vfill, o vtextbox, o table, o tr, o td, cc] else []) else []) ++
  (if wmb then [co, o table, o tr, o td, cc] else []) ++
  (if bg && !fw then [co, o vrect, v vfill, o vtextbox, cc] else [])

def postIW (fw bg wmb : Bool) : List Tok :=
  (if wmb then [co, c td, c tr, c table, cc] else []) ++
  (if bg && !fw then [co, c vtextbox, c vrect, cc] else []) ++
  (if fw then (if bg then [co, c td, c tr, c table, c vtextbox, c vrect, cc] else []) ++ [c td, c tr, c tbody, c table] else [])

theorem emitIW_shape (fw bg wmb single txt : Bool) (kids : List SChild) :
    emitIW fw bg wmb single txt kids = preIW fw bg wmb ++ innerToks bg single txt kids ++ postIW fw bg wmb := by
  simp [emitIW, preIW, postIW, List.append_assoc]

theorem emitIW_neutralS (fw bg wmb single txt : Bool) (kids : List SChild) : NeutralS (emitIW fw bg wmb single txt kids) := by
  intro sd
  rw [emitIW_shape]
  have hk := neutralS_of_neutral (inner_neutral bg single txt kids)
  cases fw <;> cases bg <;> cases wmb <;>
    exact sandwichS _ _ _ false false _ (by rfl) hk (by rfl) sd

theorem rawToks_neutralS (b : Bool) : NeutralS (rawToks b) := neutralS_of_neutral (rawToks_neutral b)

theorem neutralS_ite (cnd : Prop) [Decidable cnd] {a b : List Tok} (ha : NeutralS a) (hb : NeutralS b) :
    NeutralS (if cnd then a else b) := by
  split <;> assumption

/-- the wrapper's Outlook part is neutral for the combined machine (`mid_neutral`, every configuration), hence for the standard
    client's machine -/
theorem mid_neutralS (w : Wrapper) : NeutralS w.mid := neutralS_of_neutral (mid_neutral w)

/-- a wrapper, whatever it contains: consumes a pending comment (if it is not full-width), restores the standard client's stack
    and ends in standard mode -/
theorem wrapper_runS (w : Wrapper) (p : Bool) (hp : p = true → w.fw = false) (sd : List Tag) :
    runS ⟨p, sd⟩ (w.toks p) = some ⟨false, sd⟩ := by
  unfold Wrapper.toks
  have hk := mid_neutralS w
  cases hfw : w.fw <;> cases p <;>
    first
    | (exfalso; simp [hfw] at hp; done)
    | exact sandwichS _ _ _ _ _ _ (by rfl) hk (by rfl) sd

/-! ### body -/

theorem section_runS (s : Section) (p more : Bool) (hp : p = true → s.fw = false) (sd : List Tag) :
    runS ⟨p, sd⟩ (s.emit p more).1 = some ⟨(s.emit p more).2, sd⟩ := by
  simpa using run_runS _ ⟨p, sd, []⟩ _ (section_run s p more hp sd [])

theorem flat_runS : ∀ (bs : List Block) (p : Bool) (sd : List Tag),
    (p = true → nextConsumes bs = true) → runS ⟨p, sd⟩ (bodyFlat bs p) = some ⟨false, sd⟩
  | [], p, sd, hp => by
    cases p
    · rfl
    · simp [nextConsumes] at hp
  | .section s :: rest, p, sd, hp => by
    simp only [bodyFlat, blockOuts, List.flatten_cons]
    rw [runS_append, section_runS s p _ (fun h => by simpa [nextConsumes] using hp h)]
    simp only [Option.bind_some]
    exact flat_runS rest _ sd (secLeave_next s p rest)
  | .wrapper w :: rest, p, sd, hp => by
    simp only [bodyFlat, blockOuts, List.flatten_cons]
    rw [runS_append, wrapper_runS w p (fun h => by simpa [nextConsumes] using hp h) sd]
    simp only [Option.bind_some]
    exact flat_runS rest false sd (by simp)
  | .hero ls :: rest, p, sd, hp => by
    have hp0 : p = false := by
      cases p
      · rfl
      · simp [nextConsumes] at hp
    subst hp0
    simp only [bodyFlat, blockOuts, List.flatten_cons]
    rw [runS_append, neutralS_of_neutral (hero_neutral ls) sd]
    exact flat_runS rest false sd (by simp)
  | .raw b :: rest, p, sd, hp => by
    have hp0 : p = false := by
      cases p
      · rfl
      · simp [nextConsumes] at hp
    subst hp0
    simp only [bodyFlat, blockOuts, List.flatten_cons]
    rw [runS_append, neutralS_of_neutral (raw_block_neutral b) sd]
    exact flat_runS rest false sd (by simp)

theorem runS_cc_co (s r : SS) (xs ys : List Tok) (h : runS s (xs ++ cc :: co :: ys) = some r) : runS s (xs ++ ys) = some r := by
  rw [runS_append] at h ⊢
  cases hx : runS s xs with
  | none => simp [hx] at h
  | some s1 =>
    simp only [hx, Option.bind_some] at h ⊢
    simp only [runS, stepS] at h
    cases hm : s1.mso
    · simp [hm] at h
    · simp only [hm, if_true, Option.bind_some, Bool.false_eq_true, if_false] at h
      have : ({ ({ s1 with mso := false } : SS) with mso := true } : SS) = s1 := by cases s1; simp_all
      rw [this] at h
      exact h

theorem join_runS : ∀ (outs : List (List Tok)) (held : List Tok) (s r : SS),
    runS s (held ++ outs.flatten) = some r → runS s (join held outs) = some r
  | [], held, s, r, h => by simpa [join] using h
  | out :: rest, held, s, r, h => by
    unfold join
    by_cases he : out = []
    · simp only [he, if_true]
      apply join_runS rest held s r
      simpa [he] using h
    · simp only [he, if_false]
      by_cases hm : held.getLast? = some cc ∧ out.head? = some co
      · simp only [hm, and_self, if_true]
        have h1 := eq_dropLast_of_getLast held cc hm.1
        have h2 := eq_cons_of_head out co hm.2
        rw [h1, h2] at h
        simp only [List.flatten_cons, List.append_assoc, List.singleton_append, List.cons_append] at h
        have h3 := runS_cc_co s r held.dropLast (out.tail ++ rest.flatten) h
        rw [runS_append] at h3 ⊢
        cases hx : runS s held.dropLast with
        | none => simp [hx] at h3
        | some s1 =>
          simp only [hx, Option.bind_some] at h3 ⊢
          exact join_runS rest out.tail s1 r h3
      · simp only [hm, if_false]
        simp only [List.flatten_cons, ← List.append_assoc] at h
        rw [List.append_assoc, runS_append] at h
        rw [runS_append]
        cases hx : runS s held with
        | none => simp [hx] at h
        | some s1 =>
          simp only [hx, Option.bind_some] at h ⊢
          exact join_runS rest out s1 r h

/-- **every document** is accepted by the standard client's machine -/
theorem std_all (bs : List Block) : runS ⟨false, []⟩ (render bs) = some ⟨false, []⟩ := by
  unfold render
  rw [runS_append, runS_append]
  rw [show runS ⟨false, []⟩ [o div] = some ⟨false, [div]⟩ from rfl]
  simp only [Option.bind_some]
  have hb : runS ⟨false, [div]⟩ (bodyLoop bs false) = some ⟨false, [div]⟩ := by
    unfold bodyLoop
    apply join_runS
    simpa [bodyFlat] using flat_runS bs false [div] (by simp)
  rw [hb]
  rfl

/-! ### the standard machine refines the Spec's `StdWF` and `Visible` -/

theorem stepS_sim (s s' : SS) (x : Tok) (h : stepS s x = some s') :
    stdStep ⟨modeOf s.mso, s.std.map Tag.name⟩ x.toG = .ok ⟨modeOf s'.mso, s'.std.map Tag.name⟩ ∧
    visStep ⟨modeOf s.mso, []⟩ x.toG = .ok ⟨modeOf s'.mso, []⟩ := by
  obtain ⟨m, sd⟩ := s
  cases x with
  | co => cases m <;> simp [stepS] at h; subst h; simp [Tok.toG, stdStep, visStep, markers, modeOf]
  | cc => cases m <;> simp [stepS] at h; subst h; simp [Tok.toG, stdStep, visStep, markers, modeOf]
  | t => cases m <;> simp [stepS] at h; subst h; simp [Tok.toG, stdStep, visStep, modeOf]
  | v n =>
    simp only [stepS] at h
    split at h
    · simp at h
    · rename_i hc
      simp at h; subst h
      cases m
      · have : n.outlookOnly = false := by simpa using hc
        simp [Tok.toG, stdStep, visStep, modeOf, this]
      · simp [Tok.toG, stdStep, visStep, modeOf]
  | o n =>
    simp only [stepS] at h
    cases m
    · simp only [Bool.false_eq_true, if_false] at h
      split at h
      · simp at h
      · rename_i hc
        simp at h; subst h
        have : n.outlookOnly = false := by simpa using hc
        simp [Tok.toG, stdStep, visStep, modeOf, this]
    · simp at h; subst h
      simp [Tok.toG, stdStep, visStep, modeOf]
  | c n =>
    simp only [stepS] at h
    cases m
    · simp only [Bool.false_eq_true, if_false] at h
      cases sd with
      | nil => simp at h
      | cons k sr =>
        simp only at h
        split at h
        · simp at h
        · rename_i hk
          have hkn : k = n := by simpa using hk
          subst hkn
          simp at h; subst h
          simp [Tok.toG, stdStep, visStep, modeOf, pop]
    · simp at h; subst h
      simp [Tok.toG, stdStep, visStep, modeOf]

theorem runS_sim : ∀ (ts : List Tok) (s s' : SS), runS s ts = some s' →
    runE stdStep ⟨modeOf s.mso, s.std.map Tag.name⟩ (ts.map Tok.toG) = .ok ⟨modeOf s'.mso, s'.std.map Tag.name⟩ ∧
    runE visStep ⟨modeOf s.mso, []⟩ (ts.map Tok.toG) = .ok ⟨modeOf s'.mso, []⟩ := by
  intro ts
  induction ts with
  | nil => intro s s' h; simp [runS] at h; subst h; simp [runE]
  | cons x xs ih =>
    intro s s' h
    simp only [runS] at h
    cases hx : stepS s x with
    | none => simp [hx] at h
    | some s1 =>
      simp only [hx, Option.bind_some] at h
      obtain ⟨h1, h3⟩ := stepS_sim s s1 x hx
      obtain ⟨i1, i3⟩ := ih s1 s' h
      simp only [List.map_cons, runE, h1, h3]
      exact ⟨i1, i3⟩

/-- **C02 and the visibility half of C04 for every document of the layout grammar** -/
theorem std_spec_all (bs : List Block) :
    StdWF ((render bs).map Tok.toG) ∧ Visible ((render bs).map Tok.toG) := by
  obtain ⟨h1, h3⟩ := runS_sim (render bs) ⟨false, []⟩ ⟨false, []⟩ (std_all bs)
  refine ⟨h1, ?_⟩
  unfold Visible
  rw [show start = ⟨modeOf false, []⟩ from rfl, h3]
  rfl

end Gomjml.Layout
