package main

import (
	"encoding/hex"
	"errors"
	"fmt"
	"sort"
	"strings"

	"github.com/preslavrachev/gomjml/mjml"
	"github.com/preslavrachev/gomjml/parser"
)

func globallyAccepted(a string) bool {
	return a != "" && (strings.HasPrefix(a, "data-") || strings.HasPrefix(a, "aria-") || a == "mj-class" || a == "css-class" || a == "class")
}

// specAccepted: the Spec of C17, from the JSON table only
func specAccepted(tag, a string) bool {
	tbl := allowedSorted(tag)
	if len(tbl) == 0 {
		return true // no table: nothing is validated for this tag
	}
	if globallyAccepted(a) {
		return true
	}
	for _, x := range tbl {
		if x[0] == a {
			return true
		}
	}
	return false
}

type detail struct {
	tag, attr string
	line      int
}

func detailsOf(err error) ([]detail, bool) {
	if err == nil {
		return nil, true
	}
	var me mjml.Error
	if !errors.As(err, &me) {
		return nil, false
	}
	var out []detail
	for _, d := range me.Details {
		// "Invalid attribute 'x' for tag <t>"
		m := d.Message
		a := ""
		if i := strings.Index(m, "'"); i >= 0 {
			if j := strings.Index(m[i+1:], "'"); j >= 0 {
				a = m[i+1 : i+1+j]
			}
		}
		out = append(out, detail{d.TagName, a, d.Line})
	}
	return out, true
}

// startTagLines returns, for the n-th occurrence of `<tag` in src, the range of lines its start tag occupies.
func startTagLines(src, tag string, occurrence int) (int, int) {
	idx := 0
	for k := 0; ; k++ {
		i := strings.Index(src[idx:], "<"+tag)
		if i < 0 {
			return -1, -1
		}
		i += idx
		after := i + len(tag) + 1
		if after < len(src) && (src[after] == ' ' || src[after] == '\n' || src[after] == '\t' || src[after] == '\r' || src[after] == '>' || src[after] == '/') {
			if k == occurrence {
				// end of start tag: first '>' outside quotes
				q := byte(0)
				j := after
				for ; j < len(src); j++ {
					c := src[j]
					if q != 0 {
						if c == q {
							q = 0
						}
					} else if c == '"' || c == '\'' {
						q = c
					} else if c == '>' {
						break
					}
				}
				return 1 + strings.Count(src[:i], "\n"), 1 + strings.Count(src[:min(j, len(src))], "\n")
			}
		} else {
			k--
		}
		idx = after
	}
}

func runC17(res *Result, tier string, seed int64, replay string) {
	res.Rule = "(1) EXHAUSTIVE matrix: every body component in a legal context × every attribute name from the union of all known names + invented ones (bogus, data-x, aria-y, class, css-class, mj-class, empty-looking names): error reported ⇔ the Spec (JSON table + always-accepted names) rejects, exactly one detail for the offending (tag, attribute), nothing else; HTML equal to the HTML of the same document without the attribute when the attribute is invalid. (1b) the same for the head elements, each written self-closing, empty, blank and with content (validation must not depend on the element having content). (1c) the same invalid attribute on several elements of one tag on one line: one detail per element. (1d) the error value: seeded report sequences through mjml.ErrInvalidAttribute / Append / Error vs the Lean Model ErrorValue (driver `errval`). (2) seeded grammar documents with 1–4 invalid attributes injected at random elements, multi-line start tags, three layouts (one element per line, the whole document on one line, the first elements on the line of the root), void HTML tags inside mj-text written over several lines, documents preceded by comments and blank lines, also mixed with material that is kept (XML declaration, doctype, byte-order mark) in every order: every reported line must lie within the lines of that element's start tag in the ORIGINAL input; details = injected set. end tags written over several lines; (3) line lookup: real lineLookup (verif export) vs 1 + count of newlines, offsets queried in random order; (4) the three textual pre-passes and their composition byte for byte against the Lean Models (driver `strip` `amp` `ent` `wrap` `pre`) on the documents of (2) and on texts made of the pieces wrapMJTextContent and its void-tag pattern look at. Non-trivial = cell or document with an offending attribute; distinct by cell / source"
	// ---- (1) matrix
	names := map[string]bool{}
	for _, t := range bodyTags {
		for _, a := range allowedSorted(t) {
			names[a[0]] = true
		}
	}
	for _, a := range []string{"bogus", "data-x", "aria-label", "class", "css-class", "mj-class", "data-", "aria-", "datax", "style", "id", "xmlns", "Color", "COLOR", "width ", "on-click"} {
		names[strings.TrimSpace(a)] = true
	}
	var all []string
	for a := range names {
		all = append(all, a)
	}
	sort.Strings(all)
	type cell struct{ tag, attr string }
	var cells []cell
	for _, t := range bodyTags {
		for _, a := range all {
			cells = append(cells, cell{t, a})
		}
	}
	if replay != "" {
		cells = nil
	}
	res.Exhaustive = true
	parallel(16, len(cells), func(i int) {
		c := cells[i]
		val := "1"
		if c.attr == "mj-class" || c.attr == "css-class" || c.attr == "class" {
			val = "zz"
		}
		with := legalContext(c.tag, c.attr+`="`+val+`"`, "")
		without := legalContext(c.tag, "", "")
		if with == "" {
			return
		}
		hw, ew := renderPlain(with)
		ho, eo := renderPlain(without)
		want := !specAccepted(c.tag, c.attr)
		res.Case(c.tag+"/"+c.attr, want)
		res.Count(fmt.Sprintf("spec-rejects=%v", want))
		ds, isVal := detailsOf(ew)
		if eo != nil {
			return // context itself is not clean (does not happen on the unchanged tree)
		}
		sig := ""
		what := ""
		switch {
		case ew != nil && !isVal:
			sig, what = "non-validation-error", fmt.Sprint(ew)
		case want && len(ds) == 0:
			sig, what = "invalid-attribute-not-reported", "the component does not accept this attribute, no error was returned"
		case !want && len(ds) > 0:
			sig, what = "accepted-attribute-reported", fmt.Sprintf("reported %v although the component accepts it", ds)
		case want && (len(ds) != 1 || ds[0].tag != c.tag || ds[0].attr != c.attr):
			sig, what = "details-not-exact", fmt.Sprintf("details %v, want exactly one (%s, %s)", ds, c.tag, c.attr)
		case want && hw == "":
			sig, what = "html-suppressed", "validation error returned without HTML"
		case want:
			// "the same HTML the document yields anyway": the path that builds the tree without any reporter installed
			if quiet, ok := renderWithoutReporter(with); ok && alphaIDs(hw) != alphaIDs(quiet) {
				at := firstDiff(alphaIDs(hw), alphaIDs(quiet))
				sig, what = "validation-changes-html", fmt.Sprintf("HTML returned with the error differs from the HTML built without a reporter at %d: …%s… vs …%s…", at, around(alphaIDs(hw), at), around(alphaIDs(quiet), at))
			}
		}
		_ = ho
		if i%800 == 0 {
			res.Sample(map[string]string{"cell": c.tag + "/" + c.attr, "spec_rejects": fmt.Sprint(want)})
		}
		if sig != "" {
			res.Violate(Violation{Sig: sig + "|" + c.tag + "/" + c.attr, Kind: "cell", What: what, Input: map[string]string{"source": with}})
		}
	})
	// ---- (1b) head elements: every head tag the table knows × how the element is written (self-closing, empty, blank,
	// with content) × an attribute name: validation must not depend on whether the element has any content
	if replay == "" {
		// (mj-breakpoint has a table entry but no component in gomjml: nothing "its component does not accept", see DESIGN §10.3)
		headTags := []string{"mj-title", "mj-preview", "mj-style", "mj-font", "mj-head", "mj-attributes", "mj-html-attributes"}
		headContent := map[string]string{"mj-title": "T", "mj-preview": "P", "mj-style": ".a{color:red}", "mj-attributes": `<mj-text color="red"/>`,
			"mj-html-attributes": `<mj-selector path=".x"><mj-html-attribute name="data-id">1</mj-html-attribute></mj-selector>`}
		// the attributes the element is useful with — all of them, some of them, none, present but empty: whether the element
		// "contributes anything" must not decide whether its attributes are validated
		neededVariants := map[string][]string{"mj-font": {` name="F" href="https://f.example/f.css"`, ` name="F"`, ` href="https://f.example/f.css"`, ``, ` name="" href=""`, ` name="F" href=""`},
			"mj-style": {``, ` inline="inline"`}}
		for _, t := range headTags {
			vars := neededVariants[t]
			if vars == nil {
				vars = []string{""}
			}
			for vi, neededT := range vars {
				needed := map[string]string{t: neededT}
				for _, a := range []string{"bogus", "media", "inlne", "inline", "name", "href", "width", "data-x", "css-class", "family", "src"} {
					if strings.Contains(needed[t], " "+a+"=") {
						continue
					}
					shapes := []string{"self-closing", "empty", "blank", "blank-lines"}
					if headContent[t] != "" {
						shapes = append(shapes, "content", "comment-only")
					}
					for _, sh := range shapes {
						at := needed[t] + " " + a + `="v"`
						var el string
						switch sh {
						case "self-closing":
							el = "<" + t + at + "/>"
						case "empty":
							el = "<" + t + at + "></" + t + ">"
						case "blank":
							el = "<" + t + at + "> \t </" + t + ">"
						case "blank-lines":
							el = "<" + t + at + ">\n\n  </" + t + ">"
						case "content":
							el = "<" + t + at + ">" + headContent[t] + "</" + t + ">"
						case "comment-only":
							el = "<" + t + at + "><!-- c --></" + t + ">"
						}
						src := "<mjml><mj-head>" + el + "</mj-head><mj-body><mj-section><mj-column><mj-text>T</mj-text></mj-column></mj-section></mj-body></mjml>"
						if t == "mj-head" {
							src = "<mjml><mj-head" + at + ">" + map[string]string{"self-closing": "", "empty": "", "blank": " ", "blank-lines": "\n\n", "content": "", "comment-only": ""}[sh] + "</mj-head><mj-body><mj-section><mj-column><mj-text>T</mj-text></mj-column></mj-section></mj-body></mjml>"
						}
						_, err := renderPlain(src)
						ds, isVal := detailsOf(err)
						want := !specAccepted(t, a)
						res.Case(fmt.Sprintf("head/%s/%s/%s/%d", t, a, sh, vi), want)
						res.Count("head-shape=" + sh)
						sig, what := "", ""
						switch {
						case err != nil && !isVal:
							continue // not a document the property speaks about
						case want && len(ds) == 0:
							sig, what = "invalid-attribute-not-reported", "the head element does not accept this attribute, no error was returned (element written "+sh+")"
						case !want && len(ds) > 0:
							sig, what = "accepted-attribute-reported", fmt.Sprintf("reported %v although the element accepts it", ds)
						case want && (len(ds) != 1 || ds[0].tag != t || ds[0].attr != a):
							sig, what = "details-not-exact", fmt.Sprintf("details %v, want exactly one (%s, %s)", ds, t, a)
						}
						if sig != "" {
							res.Violate(Violation{Sig: fmt.Sprintf("%s|head/%s/%s/%s/%d", sig, t, a, sh, vi), Kind: "cell", What: what, Input: map[string]string{"source": src}})
						}
					}
				}
			}
		}
	}
	// ---- (1d) the error value through the public API (ErrInvalidAttribute, Append, Error) against the Lean Model ErrorValue
	// (driver `errval`): seeded report sequences with repeated and look-alike reports, odd characters, lines of every size
	if drv, derr0 := startDriverPool(2); replay == "" && derr0 == nil {
		defer drv.Close()
		tagsE := []string{"mj-text", "mj-image", "mj-section", "", "a b", "x:y", "é"}
		attrsE := []string{"bogus", "colour", "", "data", "x'y", "a<b>", "ü"}
		linesE := []int{0, 1, 7, 7, 12, -3, 100000, 2147483647}
		ne := 200
		if tier == "thorough" {
			ne = 5000
		}
		for i := 0; i < ne; i++ {
			r := NewRng(seed, fmt.Sprintf("c17/errval/%d", i))
			var e *mjml.Error
			var req strings.Builder
			req.WriteString("errval")
			k := r.Intn(7)
			for j := 0; j < k; j++ {
				t, a, l := r.Pick(tagsE), r.Pick(attrsE), linesE[r.Intn(len(linesE))]
				if j > 0 && r.Bool(1, 3) {
					req.WriteString(" " + strings.Fields(req.String())[len(strings.Fields(req.String()))-1]) // the same report again
					f := strings.Split(strings.Fields(req.String())[len(strings.Fields(req.String()))-1], ":")
					tb, _ := hex.DecodeString(strings.TrimPrefix(f[0], "-"))
					ab, _ := hex.DecodeString(strings.TrimPrefix(f[1], "-"))
					fmt.Sscan(f[2], &l)
					t, a = string(tb), string(ab)
				} else {
					req.WriteString(fmt.Sprintf(" %s:%s:%d", hexOrDash(t), hexOrDash(a), l))
				}
				d := mjml.ErrInvalidAttribute(t, a, l)
				if e == nil {
					e = d
				} else {
					e.Append(d)
				}
			}
			want := "none"
			if e != nil {
				want = fmt.Sprintf("%d %s", len(e.Details), hexOrDash(e.Error()))
			}
			got, derr := drv.Ask(req.String())
			res.Case("errval|"+req.String(), k >= 2)
			res.mu.Lock()
			res.Programs++
			res.DisagreementsChecked++
			res.mu.Unlock()
			if derr != nil || strings.TrimSpace(got) != want {
				res.Disagree(Violation{Sig: "error-value-model-mismatch", Kind: "input", What: fmt.Sprintf("the error value built through the public API and the Model differ: %s vs Model %s", short(want, 120), short(got, 120)), Input: map[string]string{"request": req.String()}})
			}
		}
	}
	// ---- (1c) the same attribute on several elements of the same tag standing on ONE line (and on two lines): one detail per
	// offending element — details that look alike are still details of different elements
	if replay == "" {
		for li, sep := range []string{"", "\n"} {
			src := `<mjml><mj-body><mj-section><mj-column>` + sep + `<mj-text bogus="1">a</mj-text><mj-text bogus="1">b</mj-text>` + sep + `<mj-text bogus="2">c</mj-text><mj-image src="i.png" bogus="1"/><mj-image src="j.png" bogus="1"/></mj-column></mj-section></mj-body></mjml>`
			_, err := renderPlain(src)
			ds, _ := detailsOf(err)
			res.Case(fmt.Sprintf("same-line-same-attribute|%d", li), true)
			nText, nImage := 0, 0
			for _, d := range ds {
				if d.tag == "mj-text" && d.attr == "bogus" {
					nText++
				}
				if d.tag == "mj-image" && d.attr == "bogus" {
					nImage++
				}
			}
			if nText != 3 || nImage != 2 || len(ds) != 5 {
				res.Violate(Violation{Sig: fmt.Sprintf("details-not-exact|same-attribute-on-several-elements|%d", li), Kind: "input",
					What:  fmt.Sprintf("three mj-text and two mj-image elements carry the attribute bogus: %d + %d details reported (%d in all), want 3 + 2", nText, nImage, len(ds)),
					Input: map[string]string{"source": src}})
			}
		}
	}
	// ---- (1e) several offending attributes on ONE element whose names are related (one contained in the other: align /
	// vertical-align, color / background-color, width / border-width …, a name and the same in upper case), with accepted
	// attributes between them, in both orders: one detail per offending attribute, in the order written
	if replay == "" {
		for _, t := range bodyTags {
			var bad []string
			for _, a := range all {
				if !specAccepted(t, a) && a != "" && !strings.ContainsAny(a, " \"<>=") {
					bad = append(bad, a)
				}
			}
			var pairs [][2]string
			for _, a := range bad {
				for _, b := range bad {
					if a != b && strings.Contains(a, b) && len(pairs) < 24 {
						pairs = append(pairs, [2]string{a, b})
					}
				}
			}
			var good string
			for _, a := range allowedSorted(t) {
				if v1, _ := testValues(a[0], a[1]); v1 != "" && a[0] != "mj-class" {
					good = a[0] + `="` + xmlAttrEsc(v1) + `"`
					break
				}
			}
			for pi, pr := range pairs {
				for oi, order := range [][2]string{{pr[0], pr[1]}, {pr[1], pr[0]}} {
					at := order[0] + `="1" ` + good + ` ` + order[1] + `="2"`
					src := legalContext(t, at, "")
					if src == "" {
						continue
					}
					_, err := renderPlain(src)
					ds, isVal := detailsOf(err)
					res.Case(fmt.Sprintf("related-names/%s/%d/%d", t, pi, oi), true)
					if err != nil && !isVal {
						continue
					}
					var mine []string
					for _, d := range ds {
						if d.tag == t && (d.attr == order[0] || d.attr == order[1]) {
							mine = append(mine, d.attr)
						}
					}
					if len(mine) != 2 || mine[0] != order[0] || mine[1] != order[1] {
						res.Violate(Violation{Sig: fmt.Sprintf("details-not-exact|related-names|%s|%s|%s", t, order[0], order[1]), Kind: "cell",
							What:  fmt.Sprintf("<%s> carries the offending attributes %s and %s (in this order, an accepted one between them): reported for them %v", t, order[0], order[1], mine),
							Input: map[string]string{"source": src}})
					}
				}
			}
		}
	}
	// ---- (2) injected documents with line checks (sequential: heads differ)
	n := 300
	if tier == "thorough" {
		n = 6000
	}
	var srcs []string
	if replay != "" {
		if s, ok := replayInput(replay); ok {
			srcs = append(srcs, s)
		}
		n = 0
	}
	var passTexts []string
	for i := 0; i < n+len(srcs); i++ {
		var src string
		var injected []detail
		occ := map[string]int{}
		if i < n {
			r := NewRng(seed, fmt.Sprintf("c17/%d", i))
			d := genRich(r, &RichOpts{Head: true, MaxAttrs: 3, Features: true})
			// choose elements to poison
			var elems []*Node
			var walk func(x *Node, inAttrs bool)
			walk = func(x *Node, inAttrs bool) {
				// children of mj-attributes are attribute bags, not components: they are not validated
				if !inAttrs && x.Tag != "mj-breakpoint" && len(allowedSorted(x.Tag)) > 0 {
					elems = append(elems, x)
				}
				for _, k := range x.Kids {
					walk(k, inAttrs || x.Tag == "mj-attributes")
				}
			}
			walk(d, false)
			k := 1 + r.Intn(4)
			poisoned := map[*Node][]string{}
			for j := 0; j < k && len(elems) > 0; j++ {
				e := elems[r.Intn(len(elems))]
				a := r.Pick([]string{"bogus", "foo-bar", "colour", "widht", "x"})
				if _, has := e.Get(a); has {
					continue
				}
				e.Set(a, "v")
				poisoned[e] = append(poisoned[e], a)
			}
			nl := r.Pick([]string{"\n", "\n", "\r\n"})
			// layout: one element per line; the whole document on one line; or the first elements on the line of the root
			layout := r.Pick([]string{"indent", "indent", "compact", "root-line"})
			body := d.Print(PrintOpts{Indent: layout != "compact", Newline: nl, AttrPerm: func(m int) []int { return r.Perm(m) }})
			if layout == "root-line" {
				for j, k := 0, 1+r.Intn(4); j < k; j++ {
					if at := strings.Index(body, ">"+nl); at >= 0 {
						rest := strings.TrimLeft(body[at+1+len(nl):], " \t")
						body = body[:at+1] + rest
					}
				}
			}
			res.Count("layout=" + layout)
			// multi-line start tags: break before some attributes
			if r.Bool(1, 2) {
				body = strings.Replace(body, ` bogus="v"`, nl+`      bogus="v"`, -1)
				body = strings.Replace(body, ` foo-bar="v"`, nl+nl+`  foo-bar="v"`, -1)
			}
			// void HTML tags inside mj-text written over several lines (the parser's textual pre-pass rewrites them): the lines of
			// everything that follows must not move
			if r.Bool(1, 2) {
				body = strings.Replace(body, "<br/>", "<br"+nl+"/>", -1)
				body = strings.Replace(body, "</mj-text>", `<img src="i.png"`+nl+`   alt="a"`+nl+`/><hr`+nl+nl+`/></mj-text>`, 1+r.Intn(2))
			}
			// end tags written over several lines (XML allows white space between the name and '>'): of components, of ending
			// mj-text elements (rewritten by the textual pre-pass) and of author HTML inside content
			if r.Bool(1, 2) {
				var sb strings.Builder
				rest := body
				for {
					at := strings.Index(rest, "</")
					if at < 0 {
						break
					}
					gt := strings.Index(rest[at:], ">")
					if gt < 0 {
						break
					}
					sb.WriteString(rest[:at+gt])
					if r.Bool(1, 3) {
						sb.WriteString(r.Pick([]string{nl, nl + nl + "  ", " ", nl + "\t" + nl}))
						res.Count("end-tag-over-several-lines")
					}
					sb.WriteString(">")
					rest = rest[at+gt+1:]
				}
				sb.WriteString(rest)
				body = sb.String()
			}
			pre := r.Pick([]string{"", "", "<!-- leading comment -->\n", "\n\n\n", "<!-- a -->\n<!-- b\n c -->\n\n", "  \n<!-- x -->", "<?xml version=\"1.0\"?>\n",
				// material that stays (XML declaration, doctype, byte-order mark) in front of, between and behind material that is
				// stripped (comments over several lines, blank lines): the stripped lines are not a prefix of the input
				"<?xml version=\"1.0\"?>\n<!-- a\n b\n c -->\n", "<?xml version=\"1.0\" encoding=\"UTF-8\"?>\n\n<!-- two\nlines -->\n\n<!-- x -->\n",
				"<!DOCTYPE mjml>\n<!-- a\n b -->\n", "<!-- first\n -->\n<?xml version=\"1.0\"?>\n<!-- second\n\n -->\n", "\ufeff<!-- bom\n then a comment -->\n",
				"<?xml version=\"1.0\"?><!-- same line\n next line --><!-- c -->\n\n"})
			src = pre + body
			// expected details with start-tag line ranges, in document order of elements
			d.Walk(func(x *Node) {
				o := occ[x.Tag]
				occ[x.Tag]++
				for _, a := range poisoned[x] {
					lo, hi := startTagLines(src, x.Tag, o)
					injected = append(injected, detail{x.Tag, a, lo*100000 + hi})
				}
			})
		} else {
			src = srcs[i-n]
		}
		h, err := renderPlain(src)
		ds, isVal := detailsOf(err)
		res.Case(src, len(injected) > 0)
		if i < n && i%2 == 0 {
			passTexts = append(passTexts, src)
		}
		// the same document behind three more blank lines, both compiled through the cache: every line must move by three
		if i < n && len(injected) > 0 && i%3 == 0 {
			var e1, e2 error
			safely(func() { _, e1 = mjml.Render(src, mjml.WithCache()) })
			safely(func() { _, e2 = mjml.Render("\n\n\n"+src, mjml.WithCache()) })
			d1, _ := detailsOf(e1)
			d2, _ := detailsOf(e2)
			// … and once more (a cache hit): the same report as the first time
			var e3 error
			safely(func() { _, e3 = mjml.Render(src, mjml.WithCache()) })
			if d3, _ := detailsOf(e3); fmt.Sprint(d3) != fmt.Sprint(d1) {
				res.Violate(Violation{Sig: "cached-compilation-reports-differently", Kind: "input", What: fmt.Sprintf("the same document compiled through the cache a second time reports %v, the first time %v", d3, d1), Input: map[string]string{"source": src}})
			}
			okc := len(d1) == len(d2) && len(d1) == len(ds)
			for k := 0; okc && k < len(d1); k++ {
				if d1[k].line != ds[k].line || d2[k].line != ds[k].line+3 {
					okc = false
				}
			}
			if !okc {
				res.Violate(Violation{Sig: "line-not-on-start-tag|cached", Kind: "input", What: fmt.Sprintf("compiled through the cache, the document and the same document behind three blank lines report lines %v and %v (uncached: %v)", d1, d2, ds), Input: map[string]string{"source": src}})
			}
		}
		if i%90 == 0 {
			res.Sample(map[string]string{"kind": "injected", "source": short(src, 300)})
		}
		in := map[string]string{"source": src}
		if err != nil && !isVal {
			res.Count("injected:other-error")
			continue
		}
		if i >= n {
			res.Note("replay: details %v", ds)
			continue
		}
		if len(injected) > 0 && h == "" {
			res.Violate(Violation{Sig: "html-suppressed|injected", Kind: "input", What: "validation error without HTML", Input: in})
			continue
		}
		// multiset equality of (tag, attr)
		key := func(d detail) string { return d.tag + "/" + d.attr }
		want := map[string]int{}
		for _, d := range injected {
			want[key(d)]++
		}
		got := map[string]int{}
		for _, d := range ds {
			got[key(d)]++
		}
		ok := len(want) == len(got)
		for k, v := range want {
			if got[k] != v {
				ok = false
			}
		}
		if !ok {
			res.Violate(Violation{Sig: "details-not-exact|injected", Kind: "input", What: fmt.Sprintf("details %v, injected %v", ds, injected), Input: in})
			continue
		}
		// lines: each reported line must fall inside the start tag of SOME element with that (tag, attr) — matched greedily
		used := make([]bool, len(injected))
		for _, d := range ds {
			found := false
			for j, w := range injected {
				lo, hi := w.line/100000, w.line%100000
				if !used[j] && w.tag == d.tag && w.attr == d.attr && d.line >= lo && d.line <= hi {
					used[j] = true
					found = true
					break
				}
			}
			if !found {
				var ranges []string
				for _, w := range injected {
					if w.tag == d.tag && w.attr == d.attr {
						ranges = append(ranges, fmt.Sprintf("%d-%d", w.line/100000, w.line%100000))
					}
				}
				res.Violate(Violation{Sig: "line-not-on-start-tag", Kind: "input", What: fmt.Sprintf("<%s %s> reported on line %d, its start tag stands on lines %v", d.tag, d.attr, d.line, ranges), Input: in})
				break
			}
		}
	}
	// ---- (4) the Models of the three textual pre-passes (the theorem C17_reported_line_is_input_line is about them) byte for
	// byte against the real passes: the injected documents of (2) and texts made of what wrapMJTextContent looks at
	if replay == "" {
		if drv, err := startDriverPool(8); err != nil {
			res.Disagree(Violation{Sig: "driver-missing", What: err.Error()})
		} else {
			nw := 1500
			if tier == "thorough" {
				nw = 20000
			}
			prepassCorrespondence(res, drv, append(passTexts, wrapTexts(seed, nw)...))
			drv.Close()
		}
	}
	// ---- (3) line lookup correspondence
	for i := 0; i < 200; i++ {
		r := NewRng(seed, fmt.Sprintf("c17/ll/%d", i))
		var b strings.Builder
		for j, m := 0, r.Intn(60); j < m; j++ {
			b.WriteString(r.Pick([]string{"a", "\n", "\r\n", "xyz", "\n\n", " "}))
		}
		content := b.String()
		var offs []int64
		for j := 0; j < 30; j++ {
			offs = append(offs, int64(r.Intn(len(content)+3)))
		}
		got := parser.VerifLines(content, offs)
		res.mu.Lock()
		res.Programs++
		res.DisagreementsChecked += len(offs)
		res.mu.Unlock()
		for j, o := range offs {
			cut := int(o)
			if cut > len(content) {
				cut = len(content)
			}
			want := 1 + strings.Count(content[:cut], "\n")
			if got[j] != want {
				res.Disagree(Violation{Sig: "line-lookup-mismatch", Kind: "input", What: fmt.Sprintf("Line(%d) = %d, model 1+newlines = %d (queries %v)", o, got[j], want, offs[:j+1]), Input: map[string]interface{}{"content": content}})
				break
			}
		}
	}
}

// renderWithoutReporter builds the component tree with no InvalidAttributeReporter installed (NewFromAST) and renders it.
func renderWithoutReporter(src string) (string, bool) {
	var out string
	ok := false
	safely(func() {
		ast, err := mjml.ParseMJML(src)
		if err != nil {
			return
		}
		c, err := mjml.NewFromAST(ast)
		if err != nil {
			return
		}
		h, err := mjml.RenderComponentString(c)
		if err != nil {
			return
		}
		out, ok = mjml.VerifNormalizeGroupColumnClassOrder(h), true
	})
	return out, ok
}

func renderPlain(src string) (string, error) {
	var h string
	var err error
	if p := safely(func() { h, err = mjml.Render(src) }); p != nil {
		return "", fmt.Errorf("panic: %v", p)
	}
	return h, err
}

func init() { register("C17", runC17) }
