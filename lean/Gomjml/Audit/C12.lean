import Gomjml.Props.C12
#print axioms Gomjml.Props.C12.C12_attr_order_lookup
#print axioms Gomjml.Props.C12.C12_attr_order_map
#print axioms Gomjml.Props.C12.C12_attrs_iterations
#print axioms Gomjml.Props.C12.C12_debug_only_adds
#print axioms Gomjml.Props.C12.C12_debug_sites
#print axioms Gomjml.Props.C12.C12_tree_structure
#print axioms Gomjml.Props.C12.C12_text_reads
