import Gomjml.Core.Layout
import Gomjml.Core.Lexer
import Driver.CacheP
import Driver.SfP
import Gomjml.Core.Cli
import Driver.ApiP
import Driver.HtmlP
import Driver.TagP
import Driver.PassP
import Driver.TreeP
import Driver.ResP
import Driver.WidthP
import Driver.LenP
import Driver.MixP
import Driver.StoreP
import Driver.ErrP
import Driver.SmallP
import Driver.ClsP
import Driver.RefP
import Driver.InlP
import Driver.CcP
/-! Line-protocol driver (E3): first word selects a sub-protocol, one output line per input line.
    Imports only core-only Model/Spec modules so that it links as a `lean_exe`. -/
open Gomjml

namespace Driver

def cliHandle (args : List String) : String :=
  match args with
  | [r, l, o, w] =>
    let lib : Gomjml.Cli.Lib := if l == "ok" then .ok "H" else if l == "val" then .validation "H" else .failed
    let out := Gomjml.Cli.cli ⟨r == "1", lib, o == "1", w == "1"⟩
    s!"exit={out.exit} stdout={if out.stdout == "" then "-" else out.stdout} stderr={if out.stderr then 1 else 0} file={match out.file with | some f => f | none => "-"}"
  | _ => "bad-request"

def handle (line : String) : String :=
  match line.splitOn " " with
  | ["ping"] => "pong"
  | "cache" :: args => Driver.CacheP.handle args
  | "sf" :: args => Driver.SfP.handle args
  | "cc" :: args => Driver.CcP.handle args
  | "cli" :: args => cliHandle args
  | "api" :: args => Driver.ApiP.handle args
  | "pick" :: args => Driver.ApiP.pickHandle args
  | "layout" :: args => Driver.HtmlP.layoutHandle args
  | "oracle" :: args => Driver.HtmlP.oracleHandle args
  | "tags" :: args => Driver.HtmlP.tagsHandle args
  | "tag" :: args => Driver.TagP.handle args
  | "tree" :: args => Driver.TreeP.handle args
  | "res" :: args => Driver.ResP.handle args
  | "len" :: args => Driver.LenP.handle args
  | "mixed" :: args => Driver.MixP.handle args
  | "store" :: args => Driver.StoreP.handle args
  | "errval" :: args => Driver.ErrP.handle args
  | "classattr" :: args => Driver.ClsP.handle args
  | "classmerge" :: args => Driver.ClsM.handle args
  | "textdeliver" :: args => Driver.TxD.handle args
  | "normcolor" :: args => Driver.SmallP.colorHandle args
  | "dedup" :: args => Driver.SmallP.dedupHandle args
  | "fonttags" :: args => Driver.SmallP.tagsHandle args
  | "textflow" :: args => Driver.MixP.textHandle args
  | "textvoid" :: args => Driver.MixP.voidHandle args
  | "width" :: args => Driver.WidthP.handle args
  | "widthspec" :: args => Driver.WidthP.handleSpec args
  | "refcmp" :: args => Driver.RefP.cmpHandle args
  | "refcanon" :: args => Driver.RefP.canonHandle args
  | "refsplit" :: args => Driver.RefP.splitHandle args
  | "refcompose" :: args => Driver.RefP.composeHandle args
  | "refloop" :: args => Driver.RefP.loopHandle args
  | "amp" :: args => Driver.PassP.handle "amp" args
  | "ent" :: args => Driver.PassP.handle "ent" args
  | "strip" :: args => Driver.PassP.handle "strip" args
  | "wrap" :: args => Driver.PassP.handle "wrap" args
  | "pre" :: args => Driver.PassP.handle "pre" args
  | "cdesc" :: args => Driver.PassP.handle "cdesc" args
  | "cdrt" :: args => Driver.PassP.handle "cdrt" args
  | "inltag" :: args => Driver.InlP.handle args
  | "inlscan" :: args => Driver.InlP.scanHandle args
  | "inlcss" :: args => Driver.InlP.cssHandle args
  | "cdata" :: args => Driver.InlP.cdataHandle args
  | "mergestyle" :: args => Driver.InlP.mergeHandle args
  | _ => "bad-request"

partial def loop (hin hout : IO.FS.Stream) : IO Unit := do
  let line ← hin.getLine
  if line.isEmpty then return ()
  let l := if line.endsWith "\n" then (line.dropEnd 1).toString else line
  hout.putStrLn (handle l)
  hout.flush
  loop hin hout

end Driver

def main : IO Unit := do
  Driver.loop (← IO.getStdin) (← IO.getStdout)
