/-! # The error value of a compilation (`mjml/error.go`, and the reporter closures of `RenderWithAST` / `RenderFromAST`)

Every report of the validator becomes one detail: the first report creates the error (`ErrInvalidAttribute`), every later one is
`Append`ed.  The Model keeps what the code keeps; the theorems say that nothing is lost, merged or reordered on the way, and what
the message text is.  Tied to the implementation by the correspondence run `errval` of `hx C17` through the public API
(`mjml.ErrInvalidAttribute`, `(*Error).Append`, `Error.Error`). -/
namespace Gomjml.ErrorValue

structure Detail where
  line : Int
  message : String
  tag : String
deriving DecidableEq, Repr

structure Err where
  message : String
  details : List Detail
deriving DecidableEq, Repr

/-- a report of the validator: (tag, attribute, line) -/
abbrev Report := String × String × Int

/-- `ErrInvalidAttribute` -/
def invalidAttribute (r : Report) : Err :=
  ⟨"MJML compilation error", [⟨r.2.2, "Invalid attribute '" ++ r.2.1 ++ "' for tag <" ++ r.1 ++ ">", r.1⟩]⟩

/-- `(*Error).Append` -/
def Err.append (e other : Err) : Err := { e with details := e.details ++ other.details }

/-- the reporter closure: nil until the first report, then appended to -/
def accumulate : Option Err → Report → Option Err
  | none, r => some (invalidAttribute r)
  | some e, r => some (e.append (invalidAttribute r))

def collect (rs : List Report) : Option Err := rs.foldl accumulate none

def detailOf (r : Report) : Detail := ⟨r.2.2, "Invalid attribute '" ++ r.2.1 ++ "' for tag <" ++ r.1 ++ ">", r.1⟩

theorem foldl_some (e : Err) : ∀ (rs : List Report),
    rs.foldl accumulate (some e) = some ⟨e.message, e.details ++ rs.map detailOf⟩
  | [] => by simp
  | r :: rs => by
    simp only [List.foldl_cons, accumulate]
    rw [foldl_some (e.append (invalidAttribute r)) rs]
    simp [Err.append, invalidAttribute, detailOf]

/-- **one detail per report, in the order of the reports — nothing merged, nothing dropped, however alike two reports look**;
    no report, no error -/
theorem collect_spec (rs : List Report) :
    collect rs = (if rs = [] then none else some ⟨"MJML compilation error", rs.map detailOf⟩) := by
  cases rs with
  | nil => rfl
  | cons r rs =>
    unfold collect
    simp only [List.foldl_cons, accumulate]
    rw [foldl_some]
    simp [invalidAttribute, detailOf]

/-- the number of details is the number of reports -/
theorem collect_count (rs : List Report) (e : Err) (h : collect rs = some e) : e.details.length = rs.length := by
  rw [collect_spec] at h
  split at h
  · simp at h
  · simp only [Option.some.injEq] at h; subst h; simp

/-- `Error.Error()`: the message, then one line per detail -/
def detailLine (d : Detail) : String := "- Line " ++ toString d.line ++ " of (" ++ d.tag ++ ") - " ++ d.message

def text (e : Err) : String :=
  if e.details = [] then e.message else e.message ++ ":\n" ++ "\n".intercalate (e.details.map detailLine)

end Gomjml.ErrorValue
