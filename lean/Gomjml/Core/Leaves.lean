import Gomjml.Core.Expand
/-! # Skeleton models of the content components (the "leaves" of the layout)

`mj-text`, `mj-button`, `mj-image`, `mj-divider`, `mj-spacer`, `mj-table`, `mj-social` (+ elements), `mj-navbar` (+ links),
`mj-accordion` (+ elements, title, text), `mj-carousel` (+ images), with `mj-raw` between the children of social / navbar /
accordion / accordion element: what each `Render` writes, at the level of tags, Outlook
conditional markers (`co` / `cc`), not-Outlook markers (`nco` / `ncc`), author content (`.t`) and generated text (`fill`).
Control flow follows the Go code: the same loops over children, the same index tests (first / last element), the same
option tests (href → `<a>` wrapper, vertical mode, hamburger, icon position, thumbnails).  Tied to the implementation by
skeleton correspondence on every generated document (`hx C02` / `C03`, driver `layout`).

Theorem: **every leaf, whatever its parameters and however many children it has, is inert** for the three Spec checkers
(`leaf_inert`), and contains exactly its content slots (`leaf_count`).  Together with `Expand.expand_spec` this lifts C02 / C03 /
C04 from the layout skeleton to documents with real content components in every slot. -/
namespace Gomjml.Leaves
open Gomjml.Spec Gomjml.Expand

/-! ### frame lemma for the Spec checkers: a run never looks below what it pushed itself -/

def Framed (step : VS → GTok → Except String VS) : Prop :=
  ∀ (s s' : VS) (x : GTok) (ex : List String), step s x = .ok s' → step ⟨s.mode, s.stack ++ ex⟩ x = .ok ⟨s'.mode, s'.stack ++ ex⟩

theorem markers_framed (s s' : VS) (x : GTok) (ex : List String) (h : markers s x = .ok s') :
    markers ⟨s.mode, s.stack ++ ex⟩ x = .ok ⟨s'.mode, s'.stack ++ ex⟩ := by
  cases x <;> simp only [markers] at h ⊢ <;> first
    | (split at h <;> first | (simp at h; subst h; simp_all) | simp at h)
    | (simp at h; subst h; rfl)

theorem pop_framed (s s' : VS) (n err : String) (ex : List String) (h : pop s n err = .ok s') :
    pop ⟨s.mode, s.stack ++ ex⟩ n err = .ok ⟨s'.mode, s'.stack ++ ex⟩ := by
  obtain ⟨m, st⟩ := s
  unfold pop at h ⊢
  cases st with
  | nil => simp at h
  | cons k r =>
    simp only [List.cons_append] at h ⊢
    split at h
    · simp at h; subst h; simp_all
    · simp at h

theorem std_framed : Framed stdStep := by
  intro s s' x ex h
  cases x with
  | o oo n =>
    simp only [stdStep] at h ⊢
    split at h
    · simp at h; subst h; simp_all
    · split at h
      · simp at h
      · simp at h; subst h; simp_all
  | c oo n =>
    simp only [stdStep] at h ⊢
    split at h
    · simp at h; subst h; simp_all
    · rename_i hm; simp only [hm, if_false]; exact pop_framed s s' n _ ex h
  | v oo n =>
    simp only [stdStep] at h ⊢
    split at h
    · simp at h
    · rename_i hc; simp at h; subst h; rw [if_neg hc]
  | t str => simp only [stdStep] at h ⊢; simp at h; subst h; rfl
  | co => exact markers_framed s s' .co ex h
  | cc => exact markers_framed s s' .cc ex h
  | nco => exact markers_framed s s' .nco ex h
  | ncc => exact markers_framed s s' .ncc ex h

theorem mso_framed : Framed msoStep := by
  intro s s' x ex h
  cases x with
  | o oo n =>
    simp only [msoStep] at h ⊢
    split at h <;> (simp at h; subst h; simp_all)
  | c oo n =>
    simp only [msoStep] at h ⊢
    split at h
    · simp at h; subst h; simp_all
    · rename_i hm; simp only [hm, if_false]; exact pop_framed s s' n _ ex h
  | v oo n => simp only [msoStep] at h ⊢; simp at h; subst h; rfl
  | t str => simp only [msoStep] at h ⊢; simp at h; subst h; rfl
  | co => exact markers_framed s s' .co ex h
  | cc => exact markers_framed s s' .cc ex h
  | nco => exact markers_framed s s' .nco ex h
  | ncc => exact markers_framed s s' .ncc ex h

theorem vis_framed : Framed visStep := by
  intro s s' x ex h
  cases x with
  | o oo n => simp only [visStep] at h ⊢; simp at h; subst h; rfl
  | c oo n => simp only [visStep] at h ⊢; simp at h; subst h; rfl
  | v oo n => simp only [visStep] at h ⊢; simp at h; subst h; rfl
  | t str =>
    simp only [visStep] at h ⊢
    split at h
    · simp at h
    · simp at h; subst h; simp_all
  | co => exact markers_framed s s' .co ex h
  | cc => exact markers_framed s s' .cc ex h
  | nco => exact markers_framed s s' .nco ex h
  | ncc => exact markers_framed s s' .ncc ex h

theorem run_framed {step} (hf : Framed step) : ∀ (xs : List GTok) (s r : VS) (ex : List String),
    runE step s xs = .ok r → runE step ⟨s.mode, s.stack ++ ex⟩ xs = .ok ⟨r.mode, r.stack ++ ex⟩ := by
  intro xs
  induction xs with
  | nil => intro s r ex h; simp only [runE] at h ⊢; simp at h; subst h; rfl
  | cons x xs ih =>
    intro s r ex h
    simp only [runE] at h ⊢
    cases hx : step s x with
    | error e => simp [hx] at h
    | ok s1 =>
      simp only [hx] at h
      rw [hf s s1 x ex hx]
      exact ih s1 r ex h

/-- from mode `m0` with `S0` on top of the stack to mode `m1` with `S1` in its place, whatever lies below -/
def MovesM (step : VS → GTok → Except String VS) (m0 : Nat) (S0 : List String) (m1 : Nat) (S1 : List String) (xs : List GTok) : Prop :=
  ∀ st, runE step ⟨m0, S0 ++ st⟩ xs = .ok ⟨m1, S1 ++ st⟩

/-- outside conditionals on entry and exit -/
abbrev Moves (step : VS → GTok → Except String VS) (S0 S1 : List String) (xs : List GTok) : Prop := MovesM step 0 S0 0 S1 xs

theorem movesM_of_closed {step} (hf : Framed step) (m0 m1 : Nat) (S0 S1 : List String) (xs : List GTok)
    (h : runE step ⟨m0, S0⟩ xs = .ok ⟨m1, S1⟩) : MovesM step m0 S0 m1 S1 xs := fun st => run_framed hf xs ⟨m0, S0⟩ ⟨m1, S1⟩ st h

theorem movesM_append {step} {m0 m1 m2 : Nat} {S0 S1 S2 : List String} {xs ys : List GTok}
    (h1 : MovesM step m0 S0 m1 S1 xs) (h2 : MovesM step m1 S1 m2 S2 ys) : MovesM step m0 S0 m2 S2 (xs ++ ys) := by
  intro st; rw [runE_append, h1 st]; exact h2 st

theorem movesM_nil (step) (m : Nat) (S : List String) : MovesM step m S m S [] := fun _ => rfl

/-- what holds with `S` on top holds with `S ++ R` on top -/
theorem movesM_lift {step} {m0 m1 : Nat} {S0 S1 : List String} {xs : List GTok} (h : MovesM step m0 S0 m1 S1 xs) (R : List String) :
    MovesM step m0 (S0 ++ R) m1 (S1 ++ R) xs := fun st => by simpa [List.append_assoc] using h (R ++ st)

theorem movesM_base {step} {m : Nat} {xs : List GTok} (h : MovesM step m [] m [] xs) (S : List String) : MovesM step m S m S xs := by
  simpa using movesM_lift h S

theorem inert_of_moves {step} {xs : List GTok} (h : Moves step [] [] xs) : InertFor step xs := fun st => by simpa using h st
theorem moves_of_inert {step} {xs : List GTok} (h : InertFor step xs) : Moves step [] [] xs := fun st => by simpa using h st

theorem movesM_flatMap {step} {α} (m : Nat) (S : List String) (f : α → List GTok) (l : List α) (h : ∀ a ∈ l, MovesM step m S m S (f a)) :
    MovesM step m S m S (l.flatMap f) := by
  induction l with
  | nil => exact movesM_nil step m S
  | cons a l ih =>
    simp only [List.flatMap_cons]
    exact movesM_append (h a (by simp)) (ih (fun b hb => h b (by simp [hb])))

theorem movesM_replicate {step} (m : Nat) (S : List String) (xs : List GTok) (n : Nat) (h : MovesM step m S m S xs) :
    MovesM step m S m S (List.replicate n xs).flatten := by
  induction n with
  | zero => exact movesM_nil step m S
  | succ k ih => simp only [List.replicate_succ, List.flatten_cons]; exact movesM_append h ih

/-- one of the three Spec checkers -/
def IsChecker (step : VS → GTok → Except String VS) : Prop := step = stdStep ∨ step = msoStep ∨ step = visStep

theorem checker_framed {step} (h : IsChecker step) : Framed step := by
  rcases h with rfl | rfl | rfl
  · exact std_framed
  · exact mso_framed
  · exact vis_framed

/-- a concrete fragment evaluated once per checker, on exactly the stack top it needs -/
theorem movesM_closed3 {step} (hc : IsChecker step) (m0 m1 : Nat) (S0 S1 : List String) (xs : List GTok)
    (h1 : runE stdStep ⟨m0, S0⟩ xs = .ok ⟨m1, S1⟩) (h2 : runE msoStep ⟨m0, S0⟩ xs = .ok ⟨m1, S1⟩)
    (h3 : runE visStep ⟨m0, S0⟩ xs = .ok ⟨m1, S1⟩) : MovesM step m0 S0 m1 S1 xs := by
  rcases hc with rfl | rfl | rfl
  · exact movesM_of_closed std_framed _ _ _ _ _ h1
  · exact movesM_of_closed mso_framed _ _ _ _ _ h2
  · exact movesM_of_closed vis_framed _ _ _ _ _ h3

theorem inert_of_checkers {xs : List GTok} (h : ∀ step, IsChecker step → Moves step [] [] xs) : Inert xs :=
  ⟨inert_of_moves (h _ (Or.inl rfl)), inert_of_moves (h _ (Or.inr (Or.inl rfl))), inert_of_moves (h _ (Or.inr (Or.inr rfl)))⟩

/-! ### tokens -/

def o (n : String) : GTok := .o false n
def c (n : String) : GTok := .c false n
def v (n : String) : GTok := .v false n
/-- text the component generates itself (`&nbsp;`, `&#8202;`, the hamburger glyphs): shown as text by a lexer, but not author content -/
def fill : GTok := .v false "#text"
/-- author content -/
def t : GTok := .t ""

/-- number of author-content tokens -/
def cntT (ts : List GTok) : Nat := ts.countP (fun x => match x with | .t _ => true | _ => false)
@[simp] theorem cntT_append (a b : List GTok) : cntT (a ++ b) = cntT a + cntT b := by simp [cntT, List.countP_append]
@[simp] theorem cntT_nil : cntT [] = 0 := rfl

def ite' (b : Bool) (x : List GTok) : List GTok := if b then x else []

/-! ### the simple leaves -/

/-- `text.go`: `<tr><td><div>` inner HTML (if any) `</div></td></tr>` -/
def textToks (content : Bool) : List GTok := [o "tr", o "td", o "div"] ++ ite' content [t] ++ [c "div", c "td", c "tr"]

/-- `button.go`: the content element is `<a>` with an href, `<p>` without; a button without content gets the generated label
    "Button" -/
def buttonToks (href content : Bool) : List GTok :=
  let tag := if href then "a" else "p"
  [o "tr", o "td", o "table", o "tbody", o "tr", o "td", o tag] ++ (if content then [t] else [fill]) ++
  [c tag, c "td", c "tr", c "tbody", c "table", c "td", c "tr"]

/-- `image.go`: optional link around the `<img>` -/
def imageToks (href : Bool) : List GTok :=
  [o "tr", o "td", o "table", o "tbody", o "tr", o "td"] ++ (if href then [o "a", v "img", c "a"] else [v "img"]) ++
  [c "td", c "tr", c "tbody", c "table", c "td", c "tr"]

/-- `divider.go`: the `<p>` rule for standard clients, a one-cell table for Outlook -/
def dividerToks : List GTok :=
  [o "tr", o "td", o "p", c "p", .co, o "table", o "tr", o "td", fill, c "td", c "tr", c "table", .cc, c "td", c "tr"]

/-- `spacer.go` -/
def spacerToks : List GTok := [o "tr", o "td", o "div", fill, c "div", c "td", c "tr"]

/-- `table.go`: the author's rows inside the component's `<table>` (modelled: `rows` one-cell rows, or bare text) -/
def tableRow : List GTok := [o "tr", o "td", t, c "td", c "tr"]
def tableToks (rows : Nat) (text : Bool) : List GTok :=
  [o "tr", o "td", o "table"] ++ (if rows = 0 then ite' text [t] else (List.replicate rows tableRow).flatten) ++
  [c "table", c "td", c "tr"]

/-- `mj-raw` between the children of a component: written where it stands (`<i>content</i>` in the generated documents) -/
def rawG (blank : Bool) : List GTok := if blank then [] else [o "i", t, c "i"]

/-! ### mj-social -/

structure SocEl where
  href : Bool
  text : Bool
deriving Repr, DecidableEq

inductive SocChild
  | el (e : SocEl)
  | raw (blank : Bool)
deriving Repr, DecidableEq

def SocChild.isEl : SocChild → Bool
  | .el _ => true
  | _ => false

/-- `MJSocialElementComponent.Render`, horizontal mode, called with `wrapMSO = false` by the parent.  The icon cell is written
    whether or not the element has an icon (an `<img>` without src), so the element never disappears with its text. -/
def socElH (e : SocEl) : List GTok :=
  [o "table", o "tbody", o "tr", o "td", o "table", o "tbody", o "tr", o "td"] ++
  (if e.href then [o "a", v "img", c "a"] else [v "img"]) ++
  [c "td", c "tr", c "tbody", c "table", c "td"] ++
  ite' e.text ([o "td", o (if e.href then "a" else "span"), t, c (if e.href then "a" else "span"), c "td"]) ++
  [c "tr", c "tbody", c "table"]

/-- … vertical mode: one row per element; the element's link is kept around the icon and around the text (4b4caac follow-up:
    before the repair the link was dropped in this mode) -/
def socElV (e : SocEl) : List GTok :=
  [o "tr", o "td", o "table", o "tbody", o "tr", o "td"] ++
  (if e.href then [o "a", v "img", c "a"] else [v "img"]) ++
  [c "td", c "tr", c "tbody", c "table", c "td"] ++
  ite' e.text [o "td", o (if e.href then "a" else "span"), t, c (if e.href then "a" else "span"), c "td"] ++ [c "tr"]

def socSep : List GTok := [.co, c "td", o "td", .cc]

/-- the horizontal loop of `MJSocialComponent.Render` over the children in document order: raw content is written where it
    stands; a separator conditional follows every element but the last (`rem` = elements still to come, this one included) -/
def socLoop : Nat → List SocChild → List GTok
  | _, [] => []
  | rem, .raw b :: r => rawG b ++ socLoop rem r
  | rem, .el e :: r => socElH e ++ (if rem > 1 then socSep else []) ++ socLoop (rem - 1) r

def socKidV : SocChild → List GTok
  | .el e => socElV e
  | .raw b => rawG b

def socialToks (vertical : Bool) (kids : List SocChild) : List GTok :=
  let n := kids.countP SocChild.isEl
  [o "tr", o "td"] ++
  (if vertical then [o "table", o "tbody"] ++ kids.flatMap socKidV ++ [c "tbody", c "table"]
   else (if n > 0 then [.co, o "table", o "tr", o "td", .cc] else [.co, o "table", o "tr", .cc]) ++ socLoop n kids ++
        (if n > 0 then [.co, c "td", c "tr", c "table", .cc] else [.co, c "tr", c "table", .cc])) ++
  [c "td", c "tr"]

/-! ### mj-navbar -/

inductive NavChild
  | link (content : Bool)
  | raw (blank : Bool)
deriving Repr, DecidableEq

def NavChild.isLink : NavChild → Bool
  | .link _ => true
  | _ => false

def navLink (content : Bool) : List GTok := [o "a"] ++ ite' content [t] ++ [c "a"]

/-- `renderInlineLinks`, the loop over the children in document order.  `op` = the conditional that opened the Outlook table is
    still open (true only in front of the first child); `first` = no link written yet.  The first link's cell continues the
    open conditional (or opens one, if raw content closed it); every further link closes the previous cell and opens its own;
    raw content is written where it stands, outside any conditional. -/
def navLoop : Bool → Bool → List NavChild → List GTok
  | _, _, [] => []
  | op, first, .raw b :: r => (if op then [.cc] else []) ++ rawG b ++ navLoop false first r
  | op, first, .link cn :: r =>
    (if first then (if op then [] else [.co]) ++ [o "td", .cc] else [.co, c "td", o "td", .cc]) ++ navLink cn ++ navLoop false false r

def hamburgerToks : List GTok :=
  [.nco, v "input", .ncc, o "div", o "label", o "span", fill, c "span", o "span", fill, c "span", c "label", c "div"]

def navbarToks (hamburger : Bool) (kids : List NavChild) : List GTok :=
  [o "tr", o "td"] ++ ite' hamburger hamburgerToks ++
  [o "div", .co, o "table", o "tr"] ++ navLoop true true kids ++
  (if kids.any NavChild.isLink then [.co, c "td"] else if kids.isEmpty then [] else [.co]) ++
  [c "tr", c "table", .cc, c "div", c "td", c "tr"]

/-! ### mj-accordion -/

/-- the children of an `mj-accordion-element`, rendered in document order -/
inductive AccPart
  | title (content : Bool)
  | text (content : Bool)
  | raw (blank : Bool)
deriving Repr, DecidableEq

structure AccEl where
  iconLeft : Bool          -- icon-position="left"
  parts : List AccPart
deriving Repr, DecidableEq

inductive AccChild
  | el (e : AccEl)
  | raw (blank : Bool)
deriving Repr, DecidableEq

def accIcon : List GTok := [.nco, o "td", v "img", v "img", c "td", .ncc]

def accPartToks (iconLeft : Bool) : AccPart → List GTok
  | .title content =>
    [o "div", o "table", o "tbody", o "tr"] ++ ite' iconLeft accIcon ++ [o "td"] ++ ite' content [t] ++ [c "td"] ++
    ite' (!iconLeft) accIcon ++ [c "tr", c "tbody", c "table", c "div"]
  | .text content => [o "div", o "table", o "tbody", o "tr", o "td"] ++ ite' content [t] ++ [c "td", c "tr", c "tbody", c "table", c "div"]
  | .raw b => rawG b

def accElToks (e : AccEl) : List GTok :=
  [o "tr", o "td", o "label", .nco, v "input", .ncc, o "div"] ++ e.parts.flatMap (accPartToks e.iconLeft) ++
  [c "div", c "label", c "td", c "tr"]

def accKidToks : AccChild → List GTok
  | .el e => accElToks e
  | .raw b => rawG b

def accordionToks (kids : List AccChild) : List GTok :=
  [o "tr", o "td", o "table", o "tbody"] ++ kids.flatMap accKidToks ++ [c "tbody", c "table", c "td", c "tr"]

/-! ### mj-carousel (at least one image: without images the component returns an error) -/

def carThumb : List GTok := [o "a", o "label", v "img", c "label", c "a"]
def carIcon : List GTok := [o "label", v "img", c "label"]
/-- `renderCarouselImageContent` -/
def carImage (href : Bool) : List GTok := [o "div"] ++ (if href then [o "a", v "img", c "a"] else [v "img"]) ++ [c "div"]

def carouselToks (thumbs : Bool) (first : Bool) (rest : List Bool) : List GTok :=
  let imgs := first :: rest
  let n := imgs.length
  [o "tr", o "td", .nco, o "div"] ++ (List.replicate n [v "input"]).flatten ++ [o "div"] ++
  ite' thumbs (List.replicate n carThumb).flatten ++
  [o "table", o "tbody", o "tr", o "td", o "div"] ++ (List.replicate n carIcon).flatten ++ [c "div", c "td"] ++
  [o "td", o "div"] ++ imgs.flatMap carImage ++ [c "div", c "td"] ++
  [o "td", o "div"] ++ (List.replicate n carIcon).flatten ++ [c "div", c "td"] ++
  [c "tr", c "tbody", c "table", c "div", c "div", .ncc] ++
  [.co] ++ carImage first ++ [.cc, c "td", c "tr"]

/-! ### all leaves -/

inductive LeafM
  | keep                                      -- the slot keeps its plain content token (mj-text / mj-raw content, section text)
  | text (content : Bool)
  | button (href content : Bool)
  | image (href : Bool)
  | divider
  | spacer
  | table (rows : Nat) (text : Bool)
  | social (vertical : Bool) (kids : List SocChild)
  | navbar (hamburger : Bool) (kids : List NavChild)
  | accordion (kids : List AccChild)
  | carousel (thumbs : Bool) (first : Bool) (rest : List Bool)
deriving Repr

def LeafM.toks : LeafM → List GTok
  | .keep => [t]
  | .text cn => textToks cn
  | .button h cn => buttonToks h cn
  | .image h => imageToks h
  | .divider => dividerToks
  | .spacer => spacerToks
  | .table r tx => tableToks r tx
  | .social vm els => socialToks vm els
  | .navbar hb ls => navbarToks hb ls
  | .accordion els => accordionToks els
  | .carousel th f r => carouselToks th f r

def b2n (b : Bool) : Nat := if b then 1 else 0

def rawSlots (blank : Bool) : Nat := if blank then 0 else 1
def SocChild.slots : SocChild → Nat
  | .el e => b2n e.text
  | .raw b => rawSlots b
def NavChild.slots : NavChild → Nat
  | .link cn => b2n cn
  | .raw b => rawSlots b
def AccPart.slots : AccPart → Nat
  | .title cn => b2n cn
  | .text cn => b2n cn
  | .raw b => rawSlots b
def AccChild.slots : AccChild → Nat
  | .el e => (e.parts.map AccPart.slots).sum
  | .raw b => rawSlots b

/-- author content slots of a leaf -/
def LeafM.slots : LeafM → Nat
  | .keep => 1
  | .text cn => b2n cn
  | .button _ cn => b2n cn
  | .image _ => 0
  | .divider => 0
  | .spacer => 0
  | .table r tx => if r = 0 then b2n tx else r
  | .social _ kids => (kids.map SocChild.slots).sum
  | .navbar _ kids => (kids.map NavChild.slots).sum
  | .accordion kids => (kids.map AccChild.slots).sum
  | .carousel _ _ _ => 0

end Gomjml.Leaves
