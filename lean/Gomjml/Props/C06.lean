import Gomjml.Core.WriterFault
import Gomjml.Core.Api
import Gomjml.Gen.Writers
import Gomjml.Gen.Census
/-! # C06 — compilation is total and error-faithful (property theorems only)

(a) writer faults: proved for the calculus `WriterFault.Prog`, instantiated by the regenerated table of every write /
    writer-forwarding call of the rendering packages; (b) result trichotomy on the API model; (c) panic census.
    What is *not* provable here (panics inside encoding/xml, regexp, strconv; wall-clock bounds) is supported by
    fuzzing in the harness and labelled as such. -/
namespace Gomjml.Props.C06
open Gomjml.WriterFault

/-- the error-handling shape `factx` found at a site, as a program of the calculus -/
def shapeProg (kind shape : String) : Prog :=
  if kind == "call-infallible" then .skip                 -- target is a local strings.Builder / bytes.Buffer: cannot fail
  else if shape == "checked" || shape == "checked-cleanup" || shape == "returned" then .write "·"
  else if shape == "swallowed" || shape == "if-other-cond" then .swallow (.write "·")
  else .writeUnchecked "·"                                  -- unchecked, discarded, replaced, assigned-unchecked, other …

/-- a function body is a sequential / conditional composition of its sites -/
def seqAll : List Prog → Prog
  | [] => .skip
  | p :: r => .seq p (seqAll r)

theorem disciplined_seqAll (ps : List Prog) : Disciplined (seqAll ps) = ps.all Disciplined := by
  induction ps with
  | nil => rfl
  | cons p r ih => simp [seqAll, Disciplined, ih]

/-- **Regenerated fact**: every site in the rendering packages that writes to, or forwards, a caller-supplied writer
    binds the error and immediately returns that same error variable (or returns the call directly). -/
theorem C06a_all_sites_disciplined :
    (Gomjml.Gen.Writers.writerSites.map (fun s => shapeProg s.2.1 s.2.2.2.1)).all Disciplined = true := by
  decide +kernel

/-- hence the skeleton of the whole renderer is a disciplined program … -/
theorem C06a_renderer_disciplined :
    Disciplined (seqAll (Gomjml.Gen.Writers.writerSites.map (fun s => shapeProg s.2.1 s.2.2.2.1))) = true := by
  rw [disciplined_seqAll]; exact C06a_all_sites_disciplined

/-- … and for a disciplined program, **for every index k at which the k-th write may fail**: either the failure is never
    reached and the run is the fault-free run, or the injected error is returned and what was written is a prefix of the
    fault-free output. -/
theorem C06a_fault (env : Nat → Bool) (k : Nat) (p : Prog) (w : W) (h : Disciplined p = true) :
    ((run env (some k) p w).2 = false ∧ (run env (some k) p w).1 = (run env none p w).1) ∨
    ((run env (some k) p w).2 = true ∧ (run env (some k) p w).1.out <+: (run env none p w).1.out) :=
  run_fault env k p w h

/-- the full statement needs the discipline: one unchecked write and the error is lost (kernel-checked) -/
example : (run (fun _ => true) (some 1) (.seq (.writeUnchecked "a") (.write "b")) ⟨[], 0⟩).2 = false := by decide
/-- non-vacuity -/
example : Disciplined (.seq (.write "a") (.ite 0 (.write "b") .skip)) = true := by decide

/-- (b) exactly one of: HTML and no error; HTML with a validation error; no HTML and an ordinary error -/
theorem C06b_result_shapes (w : Gomjml.Api.World) (s : Gomjml.Api.St) (c : Gomjml.Api.Call) (h : ∀ k, c ≠ .renderTree k) :
    (∃ html, (Gomjml.Api.step w s c).2 = .ok html) ∨ (∃ html e, (Gomjml.Api.step w s c).2 = .okValidation html e) ∨
    (∃ e, (Gomjml.Api.step w s c).2 = .fail e) := Gomjml.Api.result_shapes w s c h

/-- (c) explicit `panic` calls in non-test code: the embedded-JSON loader (cannot fail for the embedded file) and the
    test-mode controller (never reached from the public entry points); `recover` is used nowhere (nothing is swallowed) -/
theorem C06c_panic_census :
    ∀ r ∈ Gomjml.Gen.Census.census, (r.1 = "panic" ∨ r.1 = "recover") →
      r ∈ [("panic", "panic", "mjml/components.ensureAllowedAttributesLoaded"),
           ("panic", "panic", "mjml/testmode.(*Controller).Disable"),
           ("panic", "panic", "mjml/testmode.(*Controller).Enable")] := by decide

end Gomjml.Props.C06
