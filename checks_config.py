"""Per-property configuration of ./check: Lean modules holding the property theorems, audit files, level, assumptions."""

COMMON_TRUSTED = [
    "Lean 4.33.0 kernel (thorough tier: leanchecker re-check of the .olean files)",
    "axioms allowed: propext, Classical.choice, Quot.sound (audited by #print axioms on every run; no sorry/native_decide/bv_decide/own axioms)",
    "factx (harness/cmd/factx): the regenerated site tables are what /repo's source contains (go/packages + go/types)",
    "hx (harness/cmd/hx): generators, canonicalisers and the real-code calls; correspondence is sampled",
]

CHECKS = {
    "C16": {
        "lean_modules": ["Gomjml.Props.C16"],
        "audit": ["Gomjml/Audit/C16.lean"],
        "level": "proof",
        "trusted": ["type-based region analysis assumes no unsafe/reflect writes (census table lists such imports: none)"],
        "assumptions": ["a write to the AST must be syntactically a store whose access path passes through parser.MJMLNode, xml.Attr, xml.Name or MixedContentPart (or append/copy/sort/delete on such a slice) outside package parser",
                        "dynamic half: deep snapshots on fixtures and generated documents only"],
        "proved_vs_tested": "proved: frame theorem for every execution/interleaving, instantiated by the regenerated (empty) AST-write table; tested: deep before/after snapshots through all four API paths and the cache",
    },
    "C13": {
        "lean_modules": ["Gomjml.Props.C13"],
        "audit": ["Gomjml/Audit/C13.lean"],
        "level": "proof",
        "trusted": ["hash/maphash is a parameter (an arbitrary function Doc -> Key); time is an integer clock; sync.Map modelled as a function",
                    "verif hooks: mjml/verif_hooks.go (cache size, expiry shift as simulated time, hash override, yield events)"],
        "assumptions": ["C13_transparent assumes the hash is injective on the documents of the history; without it the statement is false (kernel-checked counterexample, recorded finding C13-F1)",
                        "rendering from an AST is a pure function of the AST (C16)",
                        "correspondence: finite histories over a 4-document alphabet, each in a fresh process"],
        "proved_vs_tested": "proved: refinement of the cache machine (hits, misses, expiry, sweeps, stop/restart, setters) to the stateless compiler for every history, invariant for every reachable state; tested: model vs implementation on exhaustive short and random long histories (outcome, parser calls, size, lifecycle)",
    },
    "C14": {
        "lean_modules": ["Gomjml.Props.C14"],
        "audit": ["Gomjml/Audit/C14.lean"],
        "level": "proof",
        "trusted": ["time is an integer clock; a wall clock cannot be stopped exactly at expiry, so the strictness of the two comparisons is tied by the regenerated fact table C14_time_comparisons rather than by execution",
                    "verif hooks: mjml/verif_hooks.go"],
        "assumptions": ["the cleanup goroutine's sweep is atomic with respect to lookups in the Model (sync.Map.Range is not; only expired entries are removed either way)",
                        "tiny positive TTLs (1 ns … 1 ms) race the wall clock: only crash-freedom, result equality and effective configuration are compared for them"],
        "proved_vs_tested": "proved: hit changes nothing and does not parse; at/after expiry exactly one re-parse and a fresh stamp; expires = stored + ttl in every reachable state; sweep post-condition; ticker argument positive for every configuration; once-only setter laws; tested: same histories as C13 plus the TTL×interval boundary matrix in both setter orders, each in a fresh process",
    },
    "C15": {
        "lean_modules": ["Gomjml.Props.C15"],
        "audit": ["Gomjml/Audit/C15.lean"],
        "level": "proof",
        "race": True,
        "trusted": ["sync.Mutex / sync.WaitGroup / context cancellation modelled by their documented semantics; the Go scheduler and the race detector are outside the Model",
                    "verif yield points in singleflightDo / the cleanup goroutine (mjml/render.go, guarded by build tag verif) mark exactly the Model's atomic steps"],
        "assumptions": ["safety and deadlock-freedom are proved for all interleavings of the Model's atomic steps; liveness under the real scheduler is sampled (partial)",
                        "start/stop of the cleaner are atomic (both run under cacheCleanupMutex); 'at most one cleanup goroutine' is read as at most one uncancelled one",
                        "data races on globals.instance seen by the race detector belong to C07's finding and are not counted here"],
        "proved_vs_tested": "proved: inductive invariant of singleflightDo for every schedule, any number of goroutines and keys (no overlapping parses per key, hand-over of the leader's complete result, no reachable deadlock), at most one live cleaner, stop then restart starts exactly one; tested: model-guided deterministic replay of the real singleflightDo (every label as predicted), unguided delay-perturbed runs and full-path stress under the race detector",
    },
    "C20": {
        "lean_modules": ["Gomjml.Props.C20"],
        "audit": ["Gomjml/Audit/C20.lean"],
        "level": "proof",
        "trusted": ["cobra flag parsing and the OS (exit codes, file system) are outside the Model", "the in-process mjml.Render call is the reference for 'the bytes the library returns'"],
        "assumptions": ["whether --cache really enables the cache is not observable from outside a one-shot process (its effect on output is nil by C13)"],
        "proved_vs_tested": "proved: the decision table of the compile command satisfies the four sentences of the property (success to file / stdout with exactly the library's bytes; any error: non-zero exit, stderr, file untouched); ticker argument positive for any duration; tested: the built binary over the full flag matrix, one fresh process per case, against the Lean decision model applied to the in-process library result",
    },
}
