import Gomjml.Core.Resolve
import Gomjml.Gen.AttrSites
import Gomjml.Expect.AttrSites
/-! # C09 — attribute values resolve by MJML precedence, independent of source (property theorems only) -/
namespace Gomjml.Props.C09
open Gomjml.Resolve

/-- the full resolvers (`GetAttributeWithDefault`, `GetAttributeFast`) return the highest-priority non-empty value among
    own ≻ mj-class (later class first) ≻ tag default ≻ mj-all ≻ built-in default -/
theorem C09_full_is_winner (s : Sources) : accFull s = winner s := accFull_eq_winner s

/-- hence what they return depends on the winning value only, not on the source that supplies it -/
theorem C09_source_independent (s s' : Sources) (h : winner s = winner s') : accFull s = accFull s' :=
  full_depends_on_winner_only s s' h

/-- the reduced accessors coincide with the Spec only when the sources they skip are silent -/
theorem C09_noglobal_partial (s : Sources) (h : globalValue s = "" ∧ s.builtin = "") : accNoGlobal s = winner s :=
  accNoGlobal_eq_winner s h
theorem C09_raw_partial (s : Sources) (h : classValue s.classes = "" ∧ globalValue s = "" ∧ s.builtin = "") :
    accRaw s = winner s := accRaw_eq_winner s h

/-- non-vacuity: later class wins over an earlier one, own wins over everything, mj-all is the last resort before the built-in -/
example : winner ⟨"", [some "a", some "b", none], some "t", some "g", "d"⟩ = "b" ∧
          winner ⟨"o", [some "a"], some "t", some "g", "d"⟩ = "o" ∧
          winner ⟨"", [], none, some "g", "d"⟩ = "g" ∧ winner ⟨"", [none], none, none, "d"⟩ = "d" := by decide

/-- **every attribute read in the code base, partial**: each site either uses a full resolver or is one of the recorded
    reduced reads (complete regenerated table of attribute reads; a new reduced read breaks this theorem) -/
theorem C09_sites_partial :
    ∀ s ∈ Gomjml.Gen.AttrSites.attrSites, s.2.2.1 = "full" ∨ (s.1, s.2.2.1, s.2.2.2) ∈ Gomjml.Expect.AttrSites.knownNonFull := by
  decide +kernel

end Gomjml.Props.C09
