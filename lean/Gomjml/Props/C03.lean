import Gomjml.Core.LayoutSpec
import Gomjml.Core.LayoutLeaves
/-! # C03 — output is well-formed for Outlook: conditional content balanced (property theorems only) -/
namespace Gomjml.Props.C03
open Gomjml.Layout Gomjml.Spec

/-- **C03, the full statement: for EVERY document of the layout grammar** — any sequence of sections (full-width, background
    image, chaining or not), wrappers of every configuration (full-width and background-image sections inside them, delegated
    backgrounds, raw content between them, only blank raws), heroes and raw content: what Outlook sees (conditional content
    spliced in) is strictly nested — every table, row, cell and VML shape opened inside a conditional is closed by a later
    conditional at the same depth, none is closed twice.  No side condition. -/
theorem C03_full (bs : List Block) : MsoWF ((render bs).map Tok.toG) :=
  (wf_spec _ (C02_C03_all bs)).2.1

/-- the wrapper's children loop, whatever the children: it leaves on Outlook's stack exactly the depth it reports, which is
    what the wrapper then closes (`RenderMSOWrapperClose`) -/
theorem C03_wrapper_hand_over (w : Wrapper) : Neutral w.mid := mid_neutral w

/-- non-vacuity: the shapes that were unbalanced before the wrapper kept track of the open depth — a wrapper whose only child
    is a blank raw … -/
example : MsoWF ((render [.wrapper ⟨false, false, [.raw true]⟩]).map Tok.toG) := by unfold MsoWF; decide
/-- … a full-width section with a background colour inside a wrapper … -/
example : MsoWF ((render [.wrapper ⟨false, false, [.sec ⟨true, false, false, false, true, false, []⟩]⟩]).map Tok.toG) := by
  unfold MsoWF; decide
/-- … a full-width section inside a coloured wrapper … -/
example : MsoWF ((render [.wrapper ⟨false, true, [.sec ⟨true, false, false, false, false, false, []⟩]⟩]).map Tok.toG) := by
  unfold MsoWF; decide
/-- … mixes of sections that bring their own Outlook table with sections that do not, raw content between them -/
example : MsoWF ((render [.wrapper ⟨false, false, [.sec ⟨false, false, false, false, false, false, []⟩, .raw false,
                                                   .sec ⟨true, true, false, false, false, false, []⟩, .raw true,
                                                   .sec ⟨true, false, false, false, true, false, [.col ⟨false, [.text]⟩]⟩]⟩]).map Tok.toG) := by
  unfold MsoWF; decide

/-! ### with the content components filled in -/
open Gomjml.LayoutLeaves in
/-- **C03 for documents with real content components** (mj-divider's Outlook table, mj-social's and mj-navbar's Outlook cells
    — one per element, opened by the first and handed on by a separator conditional —, mj-carousel's Outlook fall-back image, the
    not-Outlook blocks of navbar / accordion / carousel skipped): what Outlook sees is strictly nested, for every layout tree,
    every component, all parameter values and any number of children.  No side condition. -/
theorem C03_components (d : Doc) : MsoWF d.render := (doc_spec d).2.1

open Gomjml.Leaves Gomjml.Expand in
/-- the Outlook cells of a horizontal social bar: with a cell open, the loop over ANY list of children (elements, raw content) leaves exactly that cell open -/
theorem C03_social_loop (kids : List SocChild) (rem : Nat) : ∀ st, runE msoStep ⟨0, "td" :: st⟩ (socLoop rem kids) = .ok ⟨0, "td" :: st⟩ :=
  fun st => by simpa using socLoop_moves (step := msoStep) (Or.inr (Or.inl rfl)) kids rem st

open Gomjml.Leaves Gomjml.Expand in
/-- the same for the links of a navbar behind the first -/
theorem C03_navbar_loop (kids : List NavChild) : ∀ st, runE msoStep ⟨0, "td" :: st⟩ (navLoop false false kids) = .ok ⟨0, "td" :: st⟩ :=
  fun st => by simpa using navLoop_moves (step := msoStep) (Or.inr (Or.inl rfl)) kids st

open Gomjml.Leaves Gomjml.Expand in
/-- … and in front of the first link, once raw content has closed the opening conditional: a cell is open afterwards exactly
    when there was a link -/
theorem C03_navbar_first (kids : List NavChild) :
    ∀ st, runE msoStep ⟨0, st⟩ (navLoop false true kids) = .ok ⟨0, (if kids.any NavChild.isLink then ["td"] else []) ++ st⟩ :=
  fun st => by simpa using navLoop_first_mso kids st

end Gomjml.Props.C03
