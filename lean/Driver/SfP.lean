import Gomjml.Core.SingleFlight
/-! driver sub-protocol `sf`: run the single-flight Model along a schedule.
    `sf <keys,comma> <tids,comma>` → after each step the label the stepped thread is at (`X` = was not enabled),
    then `|` and the threads enabled in the final state. -/
open Gomjml.SingleFlight

namespace Driver.SfP

def label : PC → String
  | .start => "start" | .locked => "locked" | .waiting c => s!"waiting:{c}" | .lead => "lead" | .parsing => "parsing"
  | .assigned => "assigned" | .signalled => "signalled" | .deleting => "deleting"
  | .ret r w => s!"ret:{match r with | some v => toString v | none => "nil"}:{match w with | some c => toString c | none => "self"}"

def handle (args : List String) : String :=
  match args with
  | [ks, sched] =>
    let keys := (ks.splitOn ",").filterMap String.toNat?
    let n := keys.length
    let steps := if sched == "-" then [] else (sched.splitOn ",").filterMap String.toNat?
    Id.run do
      let mut s := init (fun t => keys.getD t 0) (fun t => t)
      let mut out : Array String := #[]
      for t in steps do
        match step s t with
        | none => out := out.push "X"
        | some s' => s := s'; out := out.push (label (s.pc t))
      let en := (List.range n).filter (fun t => (step s t).isSome)
      return " ".intercalate out.toList ++ " | " ++ " ".intercalate (en.map toString)
  | _ => "bad-request"

end Driver.SfP
