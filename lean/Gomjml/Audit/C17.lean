import Gomjml.Props.C17
#print axioms Gomjml.Props.C17.C17_error_iff
#print axioms Gomjml.Props.C17.C17_details_sound
#print axioms Gomjml.Props.C17.C17_each_once
#print axioms Gomjml.Props.C17.C17_always_accepted
#print axioms Gomjml.Props.C17.C17_line_lookup
#print axioms Gomjml.Props.C17.C17_html_unchanged
#print axioms Gomjml.Props.C17.C17_sites
#print axioms Gomjml.Props.C17.C17_wrap_moves_no_line
#print axioms Gomjml.Props.C17.C17_entities_move_no_line
#print axioms Gomjml.Props.C17.C17_reported_line_is_input_line
#print axioms Gomjml.Props.C17.C17_prepass_source
#print axioms Gomjml.Props.C17.C17_error_value
