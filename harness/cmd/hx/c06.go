package main

import (
	"encoding/json"
	"errors"
	"fmt"
	"os"
	"os/exec"
	"reflect"
	"sort"
	"strings"
	"sync"
	"sync/atomic"
	"time"

	"github.com/preslavrachev/gomjml/mjml"
	"github.com/preslavrachev/gomjml/mjml/components"
)

var errInjected = errors.New("verif: injected write failure")

// faultWriter fails its k-th WriteString (1-based; 0 = never) and records what was written before.
type faultWriter struct {
	k   int
	n   int
	buf strings.Builder
}

func (w *faultWriter) WriteString(s string) (int, error) {
	w.n++
	if w.k > 0 && w.n == w.k {
		return 0, errInjected
	}
	if w.k > 0 && w.n > w.k {
		w.buf.WriteString("\x00WRITE-AFTER-FAILURE\x00")
	}
	return w.buf.WriteString(s)
}

type outcome struct {
	html  string
	err   error
	panic interface{}
	hang  bool
	dur   time.Duration
}

// guarded runs f with recover and a deadline (a hang leaves the goroutine behind and is reported).
func guarded(deadline time.Duration, f func() (string, error)) outcome {
	ch := make(chan outcome, 1)
	t0 := time.Now()
	go func() {
		var o outcome
		defer func() {
			if p := recover(); p != nil {
				o.panic = p
			}
			o.dur = time.Since(t0)
			ch <- o
		}()
		o.html, o.err = f()
	}()
	select {
	case o := <-ch:
		return o
	case <-time.After(deadline):
	}
	// not back within the deadline: on a saturated machine that is starvation more often than a hang — the same call gets
	// ten times the deadline (the first goroutine keeps running: the call is the same) before it counts as one
	select {
	case o := <-ch:
		return o
	case <-time.After(9 * deadline):
		return outcome{hang: true, dur: 10 * deadline}
	}
}

// classify checks the result trichotomy of C06(b); returns "" when the shape is legal.
func classifyOutcome(o outcome) (string, string) {
	switch {
	case o.hang:
		return "hang", "hang"
	case o.panic != nil:
		return "panic", "panic"
	case o.err == nil && o.html != "":
		return "html", ""
	case o.err == nil && o.html == "":
		return "empty-no-error", "empty-html-no-error"
	}
	var ve mjml.Error
	isVal := errors.As(o.err, &ve)
	switch {
	case o.html != "" && isVal:
		return "html+validation", ""
	case o.html != "" && !isVal:
		return "html+other-error", "html-with-non-validation-error"
	case o.html == "" && isVal:
		return "validation-without-html", "validation-error-without-html"
	}
	return "error", ""
}

var hostileValues = []string{"", "0", "-1", "-1px", "1e309", "1e309px", "NaN", "NaNpx", "Inf", "-Inf", "Infpx", "0x1p4", "1_0", "９px",
	strings.Repeat("9", 400), strings.Repeat("9", 400) + "px", "px", "%", "10px 20px 30px", "1px 2px 3px 4px 5px", "\t5px", "5 px", "50%", "150%", "-50%",
	"1e3%", "0%", "0px", "0.0001px", "99999999999px", "\"", "a\"b", "<", "full-width", "true", "false", "-0", "+5px", ".5px", "5.px", "1e-400px", "100%%", "% 5", "auto",
	// placeholders and format directives: values that templates, formatters and regexp replacements give a meaning to
	"[[URL]]", "https://x/?next=[[URL]]", "{{url}}", "%s", "%d%n%v", "%!s(MISSING)", "$1", "${1}x", "\\1", "{0}", "<%= x %>", "[[", "]]", "[[URL]][[URL]]",
	" ", "\t\n", "10px 10px ", " 10px", "10px  20px", "10px\t20px", "10px,20px", "calc(100% - 10px)", "var(--x)", "10PX", "10Px 5pX"}

// legalContext returns a document with the element `tag attrs` placed where MJML allows it.
func legalContext(tag, attrs, head string) string {
	el := func(inner string) string { return "<" + tag + " " + attrs + ">" + inner + "</" + tag + ">" }
	col := func(x string) string { return "<mj-section><mj-column>" + x + "</mj-column></mj-section>" }
	var body string
	switch tag {
	case "mj-section":
		body = el("<mj-column><mj-text>T</mj-text></mj-column>")
	case "mj-column":
		body = "<mj-section>" + el("<mj-text>T</mj-text><mj-image src=\"x.png\"/><mj-divider/>") + "</mj-section>"
	case "mj-group":
		body = "<mj-section>" + el("<mj-column><mj-text>T</mj-text></mj-column><mj-column><mj-text>U</mj-text></mj-column>") + "</mj-section>"
	case "mj-wrapper":
		body = el("<mj-section><mj-column><mj-text>T</mj-text></mj-column></mj-section>")
	case "mj-hero":
		body = el("<mj-text>T</mj-text>")
	case "mj-text", "mj-button":
		body = col(el("T"))
	case "mj-image":
		body = col("<mj-image src=\"x.png\" " + attrs + "/>")
	case "mj-divider", "mj-spacer":
		body = col(el(""))
	case "mj-table":
		body = col(el("<tr><td>c</td></tr>"))
	case "mj-raw":
		body = col(el("<i>r</i>"))
	case "mj-social":
		body = col(el(`<mj-social-element name="facebook" href="h">F</mj-social-element>`))
	case "mj-social-element":
		body = col(`<mj-social><mj-social-element name="facebook" href="h" ` + attrs + `>F</mj-social-element></mj-social>`)
	case "mj-navbar":
		body = col(el(`<mj-navbar-link href="/a">A</mj-navbar-link>`))
	case "mj-navbar-link":
		body = col(`<mj-navbar><mj-navbar-link href="/a" ` + attrs + `>A</mj-navbar-link></mj-navbar>`)
	case "mj-accordion":
		body = col(el(`<mj-accordion-element><mj-accordion-title>Ti</mj-accordion-title><mj-accordion-text>Tx</mj-accordion-text></mj-accordion-element>`))
	case "mj-accordion-element":
		body = col(`<mj-accordion>` + el(`<mj-accordion-title>Ti</mj-accordion-title><mj-accordion-text>Tx</mj-accordion-text>`) + `</mj-accordion>`)
	case "mj-accordion-title":
		body = col(`<mj-accordion><mj-accordion-element>` + el("Ti") + `<mj-accordion-text>Tx</mj-accordion-text></mj-accordion-element></mj-accordion>`)
	case "mj-accordion-text":
		body = col(`<mj-accordion><mj-accordion-element><mj-accordion-title>Ti</mj-accordion-title>` + el("Tx") + `</mj-accordion-element></mj-accordion>`)
	case "mj-carousel":
		body = col(el(`<mj-carousel-image src="a.png"/><mj-carousel-image src="b.png"/>`))
	case "mj-carousel-image":
		body = col(`<mj-carousel><mj-carousel-image src="a.png" ` + attrs + `/><mj-carousel-image src="b.png"/></mj-carousel>`)
	case "mj-body":
		return "<mjml>" + head + "<mj-body " + attrs + "><mj-section><mj-column><mj-text>T</mj-text></mj-column></mj-section></mj-body></mjml>"
	default:
		return ""
	}
	return "<mjml>" + head + "<mj-body>" + body + "</mj-body></mjml>"
}

var bodyTags = []string{"mj-body", "mj-section", "mj-column", "mj-group", "mj-wrapper", "mj-hero", "mj-text", "mj-button", "mj-image", "mj-divider", "mj-spacer",
	"mj-table", "mj-raw", "mj-social", "mj-social-element", "mj-navbar", "mj-navbar-link", "mj-accordion", "mj-accordion-element", "mj-accordion-title",
	"mj-accordion-text", "mj-carousel", "mj-carousel-image"}

func mutateBytes(r *Rng, s string) string {
	b := []byte(s)
	for i, n := 0, 1+r.Intn(4); i < n && len(b) > 0; i++ {
		p := r.Intn(len(b))
		switch r.Intn(9) {
		case 0:
			b[p] = byte(r.Intn(256))
		case 1:
			b = append(b[:p], b[p+1:]...)
		case 2:
			ins := []string{"<", ">", "&", "\"", "'", "<!--", "-->", "<![CDATA[", "]]>", "</mj-text>", "<mj-raw>", "&lt;", "&#x", "\x00", "\xff", "<?xml", "<mj-section>", "/>"}[r.Intn(18)]
			b = append(b[:p], append([]byte(ins), b[p:]...)...)
		case 3:
			q := r.Intn(len(b))
			if q < p {
				p, q = q, p
			}
			b = append(b[:p], b[q:]...)
		case 4:
			q := p + r.Intn(40)
			if q > len(b) {
				q = len(b)
			}
			b = append(b[:q], append(append([]byte{}, b[p:q]...), b[q:]...)...)
		case 5:
			b = b[:p]
		case 6:
			// swap two chunks
			q := r.Intn(len(b))
			b[p], b[q] = b[q], b[p]
		case 7:
			ins := strings.Repeat("<mj-section>", 3+r.Intn(20))
			b = append(b[:p], append([]byte(ins), b[p:]...)...)
		case 8:
			for j := p; j < len(b) && j < p+8; j++ {
				b[j] ^= byte(1 << uint(r.Intn(8)))
			}
		}
	}
	return string(b)
}

func runC06(res *Result, tier string, seed int64, replay string) {
	res.Rule = "(a) writer faults: for every document (fixtures + seeded grammar documents, all leaf kinds) the component tree — the whole document, its body, and every block / column / content component below it rendered on its own (the body buffers its blocks) — is rendered into a writer that fails at its k-th WriteString (once: later writes are accepted and flagged), for EVERY k from 1 to the number of writes: the returned error must be the injected error itself (==), what was written must be exactly the first k-1 writes of the fault-free run, and nothing may be written after the failure; (b) every outcome of every input is classified: HTML / HTML+validation error / error, anything else is a violation; (c) no panic, no hang (2 s deadline, extended once to 20 s before a call counts as hung, recover): hostile values for every accepted attribute of every component in a legal context, malformed author HTML (stray / unclosed quotes, cut-off tags) in mj-text / mj-raw / mj-table with and without an inline style rule, byte-mutated fixtures and generated documents, nesting-depth probes up to 3 000 000 levels in a child process. Non-trivial = case that reaches the renderer or the parser's error path with a distinct input"
	fixtures := loadFixtures()
	var docs []struct{ name, src string }
	if replay != "" {
		if src, ok := replayInput(replay); ok {
			docs = append(docs, struct{ name, src string }{"replay", src})
		}
	} else {
		for _, f := range fixtures {
			docs = append(docs, struct{ name, src string }{"fixture:" + f.Name, f.MJML})
		}
		// every component and sub-element with a css-class that an inline rule targets (the inlined declarations are written by
		// separate writes on some elements), once with and once without the rule
		for hi, head := range []string{`<mj-head><mj-style inline="inline">.ka { background-color: #ffeeee; color: red; }</mj-style></mj-head>`, ``} {
			docs = append(docs, struct{ name, src string }{fmt.Sprintf("explicit:css-class-everywhere/%d", hi), `<mjml>` + head + `<mj-body><mj-section css-class="ka"><mj-column css-class="ka">` +
				`<mj-text css-class="ka">t</mj-text><mj-button css-class="ka" href="u">b</mj-button><mj-image css-class="ka" src="i.png"/><mj-divider css-class="ka"/><mj-spacer css-class="ka"/>` +
				`<mj-table css-class="ka"><tr class="ka"><td>c</td></tr></mj-table>` +
				`<mj-accordion css-class="ka"><mj-accordion-element css-class="ka"><mj-accordion-title css-class="ka">T</mj-accordion-title><mj-accordion-text css-class="ka">X</mj-accordion-text></mj-accordion-element></mj-accordion>` +
				`<mj-navbar css-class="ka" hamburger="hamburger"><mj-navbar-link css-class="ka" href="/a">A</mj-navbar-link><mj-raw><i class="ka">r</i></mj-raw></mj-navbar>` +
				`<mj-social css-class="ka"><mj-social-element css-class="ka" name="facebook" href="h">F</mj-social-element></mj-social>` +
				`<mj-carousel css-class="ka"><mj-carousel-image css-class="ka" src="a.png"/><mj-carousel-image src="b.png"/></mj-carousel>` +
				`</mj-column></mj-section><mj-wrapper css-class="ka"><mj-section><mj-group css-class="ka"><mj-column><mj-text>g</mj-text></mj-column></mj-group></mj-section></mj-wrapper><mj-hero css-class="ka"><mj-text>h</mj-text></mj-hero></mj-body></mjml>`})
		}
		n := 120
		if tier == "thorough" {
			n = 3000
		}
		for i := 0; i < n; i++ {
			d := genRich(NewRng(seed, fmt.Sprintf("c06/doc/%d", i)), &RichOpts{Head: true, MaxAttrs: 3, Features: true, CSSInline: true})
			docs = append(docs, struct{ name, src string }{fmt.Sprintf("gen:%d", i), d.MJML()})
		}
	}
	// ---- (a) exhaustive fault positions ------------------------------------------------------------------------
	var faultCases atomic.Int64
	// sequential on purpose: concurrent in-process renders of documents with different heads interfere (C07's finding)
	var faultTree func(d struct{ name, src string }, i int, comp mjml.Component, label string)
	faultOne := func(i int, bodyOnly bool) {
		d := docs[i]
		ast, err := mjml.ParseMJML(d.src)
		if err != nil {
			return
		}
		var comp mjml.Component
		if p := safely(func() { comp, err = mjml.NewFromAST(ast) }); p != nil || err != nil || comp == nil {
			return
		}
		if bodyOnly {
			root, ok := comp.(*mjml.MJMLComponent)
			if !ok || root.Body == nil {
				return
			}
			comp = root.Body
			// the body writes each block into a buffer of its own before it reaches the caller's writer (boundary merge), so a
			// fault in the caller's writer never lands inside a block: render every block — and every component below it that
			// renders on its own — directly into the failing writer as well
			var walk func(c mjml.Component, depth int)
			walk = func(c mjml.Component, depth int) {
				for ci, k := range childrenOf(c) {
					if depth < 3 && standsAlone(k) {
						faultTree(d, i, k, fmt.Sprintf("sub%d.%d", depth, ci))
					}
					walk(k, depth+1)
				}
			}
			walk(comp, 0)
		}
		faultTree(d, i, comp, fmt.Sprint(bodyOnly))
	}
	faultTree = func(d struct{ name, src string }, i int, comp mjml.Component, label string) {
		bodyOnly := label
		clean := &faultWriter{}
		var rerr error
		if p := safely(func() { rerr = comp.Render(clean) }); p != nil {
			res.Violate(Violation{Sig: "panic|Render", Kind: "input", What: fmt.Sprint("panic while rendering: ", p), Input: map[string]string{"source": d.src}})
			return
		}
		if rerr != nil {
			return
		}
		total := clean.n
		full := clean.buf.String()
		// the same tree rendered twice must give the same bytes, otherwise prefixes cannot be compared
		again := &faultWriter{}
		comp.Render(again)
		if again.buf.String() != full {
			res.Count("tree-not-idempotent")
			return
		}
		res.Case(fmt.Sprintf("fault|%v|%s", bodyOnly, d.src), total > 10)
		res.Count("fault-root=" + strings.SplitN(label, ".", 2)[0])
		if i%80 == 0 {
			res.Sample(map[string]interface{}{"kind": "writer-fault", "doc": d.name, "writes": total, "bodyOnly": bodyOnly})
		}
		// prefix lengths of the fault-free run
		pref := make([]int, 0, total+1)
		{
			c := &lenWriter{}
			comp.Render(c)
			pref = c.ends
		}
		for k := 1; k <= total; k++ {
			w := &faultWriter{k: k}
			var e error
			if p := safely(func() { e = comp.Render(w) }); p != nil {
				res.Violate(Violation{Sig: "write-failure-became-panic", Kind: "fault", What: fmt.Sprintf("write %d of %d failed → panic: %v", k, total, p), Input: map[string]interface{}{"source": d.src, "k": k}})
				return
			}
			faultCases.Add(1)
			got := w.buf.String()
			switch {
			case e == nil:
				res.Violate(Violation{Sig: "write-failure-swallowed", Kind: "fault", What: fmt.Sprintf("write %d of %d failed but Render returned nil (wrote %d more bytes)", k, total, len(got)), Input: map[string]interface{}{"source": d.src, "k": k}})
				return
			case e != errInjected:
				res.Violate(Violation{Sig: "write-failure-replaced", Kind: "fault", What: fmt.Sprintf("write %d of %d failed, Render returned a different error: %v", k, total, e), Input: map[string]interface{}{"source": d.src, "k": k}})
				return
			case strings.Contains(got, "WRITE-AFTER-FAILURE"):
				res.Violate(Violation{Sig: "write-after-failure", Kind: "fault", What: fmt.Sprintf("write %d of %d failed, rendering went on writing", k, total), Input: map[string]interface{}{"source": d.src, "k": k}})
				return
			case k-1 < len(pref) && got != full[:prefAt(pref, k-1)]:
				res.Violate(Violation{Sig: "output-not-a-prefix", Kind: "fault", What: fmt.Sprintf("write %d of %d failed, %d bytes written are not the first %d writes of the fault-free output", k, total, len(got), k-1), Input: map[string]interface{}{"source": d.src, "k": k}})
				return
			}
		}
	}
	if chunk := os.Getenv("HX_FAULT_CHUNK"); chunk != "" {
		// child: one sixteenth of the documents, sequentially
		var ci, cn int
		fmt.Sscanf(chunk, "%d/%d", &ci, &cn)
		for i := range docs {
			if i%cn == ci {
				faultOne(i, false) // the whole document (head + body through an internal buffer)
				faultOne(i, true)  // the body component tree directly into the failing writer: every component's own writes
			}
		}
		res.mu.Lock()
		res.Evaluations += int(faultCases.Load())
		res.Dist["fault-positions"] = int(faultCases.Load())
		res.mu.Unlock()
		return
	}
	if replay != "" {
		for i := range docs {
			faultOne(i, false)
			faultOne(i, true)
		}
	} else {
		const nChunks = 16
		var wg sync.WaitGroup
		var cmu sync.Mutex
		for ci := 0; ci < nChunks; ci++ {
			wg.Add(1)
			go func(ci int) {
				defer wg.Done()
				self, _ := os.Executable()
				tmp, _ := os.CreateTemp("", "hx-c06-*.json")
				tmp.Close()
				defer os.Remove(tmp.Name())
				cmd := exec.Command(self, "C06", "-tier", tier, "-seed", fmt.Sprint(seed), "-out", tmp.Name())
				cmd.Env = append(os.Environ(), fmt.Sprintf("HX_FAULT_CHUNK=%d/%d", ci, nChunks))
				out, err := cmd.CombinedOutput()
				cmu.Lock()
				defer cmu.Unlock()
				if err != nil {
					res.Violate(Violation{Sig: "process-killed|writer-fault-child", Kind: "fault", What: "fault-injection child crashed: " + short(string(out), 400)})
					return
				}
				b, _ := os.ReadFile(tmp.Name())
				var cr Result
				if json.Unmarshal(b, &cr) != nil {
					return
				}
				res.mu.Lock()
				res.Evaluations += cr.Evaluations
				res.Distinct += cr.Distinct
				for k, v := range cr.Dist {
					res.Dist[k] += v
				}
				if len(res.Samples) < 3 {
					res.Samples = append(res.Samples, cr.Samples...)
				}
				res.mu.Unlock()
				faultCases.Add(int64(cr.Dist["fault-positions"]))
				for _, v := range cr.Violations {
					res.Violate(v)
				}
			}(ci)
		}
		wg.Wait()
	}
	res.Note("writer-fault positions executed: %d", faultCases.Load())
	if replay != "" {
		res.mu.Lock()
		res.Evaluations += int(faultCases.Load())
		res.mu.Unlock()
		return
	}

	// ---- (b)+(c) hostile attribute values -------------------------------------------------------------------------
	type hcase struct{ tag, attr, val string }
	var hc []hcase
	for _, tag := range bodyTags {
		for _, a := range allowedSorted(tag) {
			vals := hostileValues
			if tier != "thorough" {
				// quick: a seeded third of the value set per attribute (every value is used across attributes)
				r := NewRng(seed, "c06/h/"+tag+a[0])
				var sub []string
				for _, v := range hostileValues {
					if r.Intn(3) == 0 {
						sub = append(sub, v)
					}
				}
				vals = sub
			}
			for _, v := range vals {
				hc = append(hc, hcase{tag, a[0], v})
			}
		}
	}
	var mu sync.Mutex
	run := func(kind, key, src string, nontrivial bool) {
		o := guarded(2*time.Second, func() (string, error) { return mjml.Render(src) })
		cls, bad := classifyOutcome(o)
		res.Case(key, nontrivial)
		res.Count(kind + ":" + cls)
		if bad != "" {
			what := fmt.Sprintf("%s: %v", bad, o.panic)
			if o.err != nil {
				what += " err=" + short(o.err.Error(), 120)
			}
			mu.Lock()
			res.Violate(Violation{Sig: bad + "|" + kind + "|" + sigOf(key), Kind: "input", What: what, Input: map[string]string{"source": src, "case": key}})
			mu.Unlock()
		}
		if o.dur > 500*time.Millisecond && !o.hang {
			res.Count("slow>500ms")
		}
	}
	parallel(16, len(hc), func(i int) {
		c := hc[i]
		attrs := c.attr + `="` + xmlAttrEsc(c.val) + `"`
		src := legalContext(c.tag, attrs, "")
		if src == "" {
			return
		}
		run("hostile", c.tag+"/"+c.attr+"="+short(c.val, 12), src, true)
		if i%997 == 0 {
			res.Sample(map[string]string{"kind": "hostile-value", "tag": c.tag, "attr": c.attr, "value": short(c.val, 30)})
		}
	})
	// a blank value next to ALL the other attributes of the component at their typical values (the attribute that makes the
	// component look at the blank one is among them: background-size next to background-url, …)
	if replay == "" {
		var blanks []leafDoc
		for _, d := range attrSweepDocs() {
			if strings.HasPrefix(d.desc, "attr-blank") {
				blanks = append(blanks, d)
			}
		}
		parallel(16, len(blanks), func(i int) { run("blank-among-all", blanks[i].desc, blanks[i].src, true) })
	}
	// hostile values × the shape of the element's children: a container with no children at all, with raw content only, and
	// with many children (divisions by a child count, "first / last child" indexing, width shares)
	{
		type shape struct {
			name string
			kids func(tag string) string
		}
		manyOf := map[string]string{
			"mj-section": `<mj-column><mj-text>T</mj-text></mj-column>`, "mj-group": `<mj-column><mj-text>T</mj-text></mj-column>`,
			"mj-wrapper": `<mj-section><mj-column><mj-text>T</mj-text></mj-column></mj-section>`, "mj-column": `<mj-text>T</mj-text>`, "mj-hero": `<mj-text>T</mj-text>`,
			"mj-navbar": `<mj-navbar-link href="/a">A</mj-navbar-link>`, "mj-social": `<mj-social-element name="facebook" href="h">F</mj-social-element>`,
			"mj-accordion": `<mj-accordion-element><mj-accordion-title>Q</mj-accordion-title><mj-accordion-text>A</mj-accordion-text></mj-accordion-element>`,
			"mj-carousel":  `<mj-carousel-image src="a.png"/>`, "mj-accordion-element": `<mj-accordion-title>Q</mj-accordion-title>`,
		}
		shapes := []shape{
			{"empty", func(string) string { return "" }},
			{"raw-only", func(string) string { return `<mj-raw><i>r</i></mj-raw>` }},
			{"five", func(tag string) string { return strings.Repeat(manyOf[tag], 5) }},
		}
		var containers []string
		for t := range manyOf {
			containers = append(containers, t)
		}
		sort.Strings(containers)
		type scase struct {
			tag, attr, val string
			sh             shape
		}
		var sc []scase
		for _, tag := range containers {
			for _, a := range allowedSorted(tag) {
				for vi, v := range hostileValues {
					for si, sh := range shapes {
						if tier != "thorough" && (vi+si+len(a[0]))%3 != int(seed%3) {
							continue
						}
						sc = append(sc, scase{tag, a[0], v, sh})
					}
				}
			}
		}
		parallel(16, len(sc), func(i int) {
			c := sc[i]
			doc := parseNodeTree(legalContext(c.tag, "", ""))
			if doc == nil {
				return
			}
			var t *Node
			doc.Walk(func(x *Node) {
				if t == nil && x.Tag == c.tag {
					t = x
				}
			})
			if t == nil {
				return
			}
			t.Set(c.attr, c.val)
			src := doc.MJML()
			// replace the element's children textually: the printed element is unique in the document
			open := strings.Index(src, "<"+c.tag+" ")
			if open < 0 {
				return
			}
			gt := strings.Index(src[open:], ">") + open
			end := strings.LastIndex(src, "</"+c.tag+">")
			if gt < open || end < gt {
				return
			}
			src = src[:gt+1] + c.sh.kids(c.tag) + src[end:]
			run("hostile-shape", c.tag+"/"+c.sh.name+"/"+c.attr+"="+short(c.val, 12), src, true)
		})
	}
	// the same values as mj-attributes defaults and mj-all
	parallel(16, len(bodyTags)*len(hostileValues), func(i int) {
		tag, v := bodyTags[i/len(hostileValues)], hostileValues[i%len(hostileValues)]
		al := allowedSorted(tag)
		if len(al) == 0 {
			return
		}
		a := al[i%len(al)][0]
		head := `<mj-head><mj-attributes><mj-all ` + a + `="` + xmlAttrEsc(v) + `"/><` + tag + ` ` + a + `="` + xmlAttrEsc(v) + `"/></mj-attributes></mj-head>`
		src := legalContext(tag, "", head)
		if src != "" {
			run("hostile-default", tag+"/"+a+"="+short(v, 12), src, true)
		}
	})
	// ---- malformed author HTML under an inline style rule (the inline-style scanner parses every start tag of the content):
	// stray quotes in front of quoted values, quotes that never close, '=' without a value, '<' inside values, a tag cut off
	{
		tags := []string{`<a b' c='d>link</a>`, `<p class="ka" it's title='x>hello</p>`, `<a 'x="> ' >y</a>`, `<p class="ka>open`, `<p class='ka`, `<p class=>`, `<p class= >x</p>`, `<p = class="ka">`,
			`<p class="ka" x=">`, `<p "class"="ka">q</p>`, `<p class="ka"'>`, `<p class=ka'x">`, `<p class="ka" style=">x</p>`, `<p style='a:b" class="ka">x</p>`, `<`, `<p`, `<p class`, `<p class="`, `< p class="ka">`,
			`<p class="ka"/`, `<p/ class="ka">`, `<p class="ka" ` + strings.Repeat(`'`, 41) + `>`, `<p ` + strings.Repeat(`a="`, 30) + `>`, `<p class="ka"><p class='ka'><p class=ka>`}
		carriers := [][2]string{{`<mj-text>`, `</mj-text>`}, {`<mj-raw>`, `</mj-raw>`}, {`<mj-table><tr><td>`, `</td></tr></mj-table>`}}
		for ti, tg := range tags {
			for ci, c := range carriers {
				for hi, head := range []string{`<mj-head><mj-style inline="inline">.ka { color: red; }</mj-style></mj-head>`, ``} {
					inner := tg
					if ci != 1 {
						inner = "<![CDATA[" + tg + "]]>"
					}
					src := `<mjml>` + head + `<mj-body><mj-section><mj-column>` + c[0] + inner + c[1] + `</mj-column></mj-section></mj-body></mjml>`
					run("author-html", fmt.Sprintf("%d/%d/%d", ti, ci, hi), src, true)
				}
			}
		}
	}
	// ---- every element as the root of the document (what a truncated input looks like) ------------------------------------
	for _, tag := range append(append([]string{}, bodyTags...), "mj-head", "mj-title", "mj-preview", "mj-attributes", "mj-font", "mj-style", "mj-breakpoint", "mj-all", "mj-class", "mj-raw", "div", "mjml", "mj-unknown") {
		for _, inner := range []string{"", "T", "<mj-text>T</mj-text>"} {
			src := "<" + tag + ">" + inner + "</" + tag + ">"
			run("root", tag+"/"+short(inner, 8), src, true)
		}
	}
	// ---- every element under every parent (valid XML, nesting MJML does not allow): must not panic ---------------------------
	{
		full := map[string]string{
			"mj-accordion-element": `<mj-accordion-element><mj-accordion-title>Q</mj-accordion-title><mj-accordion-text>A</mj-accordion-text></mj-accordion-element>`,
			"mj-accordion":         `<mj-accordion><mj-accordion-element><mj-accordion-title>Q</mj-accordion-title><mj-accordion-text>A</mj-accordion-text></mj-accordion-element></mj-accordion>`,
			"mj-accordion-title":   `<mj-accordion-title>Q</mj-accordion-title>`,
			"mj-accordion-text":    `<mj-accordion-text>A</mj-accordion-text>`,
			"mj-carousel":          `<mj-carousel><mj-carousel-image src="a.png"/><mj-carousel-image src="b.png"/></mj-carousel>`,
			"mj-carousel-image":    `<mj-carousel-image src="a.png"/>`,
			"mj-navbar":            `<mj-navbar><mj-navbar-link href="/a">A</mj-navbar-link></mj-navbar>`,
			"mj-navbar-link":       `<mj-navbar-link href="/a">A</mj-navbar-link>`,
			"mj-social":            `<mj-social><mj-social-element name="facebook" href="h">F</mj-social-element></mj-social>`,
			"mj-social-element":    `<mj-social-element name="facebook" href="h">F</mj-social-element>`,
			"mj-section":           `<mj-section><mj-column><mj-text>T</mj-text></mj-column></mj-section>`,
			"mj-column":            `<mj-column><mj-text>T</mj-text></mj-column>`,
			"mj-group":             `<mj-group><mj-column><mj-text>T</mj-text></mj-column></mj-group>`,
			"mj-wrapper":           `<mj-wrapper><mj-section><mj-column><mj-text>T</mj-text></mj-column></mj-section></mj-wrapper>`,
			"mj-hero":              `<mj-hero><mj-text>T</mj-text></mj-hero>`,
			"mj-text":              `<mj-text>T</mj-text>`,
			"mj-button":            `<mj-button href="u">B</mj-button>`,
			"mj-image":             `<mj-image src="i.png"/>`,
			"mj-divider":           `<mj-divider/>`,
			"mj-spacer":            `<mj-spacer/>`,
			"mj-table":             `<mj-table><tr><td>c</td></tr></mj-table>`,
			"mj-raw":               `<mj-raw><p>r</p></mj-raw>`,
			"mj-head":              `<mj-head><mj-title>t</mj-title></mj-head>`,
			"mj-body":              `<mj-body><mj-section><mj-column><mj-text>T</mj-text></mj-column></mj-section></mj-body>`,
			"mj-attributes":        `<mj-attributes><mj-all color="red"/></mj-attributes>`,
			"mj-style":             `<mj-style>.a{color:red}</mj-style>`,
			"mj-font":              `<mj-font name="F" href="http://x/f.css"/>`,
			"mj-title":             `<mj-title>t</mj-title>`,
			"mj-preview":           `<mj-preview>p</mj-preview>`,
			"mj-breakpoint":        `<mj-breakpoint width="300px"/>`,
		}
		parents := map[string][2]string{
			"mj-body":              {`<mjml><mj-body>`, `</mj-body></mjml>`},
			"mj-section":           {`<mjml><mj-body><mj-section>`, `</mj-section></mj-body></mjml>`},
			"mj-column":            {`<mjml><mj-body><mj-section><mj-column>`, `</mj-column></mj-section></mj-body></mjml>`},
			"mj-group":             {`<mjml><mj-body><mj-section><mj-group>`, `</mj-group></mj-section></mj-body></mjml>`},
			"mj-group-column":      {`<mjml><mj-body><mj-section><mj-group><mj-column>`, `</mj-column></mj-group></mj-section></mj-body></mjml>`},
			"mj-wrapper":           {`<mjml><mj-body><mj-wrapper>`, `</mj-wrapper></mj-body></mjml>`},
			"mj-hero":              {`<mjml><mj-body><mj-hero>`, `</mj-hero></mj-body></mjml>`},
			"mj-accordion":         {`<mjml><mj-body><mj-section><mj-column><mj-accordion>`, `</mj-accordion></mj-column></mj-section></mj-body></mjml>`},
			"mj-accordion-element": {`<mjml><mj-body><mj-section><mj-column><mj-accordion><mj-accordion-element>`, `</mj-accordion-element></mj-accordion></mj-column></mj-section></mj-body></mjml>`},
			"mj-navbar":            {`<mjml><mj-body><mj-section><mj-column><mj-navbar>`, `</mj-navbar></mj-column></mj-section></mj-body></mjml>`},
			"mj-social":            {`<mjml><mj-body><mj-section><mj-column><mj-social>`, `</mj-social></mj-column></mj-section></mj-body></mjml>`},
			"mj-carousel":          {`<mjml><mj-body><mj-section><mj-column><mj-carousel><mj-carousel-image src="z.png"/>`, `</mj-carousel></mj-column></mj-section></mj-body></mjml>`},
			"mj-head":              {`<mjml><mj-head>`, `</mj-head><mj-body><mj-section><mj-column><mj-text>T</mj-text></mj-column></mj-section></mj-body></mjml>`},
			"mj-attributes":        {`<mjml><mj-head><mj-attributes>`, `</mj-attributes></mj-head><mj-body><mj-section><mj-column><mj-text>T</mj-text></mj-column></mj-section></mj-body></mjml>`},
			"mjml":                 {`<mjml>`, `</mjml>`},
		}
		var pnames, cnames []string
		for p := range parents {
			pnames = append(pnames, p)
		}
		for c := range full {
			cnames = append(cnames, c)
		}
		sort.Strings(pnames)
		sort.Strings(cnames)
		for _, p := range pnames {
			for _, c := range cnames {
				src := parents[p][0] + full[c] + parents[p][1]
				run("misplaced", c+"-in-"+p, src, true)
				// twice: a second child of the same kind
				run("misplaced", c+"x2-in-"+p, parents[p][0]+full[c]+full[c]+parents[p][1], true)
			}
		}
	}
	// ---- byte fuzz ---------------------------------------------------------------------------------------------------
	nf := 20000
	if tier == "thorough" {
		nf = 1500000
	}
	parallel(16, nf, func(i int) {
		r := NewRng(seed, fmt.Sprintf("c06/fuzz/%d", i))
		base := docs[r.Intn(len(docs))].src
		src := mutateBytes(r, base)
		run("fuzz", src, src, true)
		if i%7001 == 0 {
			res.Sample(map[string]string{"kind": "byte-fuzz", "source": short(src, 200)})
		}
	})
	// ---- nesting depth, in a child process (a stack overflow is not recoverable) --------------------------------------------
	for _, depth := range []int{500, 1024, 1025, 5000, 200000, 3000000} {
		for _, tag := range []string{"mj-section", "div"} {
			if tier != "thorough" && depth > 200000 && tag == "div" {
				continue
			}
			doc := "<mjml><mj-body>" + strings.Repeat("<"+tag+">", depth) + strings.Repeat("</"+tag+">", depth) + "</mj-body></mjml>"
			obs, crash := runAPIChild(apiJob{Docs: []string{doc}, Ops: []string{"R0"}})
			res.Case(fmt.Sprintf("depth/%s/%d", tag, depth), true)
			res.Count("depth-probe")
			if crash != "" || len(obs) != 1 || obs[0].Panic != "" {
				res.Violate(Violation{Sig: fmt.Sprintf("process-killed|nesting-depth|%s", tag), Kind: "input", What: fmt.Sprintf("%d nested <%s> elements took the process down: %s", depth, tag, short(crash, 200)),
					Input: map[string]interface{}{"tag": tag, "depth": depth}})
				break
			}
		}
	}
}

type lenWriter struct {
	n    int
	ends []int
}

func (w *lenWriter) WriteString(s string) (int, error) {
	w.n += len(s)
	w.ends = append(w.ends, w.n)
	return len(s), nil
}

// prefAt = number of bytes written by the first j writes
func prefAt(ends []int, j int) int {
	if j == 0 {
		return 0
	}
	return ends[j-1]
}

func sigOf(key string) string {
	if len(key) > 60 {
		h := digest(key)
		return h
	}
	return key
}

var _ = components.AllowedCSSAttributes

func init() { register("C06", runC06) }

// childrenOf: the Children of a component (every component embeds BaseComponent, the root keeps Head / Body)
func childrenOf(c mjml.Component) []mjml.Component {
	v := reflect.ValueOf(c)
	if v.Kind() == reflect.Ptr {
		v = v.Elem()
	}
	if v.Kind() != reflect.Struct {
		return nil
	}
	f := v.FieldByName("Children")
	if !f.IsValid() || f.Kind() != reflect.Slice {
		return nil
	}
	var out []mjml.Component
	for i := 0; i < f.Len(); i++ {
		if k, ok := f.Index(i).Interface().(mjml.Component); ok && k != nil {
			out = append(out, k)
		}
	}
	return out
}

// standsAlone: components whose Render can be called directly (sub-elements need their parent to set them up first)
func standsAlone(c mjml.Component) bool {
	switch c.GetTagName() {
	case "mj-section", "mj-wrapper", "mj-hero", "mj-column", "mj-group", "mj-text", "mj-button", "mj-image", "mj-divider", "mj-spacer", "mj-table",
		"mj-accordion", "mj-navbar", "mj-social", "mj-carousel", "mj-raw":
		return true
	}
	return false
}
