import Gomjml.Core.Lines
import Gomjml.Core.TextFlow
/-! # mj-text: the void-tag normaliser behind the content flow (`normalizeVoidHTMLTags`, `trimSpacesAroundBR` in
`mjml/components/text.go`)

`(?i)<(area|base|br|col|embed|hr|img|input|link|meta|param|source|track|wbr)\b([^>]*)/>`: a self-closed void tag is written
with one blank in front of `/>` — except `<br …/>`, which loses the slash — and blanks next to a `<br>` are removed.  Reuses
the case-folding matcher of the parser's own normaliser (`Lines.matchFold`: Go's `(?i)` also folds U+212A into `k` and U+017F
into `s`).  Tied to the implementation by the correspondence run `textvoid` of `hx C04`. -/
namespace Gomjml.TextVoid
open Gomjml.Amp Gomjml.Passes Gomjml.Lines

/-- the alternation of the pattern, in its order -/
def names : List (List B) := [
  [97, 114, 101, 97], [98, 97, 115, 101], [98, 114], [99, 111, 108], [101, 109, 98, 101, 100], [104, 114], [105, 109, 103],
  [105, 110, 112, 117, 116], [108, 105, 110, 107], [109, 101, 116, 97], [112, 97, 114, 97, 109], [115, 111, 117, 114, 99, 101],
  [116, 114, 97, 99, 107], [119, 98, 114]]

def brName : List B := [98, 114]

/-- ASCII word byte (`\b` of RE2 is the ASCII word boundary) -/
def wordB (b : B) : Bool := (b ≥ 48 && b ≤ 57) || (b ≥ 65 && b ≤ 90) || (b ≥ 97 && b ≤ 122) || b == 95

/-- a match of `(names)\b([^>]*)/>` behind a `<`: (which name, the matched bytes without `<` and the final `/>`, what follows) -/
def voidAtB (rest : List B) : Option (List B × List B × List B) :=
  names.findSome? fun n =>
    match matchFold n rest with
    | none => none
    | some (c, rem) =>
      match rem with
      | [] => none
      | x :: _ =>
        -- `\b`: exactly one of the two neighbours is an ASCII word byte (a name that ends in the Kelvin sign has no
        -- boundary behind it)
        if wordB x == (match c.getLast? with | some l => wordB l | none => false) then none else
        match firstGt rem with
        | none => none
        | some g =>
          if g = 0 then none else
          match rem.drop (g - 1) with
          | 47 :: 62 :: after => some (n, c ++ rem.take (g - 1), after)
          | _ => none

/-- `strings.TrimRight(s, " \n\r\t")` -/
def trimRightWs (s : List B) : List B := (s.reverse.dropWhile Gomjml.TextFlow.isWs).reverse

def normF : Nat → List B → List B
  | 0, s => s
  | _, [] => []
  | fuel + 1, b :: rest =>
    if b == 60 then
      match voidAtB rest with
      | some (n, pre, after) => trimRightWs (60 :: pre) ++ (if n == brName then [62] else [32, 47, 62]) ++ normF fuel after
      | none => b :: normF fuel rest
    else b :: normF fuel rest

def containsSub (needle : List B) : List B → Bool
  | [] => needle.isEmpty
  | b :: r => needle.isPrefixOf (b :: r) || containsSub needle r

def brLow : List B := [60, 98, 114]                 -- "<br"
def brTag : List B := [60, 98, 114, 62]             -- "<br>"
def brTagUp : List B := [60, 66, 82, 62]            -- "<BR>"

/-- `trimSpacesAroundBR` -/
def trimBR (s : List B) : List B :=
  replaceAll (brTagUp ++ [32]) brTagUp (replaceAll (32 :: brTagUp) brTagUp (replaceAll (brTag ++ [32]) brTag (replaceAll (32 :: brTag) brTag s)))

/-- `normalizeVoidHTMLTags` -/
def normalize (s : List B) : List B :=
  let n := normF (s.length + 1) s
  if containsSub brLow n then trimBR n else n

/-- nothing that is not a `<` is touched by the tag scan: a text without `<` passes unchanged -/
theorem normF_no_lt : ∀ (fuel : Nat) (s : List B), (∀ b ∈ s, b ≠ 60) → normF fuel s = s
  | 0, _, _ => rfl
  | _ + 1, [], _ => rfl
  | fuel + 1, b :: r, h => by
    have hb : (b == 60) = false := by simpa using h b (by simp)
    simp only [normF, hb, Bool.false_eq_true, if_false]
    rw [normF_no_lt fuel r (fun x hx => h x (by simp [hx]))]

end Gomjml.TextVoid
