import Gomjml.Core.Frame
import Gomjml.Gen.PkgVars
import Gomjml.Gen.Census
/-! # C07 — concurrent compilations are isolated from each other (property theorems only) -/
namespace Gomjml.Props.C07
open Gomjml.Frame

/-- run-time writers of package-level state, cache machinery aside (its safety is C13–C15): everything `factx` finds that is
    neither inside a `sync.Once` nor in an `init` -/
def sharedWriters : List (String × String × String) :=
  Gomjml.Gen.PkgVars.pkgVarWriters.filter (fun r =>
    r.2.2 != "once" && r.2.2 != "init" && r.1 != "mjml.cleanupCancel" && r.1 != "mjml.sfCalls")

/-- Regenerated fact: the only package-level variable with a run-time writer is the old process-wide attribute store, written
    by `globals.SetGlobalAttributes` alone — and nothing in the module calls that function any more (72a1ca4: every compilation
    carries its own store): no location shared between compilations is written while compiling.  Any new writer, or any new
    caller of the setter, breaks this theorem. -/
theorem C07_no_shared_writes :
    sharedWriters = [("mjml/globals.instance", "mjml/globals.SetGlobalAttributes", "plain")] ∧
    Gomjml.Gen.Census.census.filter (fun r => r.2.1 == "globals.SetGlobalAttributes") = [] := by decide

/-- Regenerated fact: **every package-level variable that can hold state** (anything but constants-in-disguise and compiled
    regular expressions): the cache and single-flight machinery (C13–C15), tables filled once (`sync.Once`, `init`) and read
    afterwards, the test-mode id counters, the parser hook, the old attribute store.  A pool, a memo table, a lazily filled
    cache added anywhere in the rendering code is a new row here — whether it is written by assignment or through a method
    (`Put`, `Store`) -/
theorem C07_stateful_package_variables :
    Gomjml.Gen.PkgVars.pkgVars.filter (fun r => r.2 != "basic" && r.2 != "regexp") = [
      ("mjml.ParseMJML", "func"),
      ("mjml.astCache", "sync"),
      ("mjml.astCacheCleanupOnce", "sync"),
      ("mjml.astCacheTTLOnce", "sync"),
      ("mjml.cacheCleanupMutex", "sync"),
      ("mjml.cacheConfigMutex", "sync"),
      ("mjml.cleanupCancel", "func"),
      ("mjml.hashSeed", "struct"),
      ("mjml.sfCalls", "map"),
      ("mjml.sfMutex", "sync"),
      ("mjml.templateHashSeedOnce", "sync"),
      ("mjml/components.allowedAttributeSets", "map"),
      ("mjml/components.allowedAttributes", "map"),
      ("mjml/components.allowedAttributesErr", "interface"),
      ("mjml/components.allowedAttributesOnce", "sync"),
      ("mjml/components.allowedCSSAttributesJSON", "slice"),
      ("mjml/components.baseSocialNetworkDefaults", "map"),
      ("mjml/components.carouselTestIDs", "slice"),
      ("mjml/components.carouselTestIndex", "sync"),
      ("mjml/components.globalAllowedAttributes", "map"),
      ("mjml/components.navbarTestIDs", "slice"),
      ("mjml/components.navbarTestIndex", "sync"),
      ("mjml/components.socialElementInheritableAttributes", "map"),
      ("mjml/components.voidTagsWithoutClosingSlash", "map"),
      ("mjml/fonts.GoogleFontsMapping", "map"),
      ("mjml/globals.instance", "pointer"),
      ("mjml/testmode.enabled", "sync"),
      ("mjml/testmode.mu", "sync"),
      ("parser.charDataEscaper", "pointer"),
      ("parser.htmlVoidElements", "map"),
      ("parser.namedHTMLEntities", "map")] := by decide

/-- **C07 (isolation), proved for every schedule**: if no thread writes a shared location, every thread reads from shared
    memory exactly what it would read running alone (the initial contents) — so its output is its solo output -/
theorem C07_isolated (R : Loc → Prop) (m0 : Loc → Val) (σ : List Nat) (s : Sys)
    (hw : ∀ t, writesOutside R (s.progs t)) (hm : ∀ l, R l → s.mem l = m0 l)
    (ht : ∀ t l v, (l, v) ∈ s.trace t → R l → v = m0 l) :
    ∀ t l v, (l, v) ∈ (run s σ).trace t → R l → v = m0 l :=
  (frame R m0 σ s hw hm ht).2

/-- why the hypothesis matters (the code before 72a1ca4, finding C07-F1, closed): with one location written by every compilation
    there is a 3-step schedule in which compilation 1 reads the attributes of compilation 2.  Kernel-checked. -/
def twoRenders : Sys :=
  { mem := fun _ => 0,
    progs := fun t => if t = 1 then [.write 0 11, .read 0] else if t = 2 then [.write 0 22, .read 0] else [],
    trace := fun _ => [] }
example : (run twoRenders [1, 2, 1]).trace 1 = [(0, 22)] := by decide
/-- alone, compilation 1 reads its own attributes -/
example : (run twoRenders [1, 1]).trace 1 = [(0, 11)] := by decide

end Gomjml.Props.C07
