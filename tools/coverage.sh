#!/bin/bash
# Statement coverage of /repo's packages under the quick tier of all twenty checks (diagnostic; not part of any check).
# Builds the harness with -cover, runs `hx Cnn` for every property into a scratch directory, prints per-package percentages and
# the functions below 80 %.  Scratch files go to a temporary directory that is removed at the end.
set -u
export GOFLAGS=-mod=mod GOPROXY=off
T=$(mktemp -d /tmp/verifcov.XXXX); trap 'rm -rf "$T"' EXIT
P=github.com/preslavrachev/gomjml
(cd /verif/harness && go build -tags verif -cover -coverpkg=./...,$P/mjml,$P/mjml/components,$P/mjml/html,$P/mjml/styles,$P/mjml/fonts,$P/mjml/globals,$P/mjml/options,$P/parser -o "$T/hx" ./cmd/hx) || exit 2
mkdir -p "$T/cov" "$T/out"
export GOCOVERDIR="$T/cov" VERIF_REPO=/repo VERIF_ROOT=/verif VERIF_DRIVER=/verif/lean/.lake/build/bin/driver
for i in 01 02 03 04 05 06 07 08 09 10 11 12 13 14 15 16 17 18 19 20; do (cd /verif/harness && timeout 1200 "$T/hx" C$i -tier "${1:-quick}" -seed 1 -out "$T/out/$i.json" >/dev/null 2>&1); done
(cd /verif/harness && go tool covdata percent -i="$T/cov" | grep gomjml; go tool covdata textfmt -i="$T/cov" -o "$T/cov.txt"; echo "--- functions below 80 %:"; go tool cover -func="$T/cov.txt" | grep gomjml | awk '$3+0 < 80' | sed "s#$P/##")
