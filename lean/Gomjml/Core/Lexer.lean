namespace Gomjml.Lexer
/-! Prototype: HTML token lexer over bytes, fuel-bounded and tail-recursive (stack-safe when compiled). -/

inductive HTok
  | open_ (name : String) (attrs : String)
  | close (name : String)
  | void (name : String) (attrs : String)
  | text (s : String)
  | msoOpen (cond : String)
  | msoClose
  | notMsoOpen (cond : String)
  | notMsoClose
  | comment (s : String)
  | doctype
deriving Repr, DecidableEq

namespace Lex

def isNameByte (b : UInt8) : Bool :=
  (b ≥ 97 && b ≤ 122) || (b ≥ 65 && b ≤ 90) || (b ≥ 48 && b ≤ 57) || b == 58 || b == 45

def lower (b : UInt8) : UInt8 := if b ≥ 65 && b ≤ 90 then b + 32 else b

def startsWith (a : ByteArray) (i : Nat) (p : ByteArray) : Bool :=
  if i + p.size > a.size then false
  else Id.run do
    let mut ok := true
    for j in [0:p.size] do
      if a[i + j]! != p[j]! then ok := false
    return ok

def startsWithCI (a : ByteArray) (i : Nat) (p : ByteArray) : Bool :=
  if i + p.size > a.size then false
  else Id.run do
    let mut ok := true
    for j in [0:p.size] do
      if lower a[i + j]! != p[j]! then ok := false
    return ok

/-- index of first occurrence of `p` at or after `i`, or `a.size` -/
def find (a : ByteArray) (i : Nat) (p : ByteArray) : Nat := Id.run do
  let mut k := i
  while k + p.size ≤ a.size do
    if startsWith a k p then return k
    k := k + 1
  return a.size

def findCI (a : ByteArray) (i : Nat) (p : ByteArray) : Nat := Id.run do
  let mut k := i
  while k + p.size ≤ a.size do
    if startsWithCI a k p then return k
    k := k + 1
  return a.size

def slice (a : ByteArray) (i j : Nat) : String :=
  match String.fromUTF8? (a.extract i j) with | some s => s | none => "\uFFFD"   -- invalid UTF-8 is replaced, never a panic

def isVoidName (n : String) : Bool :=
  n ∈ ["area","base","br","col","embed","hr","img","input","link","meta","param","source","track","wbr"]

def isRawText (n : String) : Bool := n ∈ ["style","script","title"]

def isBlank (a : ByteArray) (i j : Nat) : Bool := Id.run do
  let mut ok := true
  for k in [i:j] do
    let b := a[k]!
    if !(b == 32 || b == 10 || b == 13 || b == 9) then ok := false
  return ok

/-- end of a start tag honouring quotes: index of '>' or a.size -/
def tagEnd (a : ByteArray) (i : Nat) : Nat := Id.run do
  let mut k := i
  let mut q : UInt8 := 0
  while k < a.size do
    let b := a[k]!
    if q != 0 then
      if b == q then q := 0
    else if b == 34 || b == 39 then q := b
    else if b == 62 then return k
    k := k + 1
  return a.size

def lexAux (a : ByteArray) : Nat → Nat → Array HTok → Array HTok
  | 0, _, acc => acc
  | fuel + 1, i, acc =>
    if i ≥ a.size then acc else
    let lt := find a i "<".toUTF8
    let acc := if lt > i && !isBlank a i lt then acc.push (.text (slice a i lt)) else acc
    if lt ≥ a.size then acc else
    if startsWith a lt "<!--[if ".toUTF8 then
      let e := find a lt "]>".toUTF8
      let cond := slice a (lt + 8) e
      if startsWith a (e + 2) "<!-->".toUTF8 then lexAux a fuel (e + 7) (acc.push (.notMsoOpen cond))
      else lexAux a fuel (e + 2) (acc.push (.msoOpen cond))
    else if startsWith a lt "<!--<![endif]-->".toUTF8 then lexAux a fuel (lt + 16) (acc.push .notMsoClose)
    else if startsWith a lt "<![endif]-->".toUTF8 then lexAux a fuel (lt + 12) (acc.push .msoClose)
    else if startsWith a lt "<!--".toUTF8 then
      let e := find a (lt + 4) "-->".toUTF8
      lexAux a fuel (e + 3) (acc.push (.comment (slice a (lt + 4) e)))
    else if startsWithCI a lt "<!doctype".toUTF8 then
      let e := find a lt ">".toUTF8
      lexAux a fuel (e + 1) (acc.push .doctype)
    else if startsWith a lt "</".toUTF8 then
      let e := find a lt ">".toUTF8
      lexAux a fuel (e + 1) (acc.push (.close ((slice a (lt + 2) e).trimAscii.toString.toLower)))
    else if lt + 1 < a.size && isNameByte a[lt + 1]! then
      let e := tagEnd a (lt + 1)
      let ne := Id.run do
        let mut k := lt + 1
        while k < e && isNameByte a[k]! do k := k + 1
        return k
      let name := (slice a (lt + 1) ne).toLower
      let selfc := e > 0 && a[e - 1]! == 47
      let attrs := slice a ne (if selfc then e - 1 else e)
      if isVoidName name || selfc then lexAux a fuel (e + 1) (acc.push (.void name attrs))
      else if isRawText name then
        let c := findCI a (e + 1) ("</" ++ name).toUTF8
        let acc := acc.push (.open_ name attrs)
        let acc := if c > e + 1 && !isBlank a (e + 1) c then acc.push (.text (slice a (e + 1) c)) else acc
        lexAux a fuel c acc
      else lexAux a fuel (e + 1) (acc.push (.open_ name attrs))
    else
      lexAux a fuel (lt + 1) (acc.push (.text "<"))

def lex (a : ByteArray) : Array HTok := lexAux a (a.size + 1) 0 #[]

end Lex
end Gomjml.Lexer
