import Gomjml.Core.InlineTag
/-! Proofs about the inline-style scanner's per-tag step: the parse loses nothing; the write-back changes the style attribute only. -/
namespace Gomjml.InlineTag
open Gomjml.Amp

theorem spanUnq_append : ∀ (s : List B), (spanUnq s).1 ++ (spanUnq s).2 = s
  | [] => rfl
  | b :: r => by
    unfold spanUnq
    split
    · rfl
    · split
      · rfl
      · simp only []
        have ih := spanUnq_append r
        cases h : spanUnq r with
        | mk v rest => simp [h] at ih ⊢; exact ih

/-- what `parseValue` leaves is a suffix of what it was given -/
theorem parseValue_suffix (r1 : List B) : ∃ c, r1 = c ++ (parseValue r1).2.2.2 := by
  unfold parseValue
  have hsp := List.takeWhile_append_dropWhile (p := isSp) (l := r1)
  split
  · rename_i e r3 heq
    split
    · -- '=' present
      have hsp3 := List.takeWhile_append_dropWhile (p := isSp) (l := r3)
      split
      · rename_i q r5 heq2
        split
        · -- quoted
          refine ⟨r1.takeWhile isSp ++ [e] ++ r3.takeWhile isSp ++ [q] ++ r5.takeWhile (· != q) ++ (r5.dropWhile (· != q)).take 1, ?_⟩
          have h5 := List.takeWhile_append_dropWhile (p := (· != q)) (l := r5)
          have hd := List.take_append_drop 1 (r5.dropWhile (· != q))
          calc r1 = r1.takeWhile isSp ++ r1.dropWhile isSp := hsp.symm
            _ = r1.takeWhile isSp ++ (e :: r3) := by rw [heq]
            _ = r1.takeWhile isSp ++ (e :: (r3.takeWhile isSp ++ r3.dropWhile isSp)) := by rw [hsp3]
            _ = r1.takeWhile isSp ++ (e :: (r3.takeWhile isSp ++ (q :: r5))) := by rw [heq2]
            _ = r1.takeWhile isSp ++ (e :: (r3.takeWhile isSp ++ (q :: (r5.takeWhile (· != q) ++ r5.dropWhile (· != q))))) := by rw [h5]
            _ = _ := by
              conv => lhs; rw [← hd]
              simp [List.append_assoc]
        · -- unquoted
          have hu := spanUnq_append (q :: r5)
          cases hsu : spanUnq (q :: r5) with
          | mk v rest =>
            simp only [hsu] at hu ⊢
            refine ⟨r1.takeWhile isSp ++ [e] ++ r3.takeWhile isSp ++ v, ?_⟩
            calc r1 = r1.takeWhile isSp ++ r1.dropWhile isSp := hsp.symm
              _ = r1.takeWhile isSp ++ (e :: r3) := by rw [heq]
              _ = r1.takeWhile isSp ++ (e :: (r3.takeWhile isSp ++ r3.dropWhile isSp)) := by rw [hsp3]
              _ = r1.takeWhile isSp ++ (e :: (r3.takeWhile isSp ++ (q :: r5))) := by rw [heq2]
              _ = r1.takeWhile isSp ++ (e :: (r3.takeWhile isSp ++ (v ++ rest))) := by rw [hu]
              _ = _ := by simp [List.append_assoc]
      · exact ⟨r1, by simp⟩
    · exact ⟨[], by simp⟩
  · exact ⟨[], by simp⟩

theorem take_of_suffix {α} (l c rest : List α) (h : l = c ++ rest) : l.take (l.length - rest.length) = c := by
  subst h; simp

/-- the bytes of the attributes as written, with the white space in front of each -/
def piecesOf (attrs : List Attr) : List B := attrs.flatMap (fun a => a.pre ++ a.raw)

theorem piecesOf_append (a b : List Attr) : piecesOf (a ++ b) = piecesOf a ++ piecesOf b := by
  simp [piecesOf, List.flatMap_append]

def allSp (l : List B) : Prop := ∀ b ∈ l, isSp b = true

theorem allSp_takeWhile : ∀ (l : List B), allSp (l.takeWhile isSp)
  | [] => by intro b hb; simp at hb
  | x :: l => by
    intro b hb
    by_cases hx : isSp x = true
    · simp only [List.takeWhile_cons, hx, if_true, List.mem_cons] at hb
      rcases hb with rfl | hb
      · exact hx
      · exact allSp_takeWhile l b hb
    · simp [List.takeWhile_cons, hx] at hb

/-- what stands between the last attribute and `rest`: nothing, or (self-closing) the white space in front of the slash, the slash
    and the white space behind it -/
def midOk (e : Ending) (mid : List B) : Prop :=
  match e with
  | .slash sfx => ∃ ws2, allSp ws2 ∧ mid = sfx ++ ws2
  | _ => mid = []

/-- **the attribute loop loses nothing**: the attributes as written, what stands at the stopping point and what the loop did not
    look at are the text it was given, byte for byte; every attribute has its written form -/
theorem loop_pieces : ∀ (fuel : Nat) (s : List B) (acc : List Attr),
    (∀ a ∈ acc, a.raw ≠ []) →
    (∀ a ∈ (loop fuel s acc).1, a.raw ≠ []) ∧
    ∃ mid, midOk (loop fuel s acc).2.1 mid ∧ piecesOf (loop fuel s acc).1 ++ mid ++ (loop fuel s acc).2.2 = piecesOf acc.reverse ++ s
  | 0, s, acc, hacc => by
    simp only [loop]
    exact ⟨by simpa using hacc, [], rfl, by simp⟩
  | fuel + 1, s, acc, hacc => by
    have hs := List.takeWhile_append_dropWhile (p := isSp) (l := s)
    unfold loop
    simp only []
    split
    · exact ⟨by simpa using hacc, [], rfl, by simp⟩
    · rename_i b r heq
      split
      · exact ⟨by simpa using hacc, [], rfl, by simp⟩
      · split
        · -- self-closing mark
          rename_i hb2
          refine ⟨by simpa using hacc, s.takeWhile isSp ++ [slash] ++ r.takeWhile isSp, ⟨r.takeWhile isSp, allSp_takeWhile r, rfl⟩, ?_⟩
          have hbs : b = slash := by simpa using hb2
          have hr := List.takeWhile_append_dropWhile (p := isSp) (l := r)
          calc piecesOf acc.reverse ++ (s.takeWhile isSp ++ [slash] ++ r.takeWhile isSp) ++ r.dropWhile isSp
              = piecesOf acc.reverse ++ (s.takeWhile isSp ++ (slash :: (r.takeWhile isSp ++ r.dropWhile isSp))) := by simp [List.append_assoc]
            _ = piecesOf acc.reverse ++ (s.takeWhile isSp ++ (b :: r)) := by rw [hr, hbs]
            _ = piecesOf acc.reverse ++ (s.takeWhile isSp ++ s.dropWhile isSp) := by rw [heq]
            _ = piecesOf acc.reverse ++ s := by rw [hs]
        · split
          · exact ⟨by simpa using hacc, [], rfl, by simp⟩
          · -- an attribute
            rename_i hnm
            have hnm' : (b :: r).takeWhile isNameByte ≠ [] := by simpa using hnm
            have hn := List.takeWhile_append_dropWhile (p := isNameByte) (l := b :: r)
            obtain ⟨c, hc⟩ := parseValue_suffix ((b :: r).dropWhile isNameByte)
            cases hpv : parseValue ((b :: r).dropWhile isNameByte) with
            | mk v x => cases x with | mk q y => cases y with | mk hv rest =>
            simp only [hpv] at hc ⊢
            have hbr : b :: r = ((b :: r).takeWhile isNameByte ++ c) ++ rest := by
              calc b :: r = (b :: r).takeWhile isNameByte ++ (b :: r).dropWhile isNameByte := hn.symm
                _ = (b :: r).takeWhile isNameByte ++ (c ++ rest) := by rw [← hc]
                _ = _ := by simp [List.append_assoc]
            have hraw : (b :: r).take ((b :: r).length - rest.length) = (b :: r).takeWhile isNameByte ++ c :=
              take_of_suffix _ _ _ hbr
            have hrawne : (b :: r).take ((b :: r).length - rest.length) ≠ [] := by
              rw [hraw]; intro h; exact hnm' (List.append_eq_nil_iff.mp h).1
            have ih := loop_pieces fuel rest (⟨s.takeWhile isSp, (b :: r).takeWhile isNameByte, v, q, hv,
                (b :: r).take ((b :: r).length - rest.length)⟩ :: acc)
              (by intro a ha; rcases List.mem_cons.mp ha with rfl | ha
                  · exact hrawne
                  · exact hacc a ha)
            refine ⟨ih.1, ?_⟩
            obtain ⟨mid, hmid, heq2⟩ := ih.2
            refine ⟨mid, hmid, ?_⟩
            rw [heq2]
            simp only [List.reverse_cons, piecesOf_append]
            have : piecesOf [⟨s.takeWhile isSp, (b :: r).takeWhile isNameByte, v, q, hv, (b :: r).take ((b :: r).length - rest.length)⟩]
                = s.takeWhile isSp ++ ((b :: r).takeWhile isNameByte ++ c) := by
              simp only [piecesOf, List.flatMap_cons, List.flatMap_nil, List.append_nil, hraw]
            rw [this]
            calc piecesOf acc.reverse ++ (s.takeWhile isSp ++ ((b :: r).takeWhile isNameByte ++ c)) ++ rest
                = piecesOf acc.reverse ++ (s.takeWhile isSp ++ (((b :: r).takeWhile isNameByte ++ c) ++ rest)) := by simp [List.append_assoc]
              _ = piecesOf acc.reverse ++ (s.takeWhile isSp ++ (b :: r)) := by rw [← hbr]
              _ = piecesOf acc.reverse ++ (s.takeWhile isSp ++ s.dropWhile isSp) := by rw [heq]
              _ = piecesOf acc.reverse ++ s := by rw [hs]


theorem emit_eq_pieces : ∀ (attrs : List Attr), (∀ a ∈ attrs, a.raw ≠ []) → attrs.flatMap emitAttr = piecesOf attrs
  | [], _ => rfl
  | a :: r, h => by
    have ha := h a (by simp)
    have ih := emit_eq_pieces r (fun x hx => h x (by simp [hx]))
    simp only [List.flatMap_cons, piecesOf] at ih ⊢
    rw [ih]
    simp [emitAttr, ha]

/-- **`parseTag` loses nothing**: a parsed start tag is `<`, white space, the name, the attributes as written (each with the white
    space in front of it), what stands at the stopping point, and the bytes the loop did not look at -/
theorem parse_pieces (tag : List B) (p : Parsed) (h : parse tag = some p) :
    (∀ a ∈ p.attrs, a.raw ≠ []) ∧
    ∃ lead mid, allSp lead ∧ midOk p.ending mid ∧ tag = [lt] ++ lead ++ p.name ++ piecesOf p.attrs ++ mid ++ p.rest := by
  unfold parse at h
  split at h
  · rename_i l r
    split at h
    · rename_i hl
      simp only [] at h
      split at h
      · cases h
      · rename_i hnm
        have hlp := loop_pieces ((r.dropWhile isSp).length + 1) ((r.dropWhile isSp).dropWhile isTagNameByte) [] (by simp)
        cases hlo : loop ((r.dropWhile isSp).length + 1) ((r.dropWhile isSp).dropWhile isTagNameByte) [] with
        | mk attrs x => cases x with | mk e rest =>
        simp only [hlo] at h hlp
        cases h
        refine ⟨hlp.1, r.takeWhile isSp, ?_⟩
        obtain ⟨mid, hmid, heq⟩ := hlp.2
        refine ⟨mid, allSp_takeWhile r, hmid, ?_⟩
        have hl' : l = lt := by
          have := hl; simp only [Bool.and_eq_true, beq_iff_eq] at this; exact this.1
        have h1 := List.takeWhile_append_dropWhile (p := isSp) (l := r)
        have h2 := List.takeWhile_append_dropWhile (p := isTagNameByte) (l := r.dropWhile isSp)
        simp only [piecesOf, List.reverse_nil, List.flatMap_nil, List.nil_append] at heq
        calc l :: r = [lt] ++ (r.takeWhile isSp ++ r.dropWhile isSp) := by rw [h1, hl']; rfl
          _ = [lt] ++ (r.takeWhile isSp ++ ((r.dropWhile isSp).takeWhile isTagNameByte ++ (r.dropWhile isSp).dropWhile isTagNameByte)) := by rw [h2]
          _ = [lt] ++ (r.takeWhile isSp ++ ((r.dropWhile isSp).takeWhile isTagNameByte ++ (piecesOf attrs ++ mid ++ rest))) := by
              rw [show piecesOf attrs = attrs.flatMap (fun a => a.pre ++ a.raw) from rfl, heq]
          _ = _ := by simp [List.append_assoc]
    · cases h
  · cases h

theorem flatMap_modify {β} (g : Attr → List β) (f : Attr → Attr) : ∀ (l : List Attr) (i : Nat) (a : Attr), l[i]? = some a →
    (l.modify i f).flatMap g = (l.take i).flatMap g ++ g (f a) ++ (l.drop (i + 1)).flatMap g
  | [], i, a, h => by simp at h
  | x :: l, 0, a, h => by
    simp at h; subst h
    simp [List.modify]
  | x :: l, i + 1, a, h => by
    have ih := flatMap_modify g f l i a (by simpa using h)
    simp only [List.modify_succ_cons, List.flatMap_cons, List.take_succ_cons, List.drop_succ_cons, ih, List.append_assoc]

/-- the style attribute as the write-back spells it once it has been changed -/
def styleText (a : Attr) (v : List B) : List B :=
  a.name ++ [eqs] ++ [if a.quote == 0 then dq else a.quote] ++ v ++ [if a.quote == 0 then dq else a.quote]

/-- **append case**: the tag has a class the rules target and no style attribute.  The output is `<`, the name and every
    attribute exactly as written, then ` style="…"` with the declarations, then the closing — nothing else is touched -/
theorem inlineTag_append (inl : List B → List B) (tag : List B) (p : Parsed) (hp : parse tag = some p) (hne : p.attrs ≠ [])
    (ci : Nat) (hci : lastIdx classN p.attrs = some ci) (hd : inl (p.attrs[ci]?.map (·.value) |>.getD []) ≠ [])
    (hs : lastIdx styleN p.attrs = none) :
    inlineTag inl tag = [lt] ++ p.name ++ piecesOf p.attrs ++
      ([32] ++ styleN ++ [eqs] ++ [dq] ++ inl (p.attrs[ci]?.map (·.value) |>.getD []) ++ [dq]) ++ closing tag p ++ [gt] := by
  have hraw := (parse_pieces tag p hp).1
  unfold inlineTag
  simp only [hp, hci, hs]
  have h1 : (p.attrs == []) = false := by simpa using hne
  have h2 : (inl (p.attrs[ci]?.map (·.value) |>.getD []) == []) = false := by simpa using hd
  simp only [h1, h2, Bool.false_eq_true, if_false]
  unfold rebuild
  rw [List.flatMap_append, emit_eq_pieces p.attrs hraw]
  simp [emitAttr, List.append_assoc]

/-- **merge case**: the tag has a class the rules target and a style attribute (the last one counts).  The output is `<`, the
    name, every attribute in front of that style attribute exactly as written, the style attribute with the merged value (the
    white space in front of it, its name and its quote kept), every attribute behind it exactly as written, then the closing -/
theorem inlineTag_merge (inl : List B → List B) (tag : List B) (p : Parsed) (hp : parse tag = some p) (hne : p.attrs ≠ [])
    (ci : Nat) (hci : lastIdx classN p.attrs = some ci) (hd : inl (p.attrs[ci]?.map (·.value) |>.getD []) ≠ [])
    (si : Nat) (hs : lastIdx styleN p.attrs = some si) (a : Attr) (ha : p.attrs[si]? = some a) :
    inlineTag inl tag = [lt] ++ p.name ++ piecesOf (p.attrs.take si) ++
      (a.pre ++ styleText a (mergeStyle a.value (inl (p.attrs[ci]?.map (·.value) |>.getD [])))) ++
      piecesOf (p.attrs.drop (si + 1)) ++ closing tag p ++ [gt] := by
  have hraw := (parse_pieces tag p hp).1
  unfold inlineTag
  simp only [hp, hci, hs]
  have h1 : (p.attrs == []) = false := by simpa using hne
  have h2 : (inl (p.attrs[ci]?.map (·.value) |>.getD []) == []) = false := by simpa using hd
  simp only [h1, h2, Bool.false_eq_true, if_false]
  unfold rebuild
  rw [flatMap_modify emitAttr _ p.attrs si a ha,
    emit_eq_pieces (p.attrs.take si) (fun x hx => hraw x (List.mem_of_mem_take hx)),
    emit_eq_pieces (p.attrs.drop (si + 1)) (fun x hx => hraw x (List.mem_of_mem_drop hx))]
  simp [emitAttr, styleText, List.append_assoc]

end Gomjml.InlineTag
