import Gomjml.Core.HeadClasses
import Gomjml.Core.MapIter
/-! # C11 — the head provides everything the body references (property theorems only) -/
namespace Gomjml.Props.C11
open Gomjml.HeadClasses

/-- every class the body uses is registered by the head pre-pass and every registered class is used: the two traversals
    yield the same list of classes for every document (sections, wrappers, groups with pixel / percentage / default widths) -/
theorem C11_classes (bs : List Blk) : bs.flatMap blkHead = bs.flatMap blkBody := head_eq_body bs

/-- the width of a rule is the one encoded in the class name -/
theorem C11_width_encoded (digits : List Char) (h : ∀ ch ∈ digits, ch ≠ '-') : decode (encode digits) = digits :=
  decode_encode digits h

/-- non-vacuity -/
example : decode (encode "33.333333333333336".toList) = "33.333333333333336".toList := by decide
example : [Blk.sec [.group (.pct "40".toList) [.per "50".toList, .per "50".toList], .col (.px 150)]].flatMap blkHead
    = [.per "40".toList, .per "50".toList, .per "50".toList, .px 150] := by decide

/-- imported ⊇ referenced, deterministically: the font a stack resolves to does not depend on the map iteration order
    (shared with C05) -/
theorem C11_font_lookup (l l' : List Gomjml.MapIter.FEntry) (h : l.Perm l') (nodup : (l.map Gomjml.MapIter.FEntry.name).Nodup) :
    Gomjml.MapIter.pick l = Gomjml.MapIter.pick l' := Gomjml.MapIter.pick_perm l l' h nodup

end Gomjml.Props.C11
