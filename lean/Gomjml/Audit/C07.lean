import Gomjml.Props.C07
#print axioms Gomjml.Props.C07.C07_no_shared_writes
#print axioms Gomjml.Props.C07.C07_isolated
#print axioms Gomjml.Props.C07.C07_stateful_package_variables
