import Gomjml.Core.LayoutSpec
import Gomjml.Core.LayoutStd
import Gomjml.Core.LayoutLeaves
/-! # C02 — output is well-formed HTML for standard (non-Outlook) clients (property theorems only)

`Layout.render` is the control-flow-faithful skeleton model of body / section / wrapper / column / group / hero / raw
(tied to the implementation by skeleton correspondence on every generated document).  `Spec.StdWF` is the Spec. -/
namespace Gomjml.Props.C02
open Gomjml.Layout Gomjml.Spec

/-- **C02, the full statement: for EVERY document of the layout grammar** — any sequence of sections, wrappers of any
    configuration (full-width and background-image sections inside them, delegated backgrounds, blank raws), heroes and raw
    content: what standard clients see is strictly nested, conditional comments are delimited and never nested, no VML outside an
    Outlook conditional.  No side condition. -/
theorem C02_full (bs : List Block) : StdWF ((render bs).map Tok.toG) := (std_spec_all bs).1

/-- the same through the combined machine (both views at once): every document is accepted by it -/
theorem C02_combined (bs : List Block) : StdWF ((render bs).map Tok.toG) := (wf_spec _ (C02_C03_all bs)).1

/-- the formerly failing shapes, now well formed -/
example : StdWF ((render [.section ⟨false, false, false, false, false, false, [.col ⟨false, [.text]⟩]⟩,
                          .section ⟨true, false, false, false, false, false, [.col ⟨false, [.text]⟩]⟩]).map Tok.toG) := by
  unfold StdWF; decide
example : StdWF ((render [.section ⟨false, false, false, false, false, false, []⟩,
                          .section ⟨true, true, false, false, false, false, []⟩]).map Tok.toG) := by
  unfold StdWF; decide

/-- a background-image section inside a wrapper (formerly `vml-in-std`: its VML was written outside any conditional) -/
example : StdWF ((render [.wrapper ⟨false, false, [.sec ⟨false, true, false, false, false, false, []⟩]⟩]).map Tok.toG) := by
  unfold StdWF; decide

/-! ### with the content components filled in -/
open Gomjml.LayoutLeaves Gomjml.Leaves in
/-- **C02 for documents with real content components**: any layout tree with, in every content slot, any of mj-text, mj-button,
    mj-image, mj-divider, mj-spacer, mj-table, mj-social (horizontal / vertical, any number of elements with or without link and
    text, raw content between them), mj-navbar (with or without hamburger, any number of links and raw content in any order),
    mj-accordion (any number of elements and raw content, each element with any sequence of titles, texts and raw content, icon
    left or right), mj-carousel (any number ≥ 1 of images, with or without links and thumbnails):
    what standard clients see is strictly nested, conditional blocks (Outlook-only AND not-Outlook ones) are delimited and never
    nested, no Outlook-only markup outside a conditional.  No side condition. -/
theorem C02_components (d : Doc) : StdWF d.render := (doc_spec d).1

open Gomjml.Leaves in
/-- the component half on its own: every content component, whatever its parameters and children, leaves the three checkers
    exactly where it found them -/
theorem C02_component_inert (l : LeafM) : Gomjml.Expand.Inert l.toks := leaf_inert l

open Gomjml.LayoutLeaves Gomjml.Leaves in
/-- non-vacuity: a section with a column holding a social bar (two elements with raw content between them), a hamburger navbar that
    starts with raw content, and a carousel of two images, next to a hero with an accordion (two titles in one element, raw content) — complete (a component for every slot) and rendered -/
def dEx : Doc :=
  ⟨[.section ⟨false, false, false, false, false, false, [.col ⟨false, [.slot, .text, .slot, .slot]⟩]⟩, .hero [.slot]],
   [.social false [.el ⟨true, true⟩, .raw false, .el ⟨false, true⟩], .keep, .navbar true [.raw false, .link true, .link false], .carousel true false [true],
    .accordion [.el ⟨false, [.title true, .text true, .title true]⟩, .raw false, .el ⟨true, [.text false, .raw false]⟩]]⟩
example : dEx.Complete := by unfold Gomjml.LayoutLeaves.Doc.Complete; decide
example : dEx.render.length = 354 ∧ Gomjml.Leaves.cntT dEx.render = 11 := by decide +kernel

end Gomjml.Props.C02
