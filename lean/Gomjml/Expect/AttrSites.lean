/-! Hand-frozen expectation (not regenerated): the attribute reads that do NOT go through the full resolution order.
    Frozen from the tree after the resolution repairs (2a8a64b, 30e4a3f, 992fcab: 79 entries before them; what is left is the root element's `lang`, which mj-attributes cannot address); each row is a (function, accessor kind, attribute) the site table may contain with a
    kind other than `full`.  A new non-full read breaks `Props.C09.C09_sites`. -/
namespace Gomjml.Expect.AttrSites

def knownNonFull : List (String × String × String) := [
  ("mjml.createMJMLComponent", "raw", "lang")
]

end Gomjml.Expect.AttrSites
