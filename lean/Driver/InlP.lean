import Gomjml.Core.InlineTag
import Gomjml.Core.InlineScan
import Gomjml.Core.CharData
import Gomjml.Core.InlineCss
import Driver.PassP
/-! driver sub-protocols `inltag` (the inline-style scanner's per-tag step) and `mergestyle` -/
open Gomjml.InlineTag

namespace Driver.InlP

def isFieldSep (b : UInt8) : Bool := b == 32 || b == 9 || b == 10 || b == 11 || b == 12 || b == 13

/-- `strings.Fields` on ASCII white space -/
def fieldsAux : List UInt8 → List UInt8 → List (List UInt8)
  | [], cur => if cur == [] then [] else [cur.reverse]
  | b :: r, cur => if isFieldSep b then (if cur == [] then fieldsAux r [] else cur.reverse :: fieldsAux r []) else fieldsAux r (b :: cur)

def fields (s : List UInt8) : List (List UInt8) := fieldsAux s []

/-- `BuildInlineStyleString`: the declarations of every known class of the list, in list order -/
def inlOf (table : List (List UInt8 × List UInt8)) (cls : List UInt8) : List UInt8 :=
  (fields cls).flatMap (fun c => (table.filter (fun kv => kv.1 == c)).flatMap (·.2))

def unhexL (h : String) : List UInt8 := (Driver.HtmlP.unhex h).toList

/-- `inltag <tag> <class>:<decls> …` → `<result> <clean|unclean|noparse>` -/
def handle (args : List String) : String :=
  match args with
  | tagH :: kvs =>
    let table := kvs.filterMap (fun kv => match kv.splitOn ":" with
      | [k, d] => some (unhexL k, unhexL d)
      | _ => none)
    let tag := unhexL tagH
    let out := inlineTag (inlOf table) tag
    let st := match parse tag with
      | none => "noparse"
      | some p => if p.clean then "clean" else "unclean"
    Driver.PassP.hexOfBytes out ++ " " ++ st
  | _ => "bad-request"

/-- `inlscan <fragment> <class>:<decls> …` → `<result> <number of start tags>` -/
def scanHandle (args : List String) : String :=
  match args with
  | fragH :: kvs =>
    let table := kvs.filterMap (fun kv => match kv.splitOn ":" with
      | [k, d] => some (unhexL k, unhexL d)
      | _ => none)
    let frag := unhexL fragH
    let out := Gomjml.InlineScan.scan (inlOf table) frag
    let n := ((Gomjml.InlineScan.segments (frag.length + 1) frag).filter (fun s => match s with | .start _ => true | _ => false)).length
    Driver.PassP.hexOfBytes out ++ " " ++ toString n
  | _ => "bad-request"

/-- `cdata <text>` → `<escape text> <unescape (escape text)>` -/
def cdataHandle (args : List String) : String :=
  match args with
  | [h] =>
    let s := unhexL (h.drop 1).toString
    let e := Gomjml.CharData.escape s
    "x" ++ Driver.PassP.hexOfBytes e ++ " x" ++ Driver.PassP.hexOfBytes (Gomjml.CharData.unescape e.length e)
  | _ => "bad-request"

def mergeHandle (args : List String) : String :=
  match args with
  | [a, b] => Driver.PassP.hexOfBytes (mergeStyle (unhexL (a.drop 1).toString) (unhexL (b.drop 1).toString))
  | _ => "bad-request"

/-- `inlcss <style text> …` (hex, one argument per inline block; `-` = the empty text) → the table:
    `<class>:<prop>=<val>,<prop>=<val>;…` in order of first appearance (all hex) -/
def cssHandle (args : List String) : String :=
  let texts := args.map (fun a => if a == "-" then [] else unhexL a)
  let t := Gomjml.InlineCss.collect texts
  ";".intercalate (t.map fun kv =>
    Driver.PassP.hexOfBytes kv.1 ++ ":" ++ ",".intercalate (kv.2.map fun d => Driver.PassP.hexOfBytes d.prop ++ "=" ++ Driver.PassP.hexOfBytes d.val))

end Driver.InlP
