/-! Go's `range` over a map visits the entries in an unspecified order.  Model: the loop body is folded over an
    *arbitrary permutation* of the entry list (distinct keys).  For each syntactic loop pattern that `factx` recognises
    there is a lemma here saying the loop's result does not depend on the permutation (C05). -/
namespace Gomjml.MapIter

/-- the generic statement: a fold whose step commutes on the entries is permutation-invariant -/
theorem fold_perm {α β} (f : β → α → β) (l l' : List α) (h : l.Perm l')
    (comm : ∀ x ∈ l, ∀ y ∈ l, ∀ z, f (f z x) y = f (f z y) x) (init : β) :
    l.foldl f init = l'.foldl f init := List.Perm.foldl_eq' h comm init

/-! ### pattern `keyed-insert`: `for k, v := range m { m2[k] = g(k, v) }` -/

def upd {V} (m : Nat → Option V) (k : Nat) (v : V) : Nat → Option V := fun x => if x = k then some v else m x

theorem keyed_insert_perm {V W} (g : Nat → V → W) (l l' : List (Nat × V)) (h : l.Perm l')
    (nodup : (l.map Prod.fst).Nodup) (m0 : Nat → Option W) :
    l.foldl (fun m e => upd m e.1 (g e.1 e.2)) m0 = l'.foldl (fun m e => upd m e.1 (g e.1 e.2)) m0 := by
  apply fold_perm _ l l' h
  intro x hx y hy z
  by_cases hxy : x = y
  · subst hxy; rfl
  · have hk : x.1 ≠ y.1 := by
      intro hk
      apply hxy
      -- two entries of a map with the same key are the same entry
      have : ∀ (l : List (Nat × V)), (l.map Prod.fst).Nodup → ∀ a ∈ l, ∀ b ∈ l, a.1 = b.1 → a = b := by
        intro l
        induction l with
        | nil => intro _ a ha; simp at ha
        | cons c r ih =>
          intro hnd a ha b hb hab
          simp only [List.map_cons, List.nodup_cons, List.mem_map, not_exists, not_and] at hnd
          simp only [List.mem_cons] at ha hb
          rcases ha with rfl | ha <;> rcases hb with rfl | hb
          · rfl
          · exact absurd hab.symm (hnd.1 b hb)
          · exact absurd hab (hnd.1 a ha)
          · exact ih hnd.2 a ha b hb hab
      exact this l nodup x hx y hy hk
    have hk' : ¬ y.1 = x.1 := fun e => hk e.symm
    funext k
    simp only [upd]
    by_cases h1 : k = y.1
    · subst h1; simp [hk']
    · by_cases h2 : k = x.1
      · subst h2; simp [hk]
      · simp [h1, h2]

/-! ### pattern `collect-sorted`: `for k := range m { ks = append(ks, k) }; sort(ks)` -/

theorem collect_sorted_perm (l l' : List Nat) (h : l.Perm l') :
    l.mergeSort (fun a b => decide (a ≤ b)) = l'.mergeSort (fun a b => decide (a ≤ b)) := by
  have tr : ∀ a b c : Nat, decide (a ≤ b) = true → decide (b ≤ c) = true → decide (a ≤ c) = true := by
    intro a b c; simp; omega
  have tot : ∀ a b : Nat, (decide (a ≤ b) || decide (b ≤ a)) = true := by
    intro a b; simp; omega
  apply List.Perm.eq_of_pairwise (le := fun a b => decide (a ≤ b) = true)
  · intro a b _ _ h1 h2; simp at h1 h2; omega
  · exact List.pairwise_mergeSort tr tot l
  · exact List.pairwise_mergeSort tr tot l'
  · exact ((List.mergeSort_perm l _).trans h).trans (List.mergeSort_perm l' _).symm

/-! ### pattern `select-min`: `GetGoogleFontURL` after the fix — keep the best entry under a strict total order.
    An entry is (name, position of the name in the font stack or none, length of the name, url). -/

structure FEntry where
  name : Nat
  idx : Option Nat
  len : Nat
  url : Nat
deriving DecidableEq, Repr

def better (a b : FEntry) (ia ib : Nat) : Bool :=
  ia < ib || (ia == ib && (a.len > b.len || (a.len == b.len && a.name < b.name)))

/-- one iteration of the loop: `best` = (entry, its index) so far -/
def pickStep (best : Option (FEntry × Nat)) (e : FEntry) : Option (FEntry × Nat) :=
  match e.idx with
  | none => best
  | some i =>
    match best with
    | none => some (e, i)
    | some (b, ib) => if better e b i ib then some (e, i) else some (b, ib)

def pick (entries : List FEntry) : Option Nat := (entries.foldl pickStep none).map (fun p => p.1.url)

/-- keeping the minimum under a strict order commutes (totality is needed only between the two new elements) -/
def minStep {α} (lt : α → α → Bool) (z : Option α) (e : α) : Option α :=
  match z with
  | none => some e
  | some b => if lt e b then some e else some b

theorem minStep_comm {α} (lt : α → α → Bool) (asymm : ∀ a b, lt a b = true → lt b a = false)
    (trans : ∀ a b c, lt a b = true → lt b c = true → lt a c = true)
    (x y : α) (total : x = y ∨ lt x y = true ∨ lt y x = true) (z : Option α) :
    minStep lt (minStep lt z x) y = minStep lt (minStep lt z y) x := by
  have hxy : (if lt y x then some y else some x) = (if lt x y then some x else some y) := by
    rcases total with rfl | h | h
    · simp
    · simp [h, asymm _ _ h]
    · simp [h, asymm _ _ h]
  cases z with
  | none => simpa [minStep] using hxy
  | some b =>
    simp only [minStep]
    cases hxb : lt x b <;> cases hyb : lt y b <;> simp only [if_true, if_false, hxb, hyb, Bool.false_eq_true]
    · -- x ≥ b, y < b: then x cannot be below y
      have : lt x y = false := by
        cases h : lt x y
        · rfl
        · have := trans _ _ _ h hyb; simp [hxb] at this
      simp [this]
    · have : lt y x = false := by
        cases h : lt y x
        · rfl
        · have := trans _ _ _ h hxb; simp [hyb] at this
      simp [this]
    · exact hxy

def lt2 (p q : FEntry × Nat) : Bool := better p.1 q.1 p.2 q.2

theorem lt2_asymm (a b : FEntry × Nat) (h : lt2 a b = true) : lt2 b a = false := by
  simp only [lt2, better, Bool.or_eq_true, Bool.and_eq_true, decide_eq_true_eq, beq_iff_eq] at h
  cases hb : lt2 b a
  · rfl
  · simp only [lt2, better, Bool.or_eq_true, Bool.and_eq_true, decide_eq_true_eq, beq_iff_eq] at hb
    omega

theorem lt2_trans (a b c : FEntry × Nat) (h1 : lt2 a b = true) (h2 : lt2 b c = true) : lt2 a c = true := by
  simp only [lt2, better, Bool.or_eq_true, Bool.and_eq_true, decide_eq_true_eq, beq_iff_eq] at h1 h2 ⊢
  omega

theorem lt2_total (a b : FEntry × Nat) (hn : a.1.name ≠ b.1.name) : lt2 a b = true ∨ lt2 b a = true := by
  simp only [lt2, better, Bool.or_eq_true, Bool.and_eq_true, decide_eq_true_eq, beq_iff_eq]
  omega

theorem pickStep_eq (z : Option (FEntry × Nat)) (e : FEntry) :
    pickStep z e = match e.idx with | none => z | some i => minStep lt2 z (e, i) := by
  unfold pickStep minStep lt2
  cases e.idx with
  | none => rfl
  | some i => cases z with
    | none => rfl
    | some p => rfl

theorem pickStep_comm (x y : FEntry) (hname : x.name = y.name → x = y) (z : Option (FEntry × Nat)) :
    pickStep (pickStep z x) y = pickStep (pickStep z y) x := by
  simp only [pickStep_eq]
  cases hx : x.idx with
  | none => cases hy : y.idx <;> simp
  | some i =>
    cases hy : y.idx with
    | none => simp
    | some j =>
      simp only
      apply minStep_comm lt2 lt2_asymm lt2_trans
      by_cases hxy : x = y
      · subst hxy; rw [hx] at hy; cases hy; exact Or.inl rfl
      · exact Or.inr (lt2_total _ _ (fun h => hxy (hname h)))

/-- **`GetGoogleFontURL` is independent of the map iteration order** (names of a map's entries are distinct) -/
theorem pick_perm (l l' : List FEntry) (h : l.Perm l') (nodup : (l.map FEntry.name).Nodup) : pick l = pick l' := by
  unfold pick
  congr 1
  apply fold_perm _ l l' h
  intro x hx y hy z
  apply pickStep_comm
  intro hn
  have : ∀ (l : List FEntry), (l.map FEntry.name).Nodup → ∀ a ∈ l, ∀ b ∈ l, a.name = b.name → a = b := by
    intro l
    induction l with
    | nil => intro _ a ha; simp at ha
    | cons c r ih =>
      intro hnd a ha b hb hab
      simp only [List.map_cons, List.nodup_cons, List.mem_map, not_exists, not_and] at hnd
      simp only [List.mem_cons] at ha hb
      rcases ha with rfl | ha <;> rcases hb with rfl | hb
      · rfl
      · exact absurd hab.symm (hnd.1 b hb)
      · exact absurd hab (hnd.1 a ha)
      · exact ih hnd.2 a ha b hb hab
  exact this l nodup x hx y hy hn

/-- the pre-fix loop (`return` at the first match) is NOT order independent: two permutations, two results -/
def firstMatch (entries : List FEntry) : Option Nat := (entries.find? (fun e => e.idx.isSome)).map (·.url)
example : firstMatch [⟨1, some 0, 6, 100⟩, ⟨2, some 8, 9, 200⟩] ≠ firstMatch [⟨2, some 8, 9, 200⟩, ⟨1, some 0, 6, 100⟩] := by decide
/-- … while the fixed loop picks the font listed first either way -/
example : pick [⟨1, some 0, 6, 100⟩, ⟨2, some 8, 9, 200⟩] = some 100 ∧ pick [⟨2, some 8, 9, 200⟩, ⟨1, some 0, 6, 100⟩] = some 100 := by decide

end Gomjml.MapIter

namespace Gomjml.MapIter

/-! ### pattern `const-key-append`: `for k, v := range m { if k == "css-class" { parts = append(parts, v) } }` —
    with distinct keys at most one entry is appended, so the slice does not depend on the order -/

theorem filter_key_le_one {V} (c : Nat) : ∀ (l : List (Nat × V)), (l.map Prod.fst).Nodup →
    (l.filter (fun e => e.1 == c)).length ≤ 1 := by
  intro l
  induction l with
  | nil => intro _; simp
  | cons a r ih =>
    intro hnd
    simp only [List.map_cons, List.nodup_cons, List.mem_map, not_exists, not_and] at hnd
    simp only [List.filter_cons]
    split
    · rename_i hac
      have hr : r.filter (fun e => e.1 == c) = [] := by
        rw [List.filter_eq_nil_iff]
        intro b hb hbc
        simp at hac hbc
        exact hnd.1 b hb (hbc.trans hac.symm)
      simp [hr]
    · exact ih hnd.2

theorem const_key_append_perm {V} (c : Nat) (l l' : List (Nat × V)) (h : l.Perm l') (nodup : (l.map Prod.fst).Nodup) :
    l.filter (fun e => e.1 == c) = l'.filter (fun e => e.1 == c) := by
  have hp : (l.filter (fun e => e.1 == c)).Perm (l'.filter (fun e => e.1 == c)) := h.filter _
  have h1 := filter_key_le_one c l nodup
  have h2 : (l'.filter (fun e => e.1 == c)).length ≤ 1 := by rw [← hp.length_eq]; exact h1
  generalize l.filter (fun e => e.1 == c) = a at hp h1 h2
  generalize l'.filter (fun e => e.1 == c) = b at hp h1 h2
  match a, b, hp, h1, h2 with
  | [], [], _, _, _ => rfl
  | [x], [y], hp, _, _ => simpa using hp
  | [], _ :: _, hp, _, _ => simp at hp
  | _ :: _, [], hp, _, _ => simp at hp
  | _ :: _ :: _, _, _, h1, _ => simp at h1
  | [_], _ :: _ :: _, _, _, h2 => simp at h2

end Gomjml.MapIter

namespace Gomjml.MapIter

/-- `MJMLNode.GetAttribute` (first match wins) does not depend on the order of the attributes of a tag, because an XML
    start tag cannot carry the same attribute name twice -/
theorem lookup_perm {V} (l l' : List (String × V)) (h : l.Perm l') (nd : (l.map Prod.fst).Nodup) (n : String) :
    l.lookup n = l'.lookup n := by
  induction h with
  | nil => rfl
  | cons x _ ih =>
    obtain ⟨k, b⟩ := x
    simp only [List.map_cons, List.nodup_cons] at nd
    simp only [List.lookup]
    cases n == k
    · exact ih nd.2
    · rfl
  | swap x y l =>
    obtain ⟨kx, bx⟩ := x
    obtain ⟨ky, b_y⟩ := y
    simp only [List.map_cons, List.nodup_cons, List.mem_cons, not_or] at nd
    have hxy : ¬ ky = kx := nd.1.1
    simp only [List.lookup]
    cases h1 : n == ky <;> cases h2 : n == kx <;> simp
    have e1 : n = ky := by simpa using h1
    have e2 : n = kx := by simpa using h2
    exact absurd (e1.symm.trans e2) hxy
  | trans h1 _ ih1 ih2 =>
    rw [ih1 nd]
    apply ih2
    exact (h1.map Prod.fst).nodup_iff.mp nd

end Gomjml.MapIter
