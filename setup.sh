#!/bin/sh
exit 0
