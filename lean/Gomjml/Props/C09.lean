import Gomjml.Core.Resolve
import Gomjml.Core.Store
import Gomjml.Core.ClassMerge
import Gomjml.Gen.AttrSites
import Gomjml.Expect.AttrSites
/-! # C09 — attribute values resolve by MJML precedence, independent of source (property theorems only) -/
namespace Gomjml.Props.C09
open Gomjml.Resolve

/-- the full resolvers (`GetAttributeWithDefault`, `GetAttributeFast`) return the highest-priority non-empty value among
    own ≻ mj-class (later class first) ≻ tag default ≻ mj-all ≻ built-in default -/
theorem C09_full_is_winner (s : Sources) : accFull s = winner s := accFull_eq_winner s

/-- hence what they return depends on the winning value only, not on the source that supplies it -/
theorem C09_source_independent (s s' : Sources) (h : winner s = winner s') : accFull s = accFull s' :=
  full_depends_on_winner_only s s' h

/-- the reduced accessors coincide with the Spec only when the sources they skip are silent -/
theorem C09_noglobal_partial (s : Sources) (h : globalValue s = "" ∧ s.builtin = "") : accNoGlobal s = winner s :=
  accNoGlobal_eq_winner s h
theorem C09_raw_partial (s : Sources) (h : classValue s.classes = "" ∧ globalValue s = "" ∧ s.builtin = "") :
    accRaw s = winner s := accRaw_eq_winner s h

/-- non-vacuity: later class wins over an earlier one, own wins over everything, mj-all is the last resort before the built-in -/
example : winner ⟨"", [some "a", some "b", none], some "t", some "g", "d"⟩ = "b" ∧
          winner ⟨"o", [some "a"], some "t", some "g", "d"⟩ = "o" ∧
          winner ⟨"", [], none, some "g", "d"⟩ = "g" ∧ winner ⟨"", [none], none, none, "d"⟩ = "d" := by decide

/-- a written-attribute read plus the caller's own fall-back to the built-in default is the full resolution -/
theorem C09_written_reads (s : Sources) : (if accWritten s ≠ "" then accWritten s else s.builtin) = winner s :=
  accWritten_then_default s

/-- **every attribute read in the code base, partial**: each site uses a resolver that consults everything an author can write
    (`full`: with the built-in default; `written`: the caller supplies the default) or is the one recorded raw read: `lang` of the
    root element <mjml>, which is not a body component and which mj-attributes cannot address.  The kind of each accessor is read off its
    own body by the extractor; the table of reads is complete and regenerated; a new reduced read breaks this theorem. -/
theorem C09_sites :
    ∀ s ∈ Gomjml.Gen.AttrSites.attrSites, s.2.2.1 = "full" ∨ s.2.2.1 = "written" ∨
      (s.1, s.2.2.1, s.2.2.2) ∈ Gomjml.Expect.AttrSites.knownNonFull := by
  decide +kernel

/-- **the document's attribute store is "the last definition wins, attribute by attribute"**: whatever the head defines — in
    however many mj-attributes blocks, in whatever order, the same tag / class / mj-all any number of times — a lookup returns
    the last definition of that attribute in document order (for the tag if it has one, else for mj-all; for a class: the
    definitions of all mj-class entries of that name, the `name` attribute itself aside) -/
theorem C09_store_is_last_definition (blocks : List (List Gomjml.Store.Entry)) (t c a : String) :
    Gomjml.Store.globalAttr (Gomjml.Store.build blocks) t a =
      ((Gomjml.Store.lastDef (Gomjml.Store.tagDefs t blocks.flatten) a).orElse
        (fun _ => Gomjml.Store.lastDef (Gomjml.Store.allDefs blocks.flatten) a)).getD "" ∧
    Gomjml.Store.classAttr (Gomjml.Store.build blocks) c a =
      (Gomjml.Store.lastDef (Gomjml.Store.classDefs c blocks.flatten) a).getD "" :=
  Gomjml.Store.build_spec blocks t c a

/-- non-vacuity: two blocks, the tag default of the second overrides the colour of the first and keeps its font size -/
example : Gomjml.Store.globalAttr (Gomjml.Store.build [[.tag "mj-text" [("color", "red"), ("font-size", "9px")], .all [("color", "green")]],
      [.tag "mj-text" [("color", "blue")]]]) "mj-text" "color" = "blue" ∧
    Gomjml.Store.globalAttr (Gomjml.Store.build [[.tag "mj-text" [("color", "red"), ("font-size", "9px")], .all [("color", "green")]],
      [.tag "mj-text" [("color", "blue")]]]) "mj-text" "font-size" = "9px" ∧
    Gomjml.Store.globalAttr (Gomjml.Store.build [[.tag "mj-text" [("color", "red"), ("font-size", "9px")], .all [("color", "green")]],
      [.tag "mj-text" [("color", "blue")]]]) "mj-image" "color" = "green" := by decide

/-- css-class resolves by the same precedence (its mj-class values joined instead of overridden), and reaches an element from
    mj-attributes — the tag default, else mj-all — when nothing nearer supplies it -/
theorem C09_css_class (s : Gomjml.Resolve.Sources) :
    Gomjml.Resolve.accCssClass s = Gomjml.Resolve.cssWinner s ∧
    (s.own = "" → s.classes = [] → Gomjml.Resolve.accCssClass s = Gomjml.Resolve.globalValue s) :=
  ⟨Gomjml.Resolve.accCssClass_eq_winner s, Gomjml.Resolve.accCssClass_global s⟩

/-- **no read past the resolvers**: the only functions that look into a component's own attribute map are the four resolvers;
    everything else that touches the map is one of the three recorded width hand-downs.  A helper that reads `Attrs["x"]`
    directly sees the element's own attribute only — the defect behind 6bdfa39, where `GetCSSClass` did exactly that and
    css-class from mj-attributes was accepted and dropped — and breaks this theorem. -/
theorem C09_no_read_past_resolvers :
    ∀ s ∈ Gomjml.Gen.AttrSites.ownMapSites,
      (s.2.1 = "read" ∧ s.1 ∈ Gomjml.Expect.AttrSites.resolverBodies) ∨
      (s.2.1 = "write" ∧ (s.1, s.2.2) ∈ Gomjml.Expect.AttrSites.ownMapWrites) := by
  decide +kernel

/-- **the class level of the resolution Spec is what `NewBaseComponent` computes**: for every list of class names and every
    table of definitions, the merged value of an attribute (other than css-class) is what the last listed class that defines
    it says — `Resolve.classValue` over "per listed class, the value it defines", the input `C09_full_is_winner` takes as
    given.  (`norm` = `normalizeAttributeValue`, applied to the winning value.) -/
theorem C09_class_level_is_the_merge (norm : String → String → String) (a : String) (ha : a ≠ "css-class")
    (cas : List Gomjml.ClassMerge.ClassDefs) :
    (Gomjml.Store.get (Gomjml.ClassMerge.merge norm cas).1 a).getD "" =
      classValue (cas.map (Gomjml.ClassMerge.says norm a)) :=
  Gomjml.ClassMerge.merge_get norm a ha cas

/-- … and for css-class: every listed class that defines one contributes it, in list order, joined by a blank —
    `Resolve.cssClassValue` (a class's definitions are a Go map: at most one css-class each) -/
theorem C09_css_class_level_is_the_merge (norm : String → String → String) (cas : List Gomjml.ClassMerge.ClassDefs)
    (h1 : ∀ ca ∈ cas, ∀ as, ca = some as → (as.filter Gomjml.ClassMerge.isCss).length ≤ 1) :
    Gomjml.ClassMerge.cssJoined (Gomjml.ClassMerge.merge norm cas).2 =
      cssClassValue (cas.map (fun ca => ca.bind (fun as => ((as.filter Gomjml.ClassMerge.isCss).head?).map (·.2)))) :=
  Gomjml.ClassMerge.merge_css norm cas h1

/-- non-vacuity: `mj-class="a zz b"`, a: color=red css-class=x, zz undefined, b: color="" css-class=y -/
example : (Gomjml.Store.get (Gomjml.ClassMerge.merge (fun _ v => v)
      [some [("color", "red"), ("css-class", "x")], none, some [("color", ""), ("css-class", "y")]]).1 "color") = some "" ∧
    Gomjml.ClassMerge.cssJoined (Gomjml.ClassMerge.merge (fun _ v => v)
      [some [("color", "red"), ("css-class", "x")], none, some [("color", ""), ("css-class", "y")]]).2 = "x y" := by decide

end Gomjml.Props.C09
