import Gomjml.Core.Widths
/-! driver sub-protocols `width` (the Model, `Widths.impl`) and `widthspec` (the Spec, `Widths.spec`, exact rationals).
    `width <body> <wrapper: - | pl,pr,bl,br> <block…>`
      block = `s:<edges>` items…   item = `c:<w>:<edges>:<leaf>` | `g:<w>:<m>` followed by its m `c:` tokens
            | `h:<edges>` leaves…  leaf token = `l:<leaf>`
      w = `a` | `pN/D` | `xN`;  leaf = `iL,R` | `dL,R` | `n`
    output: `W= S= B= items=c,<px>,<content>,<leaf|->;g,<px>;… hero=<leaf|->;…` -/
open Gomjml.Widths

namespace Driver.WidthP

def nats (s : String) : List Nat := (s.splitOn ",").filterMap String.toNat?

def edges (s : String) : Option Edges :=
  match nats s with
  | [a, b, c, d] => some ⟨a, b, c, d⟩
  | _ => none

def colW (w : String) : Option ColW :=
  if w == "a" then some .auto
  else if w.startsWith "x" then (w.drop 1).toNat?.map .px
  else if w.startsWith "p" then
    match ((w.drop 1).toString.splitOn "/").filterMap String.toNat? with
    | [a, b] => some (.pct a b)
    | _ => none
  else none

def leaf (s : String) : Option Leaf :=
  if s == "n" then some .other
  else if s == "k" then some .carousel
  else match nats (s.drop 1).toString with
    | [l, r] => if s.startsWith "i" then some (.image l r) else if s.startsWith "d" then some (.divider l r) else none
    | [l, r, w] => if s.startsWith "w" then some (.imageW l r w) else none
    | [l, r, a, b] => if s.startsWith "q" then some (.dividerP l r a b) else none
    | _ => none

def col (s : String) : Option Col :=
  match s.splitOn ":" with
  | ["c", w, e, lf] =>
    match colW w, edges e, leaf lf with
    | some w, some e, some lf => some ⟨w, e, lf⟩
    | _, _, _ => none
  | _ => none

/-- items of a section from the token list (fuel = number of tokens) -/
def items : Nat → List String → Option (List Item)
  | 0, _ => some []
  | _, [] => some []
  | fuel + 1, tok :: rest =>
    match tok.splitOn ":" with
    | ["g", w, m] =>
      match colW w, m.toNat? with
      | some gw, some mm =>
        match (rest.take mm).mapM col, items fuel (rest.drop mm) with
        | some cs, some more => some (.group gw cs :: more)
        | _, _ => none
      | _, _ => none
    | _ =>
      match col tok, items fuel rest with
      | some c, some more => some (.col c :: more)
      | _, _ => none

def block (toks : List String) : Option Block :=
  match toks with
  | [] => none
  | b :: rest =>
    match b.splitOn ":" with
    | ["s", e] =>
      match edges e, items rest.length rest with
      | some e, some its => some (.sec e its)
      | _, _ => none
    | ["h", e] =>
      match edges e, rest.mapM (fun t => match t.splitOn ":" with | ["l", lf] => leaf lf | _ => none) with
      | some e, some ls => some (.hero e ls)
      | _, _ => none
    | _ => none

def doc (args : List String) : Option Doc :=
  match args with
  | b :: w :: rest =>
    match b.toNat?, block rest with
    | some body, some bl =>
      if w == "-" then some ⟨body, none, bl⟩
      else match edges w with
        | some e => some ⟨body, some e, bl⟩
        | none => none
    | _, _ => none
  | _ => none

def showOpt (o : Option Int) : String := match o with | some x => toString x | none => "-"
def showCol (o : ColOut) : String := s!"c,{o.px},{o.content},{showOpt o.leaf}"
def showItem : ItemOut → List String
  | .col o => [showCol o]
  | .group g cols => s!"g,{g}" :: cols.map showCol

def handle (args : List String) : String :=
  match doc args with
  | none => "bad-request"
  | some d =>
    let o := impl d
    s!"W={o.wrapperW} S={o.sectionW} B={o.box} items={";".intercalate (o.items.flatMap showItem)} hero={";".intercalate (o.heroLeaves.map showOpt)}"

def showQ (q : Q) : String := s!"{q.1}/{q.2}"
def showOptQ (o : Option Q) : String := match o with | some x => showQ x | none => "-"
def showSCol (o : SColOut) : String := s!"c,{showQ o.px},{showQ o.content},{showOptQ o.leaf}"
def showSItem : SItemOut → List String
  | .col o => [showSCol o]
  | .group g cols => s!"g,{showQ g}" :: cols.map showSCol

def handleSpec (args : List String) : String :=
  match doc args with
  | none => "bad-request"
  | some d =>
    let o := spec d
    s!"W={o.wrapperW} S={o.sectionW} B={o.box} items={";".intercalate (o.items.flatMap showSItem)} hero={";".intercalate (o.heroLeaves.map showOptQ)}"

end Driver.WidthP
