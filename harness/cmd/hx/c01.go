package main

import (
	"crypto/sha256"
	"encoding/hex"
	"fmt"
	"regexp"
	"strings"
)

// ===== C01: reference parity on the corpus (part 1) and under block composition (part 2) ===================================
//
// Everything that judges HTML is in Lean: `refcmp` (canonical comparison), `refsplit` (top-level blocks of a reference body),
// `refcompose` (body of the real output vs `Merge.merge` of the named reference blocks).  The harness renders, cuts MJML
// *sources* into top-level blocks, and composes documents.

var topTagRe = regexp.MustCompile(`(?i)<(mj-section|mj-wrapper|mj-hero|mj-raw)\b`)

// splitSource: the attributes of <mj-body> and the top-level blocks of the body, or ok=false when anything else sits at the
// top level (comments, text)
func splitSource(src string) (battrs string, blocks []string, ok bool) {
	m := regexp.MustCompile(`(?s)<mj-body([^>]*)>(.*)</mj-body>`).FindStringSubmatch(src)
	if m == nil {
		return "", nil, false
	}
	battrs, inner := strings.TrimSpace(m[1]), m[2]
	i := 0
	for {
		loc := topTagRe.FindStringSubmatchIndex(inner[i:])
		if loc == nil {
			break
		}
		start := i + loc[0]
		tag := strings.ToLower(inner[i+loc[2] : i+loc[3]])
		if strings.TrimSpace(inner[i:start]) != "" {
			return "", nil, false
		}
		tagRe := regexp.MustCompile(`(?is)<(/?)` + regexp.QuoteMeta(tag) + `\b((?:"[^"]*"|'[^']*'|[^>"'])*)>`)
		depth, end := 0, -1
		for _, t := range tagRe.FindAllStringSubmatchIndex(inner[start:], -1) {
			closing := inner[start+t[2]:start+t[3]] == "/"
			selfc := strings.HasSuffix(strings.TrimRight(inner[start+t[4]:start+t[5]], " \t\r\n"), "/")
			if !closing {
				if !selfc {
					depth++
				} else if depth == 0 {
					end = start + t[1]
					break
				}
			} else {
				depth--
				if depth == 0 {
					end = start + t[1]
					break
				}
			}
		}
		if end < 0 {
			return "", nil, false
		}
		blocks = append(blocks, inner[start:end])
		i = end
	}
	if strings.TrimSpace(inner[i:]) != "" {
		return "", nil, false
	}
	return battrs, blocks, len(blocks) > 0
}

var ctxRe = regexp.MustCompile(`(?i)<mj-attributes|<mj-class|mj-class=|inline\s*=\s*["']inline|<mj-body[^>]*(width|css-class)|<mj-include|<mj-breakpoint`)

// contextFree: nothing in the document lets the head or the body element influence how a block renders
func contextFree(src string) bool { return !ctxRe.MatchString(src) }

type refBlock struct {
	fixture string
	idx     int
	src     string
	kind    string
	ref     string // the fixture's reference HTML
	solo    string // the block rendered alone (real output)
}

func runC01(res *Result, tier string, seed int64, replay string) {
	res.Rule = "(3) locality of rows and columns: for columns in a section, sections in the body and every content component in a column, with every attribute the element accepts written on it (one at a time), the markup of the neighbour behind it / in front of it is byte-identical to the markup next to the plain element; part 1: every fixture pair in mjml/testdata (all of them, not the listed ones): real Render vs the recorded reference through the Lean canonical comparison (`refcmp`: attributes sorted, independent style declarations in normal form, whitespace collapsed; generated 16-hex ids α-renamed). part 2: top-level blocks cut from context-free fixtures; every block alone, then sequences of blocks from different fixtures; expected body = Merge.merge of the reference fragments (`refcompose`). Non-trivial = every fixture / every composed sequence of ≥2 blocks; distinct by content"
	drv, err := startDriverPool(8)
	if err != nil {
		res.Disagree(Violation{Sig: "driver-missing", What: err.Error()})
		return
	}
	defer drv.Close()
	fixtures := loadFixtures()
	if replay != "" {
		in := replayRaw(replay)
		if names, ok := in["blocks"].([]interface{}); ok && len(names) > 0 {
			// a block sequence: "fixture#index" names
			var sq []refBlock
			for _, n := range names {
				p := strings.SplitN(fmt.Sprint(n), "#", 2)
				if len(p) != 2 {
					continue
				}
				var idx int
				fmt.Sscanf(p[1], "%d", &idx)
				for _, f := range fixtures {
					if f.Name != p[0] {
						continue
					}
					if _, srcs, ok := splitSource(f.MJML); ok && idx < len(srcs) {
						b := refBlock{fixture: f.Name, idx: idx, src: srcs[idx], kind: blockKind(srcs[idx]), ref: f.HTML}
						b.solo, _ = renderPlain(composeDoc([]refBlock{b}))
						sq = append(sq, b)
					}
				}
			}
			if len(sq) > 0 {
				real, _ := renderPlain(composeDoc(sq))
				c01Sequence(res, drv, sq, real)
			}
			return
		}
		if name, ok := in["fixture"].(string); ok {
			for _, f := range fixtures {
				if f.Name == name {
					c01Fixture(res, drv, f)
				}
			}
		}
		return
	}
	// renders are sequential (the process-wide attribute store, C07); comparisons run in parallel
	type job struct {
		f    Fixture
		real string
	}
	var jobs []job
	for _, f := range fixtures {
		if f.HTML == "" {
			res.Count("fixture-without-reference")
			continue
		}
		h, err := renderPlain(f.MJML)
		if err != nil && h == "" {
			res.Count("fixture-render-error")
			res.Case("fixture:"+f.Name, true)
			res.Violate(Violation{Sig: "fixture:" + f.Name + "|render-error", Kind: "fixture", What: fmt.Sprintf("%s: render error: %v", f.Name, err), Input: map[string]string{"fixture": f.Name}})
			continue
		}
		jobs = append(jobs, job{f, h})
	}
	equivalent := make([]bool, len(jobs))
	parallel(8, len(jobs), func(i int) { equivalent[i] = c01Compare(res, drv, jobs[i].f, jobs[i].real) })

	// ---- part 2: blocks ---------------------------------------------------------------------------------------------
	var blocks []refBlock
	for i, j := range jobs {
		f := j.f
		if !contextFree(f.MJML) {
			res.Count("blocks:fixture-not-context-free")
			continue
		}
		_, srcs, ok := splitSource(f.MJML)
		if !ok {
			res.Count("blocks:source-not-splittable")
			continue
		}
		ref := f.HTML
		r, err := drv.Ask("refsplit " + hexOf(ref))
		if err != nil {
			continue
		}
		var n int
		var rt, kinds string
		fmt.Sscanf(r, "groups=%d rt=%s kinds=%s", &n, &rt, &kinds)
		if rt != "ok" {
			res.Count("blocks:reference-does-not-round-trip")
			continue
		}
		if n != len(srcs) {
			res.Count("blocks:block-count-mismatch")
			continue
		}
		_ = equivalent[i]
		ks := strings.Split(kinds, ",")
		for k, s := range srcs {
			kind := ""
			if k < len(ks) {
				kind = ks[k]
			}
			_ = kind
			blocks = append(blocks, refBlock{fixture: f.Name, idx: k, src: s, kind: blockKind(s), ref: ref})
		}
	}
	res.Note("part 2: %d top-level blocks cut from context-free fixtures", len(blocks))
	// every block alone
	solo := make([]string, len(blocks))
	for i, b := range blocks {
		solo[i], _ = renderPlain(composeDoc([]refBlock{b}))
	}
	good := make([]bool, len(blocks))
	parallel(8, len(blocks), func(i int) {
		b := blocks[i]
		res.Case("solo:"+b.fixture+fmt.Sprint(b.idx), false)
		r, err := drv.Ask(fmt.Sprintf("refcompose %s %s %d", hexOf(solo[i]), hexOf(b.ref), b.idx))
		if err != nil {
			return
		}
		if strings.HasPrefix(r, "eq ") {
			good[i] = true
			res.Count("solo=equals-reference-fragment")
			return
		}
		res.Count("solo=differs")
		res.Violate(Violation{Sig: "solo:" + b.fixture + fmt.Sprintf("#%d", b.idx) + "|" + digest(r), Kind: "input", What: fmt.Sprintf("block %d of %s rendered alone differs from its reference fragment: %s", b.idx, b.fixture, short(r, 500)),
			Input: map[string]interface{}{"fixture": b.fixture, "blocks": []string{fmt.Sprintf("%s#%d", b.fixture, b.idx)}, "source": composeDoc([]refBlock{b})}})
	})
	var gb []refBlock
	for i, b := range blocks {
		if good[i] {
			b.solo = solo[i]
			gb = append(gb, b)
		}
	}
	// sequences of blocks from different fixtures
	var seqs [][]refBlock
	if tier == "thorough" {
		for _, a := range gb {
			for _, b := range gb {
				if a.fixture != b.fixture {
					seqs = append(seqs, []refBlock{a, b})
				}
			}
		}
	}
	nPairs, nLong := 3000, 300
	if tier == "thorough" {
		nPairs, nLong = 0, 20000
	}
	rng := NewRng(seed, "c01/seq")
	for i := 0; i < nPairs && len(gb) > 1; i++ {
		a, b := gb[rng.Intn(len(gb))], gb[rng.Intn(len(gb))]
		if a.fixture != b.fixture {
			seqs = append(seqs, []refBlock{a, b})
		}
	}
	for i := 0; i < nLong && len(gb) > 1; i++ {
		var sq []refBlock
		for k := 0; k < 3+rng.Intn(6); k++ {
			sq = append(sq, gb[rng.Intn(len(gb))])
		}
		seqs = append(seqs, sq)
	}
	outs := make([]string, len(seqs))
	for i, sq := range seqs {
		outs[i], _ = renderPlain(composeDoc(sq))
	}
	parallel(8, len(seqs), func(i int) { c01Sequence(res, drv, seqs[i], outs[i]) })
	c01Locality(res)
}

// c01Locality — rows and columns placed next to each other: what one element writes does not depend on the attributes of its
// neighbour.  For every element kind that can stand in a row of siblings (columns in a section, content components in a
// column, blocks in the body) and every attribute it accepts: [X(attr=v), Y] and [X, Y] must agree on everything from Y's
// Outlook / standard opener to the end of the document, and [Y, X(attr=v)] and [Y, X] on everything up to the end of Y.
// (Attributes that legitimately reach the neighbour — widths and what feeds them — are left out.)
func c01Locality(res *Result) {
	ySent, xSent := "YSENTINELY", "XSENTINELX"
	type family struct {
		name    string
		tag     string
		mk      func(attrs, sent string) string // the element with attributes and a content marker
		wrap    func(kids string) string        // the document around the row of siblings
		skip    map[string]bool
		partner func(sent string) string // the neighbour Y
	}
	col := func(attrs, sent string) string {
		return `<mj-column` + attrs + `><mj-text>` + sent + `</mj-text></mj-column>`
	}
	fams := []family{
		{"columns", "mj-column", col, func(k string) string { return "<mjml><mj-body><mj-section>" + k + "</mj-section></mj-body></mjml>" },
			map[string]bool{"width": true, "mj-class": true}, func(sent string) string { return col("", sent) }},
		{"sections", "mj-section", func(a, sent string) string { return `<mj-section` + a + `>` + col("", sent) + `</mj-section>` },
			func(k string) string { return "<mjml><mj-body>" + k + "</mj-body></mjml>" }, map[string]bool{"mj-class": true, "full-width": true, "background-url": true},
			func(sent string) string { return `<mj-section>` + col("", sent) + `</mj-section>` }},
	}
	for _, leaf := range []string{"mj-text", "mj-button", "mj-image", "mj-divider", "mj-spacer", "mj-table"} {
		leaf := leaf
		fams = append(fams, family{"rows:" + leaf, leaf, func(a, sent string) string {
			switch leaf {
			case "mj-image":
				return `<mj-image src="i.png" alt="` + sent + `"` + a + `/>`
			case "mj-divider", "mj-spacer":
				return `<` + leaf + ` css-class="` + sent + `"` + a + `/>`
			case "mj-table":
				return `<mj-table` + a + `><tr><td>` + sent + `</td></tr></mj-table>`
			}
			return `<` + leaf + a + `>` + sent + `</` + leaf + `>`
		}, func(k string) string {
			return "<mjml><mj-body><mj-section><mj-column>" + k + "</mj-column></mj-section></mj-body></mjml>"
		},
			map[string]bool{"mj-class": true, "src": true, "css-class": leaf == "mj-divider" || leaf == "mj-spacer", "alt": leaf == "mj-image"},
			func(sent string) string { return `<mj-text>` + sent + `</mj-text>` }})
	}
	// Y's part of the output: from the last Outlook conditional opener (or, failing that, the last <tr / <div) in front of
	// its marker to the end; and from the start to the first closing conditional / tag behind it
	tail := func(h string, rows bool) string {
		i := strings.Index(h, ySent)
		if i < 0 {
			return ""
		}
		// a column / section begins with its Outlook conditional; a row of a column with its <tr>
		j := strings.LastIndex(h[:i], "<!--[if mso | IE]>")
		if rows {
			j = strings.LastIndex(h[:i], "<tr")
		}
		if j < 0 {
			return ""
		}
		return h[j:]
	}
	head := func(h string) string {
		i := strings.Index(h, ySent)
		if i < 0 {
			return ""
		}
		j := strings.Index(h[i:], "</td>")
		if j < 0 {
			return ""
		}
		return h[:i+j]
	}
	for _, f := range fams {
		plainAfter, _ := renderPlain(f.wrap(f.mk("", xSent) + f.partner(ySent)))
		plainBefore, _ := renderPlain(f.wrap(f.partner(ySent) + f.mk("", xSent)))
		attrs := allowedSorted(f.tag)
		hasCss := false
		for _, a := range attrs {
			hasCss = hasCss || a[0] == "css-class"
		}
		if !hasCss {
			attrs = append(attrs, [2]string{"css-class", "string"}) // accepted everywhere, listed nowhere
		}
		for _, a := range attrs {
			if f.skip[a[0]] {
				continue
			}
			v1, _ := testValues(a[0], a[1])
			if a[0] == "css-class" {
				v1 = "kx1"
			}
			if v1 == "" {
				continue
			}
			attr := ` ` + a[0] + `="` + xmlAttrEsc(v1) + `"`
			for _, dir := range []string{"after", "before"} {
				var got, want, src string
				if dir == "after" {
					src = f.wrap(f.mk(attr, xSent) + f.partner(ySent))
					h, _ := renderPlain(src)
					got, want = tail(h, strings.HasPrefix(f.name, "rows:")), tail(plainAfter, strings.HasPrefix(f.name, "rows:"))
				} else {
					src = f.wrap(f.partner(ySent) + f.mk(attr, xSent))
					h, _ := renderPlain(src)
					got, want = head(h), head(plainBefore)
				}
				key := "locality|" + f.name + "|" + a[0] + "|" + dir
				res.Case(key, true)
				res.Count("locality=" + f.name)
				if got == "" || want == "" {
					continue // the document does not render (a required attribute replaced …): nothing to compare
				}
				if got != want {
					at := firstDiff(got, want)
					res.Violate(Violation{Sig: key, Kind: "sequence", What: fmt.Sprintf("%s: the markup of the neighbour changes when %s=%q is written on the element %s it: …%s… vs …%s…", f.name, a[0], v1, map[string]string{"after": "in front of", "before": "behind"}[dir], around(got, at), around(want, at)),
						Input: map[string]string{"source": src}})
				}
			}
		}
	}
}

// reID gives the generated identifiers of a reference position-specific names, so that fragments taken from different
// references (or twice from the same one) do not share identifiers; the driver α-renames both sides afterwards
func reID(html string, k int) string {
	return hexID.ReplaceAllStringFunc(html, func(id string) string {
		h := sha256.Sum256([]byte(fmt.Sprintf("%d/%s", k, id)))
		return hex.EncodeToString(h[:8])
	})
}

// blockKind: what the body loop distinguishes
func blockKind(src string) string {
	m := topTagRe.FindStringSubmatch(src)
	if m == nil {
		return "?"
	}
	end := strings.Index(src, ">")
	open := src
	if end > 0 {
		open = src[:end]
	}
	k := map[string]string{"mj-section": "S", "mj-wrapper": "W", "mj-hero": "H", "mj-raw": "R"}[strings.ToLower(m[1])]
	if strings.Contains(open, "full-width") {
		k += "fw"
	}
	if strings.Contains(open, "background-url") {
		k += "bg"
	}
	return k
}

func composeDoc(bs []refBlock) string {
	var b strings.Builder
	b.WriteString("<mjml><mj-body>")
	for _, x := range bs {
		b.WriteString(x.src)
	}
	b.WriteString("</mj-body></mjml>")
	return b.String()
}

func c01Sequence(res *Result, drv *DriverPool, sq []refBlock, real string) {
	var names, kinds []string
	req := "refcompose " + hexOf(real)
	for k, b := range sq {
		names = append(names, fmt.Sprintf("%s#%d", b.fixture, b.idx))
		kinds = append(kinds, b.kind)
		req += fmt.Sprintf(" %s %d", hexOf(reID(b.ref, k)), b.idx)
	}
	res.Case("seq:"+strings.Join(names, "+"), true)
	res.Count(fmt.Sprintf("sequence-length=%d", len(sq)))
	res.mu.Lock()
	res.Programs++
	res.mu.Unlock()
	// correspondence of the body-loop Model (`Merge.bodyLoop`, the object of the lifting theorem): the composed body equals
	// the Model's loop run on the blocks' own solo outputs, and every block meets the theorem's well-formedness premise
	lreq := "refloop " + hexOf(real)
	for k, b := range sq {
		fl := "-"
		switch b.kind {
		case "S":
			fl = "cn"
		case "Sbg", "W", "Wbg":
			fl = "n"
		}
		lreq += " " + hexOf(reID(b.solo, k)) + " " + fl
	}
	lr, err := drv.Ask(lreq)
	res.mu.Lock()
	res.DisagreementsChecked++
	res.mu.Unlock()
	switch {
	case err != nil:
		res.Disagree(Violation{Sig: "driver-failed", What: err.Error()})
	case strings.HasPrefix(lr, "wf=0"):
		res.Disagree(Violation{Sig: "block-not-wf|" + strings.Join(kinds, ">") + "|" + digest(strings.Join(names, "+")), Kind: "input",
			What: "a block of " + strings.Join(names, ", ") + " does not meet Blk.WF (premise of C01_lifting): " + short(lr, 300), Input: map[string]interface{}{"blocks": names, "source": composeDoc(sq)}})
	case !strings.HasPrefix(lr, "wf=1 eq "):
		res.Disagree(Violation{Sig: "loop-model-mismatch|" + strings.Join(kinds, ">") + "|" + digest(strings.Join(names, "+")), Kind: "input",
			What: "body of " + strings.Join(names, ", ") + " differs from the Model's body loop run on the blocks' solo outputs: " + short(lr, 500), Input: map[string]interface{}{"blocks": names, "source": composeDoc(sq)}})
	default:
		res.Count("sequence=body-loop-model-agrees")
	}
	r, err := drv.Ask(req)
	if err != nil {
		res.Disagree(Violation{Sig: "driver-failed", What: err.Error()})
		return
	}
	if strings.HasPrefix(r, "eq ") {
		res.Count("sequence=equals-merged-fragments")
		return
	}
	res.Count("sequence=differs")
	res.Violate(Violation{Sig: "seq:" + strings.Join(kinds, ">") + "|" + digest(strings.Join(names, "+")), Kind: "input",
		What:  fmt.Sprintf("blocks %s placed next to each other: body differs from the merged reference fragments: %s", strings.Join(names, ", "), short(r, 500)),
		Input: map[string]interface{}{"blocks": names, "source": composeDoc(sq)}})
}

func c01Fixture(res *Result, drv *DriverPool, f Fixture) {
	h, _ := renderPlain(f.MJML)
	c01Compare(res, drv, f, h)
}

// tokenDiff: tokens only in a / only in b (longest common subsequence after trimming the common prefix and suffix)
func tokenDiff(a, b []string) (onlyA, onlyB []string) {
	for len(a) > 0 && len(b) > 0 && a[0] == b[0] {
		a, b = a[1:], b[1:]
	}
	for len(a) > 0 && len(b) > 0 && a[len(a)-1] == b[len(b)-1] {
		a, b = a[:len(a)-1], b[:len(b)-1]
	}
	n, m := len(a), len(b)
	if n*m > 30_000_000 {
		return a, b
	}
	lcs := make([][]int32, n+1)
	for i := range lcs {
		lcs[i] = make([]int32, m+1)
	}
	for i := n - 1; i >= 0; i-- {
		for j := m - 1; j >= 0; j-- {
			if a[i] == b[j] {
				lcs[i][j] = lcs[i+1][j+1] + 1
			} else if lcs[i+1][j] >= lcs[i][j+1] {
				lcs[i][j] = lcs[i+1][j]
			} else {
				lcs[i][j] = lcs[i][j+1]
			}
		}
	}
	i, j := 0, 0
	for i < n && j < m {
		switch {
		case a[i] == b[j]:
			i++
			j++
		case lcs[i+1][j] >= lcs[i][j+1]:
			onlyA = append(onlyA, a[i])
			i++
		default:
			onlyB = append(onlyB, b[j])
			j++
		}
	}
	onlyA = append(onlyA, a[i:]...)
	onlyB = append(onlyB, b[j:]...)
	return
}

func canonTokens(drv *DriverPool, html string) ([]string, error) {
	r, err := drv.Ask("refcanon " + hexOf(html))
	if err != nil {
		return nil, err
	}
	var out []string
	for _, f := range strings.Fields(r) {
		out = append(out, unhexStr(f))
	}
	return out, nil
}

func c01Compare(res *Result, drv *DriverPool, f Fixture, real string) bool {
	res.Case("fixture:"+f.Name, true)
	ra, rb := real, f.HTML // generated ids are α-renamed by the driver
	r, err := drv.Ask("refcmp " + hexOf(ra) + " " + hexOf(rb))
	if err != nil {
		res.Disagree(Violation{Sig: "driver-failed", What: err.Error()})
		return false
	}
	if strings.HasPrefix(r, "eq ") {
		res.Count("fixture=equivalent")
		return true
	}
	res.Count("fixture=differs")
	// the finding is the whole difference, not its first token: any further deviation in the same fixture is a new signature
	ta, _ := canonTokens(drv, ra)
	tb, _ := canonTokens(drv, rb)
	onlyReal, onlyRef := tokenDiff(ta, tb)
	desc := fmt.Sprintf("%d tokens only in the output, %d only in the reference; first: %s", len(onlyReal), len(onlyRef), short(r, 500))
	res.Violate(Violation{Sig: "fixture:" + f.Name + "|" + digest(strings.Join(onlyReal, "\x00")+"\x01"+strings.Join(onlyRef, "\x00")), Kind: "fixture",
		What: f.Name + ": " + desc, Input: map[string]string{"fixture": f.Name},
		Extra: map[string]interface{}{"only_in_output": clipAll(onlyReal, 12, 300), "only_in_reference": clipAll(onlyRef, 12, 300)}})
	return false
}

func clipAll(xs []string, n, w int) []string {
	var out []string
	for i, x := range xs {
		if i >= n {
			out = append(out, fmt.Sprintf("… %d more", len(xs)-n))
			break
		}
		out = append(out, short(x, w))
	}
	return out
}

func init() { register("C01", runC01) }
