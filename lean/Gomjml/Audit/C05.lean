import Gomjml.Props.C05
#print axioms Gomjml.Props.C05.C05_map_range_sites
#print axioms Gomjml.Props.C05.C05_keyed_insert
#print axioms Gomjml.Props.C05.C05_collect_sorted
#print axioms Gomjml.Props.C05.C05_const_key_append
#print axioms Gomjml.Props.C05.C05_font_lookup
#print axioms Gomjml.Props.C05.C05_nondeterminism_census
#print axioms Gomjml.Props.C05.C05_random_id_callers
#print axioms Gomjml.Props.C05.C05_font_imports
#print axioms Gomjml.Props.C05.C05_normalize_color
#print axioms Gomjml.Props.C05.C05_font_imports_stable
