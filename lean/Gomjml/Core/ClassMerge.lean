import Gomjml.Core.Store
import Gomjml.Core.Resolve
/-! # The merge of the listed mj-class definitions (`NewBaseComponent`, `mjml/components/base.go`)

For every class name of the element's `mj-class` list, in list order, the definitions of that class (`classAttributesFor`: a
Go map, here an association list — `Store.classAttr` says what it holds) are written into one map, `css-class` values being
collected apart and joined at the end.  `Resolve.classValue` / `Resolve.cssClassValue` — the class level of the resolution
Spec — take "per listed class, the value it defines for the attribute" as given.  This file closes the gap: the loop computes
exactly that, for every class list and every table. -/
namespace Gomjml.ClassMerge
open Gomjml.Store

/-- what one listed class contributes: nothing if it is not defined (`classAttributesFor` = nil) -/
abbrev ClassDefs := Option Attrs

def isCss (kv : String × String) : Bool := kv.1 == "css-class"

/-- one round of the outer loop; `norm` is `normalizeAttributeValue` -/
def step (norm : String → String → String) (acc : Attrs × List String) (ca : ClassDefs) : Attrs × List String :=
  match ca with
  | none => acc
  | some as =>
    (setAll acc.1 ((as.filter (fun kv => !isCss kv)).map (fun kv => (kv.1, norm kv.1 kv.2))),
     acc.2 ++ (as.filter isCss).map (·.2))

/-- the loop: the merged class attributes, and the css-class parts in list order -/
def merge (norm : String → String → String) (cas : List ClassDefs) : Attrs × List String :=
  cas.foldl (step norm) ([], [])

/-- `classAttrs["css-class"] = strings.Join(parts, " ")` when there are parts -/
def cssJoined (parts : List String) : String := " ".intercalate parts

/-- the last `some` of a list -/
def lastSome {α} (cs : List (Option α)) : Option α := (cs.reverse.find? Option.isSome).join

theorem lastSome_append {α} (x y : List (Option α)) : lastSome (x ++ y) = (lastSome y).orElse (fun _ => lastSome x) := by
  unfold lastSome
  rw [List.reverse_append, List.find?_append]
  cases h : List.find? Option.isSome y.reverse with
  | none => simp
  | some o =>
    have := List.find?_some h
    cases o with
    | none => simp at this
    | some v => simp

theorem lastSome_single {α} (o : Option α) : lastSome [o] = o := by
  cases o <;> simp [lastSome]

/-- what a class says about one attribute other than css-class, normalised -/
def says (norm : String → String → String) (a : String) (ca : ClassDefs) : Option String :=
  ca.bind (fun as => (lastDef as a).map (norm a))

theorem lastDef_cons (kv : String × String) (r : Attrs) (a : String) :
    lastDef (kv :: r) a = (lastDef r a).orElse (fun _ => if a = kv.1 then some kv.2 else none) := by
  rw [show (kv :: r : Attrs) = [kv] ++ r from rfl, lastDef_append]
  obtain ⟨k, v⟩ := kv
  rw [lastDef_single]

theorem lastDef_norm (norm : String → String → String) (a : String) (ha : a ≠ "css-class") : ∀ (as : Attrs),
    lastDef ((as.filter (fun kv => !isCss kv)).map (fun kv => (kv.1, norm kv.1 kv.2))) a = (lastDef as a).map (norm a)
  | [] => by simp [lastDef]
  | kv :: r => by
    obtain ⟨k, v⟩ := kv
    rw [lastDef_cons]
    by_cases hk : k = "css-class"
    · have hc : isCss (k, v) = true := by simp [isCss, hk]
      have hne : ¬ a = k := fun e => ha (e.trans hk)
      rw [List.filter_cons]
      simp only [hc, Bool.not_true, Bool.false_eq_true, if_false]
      rw [lastDef_norm norm a ha r]
      simp [hne]
    · have hc : isCss (k, v) = false := by simp [isCss, hk]
      simp only [List.filter_cons, hc, Bool.not_false, if_true, List.map_cons]
      rw [lastDef_cons, lastDef_norm norm a ha r]
      cases lastDef r a with
      | some x => simp
      | none =>
        by_cases h : a = k
        · subst h; simp
        · simp [h]

theorem step_get (norm : String → String → String) (a : String) (ha : a ≠ "css-class") (acc : Attrs × List String)
    (ca : ClassDefs) : get (step norm acc ca).1 a = (says norm a ca).orElse (fun _ => get acc.1 a) := by
  cases ca with
  | none => simp [step, says]
  | some as =>
    simp only [step, says, Option.bind_some]
    rw [get_setAll, lastDef_norm norm a ha]

theorem fold_get (norm : String → String → String) (a : String) (ha : a ≠ "css-class") : ∀ (cas : List ClassDefs)
    (acc : Attrs × List String),
    get (cas.foldl (step norm) acc).1 a = (lastSome (cas.map (says norm a))).orElse (fun _ => get acc.1 a)
  | [], acc => by simp [lastSome]
  | ca :: r, acc => by
    simp only [List.foldl_cons, List.map_cons]
    rw [fold_get norm a ha r, step_get norm a ha]
    rw [show (says norm a ca :: r.map (says norm a)) = [says norm a ca] ++ r.map (says norm a) from rfl, lastSome_append,
      lastSome_single]
    cases lastSome (r.map (says norm a)) <;> simp

/-- **the merged value of an attribute is what the last listed class that defines it says** (normalised), for every class
    list and every table — `Resolve.classValue` of the per-class values -/
theorem merge_get (norm : String → String → String) (a : String) (ha : a ≠ "css-class") (cas : List ClassDefs) :
    (get (merge norm cas).1 a).getD "" = Gomjml.Resolve.classValue (cas.map (says norm a)) := by
  unfold merge
  rw [fold_get norm a ha]
  unfold Gomjml.Resolve.classValue lastSome
  cases h : List.find? Option.isSome (cas.map (says norm a)).reverse with
  | none => simp [Store.get]
  | some o =>
    have := List.find?_some h
    cases o with
    | none => simp at this
    | some v => simp

theorem fold_css (norm : String → String → String) : ∀ (cas : List ClassDefs) (acc : Attrs × List String),
    (cas.foldl (step norm) acc).2 = acc.2 ++ cas.flatMap (fun ca => match ca with | none => [] | some as => (as.filter isCss).map (·.2))
  | [], acc => by simp
  | ca :: r, acc => by
    simp only [List.foldl_cons, List.flatMap_cons]
    rw [fold_css norm r]
    cases ca with
    | none => simp [step]
    | some as => simp [step, List.append_assoc]

/-- **css-class: every listed class that defines one contributes it, in list order** — `Resolve.cssClassValue` of the
    per-class values (a class's definitions are a Go map: at most one css-class each) -/
theorem merge_css (norm : String → String → String) (cas : List ClassDefs)
    (h1 : ∀ ca ∈ cas, ∀ as, ca = some as → (as.filter isCss).length ≤ 1) :
    cssJoined (merge norm cas).2 =
      Gomjml.Resolve.cssClassValue (cas.map (fun ca => ca.bind (fun as => ((as.filter isCss).head?).map (·.2)))) := by
  unfold merge cssJoined Gomjml.Resolve.cssClassValue
  rw [fold_css]
  congr 1
  simp only [List.nil_append]
  induction cas with
  | nil => rfl
  | cons ca r ih =>
    simp only [List.flatMap_cons, List.map_cons, List.filterMap_cons]
    rw [ih (fun c hc => h1 c (List.mem_cons_of_mem _ hc))]
    cases ca with
    | none => simp
    | some as =>
      have hl := h1 (some as) (by simp) as rfl
      simp only [Option.bind_some]
      rcases hfl : as.filter isCss with _ | ⟨kv, _ | ⟨kv2, rest⟩⟩
      · simp
      · simp
      · rw [hfl] at hl; simp at hl

end Gomjml.ClassMerge
