import Gomjml.Core.Lexer
import Gomjml.Core.Layout
import Gomjml.Core.LayoutSpec
import Gomjml.Core.Leaves
import Gomjml.Spec.Html
/-! driver sub-protocols `layout` (Model skeleton of a layout document) and `oracle` (Spec verdicts on real HTML bytes) -/
open Gomjml

namespace Driver.HtmlP

/-! ### hex payloads -/
def hexVal (b : UInt8) : UInt8 :=
  if b ≥ 48 && b ≤ 57 then b - 48 else if b ≥ 97 && b ≤ 102 then b - 87 else if b ≥ 65 && b ≤ 70 then b - 55 else 0

def unhex (s : String) : ByteArray := Id.run do
  let a := s.toUTF8
  let mut out := ByteArray.emptyWithCapacity (a.size / 2)
  let mut i := 0
  while i + 1 < a.size do
    out := out.push (hexVal a[i]! * 16 + hexVal a[i+1]!)
    i := i + 2
  return out

/-! ### layout documents: prefix encoding produced by hx (gen.go `Enc`) -/
open Gomjml.Layout

def bit (s : String) (i : Nat) : Bool := (s.toList.getD i '0') == '1'

/-- a leaves word: `-` or items separated by `,`: `t` (mj-text with content), `r` (non-blank mj-raw), `x…` (another content
    component, see `compOf`) -/
def leavesOf (w : String) : List Leaf :=
  if w == "-" then [] else (w.splitOn ",").filterMap (fun it =>
    if it == "t" then some Leaf.text else if it == "r" then some Leaf.raw else if it.startsWith "x" then some Leaf.slot else none)

open Gomjml.Leaves in
/-- `xT<c>` text · `xB<h><c>` button · `xI<h>` image · `xD` divider · `xP` spacer · `xA<rows>.<text>` table ·
    `xS<v>[:e<href><text> | :r<blank>]*` social · `xN<hb>[:l<content> | :r<blank>]*` navbar ·
    `xC[:r<blank> | :E<icon left>[/T<content> | /X<content> | /r<blank>]*]*` accordion · `xK<thumbs><href bits of the images>` carousel -/
def compOf (it : String) : Option LeafM :=
  let cs := it.toList
  let bitAt := fun (i : Nat) => cs.getD i '0' == '1'
  match cs.getD 1 ' ' with
  | 'T' => some (.text (bitAt 2))
  | 'B' => some (.button (bitAt 2) (bitAt 3))
  | 'I' => some (.image (bitAt 2))
  | 'D' => some .divider
  | 'P' => some .spacer
  | 'A' =>
    match ((it.drop 2).toString.splitOn ".") with
    | [r, tx] => r.toNat?.map (fun n => .table n (tx == "1"))
    | _ => none
  | 'S' =>
    let parts := it.splitOn ":"
    some (.social (bitAt 2) (parts.tail.map (fun e =>
      if e.startsWith "r" then SocChild.raw (bit e 1) else SocChild.el ⟨bit e 1, bit e 2⟩)))
  | 'N' =>
    let parts := it.splitOn ":"
    some (.navbar (bitAt 2) ((parts.tail.filter (· != "")).map (fun e =>
      if e.startsWith "r" then NavChild.raw (bit e 1) else NavChild.link (bit e 1))))
  | 'C' =>
    let parts := it.splitOn ":"
    some (.accordion (parts.tail.map (fun e =>
      if e.startsWith "r" then AccChild.raw (bit e 1)
      else
        let ps := e.splitOn "/"
        AccChild.el ⟨bit (ps.headD "") 1, ps.tail.map (fun q =>
          if q.startsWith "T" then AccPart.title (bit q 1) else if q.startsWith "X" then AccPart.text (bit q 1) else AccPart.raw (bit q 1))⟩)))
  | 'K' =>
    match (cs.drop 3).map (· == '1') with
    | f :: r => some (.carousel (bitAt 2) f r)
    | [] => none
  | _ => none

open Gomjml.Leaves in
/-- what stands in every content slot, in document order (the encoding is a prefix encoding in document order): a component
    for `x…` items, `keep` for the content tokens the layout model writes itself (text, non-blank raw, section text) -/
def fillsOf : List String → List LeafM
  | [] => []
  | tok :: rest =>
    let here : List LeafM :=
      if tok == "r0" || tok == "R0" then [.keep]
      else if tok.startsWith "S" && bit tok 4 && rest.head? == some ";" then [.keep]
      else if tok == "t" || tok == "r" || tok.startsWith "x" || (tok.splitOn ",").length > 1 then
        (tok.splitOn ",").filterMap (fun it => if it == "t" || it == "r" then some .keep else if it.startsWith "x" then compOf it else none)
      else []
    here ++ fillsOf rest

/-- parse a column `C<g> <leaves>` from the token list -/
def pColumn : List String → Option (Column × List String)
  | c :: w :: rest => if c.startsWith "C" then some (⟨bit c 1, leavesOf w⟩, rest) else none
  | _ => none

def pGKids : Nat → List String → Option (List GChild × List String)
  | 0, _ => none
  | _ + 1, ";" :: rest => some ([], rest)
  | f + 1, tok :: rest =>
    if tok.startsWith "C" then
      match pColumn (tok :: rest) with
      | some (c, r) => (pGKids f r).map (fun (ks, r') => (GChild.col c :: ks, r'))
      | none => none
    else if tok.startsWith "r" then (pGKids f rest).map (fun (ks, r') => (GChild.raw (bit tok 1) :: ks, r'))
    else none
  | _ + 1, [] => none

def pSKids : Nat → List String → Option (List SChild × List String)
  | 0, _ => none
  | _ + 1, ";" :: rest => some ([], rest)
  | f + 1, tok :: rest =>
    if tok.startsWith "C" then
      match pColumn (tok :: rest) with
      | some (c, r) => (pSKids f r).map (fun (ks, r') => (SChild.col c :: ks, r'))
      | none => none
    else if tok == "G" then
      match pGKids f rest with
      | some (g, r) => (pSKids f r).map (fun (ks, r') => (SChild.group g :: ks, r'))
      | none => none
    else if tok.startsWith "r" then (pSKids f rest).map (fun (ks, r') => (SChild.raw (bit tok 1) :: ks, r'))
    else none
  | _ + 1, [] => none

/-- `S<fw><bg><split><txt><bgc><css> kids ;` -/
def pSection (f : Nat) (tok : String) (rest : List String) : Option (Section × List String) :=
  (pSKids f rest).map (fun (ks, r) => (⟨bit tok 1, bit tok 2, bit tok 3, bit tok 4, bit tok 5, bit tok 6, ks⟩, r))

def pWKids : Nat → List String → Option (List WChild × List String)
  | 0, _ => none
  | _ + 1, ";" :: rest => some ([], rest)
  | f + 1, tok :: rest =>
    if tok.startsWith "S" then
      match pSection f tok rest with
      | some (s, r) => (pWKids f r).map (fun (ks, r') => (WChild.sec s :: ks, r'))
      | none => none
    else if tok.startsWith "r" then (pWKids f rest).map (fun (ks, r') => (WChild.raw (bit tok 1) :: ks, r'))
    else none
  | _ + 1, [] => none

def pBlocks : Nat → List String → Option (List Block)
  | 0, _ => none
  | _ + 1, [] => some []
  | f + 1, tok :: rest =>
    if tok.startsWith "S" then
      match pSection f tok rest with
      | some (s, r) => (pBlocks f r).map (Block.section s :: ·)
      | none => none
    else if tok.startsWith "W" then
      match pWKids f rest with
      | some (ks, r) => (pBlocks f r).map (Block.wrapper ⟨bit tok 1, bit tok 2, ks⟩ :: ·)
      | none => none
    else if tok == "H" then
      match rest with
      | w :: r => (pBlocks f r).map (Block.hero (leavesOf w) :: ·)
      | [] => none
    else if tok.startsWith "R" then (pBlocks f rest).map (Block.raw (bit tok 1) :: ·)
    else none

def showTok : Tok → String
  | .o n => Tag.name' n
  | .c n => "/" ++ Tag.name' n
  | .v n => Tag.name' n ++ "!"
  | .co => "co" | .cc => "cc" | .t => "t"
where Tag.name' : Tag → String
  | .div => "div" | .table => "table" | .tbody => "tbody" | .tr => "tr" | .td => "td" | .para => "p" | .i => "i"
  | .vrect => "v:rect" | .vtextbox => "v:textbox" | .vfill => "v:fill" | .vimage => "v:image"

def tokToG : Tok → Gomjml.Spec.GTok
  | .o n => .o n.outlookOnly (showTok.Tag.name' n)
  | .c n => .c n.outlookOnly (showTok.Tag.name' n)
  | .v n => .v n.outlookOnly (showTok.Tag.name' n)
  | .co => .co | .cc => .cc | .t => .t ""

def showGM : Gomjml.Spec.GTok → String
  | .o _ n => n | .c _ n => "/" ++ n
  | .v _ n => if n == "#text" then "t" else n ++ "!"       -- generated text shows as text in the real skeleton
  | .co => "co" | .cc => "cc" | .nco => "nco" | .ncc => "ncc" | .t _ => "t"

/-- `layout <doc>`: the Model's skeleton with every content component filled in (`Leaves`, `Expand.expand`), the combined
    machine's verdict on the layout skeleton, and the three Spec verdicts on the Model's tokens (the Model is defect-faithful:
    these are the clauses the implementation is predicted to fail on this document) -/
def layoutHandle (args : List String) : String :=
  match pBlocks (args.length + 2) args with
  | none => "bad-doc"
  | some bs =>
    let ts := render bs
    let wf := match run ⟨false, [], []⟩ ts with
      | some s => if s.mso || !s.std.isEmpty || !s.all.isEmpty then "unbalanced" else "ok"
      | none => "reject"
    let fills := fillsOf args
    let gs := Gomjml.Expand.expand (fills.map Gomjml.Leaves.LeafM.toks) (ts.map Tok.toG)
    let slots := (ts.filter (· == Tok.t)).length
    let std := Gomjml.Spec.verdict Gomjml.Spec.stdStep "std:unclosed" gs true
    let mso := Gomjml.Spec.verdict Gomjml.Spec.msoStep "mso:unclosed" gs true
    -- visibility is judged leniently with respect to malformed markers (those are C02's), exactly as on the real bytes
    let hiddenT := (gs.foldl (fun (acc : Nat × Nat) g =>
      match g with
      | .co => (1, acc.2) | .cc => (0, acc.2) | .nco => (2, acc.2) | .ncc => (0, acc.2)
      | .t _ => if acc.1 == 1 then (acc.1, acc.2 + 1) else acc
      | _ => acc) (0, 0)).2
    let vis := if hiddenT == 0 then "ok" else "content-in-mso"
    let fillsOk := if fills.length == slots then "ok" else s!"fills:{fills.length}/slots:{slots}"
    let cnt := Gomjml.Leaves.cntT gs
    s!"wf={wf} std={std} mso={mso} vis={vis} fills={fillsOk} content={cnt} | " ++ " ".intercalate (gs.map showGM)

/-! ### oracle on real bytes -/
open Gomjml.Lexer Gomjml.Spec

def hasSub (s sub : String) : Bool := (s.splitOn sub).length > 1

/-- sentinels `S<digits>E` occurring in a text -/
def sentinels (s : String) : List Nat := Id.run do
  let cs := s.toList.toArray
  let mut out : Array Nat := #[]
  let mut i := 0
  while i < cs.size do
    if cs[i]! == 'S' then
      let mut j := i + 1
      let mut v := 0
      while j < cs.size && cs[j]!.isDigit do
        v := v * 10 + (cs[j]!.toNat - 48)
        j := j + 1
      if j > i + 1 && j < cs.size && cs[j]! == 'E' then
        out := out.push v
        i := j
    i := i + 1
  return out.toList

def toG : HTok → Option GTok
  | .open_ n _ => some (.o (outlookOnly n) n)
  | .close n => some (.c (outlookOnly n) n)
  | .void n _ => some (.v (outlookOnly n) n)
  | .text s => some (.t s)
  | .msoOpen _ => some .co
  | .msoClose => some .cc
  | .notMsoOpen _ => some .nco
  | .notMsoClose => some .ncc
  | .comment _ => none
  | .doctype => none

/-- one doctype / html / head / body skeleton, in that order -/
def skeletonVerdict (ts : Array HTok) : String := Id.run do
  let mut doctype := 0
  let mut html := 0
  let mut head := 0
  let mut body := 0
  let mut order : Array String := #[]
  for t in ts do
    match t with
    | .doctype => doctype := doctype + 1; order := order.push "doctype"
    | .open_ "html" _ => html := html + 1; order := order.push "html"
    | .open_ "head" _ => head := head + 1; order := order.push "head"
    | .close "head" => order := order.push "/head"
    | .open_ "body" _ => body := body + 1; order := order.push "body"
    | .close "body" => order := order.push "/body"
    | .close "html" => order := order.push "/html"
    | _ => pure ()
  if order.toList == ["doctype", "html", "head", "/head", "body", "/body", "/html"] then "ok"
  else s!"skeleton:{" ".intercalate order.toList}"

def showG : GTok → String
  | .o _ n => n | .c _ n => "/" ++ n | .v _ n => n ++ "!" | .co => "co" | .cc => "cc" | .nco => "nco" | .ncc => "ncc" | .t _ => "t"

/-- `oracle <hex> [full]`: verdicts of the three Spec checkers on the whole document, the skeleton clause, the sentinels
    seen by standard clients (in order) and those hidden in Outlook-only blocks, and the skeleton of the body `<div>` -/
def oracleHandle (args : List String) : String :=
  match args with
  | hx :: _ =>
    let toks := Lex.lex (unhex hx)
    let gs := toks.toList.filterMap toG
    -- a standard client ends a comment at the first "-->": an ordinary comment (or a bare "-->" in text) inside an Outlook
    -- conditional ends that conditional early and turns the rest of it into live markup
    let commentInCond := (toks.foldl (fun (acc : Bool × Bool) t =>
      let (inMso, bad) := acc
      match t with
      | .msoOpen _ => (true, bad)
      | .msoClose => (false, bad)
      | .comment _ => (inMso, bad || inMso)
      | .text s => (inMso, bad || (inMso && hasSub s "-->"))
      | _ => acc) (false, false)).2
    let std := if commentInCond then "std:comment-ends-conditional" else verdict stdStep "std:unclosed" gs true
    let mso := verdict msoStep "mso:unclosed" gs true
    -- visibility and sentinel order
    let (_, seen, hidden) := gs.foldl (fun (acc : Nat × Array Nat × Array Nat) g =>
      let (mode, seen, hidden) := acc
      match g with
      | .co => (1, seen, hidden) | .cc => (0, seen, hidden) | .nco => (2, seen, hidden) | .ncc => (0, seen, hidden)
      | .t s => if mode == 1 then (mode, seen, hidden ++ (sentinels s).toArray) else (mode, seen ++ (sentinels s).toArray, hidden)
      | _ => acc) (0, #[], #[])
    let vis := if hidden.isEmpty then "ok" else "content-in-mso"
    -- body skeleton: from the body's own <div aria-roledescription…> to </body>
    let (_, bodyToks) := toks.foldl (fun (acc : Nat × Array String) t =>
      let (st, out) := acc
      if st == 2 then acc else
      let st := if st == 0 then (match t with | .open_ "div" a => if hasSub a "aria-roledescription" then 1 else 0 | _ => 0) else st
      if st == 0 then (0, out) else
      match t with
      | .close "body" => (2, out)
      | t => match toG t with
        | some g => (st, out.push (showG g))
        | none => (st, out)) (0, #[])
    s!"std={std} mso={mso} vis={vis} skel={skeletonVerdict toks} seen={",".intercalate (seen.toList.map toString)} hidden={",".intercalate (hidden.toList.map toString)} | " ++
      " ".intercalate bodyToks.toList
  | _ => "bad-request"

end Driver.HtmlP

namespace Driver.HtmlP
open Gomjml.Lexer

/-- attributes of a start tag: `name`, `name=value`, `name="value"`, `name='value'` -/
def parseAttrs (s : String) : List (String × String) := Id.run do
  let cs := s.toList.toArray
  let mut out : Array (String × String) := #[]
  let mut i := 0
  let isSp := fun (c : Char) => c == ' ' || c == '\n' || c == '\t' || c == '\r'
  while i < cs.size do
    while i < cs.size && (isSp cs[i]! || cs[i]! == '/') do i := i + 1
    if i >= cs.size then break
    let st := i
    while i < cs.size && !isSp cs[i]! && cs[i]! != '=' do i := i + 1
    let name := String.mk (cs.extract st i).toList
    while i < cs.size && isSp cs[i]! do i := i + 1
    if i < cs.size && cs[i]! == '=' then
      i := i + 1
      while i < cs.size && isSp cs[i]! do i := i + 1
      if i < cs.size && (cs[i]! == '"' || cs[i]! == '\'') then
        let q := cs[i]!
        i := i + 1
        let vs := i
        while i < cs.size && cs[i]! != q do i := i + 1
        out := out.push (name.toLower, String.mk (cs.extract vs i).toList)
        i := i + 1
      else
        let vs := i
        while i < cs.size && !isSp cs[i]! do i := i + 1
        out := out.push (name.toLower, String.mk (cs.extract vs i).toList)
    else
      if name != "" then out := out.push (name.toLower, "")
  return out.toList

def hexS (s : String) : String :=
  let hd := fun (n : Nat) => if n < 10 then Char.ofNat (48 + n) else Char.ofNat (87 + n)
  String.mk (s.toUTF8.toList.flatMap (fun b => [hd (b.toNat / 16), hd (b.toNat % 16)]))

/-- `tags <hex>`: the token stream with parsed attributes (every string field hex):
    `o:name:k=v,k=v` `v:name:…` `c:name` `t:text` `co` `cc` `nco` `ncc` -/
def tagsHandle (args : List String) : String :=
  match args with
  | hx :: _ =>
    let toks := Lex.lex (unhex hx)
    let showA := fun (a : String) => ",".intercalate ((parseAttrs a).map (fun kv => hexS kv.1 ++ "=" ++ hexS kv.2))
    " ".intercalate (toks.toList.filterMap (fun t =>
      match t with
      | .open_ n a => some s!"o:{hexS n}:{showA a}"
      | .void n a => some s!"v:{hexS n}:{showA a}"
      | .close n => some s!"c:{hexS n}"
      | .text s => some s!"t:{hexS s}"
      | .msoOpen _ => some "co" | .msoClose => some "cc" | .notMsoOpen _ => some "nco" | .notMsoClose => some "ncc"
      | _ => none))
  | _ => "bad-request"

end Driver.HtmlP
