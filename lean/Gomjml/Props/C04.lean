import Gomjml.Core.LayoutSpec
import Gomjml.Core.LayoutCount
import Gomjml.Core.LayoutStd
/-! # C04 — content fidelity: author content appears once, in order, as authored (property theorems only)

Layout part, on the skeleton model (`t` = one content slot; the combined machine rejects `t` inside an Outlook
conditional).  The character-data / markup half of the property lives in the parser pipeline (see C18) and is judged on
the real bytes by the content matrix of the harness. -/
namespace Gomjml.Props.C04
open Gomjml.Layout Gomjml.Spec

/-- **exactly once**, for EVERY document (no side condition): the skeleton contains as many content tokens as the document
    has content slots — nothing is dropped, nothing duplicated, whatever the flags and the nesting -/
theorem C04_once (bs : List Block) : cnt (render bs) = (bs.map Block.slots).sum := content_count bs

/-- non-vacuity for `C04_once`: a document with five content slots -/
example : cnt (render [.section ⟨false, true, false, false, false, false, [.col ⟨true, [.text, .raw]⟩, .group [.col ⟨false, [.text]⟩, .raw false]]⟩,
                       .wrapper ⟨true, false, [.raw true, .sec ⟨true, false, false, true, false, false, []⟩]⟩]) = 5 := by decide

/-- **never only inside an Outlook-only comment — the full statement, for EVERY document of the layout grammar**: no content
    token sits in an Outlook conditional, whatever the wrappers contain.  No side condition. -/
theorem C04_visible_full (bs : List Block) : Visible ((render bs).map Tok.toG) := (std_spec_all bs).2

/-- the formerly failing shape: raw content between two sections is visible now -/
example : Visible ((render [.section ⟨false, false, false, false, false, false, []⟩, .raw false,
                            .section ⟨false, false, false, false, false, false, []⟩]).map Tok.toG) := by
  unfold Visible; decide

end Gomjml.Props.C04
