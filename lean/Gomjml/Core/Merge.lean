namespace Gomjml.Merge
/-! The body loop of `body.go` (blocks rendered one by one; a section may leave its Outlook comment open for a next sibling that
    continues it; marker pairs at block boundaries dropped) = MJML's merge of the blocks rendered alone — for EVERY sequence
    of well-formed blocks. -/

inductive Tok | co | cc | t (n : Nat)
deriving DecidableEq, Repr

open Tok

/-- MJML's mergeOutlookConditionnals: delete each adjacent `cc co`, single pass. -/
def merge : List Tok → List Tok
  | cc :: co :: r => merge r
  | x :: r => x :: merge r
  | [] => []

/-- no `cc co` adjacency inside -/
def Normal : List Tok → Prop
  | cc :: co :: _ => False
  | _ :: r => Normal r
  | [] => True

theorem merge_normal : ∀ xs, Normal xs → merge xs = xs
  | [], _ => rfl
  | [x], _ => by cases x <;> simp [merge]
  | x :: y :: r, h => by
    cases x <;> cases y <;> simp_all [merge, Normal] <;> exact merge_normal _ h

structure Blk where
  body : List Tok          -- solo = (if startsCO then [co] else []) ++ body ++ (if endsCC then [cc] else [])
  startsCO : Bool
  endsCC : Bool
  chain : Bool             -- non-full-width plain section at body level: may leave the comment open
  consumes : Bool          -- non-full-width section / wrapper: continues an open comment by omitting its leading `co`
  blank : Bool             -- writes nothing at all (blank mj-raw)

def Blk.solo (b : Blk) : List Tok :=
  (if b.startsCO then [co] else []) ++ b.body ++ (if b.endsCC then [cc] else [])

/-- what the code emits for `b` given the pending flag and whether the next sibling continues the comment -/
def Blk.emit (b : Blk) (pendingIn leave : Bool) : List Tok × Bool :=
  let dropHead := pendingIn && b.consumes
  ( (if b.startsCO && !dropHead then [co] else []) ++ b.body ++ (if b.endsCC && !leave then [cc] else []),
    if leave then true else if b.consumes then false else pendingIn )

def nextCons : List Blk → Bool
  | c :: _ => c.consumes
  | [] => false

/-- per-block outputs with the pending flag threaded through (`body.go`: leave = chain ∧ next sibling continues) -/
def outs : List Blk → Bool → List (List Tok)
  | [], _ => []
  | b :: rest, p => (b.emit p (b.chain && nextCons rest)).1 :: outs rest (b.emit p (b.chain && nextCons rest)).2

/-- the hold-back writer: marker pair at a block boundary dropped, empty outputs skipped -/
def join : List Tok → List (List Tok) → List Tok
  | held, [] => held
  | held, out :: rest =>
    if out = [] then join held rest
    else if held.getLast? = some cc ∧ out.head? = some co then held.dropLast ++ join out.tail rest
    else held ++ join out rest

def bodyLoop (bs : List Blk) : List Tok := join [] (outs bs false)

/-- Well-formed block descriptions (facts about the code's block kinds). -/
structure Blk.WF (b : Blk) : Prop where
  chain_ends : b.chain = true → b.endsCC = true
  cons_starts : b.consumes = true → b.startsCO = true
  blank_iff : b.blank = true ↔ b.body = []
  blank_flags : b.blank = true → b.startsCO = false ∧ b.endsCC = false ∧ b.chain = false ∧ b.consumes = false
  body_no_co_head : b.body.head? ≠ some co      -- after our own `co` comes markup, not another marker
  body_no_cc_last : b.body.getLast? ≠ some cc
  body_normal : Normal b.body

/-! ### merge lemmas -/

theorem merge_cons_ne_cc (x : Tok) (r : List Tok) (h : x ≠ cc) : merge (x :: r) = x :: merge r := by
  cases x <;> first | (exact absurd rfl h) | (cases r <;> simp [merge])

theorem normal_append_cc_co : ∀ xs ys, Normal xs → merge (xs ++ cc :: co :: ys) = xs ++ merge ys
  | [], ys, _ => by simp [merge]
  | [x], ys, _ => by
    cases x <;> simp [merge]
  | x :: y :: r, ys, h => by
    have ih := normal_append_cc_co (y :: r) ys
    cases x <;> cases y <;> simp_all [merge, Normal]

/-- no merge at the boundary when the boundary is not `cc | co` -/
theorem normal_append_noboundary : ∀ xs ys, Normal xs →
    (xs.getLast? ≠ some cc ∨ ys.head? ≠ some co) → merge (xs ++ ys) = xs ++ merge ys
  | [], ys, _, _ => by simp
  | [x], ys, _, hb => by
    cases x
    · simp [merge_cons_ne_cc]
    · cases ys with
      | nil => simp [merge]
      | cons y r =>
        cases y
        · simp at hb
        · simp [merge]
        · simp [merge]
    · simp [merge_cons_ne_cc]
  | x :: y :: r, ys, h, hb => by
    have ih := normal_append_noboundary (y :: r) ys
    have hb' : (y :: r).getLast? ≠ some cc ∨ ys.head? ≠ some co := by
      simpa [List.getLast?_cons_cons] using hb
    cases x <;> cases y <;> simp_all [merge, Normal]

/-! ### facts about a single well-formed block -/

theorem normal_append_single (xs : List Tok) (x : Tok) (h : Normal xs) (hx : x ≠ co) : Normal (xs ++ [x]) := by
  induction xs with
  | nil => cases x <;> simp [Normal]
  | cons a r ih =>
    cases r with
    | nil => cases a <;> cases x <;> simp_all [Normal]
    | cons b r' => cases a <;> cases b <;> simp_all [Normal]

theorem normal_cons_ne_cc (x : Tok) (xs : List Tok) (hx : x ≠ cc) (h : Normal xs) : Normal (x :: xs) := by
  cases x <;> first | exact absurd rfl hx | (cases xs <;> simp_all [Normal])

theorem normal_tail (x : Tok) (xs : List Tok) (h : Normal (x :: xs)) : Normal xs := by
  cases xs with
  | nil => simp [Normal]
  | cons y r => cases x <;> cases y <;> simp_all [Normal]

theorem normal_dropLast : ∀ (xs : List Tok), Normal xs → Normal xs.dropLast
  | [], _ => by simp [Normal]
  | [x], _ => by simp [Normal]
  | [x, y], _ => by cases x <;> simp [Normal, List.dropLast]
  | x :: y :: z :: r, h => by
    have ih := normal_dropLast (y :: z :: r)
    cases x <;> cases y <;> simp_all [Normal, List.dropLast]

/-- the tokens of a non-blank block between its optional markers, with the leading marker kept or dropped -/
def Blk.core (b : Blk) (keepHead : Bool) : List Tok := (if b.startsCO && keepHead then [co] else []) ++ b.body

theorem core_normal (b : Blk) (hw : b.WF) (k : Bool) : Normal (b.core k) := by
  unfold Blk.core; split
  · exact normal_cons_ne_cc co _ (by decide) hw.body_normal
  · simpa using hw.body_normal

theorem body_ne (b : Blk) (hw : b.WF) (hb : b.blank = false) : b.body ≠ [] := by
  intro h; have := hw.blank_iff.mpr h; simp [hb] at this

theorem core_last (b : Blk) (hw : b.WF) (hb : b.blank = false) (k : Bool) : (b.core k).getLast? ≠ some cc := by
  have hne := body_ne b hw hb
  have hl := hw.body_no_cc_last
  unfold Blk.core
  rw [List.getLast?_append]
  cases hbl : b.body.getLast? with
  | none => simp [List.getLast?_eq_none_iff] at hbl; exact absurd hbl hne
  | some x => simp_all

theorem eq_dropLast_of_getLast (l : List Tok) (x : Tok) (h : l.getLast? = some x) : l = l.dropLast ++ [x] := by
  have hne : l ≠ [] := by intro hn; simp [hn] at h
  have := List.dropLast_concat_getLast hne
  rw [List.getLast?_eq_some_getLast hne] at h
  simp only [Option.some.injEq] at h
  rw [← h]; exact this.symm

theorem eq_cons_of_head (l : List Tok) (x : Tok) (h : l.head? = some x) : l = x :: l.tail := by
  cases l with
  | nil => simp at h
  | cons a r => simp at h; simp [h]

/-- the emitted output of a non-blank block, and what is still owed (`cc`) when it leaves the comment open -/
theorem emit_shape (b : Blk) (hw : b.WF) (p leave : Bool) (hl : leave = true → b.chain = true) :
    (b.emit p leave).1 ++ (if leave then [cc] else []) = b.core (!(p && b.consumes)) ++ (if b.endsCC then [cc] else []) := by
  unfold Blk.emit Blk.core
  cases hlv : leave
  · simp
  · have hc := hl hlv
    have he := hw.chain_ends hc
    simp [he]

/-- **Lifting, generalised over the writer's state**: `held` is what the hold-back writer still holds, `p` whether the comment
    is open. -/
theorem join_outs : ∀ (bs : List Blk) (p : Bool) (held : List Tok),
    (∀ b ∈ bs, b.WF) → Normal held → (p = true → nextCons bs = true) →
    join held (outs bs p) = merge (held ++ (if p then [cc] else []) ++ bs.flatMap Blk.solo)
  | [], p, held, _, hn, hp => by
    cases p
    · simp [outs, join, merge_normal held hn]
    · simp [nextCons] at hp
  | b :: rest, p, held, hw, hn, hp => by
    have hwb : b.WF := hw b (List.mem_cons_self ..)
    have hwr : ∀ x ∈ rest, x.WF := fun x hx => hw x (List.mem_cons_of_mem _ hx)
    simp only [outs, List.flatMap_cons]
    cases hbl : b.blank
    · -- a block that writes something
      have hleave : (b.chain && nextCons rest) = true → b.chain = true := by intro h; simp_all
      have hshape := emit_shape b hwb p (b.chain && nextCons rest) hleave
      -- the next state: pending iff the block leaves the comment open
      have hp2 : (b.emit p (b.chain && nextCons rest)).2 = (b.chain && nextCons rest) := by
        unfold Blk.emit
        cases hlv : (b.chain && nextCons rest)
        · simp only [Bool.false_eq_true, if_false]
          cases hc : b.consumes
          · cases hpp : p
            · rfl
            · have := hp hpp; simp [nextCons, hc] at this
          · rfl
        · simp
      have hnext : (b.emit p (b.chain && nextCons rest)).2 = true → nextCons rest = true := by
        rw [hp2]; intro h; simp_all
      have hout_ne : (b.emit p (b.chain && nextCons rest)).1 ≠ [] := by
        unfold Blk.emit
        have := body_ne b hwb hbl
        intro h
        simp only [List.append_eq_nil_iff] at h
        exact this h.1.2
      -- the output is Normal
      have hout_n : Normal (b.emit p (b.chain && nextCons rest)).1 := by
        unfold Blk.emit
        have hc := core_normal b hwb (!(p && b.consumes))
        unfold Blk.core at hc
        split
        · exact normal_append_single _ _ hc (by decide)
        · simpa using hc
      have ih := fun held' (hn' : Normal held') =>
        join_outs rest (b.emit p (b.chain && nextCons rest)).2 held' hwr hn' hnext
      unfold join
      simp only [hout_ne, if_false]
      rw [hp2] at ih
      by_cases hm : held.getLast? = some cc ∧ (b.emit p (b.chain && nextCons rest)).1.head? = some co
      · -- marker pair at the boundary: dropped by the writer, merged by MJML
        simp only [hm, and_self, if_true]
        have hpf : p = false := by
          cases hpp : p
          · rfl
          · exfalso
            have hc : b.consumes = true := by simpa [nextCons] using hp hpp
            have hh := hm.2
            unfold Blk.emit at hh
            simp only [hpp, hc, Bool.and_self, Bool.not_true, Bool.and_false, Bool.false_eq_true, if_false, List.nil_append] at hh
            have hb0 := hwb.body_no_co_head
            have hne := body_ne b hwb hbl
            cases hbd : b.body with
            | nil => exact hne hbd
            | cons x r => simp [hbd] at hh hb0; exact hb0 hh
        subst hpf
        have h1 := eq_dropLast_of_getLast held cc hm.1
        have h2 := eq_cons_of_head _ co hm.2
        have hs : b.startsCO = true := by
          have hh := hm.2
          unfold Blk.emit at hh
          cases hsc : b.startsCO
          · simp only [hsc, Bool.false_and, Bool.false_eq_true, if_false, List.nil_append] at hh
            have hb0 := hwb.body_no_co_head
            have hne := body_ne b hwb hbl
            cases hbd : b.body with
            | nil => exact absurd hbd hne
            | cons x r => simp [hbd] at hh hb0; exact absurd hh hb0
          · rfl
        rw [hp2, ih _ (normal_tail co _ (h2 ▸ hout_n))]
        -- right-hand side
        have hsolo : b.solo = co :: ((b.emit false (b.chain && nextCons rest)).1.tail ++ (if (b.chain && nextCons rest) then [cc] else [])) := by
          have := hshape
          simp only [Bool.false_and, Bool.not_false] at this
          unfold Blk.core at this
          simp only [hs, Bool.and_self, if_true] at this
          unfold Blk.solo
          simp only [hs, if_true]
          rw [h2] at this
          simp only [List.cons_append, List.singleton_append, List.cons.injEq, true_and, List.nil_append] at this ⊢
          rw [← this]
        rw [hsolo]
        conv => rhs; rw [h1]
        simp only [Bool.false_eq_true, if_false, List.append_nil, List.append_assoc, List.singleton_append, List.cons_append, List.nil_append]
        rw [normal_append_cc_co _ _ (normal_dropLast held hn)]
      · simp only [hm, if_false]
        rw [hp2, ih _ hout_n]
        cases hpp : p
        · -- no comment pending: the boundary is not `cc | co`
          have hsolo : (b.emit false (b.chain && nextCons rest)).1 ++ (if (b.chain && nextCons rest) then [cc] else []) = b.solo := by
            have := emit_shape b hwb false (b.chain && nextCons rest) hleave
            rw [this]; unfold Blk.core Blk.solo; simp
          subst hpp
          simp only [Bool.false_eq_true, if_false, List.append_nil]
          rw [← List.append_assoc _ _ (rest.flatMap Blk.solo), hsolo]
          have hb' : held.getLast? ≠ some cc ∨ (b.solo ++ rest.flatMap Blk.solo).head? ≠ some co := by
            by_cases h1 : held.getLast? = some cc
            · right
              intro h2
              apply hm
              refine ⟨h1, ?_⟩
              -- the output starts like the solo fragment
              have hne := body_ne b hwb hbl
              unfold Blk.solo at h2
              unfold Blk.emit
              cases hsc : b.startsCO
              · simp only [hsc, Bool.false_eq_true, if_false, List.nil_append] at h2
                have hb0 := hwb.body_no_co_head
                cases hbd : b.body with
                | nil => exact absurd hbd hne
                | cons x r => simp [hbd] at h2 hb0; exact absurd h2 hb0
              · simp
            · exact Or.inl h1
          rw [List.append_assoc, normal_append_noboundary _ _ hn hb']
        · -- the comment is open: this block continues it (its `co` is omitted), MJML merges `cc co`
          have hc : b.consumes = true := by simpa [nextCons] using hp hpp
          have hs := hwb.cons_starts hc
          have hsolo : b.solo = co :: ((b.emit true (b.chain && nextCons rest)).1 ++ (if (b.chain && nextCons rest) then [cc] else [])) := by
            have := emit_shape b hwb true (b.chain && nextCons rest) hleave
            rw [this]; unfold Blk.core Blk.solo; simp [hc, hs]
          subst hpp
          rw [hsolo]
          simp only [if_true, List.append_assoc, List.singleton_append, List.cons_append, List.nil_append]
          rw [normal_append_cc_co _ _ hn]
    · -- a blank block writes nothing and changes nothing
      have hf := hwb.blank_flags hbl
      have hbody : b.body = [] := hwb.blank_iff.mp hbl
      have hpf : p = false := by
        cases hpp : p
        · rfl
        · have := hp hpp; simp [nextCons, hf.2.2.2] at this
      subst hpf
      have hout : (b.emit false (b.chain && nextCons rest)).1 = [] := by
        unfold Blk.emit; simp [hf.1, hf.2.1, hbody]
      have hst : (b.emit false (b.chain && nextCons rest)).2 = false := by
        unfold Blk.emit; simp [hf.2.2.1, hf.2.2.2]
      have hsolo : b.solo = [] := by unfold Blk.solo; simp [hf.1, hf.2.1, hbody]
      unfold join
      simp only [hout, if_true, hst, hsolo, List.nil_append]
      exact join_outs rest false held hwr hn (by simp)

/-- **C01 lifting**: for every sequence of well-formed blocks, what the body loop writes is MJML's merge of the blocks rendered
    alone. -/
theorem C01_lifting (bs : List Blk) (hw : ∀ b ∈ bs, b.WF) : bodyLoop bs = merge (bs.flatMap Blk.solo) := by
  unfold bodyLoop
  have := join_outs bs false [] hw (by simp [Normal]) (by simp)
  simpa using this

end Gomjml.Merge
