import Gomjml.Core.Layout
/-! Content accounting for the layout model: the number of content tokens `t` in the rendered skeleton equals the number
    of content slots of the document — nothing is dropped and nothing is duplicated (the "exactly once" half of C04 at the
    level of the skeleton; order is structural: every emitter concatenates its children in document order). -/
namespace Gomjml.Layout
open Tok Tag

def cnt (ts : List Tok) : Nat := ts.count Tok.t

@[simp] theorem cnt_append (a b : List Tok) : cnt (a ++ b) = cnt a + cnt b := by simp [cnt, List.count_append]
@[simp] theorem cnt_nil : cnt [] = 0 := rfl
@[simp] theorem cnt_cons_t (r : List Tok) : cnt (Tok.t :: r) = cnt r + 1 := by simp [cnt]
@[simp] theorem cnt_cons_o (n : Tag) (r : List Tok) : cnt (Tok.o n :: r) = cnt r := by simp [cnt]
@[simp] theorem cnt_cons_c (n : Tag) (r : List Tok) : cnt (Tok.c n :: r) = cnt r := by simp [cnt]
@[simp] theorem cnt_cons_v (n : Tag) (r : List Tok) : cnt (Tok.v n :: r) = cnt r := by simp [cnt]
@[simp] theorem cnt_cons_co (r : List Tok) : cnt (Tok.co :: r) = cnt r := by simp [cnt]
@[simp] theorem cnt_cons_cc (r : List Tok) : cnt (Tok.cc :: r) = cnt r := by simp [cnt]
@[simp] theorem cnt_ite (b : Bool) (x y : List Tok) : cnt (if b then x else y) = if b then cnt x else cnt y := by
  cases b <;> simp

/-! slots -/
def Leaf.slots : Leaf → Nat := fun _ => 1
def rawSlots (blank : Bool) : Nat := if blank then 0 else 1
def Column.slots (col : Column) : Nat := col.leaves.length
def GChild.slots : GChild → Nat
  | .col cl => cl.slots
  | .raw b => rawSlots b
def gSlots (g : List GChild) : Nat := (g.map GChild.slots).sum
def SChild.slots : SChild → Nat
  | .col cl => cl.slots
  | .group g => gSlots g
  | .raw b => rawSlots b
def kSlots (ks : List SChild) : Nat := (ks.map SChild.slots).sum
def Section.slots (s : Section) : Nat := if s.kids.isEmpty then (if s.txt then 1 else 0) else kSlots s.kids
def WChild.slots : WChild → Nat
  | .sec s => s.slots
  | .raw b => rawSlots b
def Block.slots : Block → Nat
  | .section s => s.slots
  | .wrapper w => (w.kids.map WChild.slots).sum
  | .hero ls => ls.length
  | .raw b => rawSlots b

theorem cnt_leaf (l : Leaf) : cnt l.toks = 1 := by cases l <;> simp [Leaf.toks, textRow, rawLeaf]

theorem cnt_leaves (ls : List Leaf) : cnt (ls.flatMap Leaf.toks) = ls.length := by
  induction ls with
  | nil => rfl
  | cons l r ih => simp [List.flatMap_cons, cnt_leaf, ih]; omega

theorem cnt_raw (b : Bool) : cnt (rawToks b) = rawSlots b := by
  cases b <;> simp [rawToks, rawSlots, rawLeaf]

theorem cnt_column (cl : Column) : cnt cl.toks = cl.slots := by
  simp only [Column.toks, colPre, colPost, cnt_append, cnt_leaves, Column.slots]
  cases cl.gutter <;> simp

theorem cnt_gKids : ∀ (first : Bool) (rem : Nat) (ks : List GChild), cnt (gKids first rem ks) = gSlots ks
  | _, _, [] => rfl
  | first, rem, .raw b :: r => by
    simp [gKids, cnt_raw, gSlots, GChild.slots, cnt_gKids first rem r]
  | first, rem, .col cl :: r => by
    have ih := cnt_gKids false (rem - 1) r
    simp only [gKids, cnt_append, cnt_column, ih, gSlots, List.map_cons, List.sum_cons, GChild.slots]
    cases first <;> cases (rem == 1) <;> simp <;> rfl

theorem cnt_group (g : List GChild) : cnt (groupToks g) = gSlots g := by
  simp [groupToks, cnt_gKids]

theorem cnt_sharedKids : ∀ (opened : Bool) (ks : List SChild), cnt (sharedKids opened ks) = kSlots ks
  | opened, [] => by cases opened <;> simp [sharedKids, kSlots]
  | opened, .raw b :: r => by simp [sharedKids, cnt_raw, kSlots, SChild.slots, cnt_sharedKids opened r]
  | opened, .group g :: r => by simp [sharedKids, cnt_group, kSlots, SChild.slots, cnt_sharedKids opened r]
  | opened, .col cl :: r => by
    have ih := cnt_sharedKids true r
    simp only [sharedKids, cnt_append, cnt_column, ih, kSlots, List.map_cons, List.sum_cons, SChild.slots]
    cases opened <;> simp <;> rfl

theorem cnt_soloKids (split : Bool) : ∀ (ks : List SChild), cnt (soloKids split ks) = kSlots ks
  | [] => rfl
  | .raw b :: r => by simp [soloKids, cnt_raw, kSlots, SChild.slots, cnt_soloKids split r]
  | .group g :: r => by simp [soloKids, cnt_group, kSlots, SChild.slots, cnt_soloKids split r]
  | .col cl :: r => by
    have ih := cnt_soloKids split r
    simp only [soloKids, cnt_append, ih, kSlots, List.map_cons, List.sum_cons, SChild.slots]
    cases split <;> simp [cnt_column] <;> rfl

theorem cnt_colsToks (split txt : Bool) (ks : List SChild) :
    cnt (colsToks split txt ks) = if ks.isEmpty then (if txt then 1 else 0) else kSlots ks := by
  unfold colsToks
  cases hk : ks.isEmpty
  · simp only [Bool.false_eq_true, if_false]
    split
    · split
      · simp [cnt_soloKids]
      · exact cnt_sharedKids false ks
    · exact cnt_soloKids split ks
  · cases txt <;> simp

theorem cnt_inner (bg split txt : Bool) (ks : List SChild) :
    cnt (innerToks bg split txt ks) = if ks.isEmpty then (if txt then 1 else 0) else kSlots ks := by
  simp only [innerToks, innerPre, innerPost, cnt_append, cnt_colsToks]
  cases bg <;> simp

theorem cnt_secPre (fw bg single pending : Bool) : cnt (secPre fw bg single pending) = 0 := by
  cases fw <;> cases bg <;> cases single <;> cases pending <;> rfl
theorem cnt_secPost (fw bg more : Bool) : cnt (secPost fw bg more) = 0 := by
  cases fw <;> cases bg <;> cases more <;> rfl

theorem cnt_section (s : Section) (p more : Bool) : cnt (s.emit p more).1 = s.slots := by
  simp [Section.emit, emitToks, cnt_secPre, cnt_secPost, cnt_inner, Section.slots]

theorem cnt_emitIW (fw bg wmb single txt : Bool) (ks : List SChild) :
    cnt (emitIW fw bg wmb single txt ks) = if ks.isEmpty then (if txt then 1 else 0) else kSlots ks := by
  simp only [emitIW, cnt_append, cnt_inner]
  cases fw <;> cases bg <;> cases wmb <;> simp

theorem cnt_rowClose (d : Depth) : cnt (rowClose d) = 0 := by cases d <;> rfl
theorem cnt_rowOpen (b : Bool) : cnt (rowOpen b) = 0 := by cases b <;> rfl

theorem cnt_wKids (fs dl wb : Bool) : ∀ (d : Depth) (p : Prev) (ks : List WChild),
    cnt (wKids fs dl wb d p ks).1 = (ks.map WChild.slots).sum
  | _, _, [] => rfl
  | d, p, .raw b :: r => by
    have ih := cnt_wKids fs dl wb d .raw r
    simp only [wKids, cnt_append, ih, List.map_cons, List.sum_cons, WChild.slots]
    by_cases hd : d = .none
    · simp [hd, cnt_raw]
    · simp [hd, cnt_raw, cnt_rowClose, cnt_rowOpen]
  | d, p, .sec s :: r => by
    cases p with
    | none =>
      have ih := cnt_wKids fs dl wb d (.sec s.fw) r
      simp only [wKids, cnt_append, ih, cnt_emitIW, List.map_cons, List.sum_cons, WChild.slots, Section.slots, cnt_nil]
      omega
    | raw =>
      have ih := cnt_wKids fs dl wb d (.sec s.fw) r
      simp only [wKids, cnt_append, ih, cnt_emitIW, List.map_cons, List.sum_cons, WChild.slots, Section.slots, cnt_nil]
      omega
    | sec pfw =>
      have ih := cnt_wKids fs dl wb (Depth.ofSec (!pfw || fs)) (.sec s.fw) r
      simp only [wKids, cnt_append, ih, cnt_emitIW, List.map_cons, List.sum_cons, WChild.slots, Section.slots, cnt_nil,
        cnt_rowClose, cnt_rowOpen, cnt_cons_co, cnt_cons_cc]
      omega

theorem cnt_openToks (d : Depth) : cnt d.openToks = 0 := by cases d <;> rfl
theorem cnt_closeToks (d : Depth) : cnt d.closeToks = 0 := by
  cases d <;> simp [Depth.closeToks, cnt_rowClose]

theorem cnt_wrapper (w : Wrapper) (p : Bool) : cnt (w.toks p) = (w.kids.map WChild.slots).sum := by
  simp only [Wrapper.toks, Wrapper.mid, wPre, wPost, cnt_append, cnt_wKids, cnt_openToks, cnt_closeToks]
  cases w.fw <;> cases p <;> simp

theorem cnt_hero (ls : List Leaf) : cnt (heroToks ls) = ls.length := by
  simp [heroToks, heroPre, heroPost, cnt_leaves]

theorem cnt_blockOuts : ∀ (bs : List Block) (p : Bool), ((blockOuts bs p).map cnt).sum = (bs.map Block.slots).sum
  | [], _ => rfl
  | .section s :: rest, p => by
    simp [blockOuts, cnt_section, cnt_blockOuts rest, Block.slots]
  | .wrapper w :: rest, p => by
    simp [blockOuts, cnt_wrapper, cnt_blockOuts rest, Block.slots]
  | .hero ls :: rest, p => by
    simp [blockOuts, cnt_hero, cnt_blockOuts rest, Block.slots]
  | .raw b :: rest, p => by
    simp only [blockOuts, List.map_cons, List.sum_cons, cnt_blockOuts rest p, Block.slots, rawSlots]
    cases b <;> simp

theorem cnt_dropLast_cc (l : List Tok) (h : l.getLast? = some Tok.cc) : cnt l.dropLast = cnt l := by
  have := eq_dropLast_of_getLast l Tok.cc h
  have h2 : cnt l = cnt (l.dropLast ++ [Tok.cc]) := by rw [← this]
  rw [h2, cnt_append]; simp [cnt]

theorem cnt_tail_co (l : List Tok) (h : l.head? = some Tok.co) : cnt l.tail = cnt l := by
  have := eq_cons_of_head l Tok.co h
  have h2 : cnt l = cnt (Tok.co :: l.tail) := by rw [← this]
  rw [h2]; simp

/-- the boundary merge drops markers only: content tokens are all kept -/
theorem cnt_join : ∀ (outs : List (List Tok)) (held : List Tok), cnt (join held outs) = cnt held + (outs.map cnt).sum
  | [], held => by simp [join]
  | out :: rest, held => by
    unfold join
    by_cases he : out = []
    · simp [he, cnt_join rest held]
    · simp only [he, if_false]
      by_cases hm : held.getLast? = some Tok.cc ∧ out.head? = some Tok.co
      · simp only [hm, and_self, if_true, cnt_append, cnt_join rest out.tail, cnt_dropLast_cc held hm.1, cnt_tail_co out hm.2,
          List.map_cons, List.sum_cons]
      · simp only [hm, if_false, cnt_append, cnt_join rest out, List.map_cons, List.sum_cons]

theorem cnt_bodyLoop (bs : List Block) (p : Bool) : cnt (bodyLoop bs p) = (bs.map Block.slots).sum := by
  simp [bodyLoop, cnt_join, cnt_blockOuts]

/-- **every content slot of the document is written exactly once**: as many content tokens as slots -/
theorem content_count (bs : List Block) : cnt (render bs) = (bs.map Block.slots).sum := by
  simp [render, cnt_bodyLoop]

end Gomjml.Layout
