package main

import (
	"fmt"
	"regexp"
	"sort"
	"strings"

	"github.com/preslavrachev/gomjml/mjml"
)

// ===== leaf sweep (C02 / C03): every content component in every legal context, with its children written in every
// order MJML allows (mj-raw interleaved), judged on the real bytes by the Lean Spec checkers ==============================
//
// The Layout model carries leaves as opaque, well-formed fragments; that hypothesis is what this sweep tests.

type leafDoc struct {
	desc string
	src  string
}

func leafVariants() []leafDoc {
	raw := `<mj-raw><i>RAWX</i></mj-raw>`
	// children lists of the container leaves: 0–3 children, an mj-raw before the first / between / after the last
	seqs := func(child func(i int) string) []string {
		var out []string
		for n := 0; n <= 3; n++ {
			var kids []string
			for i := 0; i < n; i++ {
				kids = append(kids, child(i))
			}
			out = append(out, strings.Join(kids, ""))
			for pos := 0; pos <= n; pos++ {
				var k2 []string
				k2 = append(k2, kids[:pos]...)
				k2 = append(k2, raw)
				k2 = append(k2, kids[pos:]...)
				out = append(out, strings.Join(k2, ""))
			}
		}
		return out
	}
	type leaf struct {
		name, open, close string
		kids              []string
	}
	var leaves []leaf
	for _, at := range []string{"", ` hamburger="hamburger"`, ` align="left" base-url="http://x"`} {
		leaves = append(leaves, leaf{"navbar" + at, "<mj-navbar" + at + ">", "</mj-navbar>", seqs(func(i int) string {
			return fmt.Sprintf(`<mj-navbar-link href="/l%d" css-class="nl%d">N%d</mj-navbar-link>`, i, i, i)
		})})
	}
	for _, at := range []string{"", ` mode="vertical"`, ` align="right" icon-size="30px"`} {
		leaves = append(leaves, leaf{"social" + at, "<mj-social" + at + ">", "</mj-social>", seqs(func(i int) string {
			return fmt.Sprintf(`<mj-social-element name="%s" href="http://x/s%d">S%d</mj-social-element>`, []string{"facebook", "twitter", "github"}[i%3], i, i)
		})})
	}
	// elements that render no icon (no src, unknown or missing network name), alone and mixed with ordinary ones; elements with a
	// custom src; links without href
	for _, at := range []string{"", ` mode="vertical"`} {
		leaves = append(leaves, leaf{"social-iconless" + at, "<mj-social" + at + ">", "</mj-social>", seqs(func(i int) string {
			return fmt.Sprintf(`<mj-social-element%s href="http://x/s%d">S%d</mj-social-element>`, []string{` name="intranet"`, ``, ` name=""`}[i%3], i, i)
		})})
		leaves = append(leaves, leaf{"social-mixed" + at, "<mj-social" + at + ">", "</mj-social>", seqs(func(i int) string {
			return fmt.Sprintf(`<mj-social-element%s>S%d</mj-social-element>`, []string{` name="intranet" href="u"`, ` name="facebook" href="u"`, ` src="http://x/i.png"`}[i%3], i)
		})})
	}
	leaves = append(leaves, leaf{"navbar-nohref", "<mj-navbar>", "</mj-navbar>", seqs(func(i int) string {
		return fmt.Sprintf(`<mj-navbar-link%s>N%d</mj-navbar-link>`, []string{``, ` href=""`, ` href="/x" target="_self" rel="nofollow"`}[i%3], i)
	})})
	leaves = append(leaves, leaf{"carousel-mixed", "<mj-carousel>", "</mj-carousel>", seqs(func(i int) string {
		return fmt.Sprintf(`<mj-carousel-image%s/>`, []string{` src="http://x/c.png" href="u"`, ` src="http://x/d.png" thumbnails-src="http://x/t.png"`, ` src="http://x/e.png" title="t" alt=""`}[i%3])
	})})
	for _, at := range []string{"", ` icon-position="left"`, ` border="none"`} {
		leaves = append(leaves, leaf{"accordion" + at, "<mj-accordion" + at + ">", "</mj-accordion>", seqs(func(i int) string {
			switch i % 3 {
			case 1:
				return fmt.Sprintf(`<mj-accordion-element><mj-accordion-title>T%d</mj-accordion-title></mj-accordion-element>`, i)
			case 2:
				return fmt.Sprintf(`<mj-accordion-element><mj-accordion-text>X%d</mj-accordion-text></mj-accordion-element>`, i)
			}
			return fmt.Sprintf(`<mj-accordion-element><mj-accordion-title>T%d</mj-accordion-title><mj-accordion-text>X%d</mj-accordion-text></mj-accordion-element>`, i, i)
		})})
	}
	for _, at := range []string{"", ` thumbnails="hidden"`, ` align="left" border-radius="4px"`} {
		leaves = append(leaves, leaf{"carousel" + at, "<mj-carousel" + at + ">", "</mj-carousel>", seqs(func(i int) string {
			return fmt.Sprintf(`<mj-carousel-image src="http://x/c%d.png" alt="c%d"/>`, i, i)
		})})
	}
	simple := []string{
		`<mj-text>Plain</mj-text>`, `<mj-text><p>P</p><br/><img src="i.png"><hr>tail</mj-text>`, `<mj-text align="right">R</mj-text>`, `<mj-text height="40px">H</mj-text>`,
		`<mj-button href="u">B</mj-button>`, `<mj-button>nolink</mj-button>`, `<mj-button href="u" width="200px" align="left">W</mj-button>`,
		`<mj-image src="i.png"/>`, `<mj-image src="i.png" href="u"/>`, `<mj-image src="i.png" href="u" fluid-on-mobile="true" srcset="a 1x" usemap="#m"/>`,
		`<mj-divider/>`, `<mj-divider width="50%" align="left"/>`, `<mj-spacer/>`, `<mj-spacer height="10px" container-background-color="#eee"/>`,
		`<mj-table><tr><td>c</td></tr></mj-table>`, `<mj-table></mj-table>`, `<mj-raw><p>rawp</p></mj-raw>`, `<mj-raw></mj-raw>`,
		// author HTML of every shape inside the components that re-serialise it: elements without any content (written with an end
		// tag or self-closed), with attributes only, with white space only, nested empties, void elements written both ways
		`<mj-table><tr><td></td><td>b</td></tr><tr></tr><tr><td/><th></th><td class="x" style="top:0"></td><td> </td></tr><tbody/><tfoot></tfoot></mj-table>`,
		`<mj-table><tr><td><span></span><b/><i> </i><a href="u"></a><br><br/><img src="i.png"><img src="j.png"/></td></tr><colgroup><col><col/></colgroup></mj-table>`,
		`<mj-text><p></p><span/><div><b></b></div><ul><li></li><li/></ul><br><hr/>x</mj-text>`,
		`<mj-button href="u"><b></b><span/><i> </i></mj-button>`, `<mj-button href="u"></mj-button>`, `<mj-text></mj-text>`, `<mj-text> </mj-text>`,
		`<mj-accordion><mj-accordion-element><mj-accordion-title><b></b><i/></mj-accordion-title><mj-accordion-text><p></p><span/></mj-accordion-text></mj-accordion-element></mj-accordion>`,
		`<mj-navbar><mj-navbar-link href="/a"><b></b></mj-navbar-link><mj-navbar-link href="/b"></mj-navbar-link></mj-navbar>`,
		`<mj-social><mj-social-element name="facebook" href="h"><b></b><i/></mj-social-element><mj-social-element name="twitter" href="t"></mj-social-element></mj-social>`,
	}
	for _, s := range simple {
		leaves = append(leaves, leaf{"simple", "", "", []string{s}})
	}
	contexts := []struct{ name, pre, post string }{
		{"column", `<mj-section><mj-column>`, `</mj-column></mj-section>`},
		{"two-columns", `<mj-section><mj-column><mj-text>a</mj-text></mj-column><mj-column>`, `</mj-column></mj-section>`},
		{"group", `<mj-section><mj-group><mj-column>`, `</mj-column><mj-column><mj-text>b</mj-text></mj-column></mj-group></mj-section>`},
		{"wrapper", `<mj-wrapper><mj-section><mj-column>`, `</mj-column></mj-section></mj-wrapper>`},
		{"hero", `<mj-hero>`, `</mj-hero>`},
		{"padded-column", `<mj-section><mj-column padding="10px" border="1px solid #000">`, `</mj-column></mj-section>`},
		// a hero is a legal child of a wrapper too: alone, behind and in front of a section, in a full-width wrapper
		{"hero-in-wrapper", `<mj-wrapper><mj-hero>`, `</mj-hero></mj-wrapper>`},
		{"hero-in-fw-wrapper", `<mj-wrapper full-width="full-width" background-color="#eeeeee"><mj-section><mj-column><mj-text>s</mj-text></mj-column></mj-section><mj-hero>`, `</mj-hero></mj-wrapper>`},
		{"hero-then-section-in-wrapper", `<mj-wrapper padding="10px 30px"><mj-hero mode="fixed-height" height="300px" background-url="http://x/h.png">`, `</mj-hero><mj-section><mj-column><mj-text>s</mj-text></mj-column></mj-section></mj-wrapper>`},
		{"group-in-wrapper", `<mj-wrapper><mj-section><mj-group><mj-column><mj-text>g1</mj-text></mj-column><mj-column>`, `</mj-column></mj-group></mj-section></mj-wrapper>`},
	}
	var out []leafDoc
	out = append(out, attrSweepDocs()...)
	// raw content written by an author who knows about conditional comments, next to blocks that write their own: a not-Outlook
	// block, an Outlook-only block, both, HTML void elements without "/", at every position of the body and of a column
	{
		raws := []string{
			`<mj-raw><!--[if !mso]><!--><p>not outlook</p><!--<![endif]--></mj-raw>`,
			`<mj-raw><!--[if mso]><p>outlook</p><![endif]--></mj-raw>`,
			`<mj-raw><!--[if mso | IE]><p>outlook</p><![endif]--><!--[if !mso]><!--><p>others</p><!--<![endif]--></mj-raw>`,
			`<mj-raw><p>a<br>b</p><img src="i.png"><hr></mj-raw>`,
			`<mj-raw><meta name="x" content="y"></mj-raw>`,
			`<mj-raw><!-- plain comment --></mj-raw>`,
		}
		// containers whose only content is text or a comment (no component children), at body level and inside a wrapper
		for ci, content := range []string{`<!-- note -->`, `plain text`, `<!-- a -->text<!-- b -->`, ` `, `<!-- it's -->`} {
			for ti, tmpl := range []string{`<mj-section>%s</mj-section>`, `<mj-wrapper><mj-section>%s</mj-section></mj-wrapper>`, `<mj-wrapper>%s</mj-wrapper>`,
				`<mj-section><mj-column>%s</mj-column></mj-section>`, `<mj-section><mj-group>%s</mj-group></mj-section>`, `<mj-hero>%s</mj-hero>`,
				`<mj-wrapper><mj-section><mj-column><mj-text>a</mj-text></mj-column></mj-section><mj-section>%s</mj-section></mj-wrapper>`,
				`<mj-section><mj-column><mj-text>a</mj-text></mj-column>%s</mj-section>`, `<mj-wrapper full-width="full-width"><mj-section full-width="full-width">%s</mj-section></mj-wrapper>`} {
				out = append(out, leafDoc{desc: fmt.Sprintf("textonly/%d-%d", ti, ci), src: "<mjml><mj-body>" + fmt.Sprintf(tmpl, content) + "</mj-body></mjml>"})
			}
		}
		sec := `<mj-section><mj-column><mj-text>T</mj-text></mj-column></mj-section>`
		blocks := []string{sec, `<mj-wrapper>` + sec + `</mj-wrapper>`, `<mj-hero><mj-text>H</mj-text></mj-hero>`,
			`<mj-section background-url="http://x/b.png"><mj-column><mj-text>B</mj-text></mj-column></mj-section>`, `<mj-section full-width="full-width"><mj-column><mj-text>F</mj-text></mj-column></mj-section>`}
		for ri, r := range raws {
			for bi, b := range blocks {
				for pi, body := range []string{r + b, b + r, b + r + b, r + r + b, b + r + r} {
					out = append(out, leafDoc{desc: fmt.Sprintf("rawcond/body/%d-%d-%d", ri, bi, pi), src: "<mjml><mj-body>" + body + "</mj-body></mjml>"})
				}
			}
			out = append(out, leafDoc{desc: fmt.Sprintf("rawcond/column/%d", ri), src: "<mjml><mj-body><mj-section><mj-column>" + r + "<mj-text>T</mj-text>" + r + "</mj-column><mj-column>" + r + "</mj-column></mj-section></mj-body></mjml>"})
			out = append(out, leafDoc{desc: fmt.Sprintf("rawcond/section/%d", ri), src: "<mjml><mj-body><mj-section>" + r + "<mj-column><mj-text>T</mj-text></mj-column>" + r + "</mj-section></mj-body></mjml>"})
			out = append(out, leafDoc{desc: fmt.Sprintf("rawcond/wrapper/%d", ri), src: "<mjml><mj-body><mj-wrapper>" + r + sec + r + sec + "</mj-wrapper></mj-body></mjml>"})
			out = append(out, leafDoc{desc: fmt.Sprintf("rawcond/head/%d", ri), src: "<mjml><mj-head>" + r + "</mj-head><mj-body>" + sec + "</mj-body></mjml>"})
		}
	}
	for _, c := range contexts {
		for _, l := range leaves {
			for k, kids := range l.kids {
				body := l.open + kids + l.close
				out = append(out, leafDoc{desc: fmt.Sprintf("%s/%s/%d", c.name, l.name, k), src: "<mjml><mj-body>" + c.pre + body + c.post + "</mj-body></mjml>"})
				// the same with a css-class on the component and on every sub-element, and an inline rule that targets it: markup
				// paths chosen by "has a class with inlined declarations" (in a column and in a group only)
				if c.name == "column" || c.name == "group" {
					classed := classedTag.ReplaceAllStringFunc(body, func(m string) string {
						if strings.Contains(m, "css-class") {
							return m
						}
						if strings.HasSuffix(m, "/>") {
							return m[:len(m)-2] + ` css-class="ka"/>`
						}
						return m[:len(m)-1] + ` css-class="ka">`
					})
					out = append(out, leafDoc{desc: fmt.Sprintf("%s+inline-class/%s/%d", c.name, l.name, k),
						src: `<mjml><mj-head><mj-style inline="inline">.ka{color:#111111;margin:0}</mj-style></mj-head><mj-body>` + c.pre + classed + c.post + "</mj-body></mjml>"})
				}
			}
		}
	}
	return out
}

var classedTag = regexp.MustCompile(`<mj-(?:social-element|social|navbar-link|navbar|accordion-element|accordion-title|accordion-text|accordion|carousel-image|carousel|text|button|image|divider|spacer|table)(?: [^<>]*)?>`)

// attrSweepDocs: every component in its legal context with every one of its attributes set to a typed non-default value — one
// attribute at a time and every pair of attributes (markup paths are chosen by attribute combinations: href with usemap,
// background-url with full-width, height with mode, …); link and image attributes also with a blank value, background
// sizes / positions also with one value, two values, keywords; every single attribute also supplied by the head (tag default,
// mj-all, an mj-class) instead of the element
func attrSweepDocs() []leafDoc {
	var out []leafDoc
	for _, tag := range bodyTags {
		if tag == "mj-raw" {
			continue
		}
		type av struct{ a, v string }
		var avs []av
		for _, a := range allowedSorted(tag) {
			if a[0] == "mj-class" {
				continue
			}
			v1, v2 := testValues(a[0], a[1])
			if v1 == "" {
				continue
			}
			avs = append(avs, av{a[0], v1})
			if strings.HasPrefix(a[1], "enum(") && v2 != v1 {
				avs = append(avs, av{a[0], v2})
			}
			// values that select other markup paths than the typical one: a blank address (written, but nothing to link to),
			// background sizes / positions with two values, with one, with keywords
			for _, ev := range map[string][]string{
				"href": {" "}, "background-size": {"100% 50%", "600px 200px", "auto", "50%"}, "background-position": {"10% 20%", "left", "center center"},
				"background-repeat": {"repeat"}, "src": {" "}, "title": {" "}, "alt": {" "},
			}[a[0]] {
				avs = append(avs, av{a[0], ev})
			}
		}
		// every attribute with a BLANK value (written, but only white space): alone, and next to all the other attributes at their
		// typical values (a blank value next to the attribute that makes the component look at it: background-size next to
		// background-url, …)
		{
			seen := map[string]bool{}
			var names, typical []string
			for _, x := range avs {
				if !seen[x.a] {
					seen[x.a] = true
					names = append(names, x.a)
					typical = append(typical, x.a+`="`+xmlAttrEsc(x.v)+`"`)
				}
			}
			for i, a := range names {
				if a == "css-class" || a == "name" {
					continue
				}
				for bi, blank := range []string{" ", "\t\n"} {
					if src := legalContext(tag, a+`="`+xmlAttrEsc(blank)+`"`, ""); src != "" && bi == 0 {
						out = append(out, leafDoc{desc: "attr-blank/" + tag + "/" + a, src: src})
					}
					var rest []string
					rest = append(rest, typical[:i]...)
					rest = append(rest, typical[i+1:]...)
					if src := legalContext(tag, a+`="`+xmlAttrEsc(blank)+`" `+strings.Join(rest, " "), ""); src != "" {
						out = append(out, leafDoc{desc: fmt.Sprintf("attr-blank-among-all/%s/%s/%d", tag, a, bi), src: src})
					}
				}
			}
		}
		// all attributes at once (first value of each)
		{
			seen := map[string]bool{}
			var all []string
			for _, x := range avs {
				if !seen[x.a] {
					seen[x.a] = true
					all = append(all, x.a+`="`+xmlAttrEsc(x.v)+`"`)
				}
			}
			if src := legalContext(tag, strings.Join(all, " "), ""); src != "" {
				out = append(out, leafDoc{desc: "attr/" + tag + "/ALL", src: src})
			}
		}
		for i, x := range avs {
			if src := legalContext(tag, x.a+`="`+xmlAttrEsc(x.v)+`"`, ""); src != "" {
				out = append(out, leafDoc{desc: "attr/" + tag + "/" + x.a, src: src})
			}
			// the same value supplied by the head instead of the element: the tag's default, mj-all, an mj-class (markup paths
			// chosen by an attribute must be chosen alike wherever the attribute comes from)
			if x.a != "css-class" && x.a != "name" {
				av := x.a + `="` + xmlAttrEsc(x.v) + `"`
				for _, via := range [][3]string{
					{"tag-default", `<mj-head><mj-attributes><` + tag + ` ` + av + `/></mj-attributes></mj-head>`, ``},
					{"mj-all", `<mj-head><mj-attributes><mj-all ` + av + `/></mj-attributes></mj-head>`, ``},
					{"mj-class", `<mj-head><mj-attributes><mj-class name="sw" ` + av + `/></mj-attributes></mj-head>`, `mj-class="sw"`},
				} {
					if src := legalContext(tag, via[2], via[1]); src != "" {
						out = append(out, leafDoc{desc: "attr-via-" + via[0] + "/" + tag + "/" + x.a, src: src})
					}
				}
			}
			for _, y := range avs[i+1:] {
				if y.a == x.a {
					continue
				}
				if src := legalContext(tag, x.a+`="`+xmlAttrEsc(x.v)+`" `+y.a+`="`+xmlAttrEsc(y.v)+`"`, ""); src != "" {
					out = append(out, leafDoc{desc: "attr/" + tag + "/" + x.a + "+" + y.a, src: src})
				}
			}
		}
	}
	return out
}

// leafSweep: the clause of `prop` must hold on the real output of every leaf document
// headVariants: the document skeleton around the body — title / preview with payloads that mean something to HTML or to a
// formatter, raw content and styles in the head, language and direction attributes, a breakpoint, fonts — each over two bodies
func headVariants() []leafDoc {
	var out []leafDoc
	bodies := map[string]string{
		"plain": `<mj-body><mj-section><mj-column><mj-text>T</mj-text></mj-column></mj-section></mj-body>`,
		"rich":  `<mj-body><mj-section background-url="http://x/b.png"><mj-column><mj-text align="right">T</mj-text></mj-column></mj-section><mj-wrapper><mj-section><mj-column><mj-navbar hamburger="hamburger"><mj-navbar-link href="/a">A</mj-navbar-link></mj-navbar></mj-column></mj-section></mj-wrapper><mj-hero><mj-button href="u">b</mj-button></mj-hero></mj-body>`,
	}
	texts := []string{"Plain title", "Summer sale: up to 50%", "100% cotton", "%s %d %v", "a &amp; b &lt;c&gt;", `say "hi" it's`, "&lt;/title&gt;&lt;script&gt;", "--&gt; &lt;!-- x", "&lt;![endif]--&gt;", "", "   ", "ü ☃ 日本"}
	heads := map[string]string{"none": "", "empty": "<mj-head></mj-head>"}
	for i, t := range texts {
		heads[fmt.Sprintf("title-%d", i)] = "<mj-head><mj-title>" + t + "</mj-title></mj-head>"
		heads[fmt.Sprintf("preview-%d", i)] = "<mj-head><mj-preview>" + t + "</mj-preview></mj-head>"
		heads[fmt.Sprintf("title+preview-%d", i)] = "<mj-head><mj-preview>" + t + "</mj-preview><mj-title>" + t + "</mj-title></mj-head>"
	}
	heads["raw"] = `<mj-head><mj-raw><meta name="x" content="1"><link rel="a" href="b"></mj-raw></mj-head>`
	heads["raw-conditional"] = `<mj-head><mj-raw><!--[if mso]><style>.x{color:red}</style><![endif]--></mj-raw><mj-title>T</mj-title></mj-head>`
	heads["styles"] = `<mj-head><mj-style>.a { color: red; }</mj-style><mj-style inline="inline">.b { color: blue; }</mj-style><mj-style>@media (max-width:480px) { .a { color: green; } }</mj-style></mj-head>`
	heads["style-tricky"] = `<mj-head><mj-style>.a::after { content: "</style>"; } .b > .c { margin: 0 }</mj-style><mj-title>50%</mj-title><mj-preview>p</mj-preview></mj-head>`
	heads["fonts-breakpoint"] = `<mj-head><mj-font name="Raleway" href="https://fonts.example/r.css?a=1&amp;b=2"/><mj-breakpoint width="320px"/><mj-attributes><mj-all font-family="Raleway"/></mj-attributes></mj-head>`
	for hn, h := range heads {
		for bn, b := range bodies {
			for _, root := range []string{"<mjml>", `<mjml lang="fr" dir="rtl">`, `<mjml lang="pt-BR" owa="desktop">`} {
				if root != "<mjml>" && !strings.HasPrefix(hn, "title-1") && hn != "none" && hn != "styles" {
					continue
				}
				out = append(out, leafDoc{desc: "head/" + hn + "/" + bn, src: root + h + b + "</mjml>"})
			}
		}
	}
	sort.Slice(out, func(i, j int) bool { return out[i].desc+out[i].src < out[j].desc+out[j].src })
	return out
}

func leafSweep(res *Result, drv *DriverPool, prop string) {
	docs := append(leafVariants(), headVariants()...)
	type rendered struct {
		d    leafDoc
		html string
	}
	var rs []rendered
	for _, d := range docs {
		var h string
		var err error
		if p := safely(func() { h, err = mjml.Render(d.src) }); p != nil {
			res.Violate(Violation{Sig: "leaf-panic|" + d.desc, Kind: "input", What: fmt.Sprint("panic: ", p), Input: map[string]string{"source": d.src}})
			continue
		}
		if h == "" {
			res.Count("leaf:render-error")
			_ = err // a documented error (mj-carousel without images) is a legal outcome
			continue
		}
		rs = append(rs, rendered{d, h})
	}
	parallel(12, len(rs), func(i int) {
		r := rs[i]
		res.Case("leaf:"+r.d.src, true)
		o, err := askOracle(drv, r.html)
		if err != nil {
			res.Disagree(Violation{Sig: "driver-failed", What: err.Error()})
			return
		}
		clause := ""
		switch prop {
		case "C02":
			if o.std != "ok" {
				clause = o.std
			} else if o.skel != "ok" {
				clause = "skeleton:" + strings.TrimSpace(o.skel)
			}
		case "C03":
			if o.mso != "ok" && o.std == "ok" {
				clause = o.mso
			} else if o.mso != "ok" && !(o.mso == "nested-cond" || o.mso == "stray-endif" || o.mso == "unterminated-cond") {
				clause = o.mso
			}
		}
		if clause == "" {
			res.Count("leaf=holds")
			return
		}
		res.Count("leaf=fails")
		// signature: context / component / clause (the child ordinal is not part of it)
		parts := strings.Split(r.d.desc, "/")
		res.Violate(Violation{Sig: "leaf:" + parts[0] + "/" + parts[1] + "|" + clause, Kind: "input", What: fmt.Sprintf("%s fails clause %s on a leaf document (%s)", prop, clause, r.d.desc),
			Input: map[string]string{"source": r.d.src}})
	})
}
