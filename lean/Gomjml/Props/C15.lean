import Gomjml.Core.SingleFlightLive
import Gomjml.Core.Cache
import Gomjml.Core.CacheConc
import Gomjml.Gen.PkgVars
import Gomjml.Gen.Census
/-! # C15 — single-flight parsing and cleanup lifecycle are safe under every schedule

Property theorems only.  `runSched (init key parse) σ` is the state after an arbitrary schedule `σ : List Tid` of the
atomic steps of `singleflightDo` (any number of threads, any keys). -/
namespace Gomjml.Props.C15
open Gomjml.SingleFlight

/-- parses of the same template never overlap in time, under every schedule -/
theorem C15_no_overlap (key : Tid → Key) (parse : Tid → Res) (σ : List Tid) (t u : Tid)
    (hk : key t = key u)
    (ht : (runSched (init key parse) σ).pc t = .parsing) (hu : (runSched (init key parse) σ).pc u = .parsing) : t = u := by
  have hinv := inv_reachable key parse σ
  have hkey : ∀ σ' : List Tid, ∀ s : St, s.key = key → (runSched s σ').key = key := by
    intro σ'
    induction σ' with
    | nil => intro s h; exact h
    | cons x r ih =>
      intro s h
      simp only [runSched]
      cases hs : step s x with
      | none => exact ih s h
      | some s' =>
        apply ih
        have : s'.key = s.key := by
          unfold step at hs
          split at hs <;> (try split at hs) <;> simp at hs <;> (try subst hs) <;> rfl
        rw [this, h]
  have hk' := hkey σ (init key parse) rfl
  exact no_overlap _ hinv t u (by rw [hk']; exact hk) ht hu

/-- every caller that returns holds the result of a parse of its own template: its own, or the one of the goroutine
    that did the work — complete (assigned before the hand-over), never a partial result -/
theorem C15_handover (key : Tid → Key) (parse : Tid → Res) (σ : List Tid) (t : Tid) (r : Option Res) (w : Option Tid)
    (ht : (runSched (init key parse) σ).pc t = .ret r w) :
    ∃ c, (runSched (init key parse) σ).key c = (runSched (init key parse) σ).key t ∧
         r = some ((runSched (init key parse) σ).parse c) :=
  handover _ (inv_reachable key parse σ) t r w ht

/-- nobody blocks forever: in every reachable state, if some caller has not returned, some goroutine can step -/
theorem C15_no_deadlock (key : Tid → Key) (parse : Tid → Res) (σ : List Tid) (t : Tid)
    (ht : ∀ r w, (runSched (init key parse) σ).pc t ≠ .ret r w) :
    ∃ u, (step (runSched (init key parse) σ) u).isSome = true :=
  progress _ (inv_reachable key parse σ) (live_reachable key parse σ) t ht

/-- cleanup lifecycle (start/stop are atomic under `cacheCleanupMutex`): in every reachable state of the cache machine at
    most one cleanup goroutine is live (uncancelled) -/
theorem C15_one_cleaner (w : Gomjml.Cache.World) (ttl : Int) (ops : List Gomjml.Cache.Op) :
    (Gomjml.Cache.runOps w (Gomjml.Cache.init ttl) ops).1.spawned - (Gomjml.Cache.runOps w (Gomjml.Cache.init ttl) ops).1.cancelled ≤ 1 :=
  Gomjml.Cache.live_cleaners w _ (Gomjml.Cache.inv_reachable w ttl ops)

/-- stopping cancels it; the next cached compilation starts exactly one again -/
theorem C15_stop_then_restart (w : Gomjml.Cache.World) (s : Gomjml.Cache.CS) (d : Gomjml.Cache.Doc) (o : Gomjml.Cache.Opt) :
    (Gomjml.Cache.step w s .stop).1.cleaner = false ∧
    (let s1 := (Gomjml.Cache.step w s .stop).1
     let s2 := (Gomjml.Cache.step w s1 (.render d true o)).1
     s2.cleaner = true ∧ s2.spawned = s1.spawned + 1) :=
  ⟨Gomjml.Cache.stop_then_none w s, Gomjml.Cache.use_after_stop_starts_one w s d o⟩

/-- every caller receives the result of the goroutine that did the work, and that is a parse of the caller's own template —
    inside the whole cache machinery (lookups, expiry, stores, evictions around it), for every schedule -/
theorem C15_waiter_gets_own_parse (w : Gomjml.Cache.World) (j : Gomjml.CacheConc.Job) (hinj : ∀ d d', w.hash d = w.hash d' → d = d')
    (ttl : Int) (σ : List Gomjml.CacheConc.Ev) (t l : Nat) (r : Except Gomjml.Cache.Err Gomjml.Cache.Ast)
    (hw : (Gomjml.CacheConc.run w j (Gomjml.CacheConc.init ttl) σ).pc t = .waiting l)
    (hr : (Gomjml.CacheConc.run w j (Gomjml.CacheConc.init ttl) σ).res l = some r) : r = w.parse (j.doc t) :=
  Gomjml.CacheConc.conc_waiter w j hinj ttl σ t l r hw hr

/-- non-vacuity: three goroutines, two on the same template; a schedule that reaches a waiter's return -/
example : (runSched (init (fun t => if t = 2 then 1 else 0) (fun t => t + 100)) [0, 0, 1, 1, 0, 0, 0, 1]).pc 1 = .ret (some 100) (some 0) := by
  decide

/-- Regenerated facts: the single-flight map and the cleanup handle are written only by the functions modelled here;
    goroutines are spawned only by `startASTCacheCleanup`. -/
theorem C15_sites :
    (Gomjml.Gen.PkgVars.pkgVarWriters.filter (fun r => r.1 == "mjml.sfCalls" || r.1 == "mjml.cleanupCancel")).map (fun r => (r.1, r.2.1))
      = [("mjml.cleanupCancel", "mjml.StopASTCacheCleanup"), ("mjml.cleanupCancel", "mjml.startASTCacheCleanup"),
         ("mjml.sfCalls", "mjml.singleflightDo")] ∧
    (Gomjml.Gen.Census.census.filter (fun r => r.1 == "go")).map (fun r => r.2.2) = ["mjml.startASTCacheCleanup"] := by
  decide

end Gomjml.Props.C15
