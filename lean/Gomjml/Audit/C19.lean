import Gomjml.Props.C19
#print axioms Gomjml.Props.C19.C19_only_styles
#print axioms Gomjml.Props.C19.C19_rendered
#print axioms Gomjml.Props.C19.C19_no_match
#print axioms Gomjml.Props.C19.C19_class_sites
#print axioms Gomjml.Props.C19.C19_tag_parse_lossless
#print axioms Gomjml.Props.C19.C19_tag_append
#print axioms Gomjml.Props.C19.C19_tag_merge
#print axioms Gomjml.Props.C19.C19_scan_lossless
#print axioms Gomjml.Props.C19.C19_scan_structure
#print axioms Gomjml.Props.C19.C19_scan_untargeted_identity
#print axioms Gomjml.Props.C19.C19_table_is_spec
#print axioms Gomjml.Props.C19.C19_lone_class_only
#print axioms Gomjml.Props.C19.C19_table_entries
#print axioms Gomjml.Props.C19.C19_class_attribute_joined
#print axioms Gomjml.Props.C19.C19_component_style_from_sheet
