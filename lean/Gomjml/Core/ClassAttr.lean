import Gomjml.Core.Lengths
/-! # From the classes of a component to its inlined declarations
    (`BuildClassAttribute`, `BuildInlineStyleString` / `ApplyInlineStyles`, `mjml/components/base.go`)

* `build` — the Model of `BuildClassAttribute`, branch by branch as the Go code has it (count, the one-class shortcut, the
  loop with its `first` flag), and `build_spec`: it is "the non-empty parts joined by one blank";
* `inlineStyle` — the Model of `BuildInlineStyleString`: the classes of the attribute (`strings.Fields`), each looked up in
  the table, its declarations written `property:value;`;
* `fields_build`: the classes of the built attribute are the classes of the component's own parts followed by those of its
  `css-class`, each once, in order — nothing is lost or invented by the joining;
* `inlineStyle_build`: the chain from the text of the `mj-style inline` blocks to the style string of a component. -/
namespace Gomjml.ClassAttr
open Gomjml.Amp Gomjml.InlineCss Gomjml.Lengths

/-! ### BuildClassAttribute -/

/-- the writing loop over the component's own classes: bytes written, and whether nothing has been written yet -/
def loop : List (List B) → Bool → List B × Bool
  | [], first => ([], first)
  | c :: r, first =>
    if c = [] then loop r first
    else ((if first then [] else [32]) ++ c ++ (loop r false).1, (loop r false).2)

def count (existing : List (List B)) (css : List B) : Nat :=
  (existing.filter (· ≠ [])).length + (if css ≠ [] then 1 else 0)

/-- `BuildClassAttribute(existing...)` of a component whose `css-class` resolves to `css` -/
def build (existing : List (List B)) (css : List B) : List B :=
  if count existing css = 0 then []
  else if count existing css = 1 then
    match existing.find? (· ≠ []) with
    | some c => c
    | none => css
  else
    (loop existing true).1 ++ (if css ≠ [] then (if (loop existing true).2 then [] else [32]) ++ css else [])

/-- the non-empty parts, joined by one blank -/
def joined : List (List B) → List B
  | [] => []
  | [c] => c
  | c :: d :: r => c ++ 32 :: joined (d :: r)

def spec (existing : List (List B)) (css : List B) : List B := joined ((existing ++ [css]).filter (· ≠ []))

theorem loop_false : ∀ (l : List (List B)), (loop l false).2 = false ∧
    (loop l false).1 = (l.filter (· ≠ [])).flatMap (fun c => 32 :: c)
  | [] => by simp [loop]
  | c :: r => by
    unfold loop
    by_cases h : c = []
    · simp [h, loop_false r]
    · simp [h, loop_false r]

theorem joined_cons (c : List B) : ∀ (l : List (List B)), joined (c :: l) = c ++ l.flatMap (fun d => 32 :: d)
  | [] => by simp [joined]
  | d :: r => by
    rw [joined, joined_cons d r]
    simp

theorem loop_true : ∀ (l : List (List B)),
    ((l.filter (· ≠ [])) = [] → loop l true = ([], true)) ∧
    (∀ c r, (l.filter (· ≠ [])) = c :: r → loop l true = (c ++ r.flatMap (fun d => 32 :: d), false))
  | [] => by simp [loop]
  | x :: l => by
    unfold loop
    by_cases h : x = []
    · simp only [h, if_true]
      have := loop_true l
      simpa using this
    · simp only [h, if_false, if_true, List.nil_append]
      constructor
      · intro hf; simp [h] at hf
      · intro c r hf
        simp only [List.filter_cons, ne_eq, h, not_false_eq_true, decide_true, if_true, List.cons.injEq] at hf
        obtain ⟨rfl, rfl⟩ := hf
        rw [(loop_false l).1, (loop_false l).2]

theorem find_filter : ∀ (l : List (List B)), l.find? (· ≠ []) = (l.filter (· ≠ [])).head?
  | [] => rfl
  | x :: l => by
    by_cases h : x = []
    · simp [h]
    · simp [h]

/-- **the Go function is "the non-empty parts joined by one blank"** -/
theorem build_spec (existing : List (List B)) (css : List B) : build existing css = spec existing css := by
  unfold build spec count
  rw [List.filter_append, find_filter]
  obtain ⟨h0, h1⟩ := loop_true existing
  cases hf : existing.filter (· ≠ []) with
  | nil =>
    rw [h0 hf]
    by_cases hc : css = []
    · simp [hc, joined]
    · simp [hc, joined]
  | cons c r =>
    rw [h1 c r hf]
    by_cases hc : css = []
    · cases r with
      | nil => simp [hc, joined]
      | cons d r => simp [hc, joined_cons]
    · cases r with
      | nil => simp [hc, joined]
      | cons d r => simp [hc, joined_cons]

/-! ### the classes of the built attribute -/

/-- a byte of a class list as authors write them: not the lead byte of a multi-byte white-space character -/
def tame (s : List B) : Prop := ∀ b ∈ s, isAsciiSp b = true ∨ plain b = true

theorem fieldsS_blank : ∀ (a b cur : List B), tame a →
    fieldsS 0 (a ++ 32 :: b) cur = (fieldsS 0 a cur) ++ fields b
  | [], b, cur, _ => by
    show fieldsS 0 (32 :: b) cur = fieldsS 0 [] cur ++ fields b
    rw [fieldsS, fieldsS]
    · simp [spaceLen, fields]
  | x :: a, b, cur, h => by
    have ha : tame a := fun y hy => h y (List.mem_cons_of_mem _ hy)
    show fieldsS 0 (x :: (a ++ 32 :: b)) cur = fieldsS 0 (x :: a) cur ++ fields b
    rw [fieldsS, fieldsS]
    rcases h x (by simp) with hx | hx
    · rw [spaceLen_ascii x _ hx, spaceLen_ascii x _ hx]
      simp only [Nat.one_ne_zero, if_false, Nat.sub_self, List.append_assoc]
      rw [fieldsS_blank a b [] ha]
    · rw [spaceLen_plain x _ hx, spaceLen_plain x _ hx]
      simp only [if_true]
      exact fieldsS_blank a b (x :: cur) ha

theorem fields_blank (a b : List B) (h : tame a) : fields (a ++ 32 :: b) = fields a ++ fields b :=
  fieldsS_blank a b [] h

theorem fields_joined : ∀ (l : List (List B)), (∀ c ∈ l, tame c) → fields (joined l) = l.flatMap fields
  | [], _ => rfl
  | [c], _ => by simp [joined]
  | c :: d :: r, h => by
    rw [joined, fields_blank c _ (h c (by simp)), fields_joined (d :: r) (fun x hx => h x (List.mem_cons_of_mem _ hx))]
    simp

theorem flatMap_fields_filter : ∀ (l : List (List B)), (l.filter (· ≠ [])).flatMap fields = l.flatMap fields
  | [] => rfl
  | x :: l => by
    by_cases h : x = []
    · subst h
      simp only [ne_eq, not_true_eq_false, decide_false, List.filter_cons_of_neg, Bool.false_eq_true,
        not_false_eq_true, List.flatMap_cons]
      rw [flatMap_fields_filter l]
      rfl
    · have ih := flatMap_fields_filter l
      simp only [ne_eq, decide_not] at ih
      simp [h, ih]

/-- **the classes of the built attribute**: those of the component's own parts, then those of `css-class`, each once, in
    order -/
theorem fields_build (existing : List (List B)) (css : List B) (he : ∀ c ∈ existing, tame c) (hc : tame css) :
    fields (build existing css) = (existing ++ [css]).flatMap fields := by
  rw [build_spec, spec, fields_joined, flatMap_fields_filter]
  intro c hcm
  rw [List.mem_filter, List.mem_append] at hcm
  rcases hcm.1 with h | h
  · exact he c h
  · simp only [List.mem_singleton] at h; subst h; exact hc

/-! ### BuildInlineStyleString -/

def declBytes (d : Decl) : List B := d.prop ++ 58 :: (d.val ++ [59])

/-- `BuildInlineStyleString(classAttr)` over the table of inlined classes -/
def inlineStyle (t : Table) (classAttr : List B) : List B :=
  (fields classAttr).flatMap fun c => (t.get c).flatMap declBytes

/-- **from the style sheet text to the style string of a component**: the declarations of every rule that names one of the
    component's classes as a lone selector — classes in the order own parts, then `css-class`; per class the rules in source
    order — and nothing else -/
theorem inlineStyle_build (texts : List (List B)) (existing : List (List B)) (css : List B)
    (he : ∀ c ∈ existing, tame c) (hc : tame css) :
    inlineStyle (collect texts) (build existing css) =
      ((existing ++ [css]).flatMap fields).flatMap fun c => (InlineCss.spec texts c).flatMap declBytes := by
  unfold inlineStyle
  rw [fields_build existing css he hc]
  congr 1
  funext c
  rw [collect_spec]

end Gomjml.ClassAttr
