/-! Hand-frozen expectation (not regenerated): the attribute reads that do NOT go through the full resolution order.
    Frozen from the tree after the resolution repairs (2a8a64b, 30e4a3f, 992fcab: 79 entries before them; what is left is the root element's `lang`, which mj-attributes cannot address); each row is a (function, accessor kind, attribute) the site table may contain with a
    kind other than `full`.  A new non-full read breaks `Props.C09.C09_sites`. -/
namespace Gomjml.Expect.AttrSites

def knownNonFull : List (String × String × String) := [
  ("mjml.createMJMLComponent", "raw", "lang")
]

/-- the resolvers: the only functions that may read a component's own attribute map directly (each goes on to the mj-class
    definitions and the document's mj-attributes; `C09_full_is_winner` / `C09_written_reads` are about their bodies) -/
def resolverBodies : List String := [
  "mjml/components.(*BaseComponent).GetAttribute",
  "mjml/components.(*BaseComponent).GetAttributeFast",
  "mjml/components.(*BaseComponent).GetAttributeWithDefault",
  "mjml/components.(*BaseComponent).GetWrittenAttribute"
]

/-- the recorded writes to a component's own attribute map: the width pre-passes hand a width-less column its share
    (`width`, and `mobile-width` inside a group) before it is rendered — component state of this compilation, not the AST -/
def ownMapWrites : List (String × String) := [
  ("mjml.(*MJMLComponent).prepareBodySiblings", "width"),
  ("mjml/components.(*MJGroupComponent).Render", "mobile-width"),
  ("mjml/components.(*MJGroupComponent).Render", "width")
]

end Gomjml.Expect.AttrSites
