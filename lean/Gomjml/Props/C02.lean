import Gomjml.Core.LayoutSpec
/-! # C02 — output is well-formed HTML for standard (non-Outlook) clients (property theorems only)

`Layout.render` is the control-flow-faithful skeleton model of body / section / wrapper / column / group / hero / raw
(tied to the implementation by skeleton correspondence on every generated document).  `Spec.StdWF` is the Spec. -/
namespace Gomjml.Props.C02
open Gomjml.Layout Gomjml.Spec

/-- **C02 on the tame fragment, for every tree** (any number of blocks, any nesting the grammar allows): what standard
    clients see is strictly nested, conditionals are delimited and never nested, no VML outside an Outlook conditional. -/
theorem C02_partial (bs : List Block) (h : Tame bs false) : StdWF ((render bs).map Tok.toG) :=
  (wf_spec _ (C02_C03_tame bs h)).1

/-- non-vacuity: chaining section, multi-column section with a group and a raw, a wrapper, a full-width section, a hero -/
example : Tame [.section ⟨false, false, false, false, false, false, [.col ⟨false, [.text]⟩, .raw false, .group [.col ⟨true, [.text]⟩, .col ⟨false, []⟩]]⟩,
                .wrapper ⟨false, true, [.sec ⟨false, false, false, false, true, false, [.col ⟨false, [.text]⟩]⟩, .raw false,
                                        .sec ⟨false, false, true, false, false, false, [.col ⟨false, [.text]⟩]⟩]⟩,
                .section ⟨true, true, false, false, false, false, [.col ⟨false, [.text]⟩]⟩, .hero [.text]] false := by
  simp [Tame, Wrapper.tame, secsOf, Section.emit, emitToks, secLeave, Block.isSec]

/-- **the full statement (all trees) is false of the code** — kernel-checked counterexamples, one per recorded class.
    `std:mismatch`: a section leaves the Outlook comment open in front of a full-width section -/
example : ¬ StdWF ((render [.section ⟨false, false, false, false, false, false, [.col ⟨false, [.text]⟩]⟩,
                            .section ⟨true, false, false, false, false, false, [.col ⟨false, [.text]⟩]⟩]).map Tok.toG) := by
  unfold StdWF; decide
/-- `nested-cond`: … in front of a full-width background-image section (or a hero followed by a section) -/
example : ¬ StdWF ((render [.section ⟨false, false, false, false, false, false, []⟩,
                            .section ⟨true, true, false, false, false, false, []⟩]).map Tok.toG) := by
  unfold StdWF; decide
/-- `vml-in-std`: a background-image section inside a wrapper writes its VML outside any conditional -/
example : ¬ StdWF ((render [.wrapper ⟨false, false, [.sec ⟨false, true, false, false, false, false, []⟩]⟩]).map Tok.toG) := by
  unfold StdWF; decide

end Gomjml.Props.C02
