package main

import (
	"encoding/hex"
	"encoding/xml"
	"fmt"
	"sort"
	"strings"

	"github.com/preslavrachev/gomjml/mjml"
)

// parseNodeTree turns a (strict) MJML string into the harness's Node tree.
func parseNodeTree(src string) *Node {
	dec := xml.NewDecoder(strings.NewReader(src))
	var stack []*Node
	var root *Node
	for {
		tok, err := dec.Token()
		if err != nil {
			break
		}
		switch t := tok.(type) {
		case xml.StartElement:
			n := &Node{Tag: t.Name.Local}
			for _, a := range t.Attr {
				n.Attrs = append(n.Attrs, [2]string{a.Name.Local, a.Value})
			}
			if len(stack) > 0 {
				p := stack[len(stack)-1]
				p.Kids = append(p.Kids, n)
			} else {
				root = n
			}
			stack = append(stack, n)
		case xml.EndElement:
			stack = stack[:len(stack)-1]
		case xml.CharData:
			if len(stack) > 0 && strings.TrimSpace(string(t)) != "" {
				stack[len(stack)-1].Text += strings.ReplaceAll(strings.ReplaceAll(string(t), "&", "&amp;"), "<", "&lt;")
			}
		}
	}
	return root
}

func (n *Node) Del(k string) {
	var out [][2]string
	for _, a := range n.Attrs {
		if a[0] != k {
			out = append(out, a)
		}
	}
	n.Attrs = out
}

func (n *Node) child(tag string) *Node {
	for _, k := range n.Kids {
		if k.Tag == tag {
			return k
		}
	}
	return nil
}

func bodyOf(html string) string {
	i := strings.Index(html, "<body")
	j := strings.LastIndex(html, "</body>")
	if i < 0 || j < 0 {
		return html
	}
	return html[i:j]
}

func accepts(tag, attr string) bool {
	for _, a := range allowedSorted(tag) {
		if a[0] == attr {
			return true
		}
	}
	return false
}

type headDefs struct {
	all     map[string]string
	tags    map[string]map[string]string
	classes map[string]map[string]string
}

func readHead(doc *Node) headDefs {
	h := headDefs{map[string]string{}, map[string]map[string]string{}, map[string]map[string]string{}}
	head := doc.child("mj-head")
	if head == nil {
		return h
	}
	for _, at := range head.Kids {
		if at.Tag != "mj-attributes" {
			continue
		}
		for _, c := range at.Kids {
			switch c.Tag {
			case "mj-all":
				for _, a := range c.Attrs {
					h.all[a[0]] = a[1]
				}
			case "mj-class":
				name, _ := c.Get("name")
				if name == "" {
					continue
				}
				if h.classes[name] == nil {
					h.classes[name] = map[string]string{}
				}
				for _, a := range c.Attrs {
					if a[0] != "name" {
						h.classes[name][a[0]] = a[1]
					}
				}
			default:
				if h.tags[c.Tag] == nil {
					h.tags[c.Tag] = map[string]string{}
				}
				for _, a := range c.Attrs {
					h.tags[c.Tag][a[0]] = a[1]
				}
			}
		}
	}
	return h
}

func hexOpt(v string, ok bool) string {
	if !ok {
		return "-"
	}
	return hex.EncodeToString([]byte(v))
}

// inlineDoc rewrites a document by the Spec: every (element, attribute) gets the Spec winner as its own attribute; the
// mj-attributes block and the mj-class references disappear.  The winner is computed by the Lean Spec (driver `res`).
func inlineDoc(drv *DriverPool, doc *Node) (*Node, error) {
	h := readHead(doc)
	out := doc.Clone()
	body := out.child("mj-body")
	if body == nil {
		return out, nil
	}
	type slot struct {
		n    *Node
		attr string
	}
	var slots []slot
	var items []string
	var walk func(n *Node)
	walk = func(n *Node) {
		cls, _ := n.Get("mj-class")
		names := strings.Fields(cls)
		cand := map[string]bool{}
		for _, a := range n.Attrs {
			cand[a[0]] = true
		}
		for _, c := range names {
			for k := range h.classes[c] {
				cand[k] = true
			}
		}
		for k := range h.tags[n.Tag] {
			cand[k] = true
		}
		for k := range h.all {
			cand[k] = true
		}
		var keys []string
		for k := range cand {
			if k == "mj-class" || k == "css-class" {
				continue
			}
			keys = append(keys, k)
		}
		sort.Strings(keys)
		for _, k := range keys {
			own, hasOwn := n.Get(k)
			// mj-all reaches EVERY component, also for attributes outside the component's table (gomjml reads a few such
			// attributes, e.g. `align` on mj-section); writing the winner on the element itself may then raise a validation
			// error, which does not affect the rendered body
			var cs []string
			for _, c := range names {
				v, ok := h.classes[c][k]
				cs = append(cs, hexOpt(v, ok))
			}
			tv, tok := h.tags[n.Tag][k]
			av, aok := h.all[k]
			items = append(items, fmt.Sprintf("%s|%s|%s|%s|-", hexOpt(own, hasOwn), strings.Join(cs, ";"), hexOpt(tv, tok), hexOpt(av, aok)))
			slots = append(slots, slot{n, k})
		}
		for _, k := range n.Kids {
			if !isContentTag(n.Tag) {
				walk(k)
			}
		}
	}
	walk(body)
	if len(items) > 0 {
		resp, err := drv.Ask("res " + strings.Join(items, " "))
		if err != nil {
			return nil, err
		}
		parts := strings.Fields(resp)
		if len(parts) != len(items) {
			return nil, fmt.Errorf("driver returned %d results for %d items", len(parts), len(items))
		}
		for i, p := range parts {
			w := strings.SplitN(p, ",", 2)[0]
			wb, _ := hex.DecodeString(w)
			if len(wb) == 0 {
				slots[i].n.Del(slots[i].attr) // no source supplies a value: the built-in default applies either way
			} else {
				slots[i].n.Set(slots[i].attr, string(wb))
			}
		}
	}
	var clr func(n *Node)
	clr = func(n *Node) {
		// css-class contributed by mj-class definitions is concatenated, not overridden: keep the reference as it is
		if cls, ok := n.Get("mj-class"); ok {
			keep := false
			for _, c := range strings.Fields(cls) {
				if _, has := h.classes[c]["css-class"]; has {
					keep = true
				}
			}
			if !keep {
				n.Del("mj-class")
			}
		}
		for _, k := range n.Kids {
			clr(k)
		}
	}
	clr(body)
	if head := out.child("mj-head"); head != nil {
		var keep []*Node
		for _, k := range head.Kids {
			if k.Tag != "mj-attributes" {
				keep = append(keep, k)
				continue
			}
			// keep only class definitions that carry a css-class (still referenced)
			at := &Node{Tag: "mj-attributes"}
			for _, c := range k.Kids {
				if c.Tag == "mj-class" {
					if v, ok := c.Get("css-class"); ok {
						nm, _ := c.Get("name")
						cc := &Node{Tag: "mj-class"}
						cc.Set("name", nm)
						cc.Set("css-class", v)
						at.Kids = append(at.Kids, cc)
					}
				}
			}
			if len(at.Kids) > 0 {
				keep = append(keep, at)
			}
		}
		head.Kids = keep
	}
	return out, nil
}

func testValues(attr, ty string) (string, string) {
	switch {
	case attr == "font-family":
		return "Georgia, serif", "Courier New, monospace"
	case ty == "color":
		return "#1a2", "#654321" // a three-digit colour is normalised on the way: every source must do it alike
	case strings.HasPrefix(ty, "enum("):
		opts := strings.Split(strings.TrimSuffix(strings.TrimPrefix(ty, "enum("), ")"), ",")
		var nz []string
		for _, o := range opts {
			if o != "" {
				nz = append(nz, o)
			}
		}
		if len(nz) >= 2 {
			return nz[len(nz)-1], nz[0]
		}
		if len(nz) == 1 {
			return nz[0], nz[0]
		}
		return "", ""
	case strings.HasSuffix(ty, "{1,4}"):
		return "7px 9px", "3px"
	case strings.HasPrefix(ty, "unit(px,%"):
		if attr == "width" {
			return "40%", "70%"
		}
		return "17px", "29px"
	case strings.HasPrefix(ty, "unit("), strings.HasPrefix(ty, "unitWithNegative"):
		return "17px", "29px"
	case ty == "integer":
		return "3", "5"
	case ty == "boolean":
		return "true", "false"
	}
	switch {
	case strings.HasPrefix(attr, "border-radius"):
		return "7px", "9px"
	case strings.HasPrefix(attr, "border") || strings.HasPrefix(attr, "inner-border"):
		return "3px solid #123456", "1px dashed #654321"
	case attr == "href" || strings.HasSuffix(attr, "-url") || attr == "src" || strings.HasSuffix(attr, "-src") || strings.Contains(attr, "icon") && !strings.Contains(attr, "-"):
		return "http://x/one.png", "http://x/two.png"
	case attr == "name":
		return "twitter", "github"
	case attr == "font-size":
		return "21px", "9px"
	case attr == "font-weight":
		return "700", "300"
	case attr == "font-style":
		return "italic", "oblique"
	case attr == "line-height":
		return "31px", "17px"
	case attr == "letter-spacing":
		return "3px", "1px"
	case attr == "text-decoration":
		return "underline", "line-through"
	case attr == "text-transform":
		return "uppercase", "lowercase"
	case attr == "target":
		return "_self", "_top"
	case attr == "rel":
		return "nofollow", "noopener"
	case attr == "mode":
		return "fluid-height", "fixed-height"
	case strings.HasPrefix(attr, "background-position"):
		return "top left", "bottom right"
	case attr == "background-size":
		return "cover", "contain"
	case attr == "lang":
		return "fr", "de"
	case attr == "dir":
		return "rtl", "ltr"
	}
	return "va1", "vb2"
}

func runC09(res *Result, tier string, seed int64, replay string) {
	res.Rule = "the attribute store: seeded heads (one to three mj-attributes blocks, mj-all / mj-class / tag entries in any order, attributes defined again later, classes without a name, the name not first) parsed by the real parser, globals.ProcessAttributesFromHead vs the Lean Model Store.build (driver `store`) on every (tag / class, attribute) query; EXHAUSTIVE matrix: every body component in a legal context × every attribute of its table × source level {mj-class, tag default, mj-all} with a typed non-default value, the same classes listed in both orders on two elements of one document, an own attribute with an empty value over each lower level, three levels at once (the class value equal to the mj-all value, the tag default between them), and every ordered pair of competing levels (winner value V1, loser value V2 ≠ V1); css-class (always accepted) supplied by the tag default, by mj-all and by both, for every component; plus seeded whole documents with heads. Oracle: the document is rewritten by the Spec — the Lean `winner` (driver `res`) is written as the element's own attribute for every (element, attribute) any source defines, the mj-attributes block is dropped — and the rendered <body> must be byte-identical to the body of the original. Non-trivial (informative) = cell whose attribute changes the body at all when set on the element; distinct by (component, attribute, level)"
	drv, err := startDriverPool(4)
	if err != nil {
		res.Disagree(Violation{Sig: "driver-missing", What: err.Error()})
		return
	}
	defer drv.Close()
	type variant struct {
		level string
		doc   *Node
	}
	check := func(key string, doc *Node, informative bool, samp bool) {
		src := doc.MJML()
		inl, ierr := inlineDoc(drv, doc)
		if ierr != nil {
			res.Disagree(Violation{Sig: "driver-failed", What: ierr.Error()})
			return
		}
		isrc := inl.MJML()
		h1, e1 := renderPlain(src)
		h2, e2 := renderPlain(isrc)
		res.Case(key, informative)
		res.mu.Lock()
		res.Programs++
		res.DisagreementsChecked++
		res.mu.Unlock()
		if samp {
			res.Sample(map[string]string{"cell": key, "source": short(src, 300), "inlined": short(isrc, 300)})
		}
		if h1 == "" || h2 == "" {
			_ = e1
			_ = e2
			res.Count("outcome=render-error")
			return
		}
		b1, b2 := alphaIDs(bodyOf(h1)), alphaIDs(bodyOf(h2))
		if b1 != b2 {
			at := firstDiff(b1, b2)
			res.Violate(Violation{Sig: key + "|body-differs", Kind: "cell",
				What:  fmt.Sprintf("body depends on the SOURCE of the value: at %d …%s… vs with the winner written on the element …%s…", at, around(b1, at), around(b2, at)),
				Input: map[string]string{"source": src, "inlined": isrc}})
			res.Count("cell=fails")
		} else {
			res.Count("cell=holds")
		}
	}
	if replay != "" {
		if src, ok := replayInput(replay); ok {
			check("replay", parseNodeTree(src), true, true)
		}
		return
	}
	if pool, perr := startDriverPool(4); perr == nil {
		runC09Store(res, pool, tier, seed)
		runC09Merge(res, pool, tier, seed)
		pool.Close()
	}
	res.Exhaustive = true
	count := 0
	bodyCache := map[string]string{}
	bodyFor := func(d *Node) string {
		src := d.MJML()
		if b, ok := bodyCache[src]; ok {
			return b
		}
		h, _ := renderPlain(src)
		b := alphaIDs(bodyOf(h))
		if h == "" {
			b = "<render-error>"
		}
		bodyCache[src] = b
		return b
	}
	reported := map[string]bool{}
	// noop: writing the Spec winner on the element itself (keeping every source in place) must not change the body
	noop := func(doc *Node, pick func(d *Node) *Node, attr, winner, level string, informative bool) bool {
		if attr == "name" && strings.Contains(level, "mj-class") {
			// an mj-class cannot supply `name`: on <mj-class> that attribute is the name of the class itself
			res.Count("cell=skipped(mj-class-cannot-carry-name)")
			return true
		}
		with := doc.Clone()
		e := pick(with)
		if e == nil {
			return true
		}
		if _, own := e.Get(attr); own {
			// the element writes the attribute itself: its own value is the winner, whatever the head supplies
			res.Count("cell=skipped(own-value-written)")
			return true
		}
		e.Set(attr, winner)
		key := e.Tag + "/" + attr + "/" + level
		// ask the Lean Spec for the winner too (correspondence of the harness's expectation with `Resolve.winner`)
		b1, b2 := bodyFor(doc), bodyFor(with)
		count++
		res.Case(key+"|"+doc.MJML(), informative)
		res.mu.Lock()
		res.Programs++
		res.DisagreementsChecked++
		res.mu.Unlock()
		if count%1500 == 1 {
			res.Sample(map[string]string{"cell": key, "source": short(doc.MJML(), 300), "with_winner_on_element": short(with.MJML(), 300)})
		}
		if b1 == b2 {
			res.Count("cell=holds")
			return true
		}
		res.Count("cell=fails")
		// a competing-levels cell whose winner already fails alone has the same root cause: report the single level only
		if i := strings.Index(level, ">"); i > 0 && reported[e.Tag+"/"+attr+"/"+level[:i]] {
			res.Count("cell=fails(same-root-cause-as-single-level)")
			return false
		}
		if strings.HasPrefix(level, "tag-default(") && reported[e.Tag+"/"+attr+"/tag-default"] {
			res.Count("cell=fails(same-root-cause-as-single-level)")
			return false
		}
		if strings.HasPrefix(level, "mj-class(") && reported[e.Tag+"/"+attr+"/mj-class"] {
			res.Count("cell=fails(same-root-cause-as-single-level)")
			return false
		}
		if !reported[key] {
			reported[key] = true
			at := firstDiff(b1, b2)
			res.Violate(Violation{Sig: key + "|source-dependent", Kind: "cell",
				What:  fmt.Sprintf("<%s %s>: the value supplied by %s is not what the element uses — writing the winning value %q on the element itself changes the body at %d: …%s… vs …%s…", e.Tag, attr, level, winner, at, around(b1, at), around(b2, at)),
				Input: map[string]string{"source": doc.MJML(), "inlined": with.MJML()}})
		}
		return false
	}
	for _, tag := range bodyTags {
		if tag == "mj-raw" {
			continue
		}
		for _, a := range allowedSorted(tag) {
			attr, ty := a[0], a[1]
			if attr == "css-class" || attr == "mj-class" || attr == "src" && tag == "mj-image" {
				continue
			}
			v1, v2 := testValues(attr, ty)
			if v1 == "" {
				continue
			}
			base := parseNodeTree(legalContext(tag, "", ""))
			if base == nil {
				continue
			}
			find := func(d *Node) *Node {
				if tag == "mj-body" {
					return d.child("mj-body")
				}
				var t *Node
				d.child("mj-body").Walk(func(x *Node) {
					if t == nil && x.Tag == tag {
						t = x
					}
				})
				return t
			}
			// the legal context may already write the attribute on the element (href, src, name): the cells are about values that
			// come from the head, so the element must not write it
			if t := find(base); t != nil {
				if _, has := t.Get(attr); has {
					t.Del(attr)
				}
			}
			own := base.Clone()
			find(own).Set(attr, v1)
			informative := bodyFor(base) != bodyFor(own)
			res.Count(fmt.Sprintf("informative=%v", informative))
			withHead := func(f func(at *Node, d *Node)) *Node {
				d := base.Clone()
				at := &Node{Tag: "mj-attributes"}
				f(at, d)
				d.Kids = append([]*Node{{Tag: "mj-head", Kids: []*Node{at}}}, d.Kids...)
				return d
			}
			mk := func(tagName string, kv ...string) *Node {
				n := &Node{Tag: tagName}
				for i := 0; i+1 < len(kv); i += 2 {
					n.Set(kv[i], kv[i+1])
				}
				return n
			}
			// an own value that happens to EQUAL the component's built-in default is still the element's own value: it wins over
			// every lower source (mj-all, a value handed down by the parent component) exactly as any other own value does.  Judged
			// by uniformity: where own="v1" renders v1 and own="v2" renders v2 (the attribute is copied verbatim), own="<default>"
			// must render the default at the same places — in the plain context, with mj-all supplying another value, and (for
			// child elements) with every attribute of the parent component set
			if dflt := builtinDefault(base.MJML(), tag, attr); dflt != "" && v1 != v2 && dflt != v1 && dflt != v2 && !strings.ContainsAny(dflt, "<>\"&") {
				ctxs := map[string]*Node{"plain": base}
				if v3 := thirdValue(v1, v2, dflt); v3 != "" {
					ctxs["under-mj-all"] = withHead(func(at, d *Node) { at.Kids = append(at.Kids, mk("mj-all", attr, v3)) })
				}
				if par := parentLoaded(base, tag); par != nil {
					ctxs["parent-attributes-set"] = par
				}
				for cn, ctx := range ctxs {
					own := func(v string) string {
						d := ctx.Clone()
						e := find(d)
						if e == nil {
							return ""
						}
						e.Set(attr, v)
						return bodyFor(d)
					}
					b1, b2, bd := own(v1), own(v2), own(dflt)
					n1, n2, nd := normColour(v1), normColour(v2), normColour(dflt)
					key := tag + "/" + attr + "/own-value-equal-to-built-in-default(" + cn + ")"
					if b1 == "" || bd == "" || strings.Contains(bodyFor(ctx), n1) || !strings.Contains(b1, n1) || strings.ReplaceAll(b1, n1, n2) != b2 {
						res.Count("cell=skipped(not-copied-verbatim)")
						continue
					}
					count++
					res.Case(key, true)
					if strings.ReplaceAll(b1, n1, nd) == bd {
						res.Count("cell=holds")
						continue
					}
					// a renderer may leave a declaration out for particular VALUES (font-weight:normal …): that is still a function of
					// the winning value.  What must not happen is that a LOWER source's value shows where the own value belongs.
					want := strings.ReplaceAll(b1, n1, nd)
					at := firstDiff(want, bd)
					// the differing middle parts (common prefix and suffix cut off), widened to the enclosing declaration / attribute
					suf := 0
					for suf < len(want)-at && suf < len(bd)-at && want[len(want)-1-suf] == bd[len(bd)-1-suf] {
						suf++
					}
					gotMid := bd[at : len(bd)-suf]
					widen := func(b string, lo, hi int) string {
						for lo > 0 && !strings.ContainsRune(";\"", rune(b[lo-1])) {
							lo--
						}
						for hi < len(b) && !strings.ContainsRune(";\"", rune(b[hi])) {
							hi++
						}
						return b[lo:hi]
					}
					lowerShows := false
					if gotMid != "" {
						gotW, wantW := widen(bd, at, len(bd)-suf), widen(want, at, len(want)-suf)
						for _, lv := range lowerValues(ctx, tag) {
							if lv != "" && lv != nd && strings.Contains(gotW, normColour(lv)) && !strings.Contains(wantW, normColour(lv)) {
								lowerShows = true
							}
						}
					}
					if !lowerShows {
						res.Count("cell=holds(declaration-left-out-for-this-value)")
						continue
					}
					res.Count("cell=fails")
					if !reported[key] {
						reported[key] = true
						d := ctx.Clone()
						find(d).Set(attr, dflt)
						res.Violate(Violation{Sig: key + "|source-dependent", Kind: "cell",
							What:  fmt.Sprintf("<%s %s=%q>: the element's own value equals the built-in default and is not used as its own value (context %s): expected …%s…, got …%s…", tag, attr, dflt, cn, around(want, at), around(bd, at)),
							Input: map[string]string{"source": d.MJML()}})
					}
				}
			}
			// single levels
			noop(withHead(func(at, d *Node) {
				at.Kids = append(at.Kids, mk("mj-class", "name", "m1", attr, v1))
				find(d).Set("mj-class", "m1")
			}), find, attr, v1, "mj-class", informative)
			noop(withHead(func(at, d *Node) { at.Kids = append(at.Kids, mk(tag, attr, v1)) }), find, attr, v1, "tag-default", informative)
			// the tag's defaults written as several entries, in one mj-attributes block or in two: entries merge, none replaces another
			if attr != "css-class" {
				noop(withHead(func(at, d *Node) { at.Kids = append(at.Kids, mk(tag, attr, v1), mk(tag, "css-class", "zz9")) }), find, attr, v1, "tag-default(split,first)", informative)
				noop(withHead(func(at, d *Node) { at.Kids = append(at.Kids, mk(tag, "css-class", "zz9"), mk(tag, attr, v1)) }), find, attr, v1, "tag-default(split,last)", informative)
				noop(func() *Node {
					d := withHead(func(at, d *Node) { at.Kids = append(at.Kids, mk(tag, attr, v1)) })
					at2 := &Node{Tag: "mj-attributes", Kids: []*Node{mk(tag, "css-class", "zz9"), mk("mj-all", attr, v2)}}
					d.Kids[0].Kids = append(d.Kids[0].Kids, at2)
					return d
				}(), find, attr, v1, "tag-default(two-blocks)>mj-all", informative)
			}
			allDoc := withHead(func(at, d *Node) { at.Kids = append(at.Kids, mk("mj-all", attr, v1)) })
			// mj-all reaches every element: test each element of the context separately (attributed to ITS tag)
			var elems []*Node
			allDoc.child("mj-body").Walk(func(x *Node) {
				if strings.HasPrefix(x.Tag, "mj-") {
					elems = append(elems, x)
				}
			})
			for ei := range elems {
				ei := ei
				if !accepts(elems[ei].Tag, attr) {
					continue
				}
				pick := func(d *Node) *Node {
					var es []*Node
					d.child("mj-body").Walk(func(x *Node) {
						if strings.HasPrefix(x.Tag, "mj-") {
							es = append(es, x)
						}
					})
					return es[ei]
				}
				noop(allDoc, pick, attr, v1, "mj-all", informative)
			}
			// later class wins
			noop(withHead(func(at, d *Node) {
				at.Kids = append(at.Kids, mk("mj-class", "name", "m1", attr, v2), mk("mj-class", "name", "m2", attr, v1))
				find(d).Set("mj-class", "m1 m2")
			}), find, attr, v1, "mj-class(later-wins)", informative)
			// the name of an mj-class need not be its first attribute
			noop(withHead(func(at, d *Node) {
				at.Kids = append(at.Kids, mk("mj-class", attr, v1, "name", "m1"))
				find(d).Set("mj-class", "m1")
			}), find, attr, v1, "mj-class(name-last)", informative)
			noop(withHead(func(at, d *Node) {
				filler := "title"
				if attr == filler {
					filler = "alt"
				}
				at.Kids = append(at.Kids, mk("mj-class", "css-class", "zz9", attr, v1, "name", "m1", filler, "t"))
				find(d).Set("mj-class", "m1")
			}), find, attr, v1, "mj-class(name-middle)", informative)
			// the class list is split on any white space: tabs, line breaks, leading and trailing blanks, repeated and unknown names,
			// names repeated with another class in between
			for si, sep := range []string{"m1\tm2", "m1\nm2", "\tm2", "m2\n", "m1  m2", " m1 \t\n m2 ", "m1 nosuch m2", "m2 m2", "m1\r\nm2",
				// a name listed again further on: the LAST listed class decides, so a repeat moves a class to the end
				"m2 m1 m2", "m1 m2 m1 m2", "m2 m2 m1 m2", "m2 nosuch m1 nosuch m2"} {
				sep := sep
				noop(withHead(func(at, d *Node) {
					at.Kids = append(at.Kids, mk("mj-class", "name", "m1", attr, v2), mk("mj-class", "name", "m2", attr, v1))
					find(d).Set("mj-class", sep)
				}), find, attr, v1, fmt.Sprintf("mj-class(list-spelling-%d)", si), informative)
			}
			// the same classes listed in the two orders on two elements of ONE document: each element's own last class decides
			if tag != "mj-body" {
				d2 := withHead(func(at, d *Node) {
					at.Kids = append(at.Kids, mk("mj-class", "name", "m1", attr, v2), mk("mj-class", "name", "m2", attr, v1))
					body := d.child("mj-body")
					var twice []*Node
					for _, k := range body.Kids {
						twice = append(twice, k)
					}
					for _, k := range body.Kids {
						twice = append(twice, k.Clone())
					}
					body.Kids = twice
				})
				nth := func(n int) func(d *Node) *Node {
					return func(d *Node) *Node {
						var hits []*Node
						d.child("mj-body").Walk(func(x *Node) {
							if x.Tag == tag {
								hits = append(hits, x)
							}
						})
						// the first instance of the first copy and the first instance of the second copy
						if len(hits) < 2 {
							return nil
						}
						if n == 0 {
							return hits[0]
						}
						return hits[len(hits)/2]
					}
				}
				if a, b := nth(0)(d2), nth(1)(d2); a != nil && b != nil && a != b {
					a.Set("mj-class", "m1 m2")
					b.Set("mj-class", "m2 m1")
					noop(d2, nth(0), attr, v1, "mj-class(both-orders-in-one-document,first)", informative)
					noop(d2, nth(1), attr, v2, "mj-class(both-orders-in-one-document,second)", informative)
				}
			}
			// competing levels, winner not the element itself
			noop(withHead(func(at, d *Node) {
				at.Kids = append(at.Kids, mk("mj-class", "name", "m1", attr, v1), mk(tag, attr, v2))
				find(d).Set("mj-class", "m1")
			}), find, attr, v1, "mj-class>tag-default", informative)
			noop(withHead(func(at, d *Node) {
				at.Kids = append(at.Kids, mk("mj-class", "name", "m1", attr, v1), mk("mj-all", attr, v2))
				find(d).Set("mj-class", "m1")
			}), find, attr, v1, "mj-class>mj-all", informative)
			noop(withHead(func(at, d *Node) { at.Kids = append(at.Kids, mk("mj-all", attr, v2), mk(tag, attr, v1)) }), find, attr, v1, "tag-default>mj-all", informative)
			// an own attribute written with an EMPTY value is no value (the resolvers skip it): what the lower levels supply is used
			// exactly as if the attribute were not written — class, tag default, mj-all
			for _, lv := range []string{"mj-class", "tag-default", "mj-all"} {
				if attr == "name" && lv == "mj-class" {
					continue
				}
				dEmpty := withHead(func(at, d *Node) {
					switch lv {
					case "mj-class":
						at.Kids = append(at.Kids, mk("mj-class", "name", "m1", attr, v1))
						find(d).Set("mj-class", "m1")
					case "tag-default":
						at.Kids = append(at.Kids, mk(tag, attr, v1))
					default:
						at.Kids = append(at.Kids, mk("mj-all", attr, v1))
					}
				})
				dAbsent := dEmpty.Clone()
				find(dEmpty).Set(attr, "")
				count++
				key := tag + "/" + attr + "/" + lv + ">own-empty"
				res.Case(key, informative)
				if bodyFor(dEmpty) != bodyFor(dAbsent) {
					res.Count("cell=fails")
					if !reported[key] {
						reported[key] = true
						res.Violate(Violation{Sig: key + "|source-dependent", Kind: "cell", What: fmt.Sprintf("<%s %s=\"\">: an empty own value changes what the %s value gives", tag, attr, lv), Input: map[string]string{"source": dEmpty.MJML(), "inlined": dAbsent.MJML()}})
					}
				} else {
					res.Count("cell=holds")
				}
			}
			// several classes, the LATER one defining the attribute with an empty value: the last definition wins at the class
			// level (Resolve.classValue), it is empty, so the class level supplies nothing and the tag default / mj-all is used; in
			// the other order the non-empty class value wins
			if attr != "name" {
				noop(withHead(func(at, d *Node) {
					at.Kids = append(at.Kids, mk("mj-class", "name", "m1", attr, v1), mk("mj-class", "name", "m2", attr, ""), mk(tag, attr, v2))
					find(d).Set("mj-class", "m1 m2")
				}), find, attr, v2, "mj-class(later-empty)>tag-default", informative)
				noop(withHead(func(at, d *Node) {
					at.Kids = append(at.Kids, mk("mj-class", "name", "m1", attr, v1), mk("mj-class", "name", "m2", attr, ""), mk("mj-all", attr, v2))
					find(d).Set("mj-class", "m1 m2")
				}), find, attr, v2, "mj-class(later-empty)>mj-all", informative)
				noop(withHead(func(at, d *Node) {
					at.Kids = append(at.Kids, mk("mj-class", "name", "m1", attr, v1), mk("mj-class", "name", "m2", attr, ""), mk(tag, attr, v2))
					find(d).Set("mj-class", "m2 m1")
				}), find, attr, v1, "mj-class(earlier-empty)>tag-default", informative)
			}
			// a value that is one blank is a value: at the class level it wins over the tag default and over mj-all exactly as it
			// would written on the element (no level may "tidy" it into an empty one on its own)
			if attr != "name" {
				noop(withHead(func(at, d *Node) {
					at.Kids = append(at.Kids, mk("mj-class", "name", "m1", attr, " "), mk("mj-all", attr, v2))
					find(d).Set("mj-class", "m1")
				}), find, attr, " ", "mj-class(blank)>mj-all", informative)
				noop(withHead(func(at, d *Node) {
					at.Kids = append(at.Kids, mk("mj-class", "name", "m1", attr, v1), mk("mj-class", "name", "m2", attr, " "), mk(tag, attr, v2))
					find(d).Set("mj-class", "m1 m2")
				}), find, attr, " ", "mj-class(later-blank)>tag-default", informative)
			}
			// three levels at once: the class wins over the tag default and over mj-all — also when mj-all carries the very value
			// of the class (a store that drops "redundant" entries must not fall through to the level in between), and with three
			// different values
			noop(withHead(func(at, d *Node) {
				at.Kids = append(at.Kids, mk("mj-class", "name", "m1", attr, v1), mk(tag, attr, v2), mk("mj-all", attr, v1))
				find(d).Set("mj-class", "m1")
			}), find, attr, v1, "mj-class>tag-default>mj-all(class=mj-all)", informative)
			noop(withHead(func(at, d *Node) {
				at.Kids = append(at.Kids, mk("mj-all", attr, v2), mk(tag, attr, v2), mk("mj-class", "name", "m1", attr, v1))
				find(d).Set("mj-class", "m1")
			}), find, attr, v1, "mj-class>tag-default=mj-all", informative)
			noop(withHead(func(at, d *Node) {
				at.Kids = append(at.Kids, mk("mj-all", attr, v1), mk(tag, attr, v1), mk("mj-class", "name", "m1", attr, v2), mk("mj-class", "name", "m2", attr, v1))
				find(d).Set("mj-class", "m1 m2")
			}), find, attr, v1, "mj-class(later=tag-default=mj-all)", informative)
			// the element's own value wins: the loser's value must be irrelevant (class and tag default reach only this element)
			for _, lv := range []string{"mj-class", "tag-default"} {
				if attr == "name" && lv == "mj-class" {
					continue
				}
				mkDoc := func(loser string) *Node {
					return withHead(func(at, d *Node) {
						if lv == "mj-class" {
							at.Kids = append(at.Kids, mk("mj-class", "name", "m1", attr, loser))
							find(d).Set("mj-class", "m1")
						} else {
							at.Kids = append(at.Kids, mk(tag, attr, loser))
						}
						find(d).Set(attr, v1)
						if lv == "tag-default" {
							// the tag default reaches every element of that tag in the context (the second image of a
							// carousel, …): all of them write the value themselves, so the default must be irrelevant
							d.child("mj-body").Walk(func(x *Node) {
								if x.Tag == tag {
									x.Set(attr, v1)
								}
							})
						}
					})
				}
				d2, d1 := mkDoc(v2), mkDoc(v1)
				count++
				key := tag + "/" + attr + "/own>" + lv
				res.Case(key, informative)
				if bodyFor(d2) != bodyFor(d1) {
					res.Count("cell=fails")
					if !reported[key] {
						reported[key] = true
						res.Violate(Violation{Sig: key + "|source-dependent", Kind: "cell", What: fmt.Sprintf("<%s %s>: the element's own value does not override the %s value", tag, attr, lv), Input: map[string]string{"source": d2.MJML(), "inlined": d1.MJML()}})
					}
				} else {
					res.Count("cell=holds")
				}
			}
		}
	}
	// css-class (accepted by every component, not listed in the per-tag table): supplied by the tag's default, by mj-all, by
	// both — writing the winner on the element itself must not change the body.  (css-class contributed by mj-class is
	// concatenated, not overridden: not a precedence cell.)
	for _, tag := range bodyTags {
		if tag == "mj-raw" {
			continue
		}
		base := parseNodeTree(legalContext(tag, "", ""))
		if base == nil {
			continue
		}
		find := func(d *Node) *Node {
			if tag == "mj-body" {
				return d.child("mj-body")
			}
			var t *Node
			d.child("mj-body").Walk(func(x *Node) {
				if t == nil && x.Tag == tag {
					t = x
				}
			})
			return t
		}
		if find(base) == nil {
			continue
		}
		own := base.Clone()
		find(own).Set("css-class", "zz9")
		informative := bodyFor(base) != bodyFor(own)
		res.Count(fmt.Sprintf("css-class-informative=%v", informative))
		withHead := func(kids ...*Node) *Node {
			d := base.Clone()
			d.Kids = append([]*Node{{Tag: "mj-head", Kids: []*Node{{Tag: "mj-attributes", Kids: kids}}}}, d.Kids...)
			return d
		}
		mk := func(tagName, v string) *Node { return (&Node{Tag: tagName}).Set("css-class", v) }
		// the value to write on the element comes from the Lean Model of GetCSSClass (Resolve.accCssClass, 5th field of `res`)
		cssWinner := func(tagV, allV string) string {
			opt := func(v string) string {
				if v == "" {
					return "-"
				}
				return hexOf(v)
			}
			resp, err := drv.Ask("res -||" + opt(tagV) + "|" + opt(allV) + "|-")
			f := strings.Split(strings.TrimSpace(resp), ",")
			if err != nil || len(f) != 5 {
				res.Disagree(Violation{Sig: "driver-failed|res-css", What: fmt.Sprintf("%v %q", err, resp)})
				return ""
			}
			b, _ := hex.DecodeString(f[4])
			return string(b)
		}
		noop(withHead(mk(tag, "zz9")), find, "css-class", cssWinner("zz9", ""), "tag-default", informative)
		noop(withHead(mk("mj-all", "zz9")), find, "css-class", cssWinner("", "zz9"), "mj-all", informative)
		noop(withHead(mk("mj-all", "zz8"), mk(tag, "zz9")), find, "css-class", cssWinner("zz9", "zz8"), "tag-default>mj-all", informative)
		// … also for an element that names mj-classes which define NO css-class (a defined class with other attributes, an
		// undefined one): the class level supplies nothing, the head default still reaches the element
		for ci, clsDef := range []*Node{(&Node{Tag: "mj-class"}).Set("name", "big").Set("data-note", "x"), nil} {
			mkDoc := func(kids ...*Node) *Node {
				if clsDef != nil {
					kids = append(kids, clsDef)
				}
				d := withHead(kids...)
				if e := find(d); e != nil {
					e.Set("mj-class", "big")
				}
				return d
			}
			lv := fmt.Sprintf("(class-without-css-class/%d)", ci)
			noop(mkDoc(mk(tag, "zz9")), find, "css-class", cssWinner("zz9", ""), "tag-default"+lv, informative)
			noop(mkDoc(mk("mj-all", "zz9")), find, "css-class", cssWinner("", "zz9"), "mj-all"+lv, informative)
		}
	}
	// whole documents
	n := 120
	if tier == "thorough" {
		n = 4000
	}
	for i := 0; i < n; i++ {
		r := NewRng(seed, fmt.Sprintf("c09/%d", i))
		d := genRich(r, &RichOpts{Head: true, MaxAttrs: 3, Features: true})
		tree := parseNodeTree(d.MJML())
		if tree == nil || tree.child("mj-head") == nil {
			continue
		}
		src := tree.MJML()
		inl, ierr := inlineDoc(drv, tree)
		if ierr != nil {
			continue
		}
		h1, _ := renderPlain(src)
		h2, _ := renderPlain(inl.MJML())
		res.Case(src, true)
		if h1 == "" || h2 == "" {
			continue
		}
		if alphaIDs(bodyOf(h1)) != alphaIDs(bodyOf(h2)) {
			res.Count("whole-document=fails")
		} else {
			res.Count("whole-document=holds")
		}
	}
}

func init() { register("C09", runC09) }

// builtinDefault asks the real component for its built-in default of an attribute (GetDefaultAttribute on the first component
// with that tag in the document's tree)
func builtinDefault(src, tag, attr string) string {
	ast, err := mjml.ParseMJML(src)
	if err != nil {
		return ""
	}
	var root mjml.Component
	if p := safely(func() { root, err = mjml.NewFromAST(ast) }); p != nil || err != nil || root == nil {
		return ""
	}
	var found mjml.Component
	var walk func(c mjml.Component)
	walk = func(c mjml.Component) {
		if found != nil || c == nil {
			return
		}
		if c.GetTagName() == tag {
			found = c
			return
		}
		for _, k := range childrenOf(c) {
			walk(k)
		}
	}
	if r, ok := root.(*mjml.MJMLComponent); ok && r.Body != nil {
		walk(r.Body)
	}
	if found == nil {
		return ""
	}
	if d, ok := found.(interface{ GetDefaultAttribute(string) string }); ok {
		v := ""
		safely(func() { v = d.GetDefaultAttribute(attr) })
		return v
	}
	return ""
}

// normColour: a three-digit hex colour as the renderer writes it (six digits)
func normColour(v string) string {
	if len(v) == 4 && v[0] == '#' {
		ok := true
		for _, c := range v[1:] {
			if !strings.ContainsRune("0123456789abcdefABCDEF", c) {
				ok = false
			}
		}
		if ok {
			return "#" + strings.Repeat(string(v[1]), 2) + strings.Repeat(string(v[2]), 2) + strings.Repeat(string(v[3]), 2)
		}
	}
	return v
}

// thirdValue: a value of the same kind as v1 that differs from v1, v2 and the default ("" = none known)
func thirdValue(v1, v2, dflt string) string {
	var cands []string
	switch {
	case strings.HasPrefix(v1, "#"):
		cands = []string{"#0a0b0c", "#c0ffee"}
	case strings.HasSuffix(v1, "px") && !strings.Contains(v1, " "):
		cands = []string{"23px", "37px"}
	case strings.HasSuffix(v1, "%"):
		cands = []string{"55%", "35%"}
	case strings.Contains(v1, "px "):
		cands = []string{"5px 11px"}
	}
	for _, c := range cands {
		if c != v1 && c != v2 && c != dflt {
			return c
		}
	}
	return ""
}

// parentLoaded: for a child element (mj-social-element, mj-navbar-link, mj-accordion-element / -title / -text,
// mj-carousel-image) the base document with every attribute of its parent component set to a test value
func parentLoaded(base *Node, tag string) *Node {
	parentOf := map[string]string{"mj-social-element": "mj-social", "mj-navbar-link": "mj-navbar", "mj-accordion-element": "mj-accordion",
		"mj-accordion-title": "mj-accordion", "mj-accordion-text": "mj-accordion", "mj-carousel-image": "mj-carousel"}
	pt, ok := parentOf[tag]
	if !ok {
		return nil
	}
	d := base.Clone()
	var p *Node
	d.Walk(func(x *Node) {
		if p == nil && x.Tag == pt {
			p = x
		}
	})
	if p == nil {
		return nil
	}
	for _, a := range allowedSorted(pt) {
		if a[0] == "css-class" || a[0] == "mj-class" || a[0] == "mode" || a[0] == "hamburger" || a[0] == "thumbnails" {
			continue
		}
		if _, has := p.Get(a[0]); has {
			continue
		}
		_, v2 := testValues(a[0], a[1])
		if v2 != "" {
			p.Set(a[0], v2)
		}
	}
	return d
}

// lowerValues: every attribute value written in the document's head (mj-all, tag defaults, classes) or on the parent component
// of `tag` — the values of lower-priority sources in this context
func lowerValues(ctx *Node, tag string) []string {
	var out []string
	parentOf := map[string]string{"mj-social-element": "mj-social", "mj-navbar-link": "mj-navbar", "mj-accordion-element": "mj-accordion",
		"mj-accordion-title": "mj-accordion", "mj-accordion-text": "mj-accordion", "mj-carousel-image": "mj-carousel"}
	ctx.Walk(func(x *Node) {
		inHead := x.Tag == "mj-all" || x.Tag == "mj-class"
		if inHead || x.Tag == parentOf[tag] {
			for _, a := range x.Attrs {
				if a[0] != "name" {
					out = append(out, a[1])
				}
			}
		}
	})
	return out
}
