package main

import (
	"fmt"
	"strings"

	"github.com/preslavrachev/gomjml/mjml"
	"github.com/preslavrachev/gomjml/mjml/globals"
)

// runC09Store: the document's attribute store (globals.GlobalAttributes, built by ProcessAttributesFromHead from the head the
// REAL parser produced) against the Lean Model Store.build (driver `store`): every (tag, attribute) and (class, attribute)
// the head could know, and some it cannot
func runC09Store(res *Result, drv *DriverPool, tier string, seed int64) {
	n := 400
	if tier == "thorough" {
		n = 15000
	}
	tags := []string{"mj-text", "mj-button", "mj-section", "mj-image"}
	classes := []string{"a", "b", "a b", ""}
	keys := []string{"color", "font-size", "padding", "css-class", "align", "name"}
	vals := []string{"red", "#abc", "10px", "", "x y", "center", "a"}
	parallel(8, n, func(i int) {
		r := NewRng(seed, fmt.Sprintf("c09/store/%d", i))
		var head, req strings.Builder
		head.WriteString("<mj-head>")
		req.WriteString("store")
		for b, nb := 0, r.Intn(4); b < nb; b++ {
			if b > 0 {
				req.WriteString(" /")
				if r.Bool(1, 3) {
					head.WriteString("<mj-title>t</mj-title>")
				}
			}
			head.WriteString("<mj-attributes>")
			for e, ne := 0, r.Intn(6); e < ne; e++ {
				kind := r.Intn(3)
				var el, code string
				switch kind {
				case 0:
					el, code = "mj-all", "A"
				case 1:
					el, code = "mj-class", "C"
				default:
					el = r.Pick(tags)
					code = "T" + hexOf(el)
				}
				used := map[string]bool{}
				var attrs, enc []string
				for a, na := 0, r.Intn(4); a < na; a++ {
					k := r.Pick(keys)
					if kind != 1 && k == "name" || used[k] {
						continue
					}
					used[k] = true
					v := r.Pick(vals)
					if k == "name" {
						v = r.Pick(classes)
					}
					attrs = append(attrs, k+`="`+v+`"`)
					enc = append(enc, hexOrDash(k)+"="+hexOrDash(v))
				}
				head.WriteString("<" + el + " " + strings.Join(attrs, " ") + "/>")
				req.WriteString(" " + code + ":" + strings.Join(enc, ","))
			}
			head.WriteString("</mj-attributes>")
		}
		head.WriteString("</mj-head>")
		src := "<mjml>" + head.String() + "<mj-body><mj-section><mj-column><mj-text>t</mj-text></mj-column></mj-section></mj-body></mjml>"
		ast, err := mjml.ParseMJML(src)
		if err != nil {
			res.Count("store=source-not-parsable")
			return
		}
		ga := globals.NewGlobalAttributes()
		ga.ProcessAttributesFromHead(ast.FindFirstChild("mj-head"))
		var want []string
		req.WriteString(" ?")
		for _, t := range append(append([]string{}, tags...), "mj-divider", "mj-all", "mj-class") {
			for _, k := range keys {
				req.WriteString(" g:" + hexOf(t) + ":" + hexOf(k))
				want = append(want, hexOrDash(ga.GetGlobalAttribute(t, k)))
			}
		}
		for _, c := range append(append([]string{}, classes...), "zz") {
			for _, k := range keys {
				req.WriteString(" c:" + hexOrDash(c) + ":" + hexOf(k))
				want = append(want, hexOrDash(ga.GetClassAttribute(c, k)))
			}
		}
		resp, derr := drv.Ask(req.String())
		res.Case("store|"+src, strings.Contains(src, "<mj-attributes><mj-"))
		res.mu.Lock()
		res.Programs++
		res.DisagreementsChecked++
		res.mu.Unlock()
		got := strings.Fields(resp)
		if derr != nil || len(got) != len(want) {
			res.Disagree(Violation{Sig: "driver-failed|store", What: fmt.Sprintf("%v: %d answers for %d queries", derr, len(got), len(want)), Input: map[string]string{"source": src}})
			return
		}
		for j := range want {
			if got[j] != want[j] {
				res.Disagree(Violation{Sig: "store-model-mismatch", Kind: "input", What: fmt.Sprintf("query %d of the attribute store: implementation %s, Model %s (hex)", j, want[j], got[j]), Input: map[string]string{"source": src, "request": req.String()}})
				return
			}
		}
		if i%100 == 0 {
			res.Sample(map[string]string{"kind": "attribute-store", "head": short(head.String(), 300)})
		}
	})
}
