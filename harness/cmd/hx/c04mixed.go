package main

import (
	"encoding/hex"
	"fmt"
	"strings"

	"github.com/preslavrachev/gomjml/mjml"
	"github.com/preslavrachev/gomjml/mjml/components"
	"github.com/preslavrachev/gomjml/parser"
)

// correspondence of (*MJMLNode).GetMixedContent with the Lean Model Mixed.content (driver `mixed`), byte for byte, on the
// trees the real parser builds from generated inline content — and, on every well-formed tree, an executed instance of the
// round-trip theorem `read (serParts ps) = events ps`

func hexOrDash(s string) string {
	if s == "" {
		return "-"
	}
	return hex.EncodeToString([]byte(s))
}

func encodeParts(sb *strings.Builder, n *parser.MJMLNode) {
	fmt.Fprintf(sb, " %d", len(n.MixedContent))
	for _, p := range n.MixedContent {
		if p.Node == nil {
			fmt.Fprintf(sb, " T %s", hexOrDash(p.Text))
			continue
		}
		fmt.Fprintf(sb, " N %s %d", hexOrDash(p.Node.XMLName.Local), len(p.Node.Attrs))
		for _, a := range p.Node.Attrs {
			fmt.Fprintf(sb, " %s %s", hexOrDash(a.Name.Local), hexOrDash(a.Value))
		}
		encodeParts(sb, p.Node)
	}
}

// genInline writes the SOURCE of inline content (what an author types inside mj-button …)
func genInline(r *Rng, depth int) string {
	var sb strings.Builder
	texts := []string{"go", " now ", "a &amp; b", "1 &lt; 2 &gt; 0", "&#60;b&#62;", "&amp;amp;", "café", " edge ", "\t tab \n", "x", "&quot;q&quot;", "it's", "100%", " em", "<![CDATA[<raw> & ]]>", "<!-- c -->", "&amp;quot;"}
	names := []string{"b", "i", "span", "a", "em", "code", "u", "strong", "br", "img", "hr", "BR", "font", "sup"}
	n := r.Intn(5)
	if depth == 0 {
		n = 1 + r.Intn(5)
	}
	for i := 0; i < n; i++ {
		if r.Bool(1, 2) {
			sb.WriteString(r.Pick(texts))
			continue
		}
		nm := r.Pick(names)
		sb.WriteString("<" + nm)
		for j, k := 0, r.Intn(3); j < k; j++ {
			key := r.Pick([]string{"class", "style", "href", "title", "data-x", "id"}) + fmt.Sprint(j)
			val := r.Pick([]string{"v", "a b", "color:red;", "u?a=1&amp;b=2", "x &lt; y", "say &quot;hi&quot;", "", "it's", "&amp;quot;", "a>b", "café", "font-family:\"Open Sans\""})
			if strings.Contains(val, `"`) {
				sb.WriteString(" " + key + "='" + strings.ReplaceAll(val, "'", "&#39;") + "'")
			} else {
				sb.WriteString(" " + key + `="` + val + `"`)
			}
		}
		void := map[string]bool{"br": true, "img": true, "hr": true, "BR": true}[nm]
		switch {
		case void || r.Bool(1, 6):
			sb.WriteString("/>")
		case depth >= 3:
			sb.WriteString(">" + r.Pick(texts) + "</" + nm + ">")
		default:
			sb.WriteString(">" + genInline(r, depth+1) + "</" + nm + ">")
		}
	}
	return sb.String()
}

func runC04Mixed(res *Result, drv *DriverPool, tier string, seed int64) {
	n := 600
	if tier == "thorough" {
		n = 20000
	}
	carriers := []struct{ open, close, tag string }{
		{`<mj-button href="u">`, `</mj-button>`, "mj-button"},
		{`<mj-navbar><mj-navbar-link href="/a">`, `</mj-navbar-link></mj-navbar>`, "mj-navbar-link"},
		{`<mj-social><mj-social-element name="facebook" href="h">`, `</mj-social-element></mj-social>`, "mj-social-element"},
		{`<mj-accordion><mj-accordion-element><mj-accordion-title>`, `</mj-accordion-title></mj-accordion-element></mj-accordion>`, "mj-accordion-title"},
		{`<mj-accordion><mj-accordion-element><mj-accordion-text>`, `</mj-accordion-text></mj-accordion-element></mj-accordion>`, "mj-accordion-text"},
	}
	parallel(8, n, func(i int) {
		r := NewRng(seed, fmt.Sprintf("c04/mixed/%d", i))
		c := carriers[i%len(carriers)]
		inner := genInline(r, 0)
		src := "<mjml><mj-body><mj-section><mj-column>" + c.open + inner + c.close + "</mj-column></mj-section></mj-body></mjml>"
		ast, err := mjml.ParseMJML(src)
		if err != nil {
			res.Count("mixed=source-not-parsable")
			return
		}
		var node *parser.MJMLNode
		var find func(x *parser.MJMLNode)
		find = func(x *parser.MJMLNode) {
			if node == nil && x.XMLName.Local == c.tag {
				node = x
			}
			for _, k := range x.Children {
				find(k)
			}
		}
		find(ast)
		if node == nil {
			return
		}
		got := node.GetMixedContent()
		var sb strings.Builder
		sb.WriteString("mixed")
		encodeParts(&sb, node)
		resp, derr := drv.Ask(sb.String())
		f := strings.Fields(resp)
		res.Case("mixed|"+src, len(node.Children) > 0)
		res.mu.Lock()
		res.Programs++
		res.DisagreementsChecked++
		res.mu.Unlock()
		if derr != nil || len(f) != 5 {
			res.Disagree(Violation{Sig: "driver-failed|mixed", What: fmt.Sprintf("%v %q", derr, short(resp, 100)), Input: map[string]string{"source": src}})
			return
		}
		res.Count("mixed-wellformed=" + f[2])
		if f[0] == f[1] {
			res.Count("mixed=model-is-its-core(nothing trimmed)")
		}
		if hexOrDash(got) != f[0] {
			want, _ := hex.DecodeString(strings.TrimPrefix(f[0], "-"))
			at := firstDiff(got, string(want))
			res.Disagree(Violation{Sig: "mixed-content-model-mismatch|" + c.tag, Kind: "input",
				What:  fmt.Sprintf("GetMixedContent differs from the Model at offset %d: …%s… vs Model …%s…", at, around(got, at), around(string(want), at)),
				Input: map[string]string{"source": src, "request": sb.String()}})
			return
		}
		// an executed instance of the round-trip theorem: on a well-formed tree the reader gets the events back
		if f[2] == "1" && f[3] != "1" {
			res.Disagree(Violation{Sig: "mixed-roundtrip-instance-fails", Kind: "input", What: "the reader does not read back the events of a well-formed tree (contradicts C04_inline_roundtrip)", Input: map[string]string{"source": src, "request": sb.String()}})
		}
		// … and of the bridge: on a tidy tree the Model is its core
		res.Count("mixed-tidy=" + f[4])
		if f[4] == "1" && f[0] != f[1] {
			res.Disagree(Violation{Sig: "mixed-tidy-instance-fails", Kind: "input", What: "the Model differs from its core on a tidy tree (contradicts C04_inline_model_is_core)", Input: map[string]string{"source": src, "request": sb.String()}})
		}
		if i%150 == 0 {
			res.Sample(map[string]string{"kind": "mixed-content", "inner": short(inner, 200), "content": short(got, 200)})
		}
	})
}

// runC04TextFlow: mj-text's way from the element's character data to the inner HTML (buildRawInnerHTML through the verif
// export) against the Lean Model TextFlow.textInner (driver `textflow`), byte for byte, on valid UTF-8 texts made of every
// kind of white space, no-break spaces, references, inline markup and void tags
func runC04TextFlow(res *Result, drv *DriverPool, tier string, seed int64) {
	pieces := []string{" ", "  ", "\n", "\r\n", "\t", "\n\n  ", "a", "word", "é", " ", "  ", "   ", "&amp;", "&#xA0;", "&nbsp;", "<b>", "</b>", "<br/>", "<br />", " <br> ", "<img src=\"i.png\"  alt=\"a  b\"/>",
		"<a href=\"u?a=1&amp;b=2\">", "</a>", "日本", " ", " ", "\v", "\f", "x\ty", "<p>\n  para\n</p>", "Â", "Â ", "©", "<!-- c  c -->", "%", "&"}
	texts := []string{"", " ", "\n\t ", "a", " a ", " ", "   ", "a b", "  a \n\t b<br/>  ", "  a", "a  "}
	n := 1500
	if tier == "thorough" {
		n = 40000
	}
	for i := 0; i < n; i++ {
		r := NewRng(seed, fmt.Sprintf("c04/textflow/%d", i))
		var sb strings.Builder
		for j, k := 0, 1+r.Intn(10); j < k; j++ {
			sb.WriteString(r.Pick(pieces))
		}
		texts = append(texts, sb.String())
	}
	parallel(8, len(texts), func(i int) {
		t := texts[i]
		real := components.VerifTextInner(t)
		resp, err := drv.Ask("textflow " + hexOrDash(t))
		res.Case("textflow|"+t, strings.ContainsAny(t, " \n\t\r"))
		res.mu.Lock()
		res.Programs++
		res.DisagreementsChecked++
		res.mu.Unlock()
		if err != nil || strings.TrimSpace(resp) != hexOrDash(real) {
			want, _ := hex.DecodeString(strings.TrimPrefix(strings.TrimSpace(resp), "-"))
			at := firstDiff(real, string(want))
			res.Disagree(Violation{Sig: "textflow-model-mismatch", Kind: "input",
				What:  fmt.Sprintf("mj-text inner HTML differs from the Model at offset %d: …%q… vs Model …%q…", at, around(real, at), around(string(want), at)),
				Input: map[string]string{"text": t}})
		}
	})
	res.Count(fmt.Sprintf("textflow-texts=%d", len(texts)))
}

// runC04TextVoid: normalizeVoidHTMLTags (verif export) against the Lean Model TextVoid.normalize (driver `textvoid`), byte for
// byte, on fragments made of the pieces its pattern and the <br> trimming look at
func runC04TextVoid(res *Result, drv *DriverPool, tier string, seed int64) {
	pieces := []string{"<br/>", "<br />", "<br  \n/>", "<BR/>", "<Br class=\"x\"/>", "<br>", " <br> ", "<BR> ", " <BR>", "<brx/>", "<br-x/>", "<br_/>", "<br1/>", "<img src=\"a\"/>", "<img src=\"a\" />", "<IMG  alt='a/b'  />",
		"<hr/>", "<hr\t/>", "<input disabled/>", "<link/>", "<linK/>", "<liNK rel=\"x\"/>", "<ſource/>", "<baſe/>", "<tracK/>", "<meta a=\"/>\"/>", "<col/>", "<colgroup/>", "<wbr/>", "<embed/>", "<param x/>", "<area/>",
		"<source/>", "<track/>", "<base/>", "<b/>", "<div/>", "<p>", "</p>", "text", " ", "  ", "\n", "/>", "<", ">", "/", "<br", "<img", "< br/>", "<br/ >", "<img/ />", "<br //>", "é", "<a href=\"u\">", "</a>", "<!-- <br/> -->", "<br/><br/>", "x<br/> y"}
	frags := []string{"", "<br/>", " <br/> ", "a <br /> b", "<BR/> x", "<br>", "<img/>", "<br", "<br/"}
	n := 1500
	if tier == "thorough" {
		n = 40000
	}
	for i := 0; i < n; i++ {
		r := NewRng(seed, fmt.Sprintf("c04/textvoid/%d", i))
		var sb strings.Builder
		for j, k := 0, 1+r.Intn(8); j < k; j++ {
			sb.WriteString(r.Pick(pieces))
		}
		frags = append(frags, sb.String())
	}
	parallel(8, len(frags), func(i int) {
		f := frags[i]
		real := components.VerifNormalizeVoidHTMLTags(f)
		resp, err := drv.Ask("textvoid " + hexOrDash(f))
		res.Case("textvoid|"+f, real != f)
		res.mu.Lock()
		res.Programs++
		res.DisagreementsChecked++
		res.mu.Unlock()
		if err != nil || strings.TrimSpace(resp) != hexOrDash(real) {
			want, _ := hex.DecodeString(strings.TrimPrefix(strings.TrimSpace(resp), "-"))
			at := firstDiff(real, string(want))
			res.Disagree(Violation{Sig: "textvoid-model-mismatch", Kind: "input",
				What:  fmt.Sprintf("normalizeVoidHTMLTags differs from the Model at offset %d: …%q… vs Model …%q…", at, around(real, at), around(string(want), at)),
				Input: map[string]string{"fragment": f}})
		}
	})
	res.Count(fmt.Sprintf("textvoid-fragments=%d", len(frags)))
}
