package main

import (
	"encoding/xml"
	"fmt"
	"sort"
	"strings"

	"github.com/preslavrachev/gomjml/mjml"
	"github.com/preslavrachev/gomjml/mjml/components"
	"github.com/preslavrachev/gomjml/mjml/globals"
	"github.com/preslavrachev/gomjml/mjml/options"
	"github.com/preslavrachev/gomjml/parser"
)

// runC09Merge: the merge of the listed mj-class definitions in NewBaseComponent (public API: a real store built from a head
// the real parser produced, a real BaseComponent, GetClassAttribute) against the Lean Model ClassMerge.merge (driver
// `classmerge`), whose result ClassMerge.merge_get / merge_css identify with the class level of the resolution Spec
func runC09Merge(res *Result, drv *DriverPool, tier string, seed int64) {
	n := 500
	if tier == "thorough" {
		n = 15000
	}
	names := []string{"a", "b", "c"}
	keys := []string{"color", "background-color", "font-size", "padding", "css-class", "align", "Border-COLOR"}
	vals := []string{"red", "#abc", "#ABC", "#aabbcc", "10px", "", "", "x y", "center", "#ab", " #abc"}
	lists := []string{"a", "b", "a b", "b a", "a b c", "c b a", "a zz b", " a  b ", "a a", "zz", "", " ", "b\ta", "a b a"}
	parallel(8, n, func(i int) {
		r := NewRng(seed, fmt.Sprintf("c09/merge/%d", i))
		var head strings.Builder
		head.WriteString("<mj-head><mj-attributes>")
		for e, ne := 0, r.Intn(6); e < ne; e++ {
			used := map[string]bool{}
			attrs := []string{`name="` + r.Pick(names) + `"`}
			for a, na := 0, r.Intn(5); a < na; a++ {
				k := r.Pick(keys)
				if used[k] {
					continue
				}
				used[k] = true
				attrs = append(attrs, k+`="`+r.Pick(vals)+`"`)
			}
			head.WriteString("<mj-class " + strings.Join(attrs, " ") + "/>")
		}
		head.WriteString("</mj-attributes></mj-head>")
		src := "<mjml>" + head.String() + "<mj-body><mj-section><mj-column><mj-text>t</mj-text></mj-column></mj-section></mj-body></mjml>"
		ast, err := mjml.ParseMJML(src)
		if err != nil {
			res.Count("merge=source-not-parsable")
			return
		}
		ga := globals.NewGlobalAttributes()
		ga.ProcessAttributesFromHead(ast.FindFirstChild("mj-head"))
		list := r.Pick(lists)
		node := &parser.MJMLNode{}
		node.XMLName.Local = "mj-text"
		node.Attrs = append(node.Attrs, xml.Attr{Name: xml.Name{Local: "mj-class"}, Value: list})
		bc := components.NewBaseComponent(node, &options.RenderOpts{GlobalAttributes: ga})
		req := "classmerge"
		defined := 0
		for _, c := range strings.Fields(list) {
			ca := ga.GetClassAttributes(c)
			if ca == nil {
				req += " !"
				continue
			}
			defined++
			var ks []string
			for k := range ca {
				ks = append(ks, k)
			}
			sort.Strings(ks)
			var enc []string
			for _, k := range ks {
				enc = append(enc, hexOrDash(k)+"="+hexOrDash(ca[k]))
			}
			req += fmt.Sprintf(" %d:%s", len(ks), strings.Join(enc, ","))
		}
		req += " ?"
		var want []string
		for _, k := range append(append([]string{}, keys...), "width") {
			req += " " + hexOf(k)
			want = append(want, hexOrDash(bc.GetClassAttribute(k)))
		}
		resp, derr := drv.Ask(req)
		res.Case("classmerge|"+src+"|"+list, defined >= 2)
		res.mu.Lock()
		res.Programs++
		res.DisagreementsChecked++
		res.mu.Unlock()
		got := strings.Fields(resp)
		if derr != nil || len(got) != len(want) {
			res.Disagree(Violation{Sig: "driver-failed|classmerge", What: fmt.Sprintf("%v: %d answers for %d queries (%s)", derr, len(got), len(want), short(resp, 80)), Input: map[string]string{"source": src, "request": req}})
			return
		}
		for j := range want {
			if got[j] != want[j] {
				res.Disagree(Violation{Sig: "class-merge-model-mismatch", Kind: "input", What: fmt.Sprintf("mj-class=%q, attribute %d: GetClassAttribute gives %s, the Model %s (hex)", list, j, want[j], got[j]), Input: map[string]string{"source": src, "mj-class": list, "request": req}})
				return
			}
		}
	})
}
