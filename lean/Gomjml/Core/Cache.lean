import Gomjml.Core.Util
namespace Gomjml.Cache
/-! Model of the AST cache (`mjml/render.go`: `parseAST`, `startASTCacheCleanup`, `StopASTCacheCleanup`,
    the two once-only setters) and its refinement to the stateless compiler.  C13 / C14 / the cleanup half of C15.

    Time is an integer clock; `hash`, `parse`, `rend` are parameters (`World`).  The store is a function
    `CKey → Option Entry` (a `sync.Map`).  Ghost fields (`stored`, `ttlAt`, `spawned`, `cancelled`) exist only to
    state invariants. -/

abbrev Doc := Nat
abbrev CKey := Nat
abbrev Ast := Nat
abbrev Html := Nat
abbrev Err := Nat
/-- the render options of one compilation (debug tags …): they steer the renderer, never the parser or the cache key -/
abbrev Opt := Nat

structure Entry where
  ast : Ast
  expires : Int
  stored : Int          -- ghost: when it was stored
  ttlAt : Int           -- ghost: the TTL in force when it was stored
deriving Repr, DecidableEq


/-- `minASTCacheCleanupInterval` (one second, in nanoseconds) -/
def minInterval : Int := 1000000000

structure CS where
  store : CKey → Option Entry
  now : Int
  ttl : Int
  interval : Int            -- astCacheCleanupInterval
  ttlDone : Bool            -- astCacheTTLOnce fired
  intDone : Bool            -- astCacheCleanupOnce fired
  cleaner : Bool            -- cleanupCancel != nil: a live (uncancelled) cleanup goroutine is registered
  spawned : Nat             -- ghost: cleanup goroutines started so far
  cancelled : Nat           -- ghost: cleanup goroutines cancelled so far
  parses : Nat              -- ghost: calls of the parser so far

/-- process start: empty cache, TTL 5 min, interval TTL/2, nothing configured, no cleaner -/
def init (ttl : Int := 300000000000) : CS :=
  { store := fun _ => none, now := 0, ttl := ttl, interval := ttl.tdiv 2, ttlDone := false, intDone := false,
    cleaner := false, spawned := 0, cancelled := 0, parses := 0 }

inductive Op
  | render (d : Doc) (cached : Bool) (o : Opt)
  | advance (δ : Nat)
  | tick                    -- one sweep of the cleanup goroutine (only a live cleaner sweeps)
  | stop                    -- StopASTCacheCleanup
  | setTTL (d : Int)        -- SetASTCacheTTLOnce
  | setInterval (d : Int)   -- SetASTCacheCleanupIntervalOnce
deriving Repr

/-- parameters: the parser, the (pure, AST-preserving: C16) renderer, the hash -/
structure World where
  parse : Doc → Except Err Ast
  rend : Ast → Opt → Html
  hash : Doc → CKey

def spec (w : World) (d : Doc) (o : Opt) : Except Err Html := (w.parse d).map (fun a => w.rend a o)

def miss (w : World) (s : CS) (d : Doc) (o : Opt) : CS × Except Err Html :=
  match w.parse d with
  | .ok a => ({ s with store := fun k => if k = w.hash d then some ⟨a, s.now + s.ttl, s.now, s.ttl⟩ else s.store k,
                       parses := s.parses + 1 }, .ok (w.rend a o))
  | .error e => ({ s with parses := s.parses + 1 }, .error e)

/-- `startASTCacheCleanup`: register a cleaner unless one is registered -/
def arm (s : CS) : CS := if s.cleaner then s else { s with cleaner := true, spawned := s.spawned + 1 }

/-- the duration handed to `time.NewTicker` by a cleaner that starts now -/
def tickerArg (s : CS) : Int := if s.interval ≤ 0 then minInterval else s.interval

def sweep (s : CS) : CS :=
  { s with store := fun k => match s.store k with
                             | some e => if s.now > e.expires then none else some e
                             | none => none }

def step (w : World) (s : CS) : Op → CS × Option (Except Err Html)
  | .render d false o => ({ s with parses := s.parses + 1 }, some (spec w d o))
  | .render d true o =>
    let s := arm s
    match s.store (w.hash d) with
    | some e =>
      if s.now < e.expires then (s, some (.ok (w.rend e.ast o)))                       -- hit: nothing changes
      else
        let s' := { s with store := fun k => if k = w.hash d then none else s.store k }  -- delete-on-expired
        let r := miss w s' d o
        (r.1, some r.2)
    | none => let r := miss w s d o; (r.1, some r.2)
  | .advance δ => ({ s with now := s.now + δ }, none)
  | .tick => (if s.cleaner then sweep s else s, none)
  | .stop => (if s.cleaner then { s with cleaner := false, cancelled := s.cancelled + 1 } else s, none)
  | .setTTL d =>
    (if s.ttlDone then s
     else { s with ttl := d, interval := if s.intDone then s.interval else d.tdiv 2, ttlDone := true }, none)
  | .setInterval d => (if s.intDone then s else { s with interval := d, intDone := true }, none)

structure CInv (w : World) (s : CS) : Prop where
  sound : ∀ k e, s.store k = some e → ∃ d, w.hash d = k ∧ w.parse d = .ok e.ast
  stamp : ∀ k e, s.store k = some e → e.expires = e.stored + e.ttlAt ∧ e.stored ≤ s.now
  life : s.spawned = s.cancelled + (if s.cleaner then 1 else 0)

theorem inv_init (w : World) (ttl : Int) : CInv w (init ttl) := by
  constructor <;> simp [init]

theorem arm_inv (w : World) (s : CS) (h : CInv w s) : CInv w (arm s) := by
  unfold arm
  split
  · exact h
  · rename_i hc
    constructor
    · exact h.sound
    · exact h.stamp
    · have := h.life; simp [hc] at this; simp [this]

@[simp] theorem arm_store (s : CS) : (arm s).store = s.store := by unfold arm; split <;> rfl
@[simp] theorem arm_now (s : CS) : (arm s).now = s.now := by unfold arm; split <;> rfl
@[simp] theorem arm_ttl (s : CS) : (arm s).ttl = s.ttl := by unfold arm; split <;> rfl
@[simp] theorem arm_cleaner (s : CS) : (arm s).cleaner = true := by unfold arm; split <;> simp_all

theorem miss_inv (w : World) (s : CS) (d : Doc) (o : Opt) (h : CInv w s) : CInv w (miss w s d o).1 := by
  unfold miss
  cases hp : w.parse d with
  | error e => exact ⟨h.sound, h.stamp, h.life⟩
  | ok a =>
    constructor
    · intro k e hk
      simp only at hk
      split at hk
      · rename_i hkd; simp at hk; subst hk; exact ⟨d, hkd.symm, hp⟩
      · exact h.sound k e hk
    · intro k e hk
      simp only at hk
      split at hk
      · simp at hk; subst hk; simp
      · exact h.stamp k e hk
    · exact h.life

theorem miss_out (w : World) (s : CS) (d : Doc) (o : Opt) : (miss w s d o).2 = spec w d o := by
  unfold miss spec
  cases w.parse d <;> rfl

theorem step_inv (w : World) (s : CS) (op : Op) (h : CInv w s) : CInv w (step w s op).1 := by
  cases op with
  | render d c o =>
    cases c
    · exact ⟨h.sound, h.stamp, h.life⟩
    · simp only [step]
      have ha := arm_inv w s h
      cases hs : (arm s).store (w.hash d) with
      | none => exact miss_inv w _ d o ha
      | some e =>
        simp only
        split
        · exact ha
        · apply miss_inv
          constructor
          · intro k e' hk; simp only at hk; split at hk
            · simp at hk
            · exact ha.sound k e' hk
          · intro k e' hk; simp only at hk; split at hk
            · simp at hk
            · exact ha.stamp k e' hk
          · exact ha.life
  | advance δ =>
    constructor
    · exact h.sound
    · intro k e hk
      have := h.stamp k e hk
      exact ⟨this.1, by simp only [step]; omega⟩
    · exact h.life
  | tick =>
    simp only [step]
    split
    · constructor
      · intro k e hk
        simp only [sweep] at hk
        cases hs : s.store k with
        | none => simp [hs] at hk
        | some e0 =>
          simp only [hs] at hk
          split at hk
          · simp at hk
          · simp at hk; subst hk; exact h.sound k e0 hs
      · intro k e hk
        simp only [sweep] at hk
        cases hs : s.store k with
        | none => simp [hs] at hk
        | some e0 =>
          simp only [hs] at hk
          split at hk
          · simp at hk
          · simp at hk; subst hk; exact h.stamp k e0 hs
      · exact h.life
    · exact h
  | stop =>
    simp only [step]
    split
    · rename_i hc
      constructor
      · exact h.sound
      · exact h.stamp
      · have := h.life; simp [hc] at this; simp; omega
    · exact h
  | setTTL d =>
    simp only [step]
    split
    · exact h
    · exact ⟨h.sound, h.stamp, h.life⟩
  | setInterval d =>
    simp only [step]
    split
    · exact h
    · exact ⟨h.sound, h.stamp, h.life⟩

/-- **C13**: with a collision-free hash, every compilation — cached or not, whatever happened before —
    returns what the stateless compiler returns. -/
theorem step_transparent (w : World) (hinj : ∀ d d', w.hash d = w.hash d' → d = d')
    (s : CS) (h : CInv w s) (d : Doc) (c : Bool) (o : Opt) :
    (step w s (.render d c o)).2 = some (spec w d o) := by
  cases c
  · simp [step]
  · simp only [step]
    have ha := arm_inv w s h
    cases hs : (arm s).store (w.hash d) with
    | none => simp [miss_out]
    | some e =>
      simp only
      split
      · obtain ⟨d', hk, hp⟩ := ha.sound _ e hs
        have := hinj d' d hk; subst this
        simp [spec, hp, Except.map]
      · simp [miss_out]

def runOps (w : World) (s : CS) : List Op → CS × List (Option (Except Err Html))
  | [] => (s, [])
  | op :: r => let (s1, o) := step w s op; let (s2, os) := runOps w s1 r; (s2, o :: os)

def expected (w : World) : List Op → List (Option (Except Err Html))
  | [] => []
  | .render d _ o :: r => some (spec w d o) :: expected w r
  | _ :: r => none :: expected w r

theorem step_nonrender_out (w : World) (s : CS) (op : Op) (h : ∀ d c o, op ≠ .render d c o) : (step w s op).2 = none := by
  cases op with
  | render d c o => exact absurd rfl (h d c o)
  | _ => rfl

theorem C13_transparent (w : World) (hinj : ∀ d d', w.hash d = w.hash d' → d = d') :
    ∀ (ops : List Op) (s : CS), CInv w s → (runOps w s ops).2 = expected w ops := by
  intro ops
  induction ops with
  | nil => intro s _; rfl
  | cons op r ih =>
    intro s h
    have hi := step_inv w s op h
    cases op with
    | render d c o =>
      simp only [runOps, expected]
      rw [step_transparent w hinj s h d c o, ih _ hi]
    | advance δ => simp only [runOps, expected]; rw [show (step w s (.advance δ)).2 = none from rfl, ih _ hi]
    | tick => simp only [runOps, expected]; rw [show (step w s .tick).2 = none from rfl, ih _ hi]
    | stop => simp only [runOps, expected]; rw [show (step w s .stop).2 = none from rfl, ih _ hi]
    | setTTL d => simp only [runOps, expected]; rw [show (step w s (.setTTL d)).2 = none from rfl, ih _ hi]
    | setInterval d => simp only [runOps, expected]; rw [show (step w s (.setInterval d)).2 = none from rfl, ih _ hi]

/-- every state reachable from process start satisfies the invariant -/
theorem inv_reachable (w : World) (ttl : Int) (ops : List Op) : CInv w (runOps w (init ttl) ops).1 := by
  suffices ∀ s, CInv w s → CInv w (runOps w s ops).1 from this _ (inv_init w ttl)
  induction ops with
  | nil => intro s h; exact h
  | cons op r ih => intro s h; simp only [runOps]; exact ih _ (step_inv w s op h)

/-- **C14**: reuse happens strictly before expiry; a hit changes nothing in the store (so it cannot extend
    the expiry); at or after expiry the entry is dropped and the document parsed again -/
theorem hit_no_change (w : World) (s : CS) (d : Doc) (o : Opt) (e : Entry) (hs : s.store (w.hash d) = some e)
    (hnow : s.now < e.expires) : (step w s (.render d true o)).1 = arm s := by
  simp [step, hs, hnow]

theorem expired_reparsed (w : World) (s : CS) (d : Doc) (o : Opt) (e : Entry) (hs : s.store (w.hash d) = some e)
    (hnow : e.expires ≤ s.now) (a : Ast) (hp : w.parse d = .ok a) :
    (step w s (.render d true o)).1.store (w.hash d) = some ⟨a, s.now + s.ttl, s.now, s.ttl⟩ := by
  have : ¬ s.now < e.expires := by omega
  simp [step, hs, this, miss, hp]

theorem failed_parse_not_cached (w : World) (s : CS) (d : Doc) (o : Opt) (er : Err) (hp : w.parse d = .error er)
    (hs : s.store (w.hash d) = none) : (step w s (.render d true o)).1.store (w.hash d) = none := by
  simp [step, hs, miss, hp]

/-- a hit does not call the parser; a miss (absent or expired) calls it exactly once -/
theorem hit_no_parse (w : World) (s : CS) (d : Doc) (o : Opt) (e : Entry) (hs : s.store (w.hash d) = some e)
    (hnow : s.now < e.expires) : (step w s (.render d true o)).1.parses = s.parses := by
  have harm : (arm s).parses = s.parses := by unfold arm; split <;> rfl
  simp only [step, arm_store, hs, arm_now, hnow, if_true, harm]
theorem miss_one_parse (w : World) (s : CS) (d : Doc) (o : Opt)
    (hs : s.store (w.hash d) = none ∨ ∃ e, s.store (w.hash d) = some e ∧ e.expires ≤ s.now) :
    (step w s (.render d true o)).1.parses = s.parses + 1 := by
  have harm : (arm s).parses = s.parses := by unfold arm; split <;> rfl
  rcases hs with hs | ⟨e, hs, he⟩
  · simp only [step, arm_store, hs, miss]; cases w.parse d <;> simp [harm]
  · have : ¬ s.now < e.expires := by omega
    simp only [step, arm_store, hs, arm_now, this, if_false, miss]; cases w.parse d <;> simp [harm]

/-- after a sweep by a live cleaner no entry is past its expiry -/
theorem after_tick (w : World) (s : CS) (hc : s.cleaner = true) (k : CKey) (e : Entry)
    (h : (step w s .tick).1.store k = some e) : e.expires ≥ s.now := by
  simp only [step, hc, if_true, sweep] at h
  cases hs : s.store k with
  | none => simp [hs] at h
  | some e0 =>
    simp only [hs] at h
    split at h
    · simp at h
    · simp at h; subst h; omega

/-- **configuration is total**: whatever durations are configured, the ticker is created with a positive one -/
theorem ticker_positive (s : CS) : 0 < tickerArg s := by
  unfold tickerArg minInterval; split <;> omega

/-- once-only setters: the first call takes effect, later calls are ignored -/
theorem setTTL_once (w : World) (s : CS) (d d' : Int) :
    (step w (step w s (.setTTL d)).1 (.setTTL d')).1 = (step w s (.setTTL d)).1 := by
  simp only [step]; split <;> simp_all
theorem setInterval_once (w : World) (s : CS) (d d' : Int) :
    (step w (step w s (.setInterval d)).1 (.setInterval d')).1 = (step w s (.setInterval d)).1 := by
  simp only [step]; split <;> simp_all
theorem setTTL_first (w : World) (s : CS) (d : Int) (h : s.ttlDone = false) : (step w s (.setTTL d)).1.ttl = d := by
  simp [step, h]
theorem setInterval_first (w : World) (s : CS) (d : Int) (h : s.intDone = false) :
    (step w s (.setInterval d)).1.interval = d := by
  simp [step, h]
/-- the documented order (TTL first, then the interval) keeps the explicit interval -/
theorem ttl_then_interval (w : World) (ttl d i : Int) :
    (step w (step w (init ttl) (.setTTL d)).1 (.setInterval i)).1.interval = i := by
  simp [step, init]
/-- … and by default the interval is half the TTL -/
theorem ttl_default_interval (w : World) (ttl d : Int) : (step w (init ttl) (.setTTL d)).1.interval = d.tdiv 2 := by
  simp [step, init]

/-- **cleanup lifecycle**: at most one live cleaner (the flag is a Boolean and `spawned − cancelled` equals it);
    stopping cancels it; the next cached compilation starts exactly one -/
theorem live_cleaners (w : World) (s : CS) (h : CInv w s) : s.spawned - s.cancelled ≤ 1 := by
  have := h.life; split at this <;> omega
theorem stop_then_none (w : World) (s : CS) : (step w s .stop).1.cleaner = false := by
  simp only [step]; split <;> simp_all
theorem use_after_stop_starts_one (w : World) (s : CS) (d : Doc) (o : Opt) :
    let s1 := (step w s .stop).1
    let s2 := (step w s1 (.render d true o)).1
    s2.cleaner = true ∧ s2.spawned = s1.spawned + 1 := by
  have h1 : (step w s .stop).1.cleaner = false := stop_then_none w s
  generalize (step w s .stop).1 = s1 at h1
  have harm : (arm s1).cleaner = true ∧ (arm s1).spawned = s1.spawned + 1 := by simp [arm, h1]
  simp only [step]
  cases hs : (arm s1).store (w.hash d) with
  | none => simp only [miss]; cases w.parse d <;> simpa using harm
  | some e =>
    simp only
    split
    · exact harm
    · simp only [miss]; cases w.parse d <;> simpa using harm

end Gomjml.Cache
